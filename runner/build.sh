#!/bin/bash
# Extract the Coq model to OCaml and build the runner.  Called by ./check after `make` in coq/.
set -e
cd "$(dirname "$0")"
mkdir -p gen
cd gen
rm -f *.ml *.mli *.cm* *.o
coqc -Q ../../coq/theories PC ../../coq/extract/Extract.v > extract.log 2>&1 || { cat extract.log; exit 1; }
rm -f *.mli
cd ..
ORDER=$(cd gen && ocamlfind ocamldep -sort *.ml)
GEN=""
for f in $ORDER; do GEN="$GEN gen/$f"; done
rm -f runner
ocamlfind ocamlopt -O3 -w -a -package zarith -linkpkg -I gen $GEN proto.ml driver.ml -o runner 2>&1 | grep -v "^$" || true
test -x runner
