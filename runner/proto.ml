(* Line protocol: cases in, observations out. *)
module List = Stdlib.List
type case = { id : string; kind : string; fields : (string, string list) Hashtbl.t }

let split_ws s = List.filter (fun x -> x <> "") (String.split_on_char ' ' (String.trim s))

let read_cases ic =
  let cases = ref [] and cur = ref None in
  (try
     while true do
       let line = String.trim (input_line ic) in
       if line <> "" && line.[0] <> '#' then
         match split_ws line with
         | "case" :: id :: kind :: _ -> cur := Some { id; kind; fields = Hashtbl.create 16 }
         | [ "end" ] -> (match !cur with Some c -> cases := c :: !cases; cur := None | None -> ())
         | key :: vals -> (match !cur with Some c -> Hashtbl.replace c.fields key vals | None -> ())
         | [] -> ()
     done
   with End_of_file -> ());
  List.rev !cases

exception Missing of string
let get c k = try Hashtbl.find c.fields k with Not_found -> raise (Missing (c.id ^ ":" ^ k))
let has c k = Hashtbl.mem c.fields k
let str1 c k = List.hd (get c k)
let int1 c k = int_of_string (str1 c k)
let indexed c prefix =
  let p = prefix ^ "." in
  let pl = String.length p in
  let l = Hashtbl.fold (fun k v acc ->
      if String.length k > pl && String.sub k 0 pl = p then
        match int_of_string_opt (String.sub k pl (String.length k - pl)) with
        | Some i -> (i, v) :: acc | None -> acc
      else acc) c.fields [] in
  List.sort (fun (a, _) (b, _) -> compare a b) l

(* numbers *)
let rec nat_of_int n = if n <= 0 then Datatypes.O else Datatypes.S (nat_of_int (n - 1))
let rec int_of_nat = function Datatypes.O -> 0 | Datatypes.S k -> 1 + int_of_nat k

let buf = Buffer.create 65536
let obs name ty toks = Buffer.add_string buf (Printf.sprintf "obs %s %s %s\n" name ty (String.concat " " toks))
let obs1 name ty tok = obs name ty [ tok ]
