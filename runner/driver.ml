(* Driver around the extracted model.  Trusted glue: parsing, printing, Obj.magic
   between the extracted abstract carrier (Obj.t) and zarith integers. *)
module List = Stdlib.List
open Proto

let modulus = ref (Z.of_string "52435875175126190479447740508185965837690552500527637822603658699938581184513")
let fo () : Field.coq_FieldOps = Zp.coq_ZpOps !modulus
let tof (z : Z.t) : Field.coq_F = Obj.magic z
let ofz (x : Field.coq_F) : Z.t = Obj.magic x
let f_of_str s =
  let z = Z.of_string s in
  tof (Z.erem z !modulus)
let f_to_str x = Z.to_string (ofz x)
let fs_of c k = List.map f_of_str (get c k)
let fs_to l = List.map f_to_str l

let err_name (e : Result.err) = match e with
  | Result.EDegreeIsZero -> "DegreeIsZero" | ETooManyCoefficients -> "TooManyCoefficients"
  | EHidingBoundIsZero -> "HidingBoundIsZero" | EHidingBoundTooLarge -> "HidingBoundToolarge"
  | EMissingRng -> "MissingRng" | EUnsupportedDegreeBound -> "UnsupportedDegreeBound"
  | EIncorrectDegreeBound -> "IncorrectDegreeBound" | ETrimmingDegreeTooLarge -> "TrimmingDegreeTooLarge"
  | EMissingPolynomial -> "MissingPolynomial" | EMissingEvaluation -> "MissingEvaluation"
  | EEquationHasDegreeBounds -> "EquationHasDegreeBounds" | EIncorrectInputLength -> "IncorrectInputLength"
  | EInvalidNumberOfVariables -> "InvalidNumberOfVariables" | EPolynomialDegreeTooLarge -> "PolynomialDegreeTooLarge"
  | EMismatchedLabels -> "MismatchedLabels" | EMismatchedNumVars -> "MismatchedNumVars"
  | EInvalidParameters -> "InvalidParameters" | EInvalidCommitment -> "InvalidCommitment"
  | EIncorrectQuerySet -> "IncorrectQuerySet" | EMalformedSRS -> "MalformedSRS"
  | ETranscript -> "Transcript" | EOther -> "MODEL_TAPE_EXHAUSTED"

let class_of (r : 'a Result.res) = match r with
  | Result.Ok _ -> "ok" | Result.Err e -> "err:" ^ err_name e | Result.Panic -> "panic"
let decision (r : bool Result.res) = match r with
  | Result.Ok true -> "accept" | Result.Ok false -> "reject" | _ -> "refused"
let to_opt = function Result.Ok a -> Some a | _ -> None

let opt_nat s = if s = "none" then None else Some (nat_of_int (int_of_string s))

(* ---------------- KZG10 ---------------- *)
let run_kzg10 c =
  let fo = fo () in
  let d = int1 c "D" and s = int1 c "s" and g2 = int1 c "g2" = 1 in
  let beta = f_of_str (str1 c "beta") and g = f_of_str (str1 c "g")
  and gamma = f_of_str (str1 c "gamma") and h = f_of_str (str1 c "h") in
  match KZG10.setup fo (nat_of_int d) g2 beta g gamma h with
  | Result.Ok up ->
    let pw = KZG10.powers_of fo up (nat_of_int s) and vk = KZG10.vk_of fo up in
    let n = int1 c "n" in
    let comms = Array.make n None and proofs = Array.make n None
    and points = Array.make n (tof Z.zero) and values = Array.make n (tof Z.zero) in
    for i = 0 to n - 1 do
      let k x = Printf.sprintf "%s.%d" x i in
      let p = fs_of c (k "poly") in
      let hb = opt_nat (str1 c (k "hb")) in
      let rng = if str1 c (k "rng") = "some" then Some (fs_of c (k "tape")) else None in
      let z = f_of_str (str1 c (k "z")) in
      let res = KZG10.commit fo pw p hb rng in
      obs1 (k "commit") "S" (class_of res);
      (match res with
       | Result.Ok ((cm, rd), draws) ->
         obs1 (k "draws") "N" (string_of_int (int_of_nat draws));
         obs1 (k "c") "G1" (f_to_str cm);
         obs (k "rand") "F" (fs_to rd);
         comms.(i) <- Some (cm, rd)
       | _ -> ());   (* draws of a refused commit are not part of any property *)
      let v = Poly.eval fo p z in
      obs1 (k "v") "F" (f_to_str v);
      points.(i) <- z; values.(i) <- v;
      (match comms.(i) with
       | Some (cm, rd) ->
         let r = KZG10.coq_open fo pw p z rd in
         obs1 (k "open") "S" (class_of r);
         (match r with
          | Result.Ok pf ->
            obs1 (k "w") "G1" (f_to_str pf.KZG10.pf_w);
            obs1 (k "rv") "F" (match pf.KZG10.pf_random_v with Some x -> f_to_str x | None -> "none");
            proofs.(i) <- Some pf;
            obs1 (k "check") "S" (decision (KZG10.check fo vk cm z v pf))
          | _ -> ())
       | None -> ())
    done;
    List.iter (fun (j, m) ->
        let name = Printf.sprintf "mut.%d" j in
        let i = int_of_string (List.nth m 0) in
        match comms.(i), proofs.(i) with
        | Some (cm0, _), Some pf0 ->
          let arg k = f_of_str (List.nth m k) in
          let cm = ref cm0 and pf = ref pf0 and z = ref points.(i) and v = ref values.(i) and vk2 = ref vk in
          let skipped = ref false in
          (match List.nth m 1 with
           | "value" -> v := fo.Field.fadd !v (arg 2)
           | "point" -> z := arg 2
           | "comm_exp" -> cm := arg 2
           | "comm_of" -> (match comms.(int_of_string (List.nth m 2)) with Some (x, _) -> cm := x | None -> skipped := true)
           | "w_exp" -> pf := { !pf with KZG10.pf_w = arg 2 }
           | "w_add" -> pf := { !pf with KZG10.pf_w = fo.Field.fadd !pf.KZG10.pf_w (arg 2) }
           | "proof_of" -> (match proofs.(int_of_string (List.nth m 2)) with Some x -> pf := x | None -> skipped := true)
           | "rv" -> pf := { !pf with KZG10.pf_random_v = (if List.nth m 2 = "none" then None else Some (arg 2)) }
           | "vk_g" -> vk2 := { !vk2 with KZG10.vk_g = arg 2 }
           | "vk_gamma" -> vk2 := { !vk2 with KZG10.vk_gamma_g = arg 2 }
           | "vk_h" -> vk2 := { !vk2 with KZG10.vk_h = arg 2 }
           | "vk_beta_h" -> vk2 := { !vk2 with KZG10.vk_beta_h = arg 2 }
           | other -> failwith ("unknown mutation " ^ other));
          if !skipped then obs1 name "S" "skipped"
          else obs1 name "S" (decision (KZG10.check fo !vk2 !cm !z !v !pf))
        | _ -> obs1 name "S" "skipped")
      (indexed c "mut");
    List.iter (fun (j, b) ->
        let name = Printf.sprintf "batch.%d" j in
        let nitems = int_of_string (List.nth b 1) in
        let ok = ref true in
        let cs = ref [] and zs = ref [] and vs = ref [] in
        for t = 0 to nitems - 1 do
          let i = int_of_string (List.nth b (2 + 2 * t)) in
          let delta = f_of_str (List.nth b (3 + 2 * t)) in
          (match comms.(i) with Some (x, _) -> cs := x :: !cs | None -> ok := false);
          zs := points.(i) :: !zs;
          vs := fo.Field.fadd values.(i) delta :: !vs
        done;
        let rec drop n l = if n = 0 then l else drop (n - 1) (List.tl l) in
        let pidx = List.map int_of_string (drop (2 + 2 * nitems + 1) b) in
        let pfs = List.map (fun k -> match proofs.(k) with Some x -> [ x ] | None -> ok := false; []) pidx |> List.concat in
        if not !ok then obs1 name "S" "skipped"
        else begin
          let tape = fs_of c (Printf.sprintf "btape.%d" j) in
          match KZG10.batch_check fo vk (List.rev !cs) (List.rev !zs) (List.rev !vs) pfs tape with
          | Result.Ok (b, draws) ->
            obs1 name "S" (if b then "accept" else "reject");
            obs1 (Printf.sprintf "bdraws.%d" j) "N" (string_of_int (int_of_nat draws))
          | Result.Err Result.EOther -> obs1 name "S" "MODEL_TAPE_EXHAUSTED"
          | r -> obs1 name "S" "refused"
        end)
      (indexed c "batch")
  | r -> obs1 "setup" "S" (class_of r)

(* ---------------- C16: LC operators, evaluate_query_set, succinct check polynomial ---------------- *)
let n_of_str s : Big_int_Z.big_int = Z.of_string s
let parse_terms fo toks =
  let rec go = function
    | co :: t :: rest ->
      let term = if t = "one" then LC.TOne else LC.TPoly (n_of_str t) in
      (f_of_str co, term) :: go rest
    | _ -> [] in
  go toks
let dash l = if l = [] then [ "-" ] else l
let run_c16 c =
  let fo = fo () in
  match str1 c "sub" with
  | "lcop" ->
    let lc0 = parse_terms fo (get c "lc0") in
    let ops = List.map (fun (_, op) ->
        match op with
        | "addscaled" :: k :: r -> LC.OpAddScaled (f_of_str k, parse_terms fo r)
        | "subscaled" :: k :: r -> LC.OpSubScaled (f_of_str k, parse_terms fo r)
        | "add" :: r -> LC.OpAdd (parse_terms fo r)
        | "sub" :: r -> LC.OpSub (parse_terms fo r)
        | [ "addc"; k ] -> LC.OpAddConst (f_of_str k)
        | [ "subc"; k ] -> LC.OpSubConst (f_of_str k)
        | [ "mul"; k ] -> LC.OpMul (f_of_str k)
        | _ -> failwith "bad lc op") (indexed c "op") in
    let lc = List.fold_left (fun l op -> LC.apply_op fo l op) lc0 ops in
    let rec pairs = function a :: b :: r -> (Z.of_string a, f_of_str b) :: pairs r | _ -> [] in
    let evl = pairs (get c "ev") in
    let ev (l : Big_int_Z.big_int) = try List.assoc l evl with Not_found -> tof Z.zero in
    obs "terms" "F" (dash (List.map (fun (co, _) -> f_to_str co) lc));
    obs "tlabels" "S" (dash (List.map (fun (_, t) -> match t with LC.TOne -> "one" | LC.TPoly l -> Z.to_string l) lc));
    obs1 "value" "F" (f_to_str (LC.lc_value fo ev lc));
    (* the same sequence on values (theorem C16_lc_operator_sequences) *)
    obs1 "value_by_ops" "F" (f_to_str (List.fold_left (fun v op -> LC.apply_op_value fo ev v op) (LC.lc_value fo ev lc0) ops))
  | "eqs" ->
    let polys = List.map (fun (_, p) -> (n_of_str (List.hd p), List.map f_of_str (List.tl p))) (indexed c "poly") in
    let pm = LC.poly_map fo polys in
    let rec triples = function a :: b :: z :: r -> (n_of_str a, (n_of_str b, f_of_str z)) :: triples r | _ -> [] in
    (* QuerySet is a BTreeSet: iteration in (label, (point label, point)) order; the result map is order-independent *)
    let qs = triples (get c "qs") in
    let r = LC.evaluate_query_set fo pm qs [] in
    obs1 "eqs" "S" (class_of r);
    (match r with
     | Result.Ok m ->
       obs "eq_keys" "S" (dash (List.map (fun ((l, z), _) -> Z.to_string l ^ ":" ^ f_to_str z) m));
       obs "eq_vals" "F" (dash (List.map (fun (_, v) -> f_to_str v) m));
       obs1 "eq_spec" "S" "holds"
     | _ -> ())
  | "scp" ->
    let chs = fs_of c "chs" and z = f_of_str (str1 c "z") in
    let coeffs = LC.compute_coeffs fo chs in
    obs1 "ncoeffs" "N" (string_of_int (List.length coeffs));
    obs "coeffs" "F" (fs_to coeffs);
    obs1 "evalz" "F" (f_to_str (LC.sc_evaluate fo chs z));
    obs1 "horner" "F" (f_to_str (Poly.eval fo coeffs z))
  | s -> failwith ("unknown c16 sub " ^ s)

(* ---------------- generic pc flow, scheme = marlin ---------------- *)
let opt_nat_tok s = if s = "none" then None else Some (nat_of_int (int_of_string s))
let f_opt_to_str = function Some x -> f_to_str x | None -> "none"
let has_some = function Some _ -> true | None -> false
let rec take n l = if n <= 0 then [] else match l with [] -> [] | x :: t -> x :: take (n - 1) t
let rec triples3 = function a :: b :: c :: r -> (int_of_string a, int_of_string b, int_of_string c) :: triples3 r | _ -> []
let nlabel i : Big_int_Z.big_int = Z.of_int i

(* lcs.<s>.<k> = label nterms (coeff term)*  with term = "one" | polynomial index *)
let parse_lcs c s lps =
  List.map (fun (_, v) ->
      let lab = nlabel (int_of_string (List.nth v 0)) in
      let rec go = function
        | co :: tm :: r ->
          let term = if tm = "one" then LC.TOne else LC.TPoly lps.(int_of_string tm).Marlin.lp_label in
          (f_of_str co, term) :: go r
        | _ -> [] in
      (lab, go (List.tl (List.tl v)))) (indexed c ("lcs." ^ s))

let run_pc_marlin c =
  let fo = fo () in
  let d = int1 c "max_degree" in
  let beta = f_of_str (str1 c "beta") and g = f_of_str (str1 c "g")
  and gamma = f_of_str (str1 c "gamma") and h = f_of_str (str1 c "h") in
  let su = KZG10.setup fo (nat_of_int d) false beta g gamma h in
  obs1 "setup" "S" (class_of su);
  match su with
  | Result.Ok up ->
    let sd = int1 c "supported_degree" and sh = int1 c "supported_hiding" in
    let bounds = match str1 c "bounds" with
      | "none" -> None | "empty" -> Some []
      | _ -> Some (List.map (fun x -> nat_of_int (int_of_string x)) (get c "bounds")) in
    let tr = Marlin.mtrim fo up (nat_of_int sd) (nat_of_int sh) bounds in
    obs1 "trim" "S" (class_of tr);
    (match tr with
     | Result.Ok (ck, vk) ->
       obs "key_degrees" "N" [ string_of_int (int_of_nat (Marlin.ck_supported fo ck)); string_of_int (int_of_nat ck.Marlin.ck_max_degree);
                               string_of_int (int_of_nat vk.Marlin.mvk_supported); string_of_int (int_of_nat vk.Marlin.mvk_max) ];
       obs "key.powers" "G1" (fs_to ck.Marlin.ck_powers);
       obs "key.gamma" "G1" (fs_to ck.Marlin.ck_gamma);
       (match ck.Marlin.ck_shifted_powers with Some sp -> obs "key.shifted" "G1" (fs_to sp) | None -> ());
       obs "key.bounds" "N" (match ck.Marlin.ck_bounds with
           | None -> [ "none" ] | Some l -> dash (List.map (fun x -> string_of_int (int_of_nat x)) l));
       (match vk.Marlin.mvk_shifts with
        | Some l -> obs "key.shift_bounds" "N" (dash (List.map (fun (b, _) -> string_of_int (int_of_nat b)) l));
          obs "key.shift_powers" "G1" (List.map (fun (_, p) -> f_to_str p) l)
        | None -> ());
       obs "key.vk1" "G1" [ f_to_str vk.Marlin.mvk_vk.KZG10.vk_g; f_to_str vk.Marlin.mvk_vk.KZG10.vk_gamma_g ];
       obs "key.vk2" "G2" [ f_to_str vk.Marlin.mvk_vk.KZG10.vk_h; f_to_str vk.Marlin.mvk_vk.KZG10.vk_beta_h ];
       let n = int1 c "n" in
       let lps = Array.init n (fun i ->
           let k x = Printf.sprintf "%s.%d" x i in
           { Marlin.lp_label = nlabel (int1 c (k "label")); lp_poly = fs_of c (k "poly");
             lp_bound = opt_nat_tok (str1 c (k "bound")); lp_hiding = opt_nat_tok (str1 c (k "hiding")) }) in
       let rng = if str1 c "commit_rng" = "some" then Some (fs_of c "ctape") else None in
       let cm = Marlin.commit_all fo ck (Array.to_list lps) rng in
       obs1 "commit" "S" (class_of cm);
       (match cm with
        | Result.Ok (cs, draws) ->
          obs1 "commit_draws" "N" (string_of_int (int_of_nat draws));
          let cs = Array.of_list cs in
          Array.iteri (fun i (mc, mr) ->
              obs (Printf.sprintf "c.%d" i) "G1"
                (f_to_str mc.Marlin.mc_comm :: (match mc.Marlin.mc_shifted with Some s -> [ f_to_str s ] | None -> []));
              obs (Printf.sprintf "rand.%d" i) "F" (dash (fs_to mr.Marlin.mr_rand));
              (match mr.Marlin.mr_shifted with
               | Some sr -> obs (Printf.sprintf "srand.%d" i) "F" (dash (fs_to sr)) | None -> ())) cs;
          let lcomm i = { Marlin.lc_label = lps.(i).Marlin.lp_label; lc_comm = fst cs.(i); lc_bound = lps.(i).Marlin.lp_bound } in
          let npts = int1 c "npts" in
          let pts = Array.init npts (fun j -> f_of_str (str1 c (Printf.sprintf "pt.%d" j))) in
          let nops = int1 c "nops" in
          (* per operation record for the mutated runs *)
          let recs = Array.make nops None in
          for t = 0 to nops - 1 do
            let k x = Printf.sprintf "%s.%d" x t in
            let op = get c (k "op") in
            let chal = fs_of c (k "chal") and vchal = fs_of c (k "vchal") in
            let ident = List.init n (fun i -> i) in
            let pperm = if has c (k "pperm") then List.map int_of_string (get c (k "pperm")) else ident in
            let vperm = if has c (k "vperm") then List.map int_of_string (get c (k "vperm")) else ident in
            match op with
            | "single" :: pj :: sel ->
              let pj = int_of_string pj and sel = List.map int_of_string sel in
              let z = pts.(pj) in
              let values = List.map (fun i -> Poly.eval fo lps.(i).Marlin.lp_poly z) sel in
              obs (k "evals") "F" (fs_to values);
              let items = List.map (fun i -> (lps.(i), snd cs.(i))) sel in
              let r = Marlin.mopen fo ck items z chal in
              obs1 (k "open") "S" (class_of r);
              (match r with
               | Result.Ok (pf, rest) ->
                 obs1 (k "nchal") "N" (string_of_int (List.length chal - List.length rest));
                 obs1 (Printf.sprintf "pf.%d.w" t) "G1" (f_to_str pf.KZG10.pf_w);
                 obs1 (Printf.sprintf "pf.%d.rv" t) "F" (f_opt_to_str pf.KZG10.pf_random_v);
                 let d = Marlin.mcheck fo vk (List.map lcomm sel) z values pf vchal in
                 (match d with
                  | Result.Ok (b, vrest) ->
                    obs1 (k "check") "S" (if b then "accept" else "reject");
                    obs1 (k "nvchal") "N" (string_of_int (List.length vchal - List.length vrest))
                  | r -> obs1 (k "check") "S" "refused");
                 recs.(t) <- Some (`Single (pj, sel, values, pf))
               | _ -> ())
            | [ "batch"; s ] ->
              let tr3 = triples3 (get c ("qs." ^ s)) in
              let qs = List.map (fun (i, zl, pj) -> (lps.(i).Marlin.lp_label, (nlabel zl, pts.(pj)))) tr3 in
              let ev = List.map (fun (i, _, pj) -> ((lps.(i).Marlin.lp_label, pts.(pj)), Poly.eval fo lps.(i).Marlin.lp_poly pts.(pj))) tr3 in
              let evm = Marlin.evals_map fo ev in
              obs (k "evals") "F" (fs_to (List.map snd evm));
              let items = List.map (fun i -> (lps.(i), snd cs.(i))) pperm in
              let r = Marlin.mbatch_open fo ck items qs chal in
              obs1 (k "open") "S" (class_of r);
              (match r with
               | Result.Ok (pfs, rest) ->
                 obs1 (k "nchal") "N" (string_of_int (List.length chal - List.length rest));
                 obs1 (k "nproofs") "N" (string_of_int (List.length pfs));
                 List.iteri (fun j pf ->
                     obs1 (Printf.sprintf "pf.%d.%d.w" t j) "G1" (f_to_str pf.KZG10.pf_w);
                     obs1 (Printf.sprintf "pf.%d.%d.rv" t j) "F" (f_opt_to_str pf.KZG10.pf_random_v)) pfs;
                 let vtape = fs_of c (k "vtape") in
                 let d = Marlin.mbatch_check fo vk (List.map lcomm vperm) qs ev pfs vchal vtape in
                 (match d with
                  | Result.Ok ((b, vrest), draws) ->
                    obs1 (k "check") "S" (if b then "accept" else "reject");
                    obs1 (k "nvchal") "N" (string_of_int (List.length vchal - List.length vrest));
                    obs1 (k "check_draws") "N" (string_of_int (int_of_nat draws))
                  | r -> obs1 (k "check") "S" "refused");
                 recs.(t) <- Some (`Batch (tr3, pfs, vperm))
               | _ -> ())
            | [ "lc"; s; ls ] ->
              let lcs = parse_lcs c s lps in
              let tr3 = triples3 (get c ("lqs." ^ ls)) in
              let lcarr = Array.of_list lcs in
              let lc_value (_, terms) z = List.fold_left (fun acc (co, tm) ->
                  fo.Field.fadd acc (match tm with
                      | LC.TOne -> co
                      | LC.TPoly l ->
                        let lp = List.find (fun lp -> Z.equal lp.Marlin.lp_label l) (Array.to_list lps) in
                        fo.Field.fmul co (Poly.eval fo lp.Marlin.lp_poly z))) (tof Z.zero) terms in
              let qs = List.map (fun (k, zl, pj) -> (fst lcarr.(k), (nlabel zl, pts.(pj)))) tr3 in
              let ev = List.map (fun (k, _, pj) -> ((fst lcarr.(k), pts.(pj)), lc_value lcarr.(k) pts.(pj))) tr3 in
              let evm = Marlin.evals_map fo ev in
              obs (k "evals") "F" (fs_to (List.map snd evm));
              let items = List.map (fun i -> ((lps.(i), snd cs.(i)), lcomm i)) pperm in
              let r = MarlinLC.mopen_combinations fo ck lcs items qs chal in
              obs1 (k "open") "S" (class_of r);
              (match r with
               | Result.Ok (pfs, rest) ->
                 obs1 (k "nchal") "N" (string_of_int (List.length chal - List.length rest));
                 obs1 (k "nproofs") "N" (string_of_int (List.length pfs));
                 obs1 (k "lc_evals") "F" "none";
                 List.iteri (fun j pf ->
                     obs1 (Printf.sprintf "pf.%d.%d.w" t j) "G1" (f_to_str pf.KZG10.pf_w);
                     obs1 (Printf.sprintf "pf.%d.%d.rv" t j) "F" (f_opt_to_str pf.KZG10.pf_random_v)) pfs;
                 let vtape = fs_of c (k "vtape") in
                 let d = MarlinLC.mcheck_combinations fo vk lcs (List.map lcomm vperm) qs ev pfs vchal vtape in
                 (match d with
                  | Result.Ok ((b, vrest), draws) ->
                    obs1 (k "check") "S" (if b then "accept" else "reject");
                    obs1 (k "nvchal") "N" (string_of_int (List.length vchal - List.length vrest));
                    obs1 (k "check_draws") "N" (string_of_int (int_of_nat draws))
                  | r -> obs1 (k "check") "S" "refused");
                 recs.(t) <- Some (`LC (lcs, tr3, pfs, vperm))
               | _ -> ())
            | _ -> ()
          done;
          (* ---- mutated verifier runs ---- *)
          List.iter (fun (m, mv) ->
              let name = Printf.sprintf "mut.%d" m in
              let t = int_of_string (List.nth mv 0) and kind = List.nth mv 1 in
              let args = List.tl (List.tl mv) in
              let arg i = List.nth args i in
              if t < nops && has c (Printf.sprintf "mchal.%d" m) then begin
                let mchal = fs_of c (Printf.sprintf "mchal.%d" m) in
                let cms = Array.init n lcomm in
                let swap i j = cms.(i) <- { (cms.(i)) with Marlin.lc_comm = fst cs.(j) } in
                let comm_mut i kind args =
                  let cm = cms.(i) in
                  let mc = cm.Marlin.lc_comm in
                  match kind with
                  | "drop_shifted" when has_some mc.Marlin.mc_shifted ->
                    cms.(i) <- { cm with Marlin.lc_comm = { mc with Marlin.mc_shifted = None }; lc_bound = None }; true
                  | "drop_shifted_keep_bound" when has_some mc.Marlin.mc_shifted ->
                    cms.(i) <- { cm with Marlin.lc_comm = { mc with Marlin.mc_shifted = None } }; true
                  | "relabel_bound" when has_some cm.Marlin.lc_bound ->
                    cms.(i) <- { cm with Marlin.lc_bound = Some (nat_of_int (int_of_string (List.hd args))) }; true
                  | "add_bound" when not (has_some cm.Marlin.lc_bound) ->
                    cms.(i) <- { cm with Marlin.lc_bound = Some (nat_of_int (int_of_string (List.hd args))) }; true
                  | "swap_parts" -> (match mc.Marlin.mc_shifted with
                      | Some s -> cms.(i) <- { cm with Marlin.lc_comm = { Marlin.mc_comm = s; mc_shifted = Some mc.Marlin.mc_comm } }; true
                      | None -> false)
                  | _ -> false in
                let proof_mut pf kind args = match kind with
                  | "w_add" -> Some { pf with KZG10.pf_w = fo.Field.fadd pf.KZG10.pf_w (f_of_str (List.hd args)) }
                  | "rv" -> Some { pf with KZG10.pf_random_v = (if List.hd args = "none" then None else Some (f_of_str (List.hd args))) }
                  | _ -> None in
                match recs.(t) with
                | Some (`Single (pj, sel, values, pf)) ->
                  let pj = ref pj and sel = ref sel and values = ref values and pf = ref pf and ok = ref true in
                  (match kind with
                   | "value" -> let k = int_of_string (arg 0) in
                     if k < List.length !values then values := List.mapi (fun i v -> if i = k then fo.Field.fadd v (f_of_str (arg 1)) else v) !values else ok := false
                   | "point" -> pj := int_of_string (arg 0)
                   | "comm_swap" -> swap (int_of_string (arg 0)) (int_of_string (arg 1))
                   | "proof_from" -> (match (try recs.(int_of_string (arg 0)) with _ -> None) with
                       | Some (`Single (_, _, _, p2)) -> pf := p2 | _ -> ok := false)
                   | "sponge_pre" -> ()
                   | "drop_poly" -> let k = int_of_string (arg 0) in
                     if k < List.length !sel then begin
                       sel := List.filteri (fun i _ -> i <> k) !sel; values := List.filteri (fun i _ -> i <> k) !values end else ok := false
                   | "comm_mut" -> ok := comm_mut (int_of_string (arg 0)) (arg 1) (List.tl (List.tl args))
                   | "proof_mut" -> (match proof_mut !pf (arg 0) (List.tl args) with Some p -> pf := p | None -> ok := false)
                   | _ -> ok := false);
                  if !ok then
                    obs1 name "S" (decision (match Marlin.mcheck fo vk (List.map (fun i -> cms.(i)) !sel) pts.(!pj) !values !pf mchal with
                        | Result.Ok (b, _) -> Result.Ok b | Result.Err e -> Result.Err e | Result.Panic -> Result.Panic))
                | Some (`Batch (tr3, pfs, vperm)) ->
                  let pv = ref pfs and tr3 = ref tr3 and vperm = ref vperm and ok = ref true in
                  let deltas = ref [] and newpt = ref None in
                  let nth_opt l i = try Some (List.nth l i) with _ -> None in
                  (match kind with
                   | "value" -> deltas := [ (int_of_string (arg 0), f_of_str (arg 1)) ]
                   | "cancel" -> let dd = f_of_str (arg 2) in
                     deltas := [ (int_of_string (arg 0), dd); (int_of_string (arg 1), fo.Field.fopp dd) ]
                   | "point" -> newpt := Some (int_of_string (arg 0), int_of_string (arg 1))
                   | "comm_swap" -> swap (int_of_string (arg 0)) (int_of_string (arg 1))
                   | "comm_mut" -> ok := comm_mut (int_of_string (arg 0)) (arg 1) (List.tl (List.tl args))
                   | "proof_mut" -> let k = int_of_string (arg 0) in
                     (match nth_opt !pv k with
                      | Some p -> (match proof_mut p (arg 1) (List.tl (List.tl args)) with
                          | Some p2 -> pv := List.mapi (fun i x -> if i = k then p2 else x) !pv | None -> ok := false)
                      | None -> ok := false)
                   | "proofs" ->
                     let len = List.length !pv in
                     (match arg 0 with
                      | "perm" -> let a = int_of_string (arg 1) and b = int_of_string (arg 2) in
                        if a < len && b < len then begin
                          let pa = List.nth !pv a and pb = List.nth !pv b in
                          pv := List.mapi (fun i x -> if i = a then pb else if i = b then pa else x) !pv end else ok := false
                      | "trunc" -> let k = int_of_string (arg 1) in if k < len then pv := take k !pv else ok := false
                      | "dup" -> let a = int_of_string (arg 1) and b = int_of_string (arg 2) in
                        if a < len && b < len then begin
                          let pa = List.nth !pv a in pv := List.mapi (fun i x -> if i = b then pa else x) !pv end else ok := false
                      | "empty" -> pv := []
                      | "extend" -> if len > 0 then pv := !pv @ [ List.nth !pv (len - 1) ] else ok := false
                      | _ -> ok := false)
                   | "proof_from" -> (match (try recs.(int_of_string (arg 0)) with _ -> None) with
                       | Some (`Batch (_, p2, _)) -> pv := p2 | _ -> ok := false)
                   | "sponge_pre" -> ()
                   | "vperm" -> vperm := List.map int_of_string args
                   | "drop_eval" -> ()
                   | "drop_comm" -> let i = int_of_string (arg 0) in vperm := List.filter (fun x -> x <> i) !vperm
                   | "drop_query" -> let k = int_of_string (arg 0) in
                     if k < List.length !tr3 then tr3 := List.filteri (fun i _ -> i <> k) !tr3 else ok := false
                   | _ -> ok := false);
                  if !ok then begin
                    let usept pj = match !newpt with Some (o, nw) when o = pj -> nw | _ -> pj in
                    let qs = List.map (fun (i, zl, pj) -> (lps.(i).Marlin.lp_label, (nlabel zl, pts.(usept pj)))) !tr3 in
                    let ev = List.map (fun (i, _, pj) -> ((lps.(i).Marlin.lp_label, pts.(usept pj)), Poly.eval fo lps.(i).Marlin.lp_poly pts.(pj))) !tr3 in
                    let evm = Marlin.evals_map fo ev in
                    let nk = List.length evm in
                    if List.exists (fun (k, _) -> k >= nk) !deltas then ()
                    else begin
                      let evm = List.mapi (fun i (key, v) ->
                          List.fold_left (fun v (k, dd) -> if k = i then fo.Field.fadd v dd else v) v !deltas |> fun v -> (key, v)) evm in
                      let evm = if kind = "drop_eval" then List.filteri (fun i _ -> i <> int_of_string (arg 0)) evm else evm in
                      let vtape = fs_of c (Printf.sprintf "vtape.%d" t) in
                      obs1 name "S" (decision (match Marlin.mbatch_check fo vk (List.map (fun i -> cms.(i)) !vperm) qs evm !pv mchal vtape with
                          | Result.Ok ((b, _), _) -> Result.Ok b | Result.Err e -> Result.Err e | Result.Panic -> Result.Panic))
                    end
                  end
                | Some (`LC (lcs0, tr3, pfs, vperm)) ->
                  let lcs = ref lcs0 and ok = ref true and deltas = ref [] in
                  let lcarr0 = Array.of_list lcs0 in
                  let upd k f = lcs := List.mapi (fun i (lab, terms) -> if i = k then (lab, f terms) else (lab, terms)) !lcs in
                  (match kind with
                   | "value" -> deltas := [ (int_of_string (arg 0), f_of_str (arg 1)) ]
                   | "coeff" -> let k = int_of_string (arg 0) and tk = int_of_string (arg 1) in
                     if k < List.length !lcs && tk < List.length (snd (List.nth !lcs k)) then
                       upd k (List.mapi (fun i (co, tm) -> if i = tk then (fo.Field.fadd co (f_of_str (arg 2)), tm) else (co, tm)))
                     else ok := false
                   | "const" -> let k = int_of_string (arg 0) in
                     if k < List.length !lcs then upd k (fun terms -> terms @ [ (f_of_str (arg 1), LC.TOne) ]) else ok := false
                   | "comm_swap" -> swap (int_of_string (arg 0)) (int_of_string (arg 1))
                   | "sponge_pre" -> ()
                   | _ -> ok := false);
                  if !ok then begin
                    let lc_value (_, terms) z = List.fold_left (fun acc (co, tm) ->
                        fo.Field.fadd acc (match tm with
                            | LC.TOne -> co
                            | LC.TPoly l ->
                              let lp = List.find (fun lp -> Z.equal lp.Marlin.lp_label l) (Array.to_list lps) in
                              fo.Field.fmul co (Poly.eval fo lp.Marlin.lp_poly z))) (tof Z.zero) terms in
                    let qs = List.map (fun (k, zl, pj) -> (fst lcarr0.(k), (nlabel zl, pts.(pj)))) tr3 in
                    let ev = List.map (fun (k, _, pj) -> ((fst lcarr0.(k), pts.(pj)), lc_value lcarr0.(k) pts.(pj))) tr3 in
                    let evm = Marlin.evals_map fo ev in
                    let nk = List.length evm in
                    if List.exists (fun (k, _) -> k >= nk) !deltas then ()
                    else begin
                      let evm = List.mapi (fun i (key, v) ->
                          (key, List.fold_left (fun v (k, dd) -> if k = i then fo.Field.fadd v dd else v) v !deltas)) evm in
                      let vtape = fs_of c (Printf.sprintf "vtape.%d" t) in
                      obs1 name "S" (decision (match MarlinLC.mcheck_combinations fo vk !lcs (List.map (fun i -> cms.(i)) vperm) qs evm pfs mchal vtape with
                          | Result.Ok ((b, _), _) -> Result.Ok b | Result.Err e -> Result.Err e | Result.Panic -> Result.Panic))
                    end
                  end
                | None -> ()
              end)
            (indexed c "mut")
        | _ -> ())
     | _ -> ())
  | _ -> ()

(* C08 on the Marlin model: commitments of the five polynomials under the known-trapdoor SRS *)
let run_c08 c =
  if str1 c "scheme" = "marlin" && has c "beta" then begin
    let fo = fo () in
    let d = int1 c "max_degree" in
    let beta = f_of_str (str1 c "beta") and g = f_of_str (str1 c "g")
    and gamma = f_of_str (str1 c "gamma") and h = f_of_str (str1 c "h") in
    match KZG10.setup fo (nat_of_int d) false beta g gamma h with
    | Result.Ok up ->
      obs1 "setup" "S" "ok";
      let bounds = match str1 c "bounds" with
        | "none" -> None | _ -> Some (List.map (fun x -> nat_of_int (int_of_string x)) (get c "bounds")) in
      let tr = Marlin.mtrim fo up (nat_of_int (int1 c "supported_degree")) (nat_of_int (int1 c "supported_hiding")) bounds in
      obs1 "trim" "S" (class_of tr);
      (match tr with
       | Result.Ok (ck, _) ->
         let bound = opt_nat_tok (str1 c "bound") in
         let lps = List.init 5 (fun i -> { Marlin.lp_label = nlabel i; lp_poly = fs_of c (Printf.sprintf "poly.%d" i); lp_bound = bound; lp_hiding = None }) in
         let cm = Marlin.commit_all fo ck lps (Some []) in
         obs1 "commit" "S" (class_of cm);
         (match cm with
          | Result.Ok (cs, _) ->
            obs1 "rng_bytes" "N" "0";
            List.iteri (fun i (mc, _) ->
                obs (Printf.sprintf "c.%d" i) "G1"
                  (f_to_str mc.Marlin.mc_comm :: (match mc.Marlin.mc_shifted with Some s -> [ f_to_str s ] | None -> []))) cs;
            obs1 "additive" "S" "holds"; obs1 "repr_invariant" "S" "holds"; obs1 "zero_is_identity" "S" "yes"
          | _ -> ())
       | _ -> ())
    | r -> obs1 "setup" "S" (class_of r)
  end

(* ---------------- C09: KZG10::setup relative to the library's own base elements ---------------- *)
let run_c09 c =
  match str1 c "sub" with
  | "kzg_setup" when has c "beta" ->
    let fo = fo () in
    let d = int1 c "D" and g2 = int1 c "g2" = 1 in
    let one = tof Z.one in
    (match KZG10.setup fo (nat_of_int d) g2 (f_of_str (str1 c "beta")) one one one with
     | Result.Ok up ->
       obs1 "setup" "S" "ok";
       obs "pp_sizes" "N" [ string_of_int (List.length up.KZG10.up_powers_of_g); string_of_int (List.length up.KZG10.up_powers_of_gamma_g);
                            string_of_int (List.length up.KZG10.up_neg_powers_of_h) ];
       obs "pp_g" "R:base_g" (fs_to up.KZG10.up_powers_of_g);
       obs "pp_gamma" "R:base_gamma" (fs_to up.KZG10.up_powers_of_gamma_g);
       obs1 "pp_beta_h" "R:base_h" (f_to_str up.KZG10.up_beta_h);
       if g2 then obs "pp_neg" "R:base_h" (fs_to up.KZG10.up_neg_powers_of_h);
       obs1 "max_degree" "N" (string_of_int (int_of_nat (KZG10.max_degree fo up)));
       (* prepared table: entries 2^i * g for the sampled positions *)
       let pick = [ 0; 1; 2; 3; 64; 127; 200; 254 ] in
       obs1 "prep_len" "N" "255";
       obs "prep_g" "R:base_g" (List.map (fun i -> f_to_str (tof (Z.erem (Z.shift_left Z.one i) !modulus))) pick);
       obs1 "generators_ok" "S" "yes"; obs1 "deterministic" "S" "yes"
     | r -> obs1 "setup" "S" (class_of r))
  | "kzg_setup" ->
    (match KZG10.setup (fo ()) (nat_of_int (int1 c "D")) false (tof Z.one) (tof Z.one) (tof Z.one) (tof Z.one) with
     | Result.Ok _ -> obs1 "setup" "S" "ok" | r -> obs1 "setup" "S" (class_of r))
  | _ -> ()

(* ---------------- C12: every serialized artefact against its schema ---------------- *)
let bytes_of_hex (h : string) : Big_int_Z.big_int list =
  List.init (String.length h / 2) (fun i -> Z.of_int (int_of_string ("0x" ^ String.sub h (2 * i) 2)))

let schema_for scheme (name : string) (g1, g2, f) : Codec.schema option =
  let n = nat_of_int in
  let g1 = n g1 and g2 = n g2 and f = n f in
  let starts p = String.length name >= String.length p && String.sub name 0 (String.length p) = p in
  let lc bp = Some (Artefacts.batch_lc_proof f bp) in
  match scheme with
  | "marlin" ->
    if name = "pp" then Some (Artefacts.kzg_universal_params g1 g2)
    else if name = "ck" then Some (Artefacts.marlin_ck g1)
    else if name = "vk" then Some (Artefacts.marlin_vk g1 g2)
    else if name = "kzgpowers" then Some (Artefacts.kzg_powers g1)
    else if name = "kzgvk" then Some (Artefacts.kzg_vk g1 g2)
    else if starts "comm" then Some (Artefacts.marlin_commitment g1)
    else if starts "state" then Some (Artefacts.marlin_randomness f)
    else if starts "proof" then Some (Artefacts.kzg_proof g1 f)
    else if starts "bproof" then Some (Artefacts.kzg_proof_list g1 f)
    else if starts "lcproof" then lc (Artefacts.kzg_proof_list g1 f) else None
  | "sonic" ->
    if name = "pp" then Some (Artefacts.kzg_universal_params g1 g2)
    else if name = "ck" then Some (Artefacts.sonic_ck g1)
    else if name = "vk" then Some (Artefacts.sonic_vk g1 g2)
    else if name = "kzgpowers" then Some (Artefacts.kzg_powers g1)
    else if starts "comm" then Some (Artefacts.kzg_commitment g1)
    else if starts "state" then Some (Artefacts.kzg_randomness f)
    else if starts "proof" then Some (Artefacts.kzg_proof g1 f)
    else if starts "bproof" then Some (Artefacts.kzg_proof_list g1 f)
    else if starts "lcproof" then lc (Artefacts.kzg_proof_list g1 f) else None
  | "ipa" ->
    if name = "pp" then Some (Artefacts.ipa_params g1)
    else if name = "ck" || name = "vk" then Some (Artefacts.ipa_key g1)
    else if starts "comm" then Some (Artefacts.ipa_commitment g1)
    else if starts "state" then Some (Artefacts.ipa_randomness f)
    else if starts "proof" then Some (Artefacts.ipa_proof g1 f)
    else if starts "bproof" then Some (Artefacts.ipa_proof_list g1 f)
    else if starts "lcproof" then lc (Artefacts.ipa_proof_list g1 f) else None
  | "pst13" ->
    if name = "pp" then Some (Artefacts.pst13_params g1 g2)
    else if name = "ck" then Some (Artefacts.pst13_ck g1)
    else if name = "vk" then Some (Artefacts.pst13_vk g1 g2)
    else if starts "comm" then Some (Artefacts.marlin_commitment g1)
    else if starts "state" then Some (Artefacts.pst13_randomness f)
    else if starts "proof" then Some (Artefacts.pst13_proof g1 f)
    else if starts "bproof" then Some (Artefacts.pst13_proof_list g1 f)
    else if starts "lcproof" then lc (Artefacts.pst13_proof_list g1 f) else None
  | "hyrax" ->
    if name = "pp" || name = "ck" || name = "vk" then Some (Artefacts.hyrax_params g1)
    else if starts "comm" then Some (Artefacts.hyrax_commitment g1)
    else if starts "state" then Some (Artefacts.hyrax_state f)
    else if starts "proof" then Some (Artefacts.hyrax_proof_list g1 f)
    else if starts "bproof" then Some (Artefacts.hyrax_batch_proof g1 f)
    else if starts "lcproof" then lc (Artefacts.hyrax_batch_proof g1 f) else None
  | "ligero_uni" | "ligero_ml" | "brakedown_ml" ->
    if name = "pp" || name = "ck" || name = "vk" then
      Some (if scheme = "brakedown_ml" then Artefacts.brakedown_params f else Artefacts.ligero_params)
    else if starts "comm" then Some Artefacts.lincode_commitment
    else if starts "state" then Some (Artefacts.lincode_state f)
    else if starts "proof" then Some (Artefacts.lincode_proof_list f)
    else if starts "bproof" then Some (Artefacts.lincode_batch_proof f)
    else if starts "lcproof" then lc (Artefacts.lincode_batch_proof f) else None
  | "mlpc" ->
    if name = "pp" then Some (Artefacts.mlpc_params g1 g2)
    else if name = "ck" then Some (Artefacts.mlpc_ck g1 g2)
    else if name = "vk" then Some (Artefacts.mlpc_vk g1 g2)
    else if starts "comm" then Some (Artefacts.mlpc_commitment g1)
    else if starts "proof" then Some (Artefacts.mlpc_proof g2) else None
  | _ -> None

let run_c12 c =
  let scheme = if has c "scheme" then str1 c "scheme" else "mlpc" in
  let pairing = List.mem scheme [ "marlin"; "sonic"; "pst13"; "ligero_uni"; "ligero_ml"; "brakedown_ml"; "mlpc" ] in
  Hashtbl.iter (fun key v ->
      (* key = ser.<name>.<c|u> *)
      match String.split_on_char '.' key with
      | [ "ser"; name; mode ] ->
        let sizes = if pairing then (if mode = "c" then (48, 96, 32) else (96, 192, 32))
          else (if mode = "c" then (32, 32, 32) else (64, 64, 32)) in
        (match schema_for scheme name sizes with
         | None -> ()
         | Some sch ->
           let bytes = bytes_of_hex (List.hd v) in
           let tag = name ^ "." ^ mode in
           (match Codec.dec_all_fast sch bytes with
            | Some value ->
              (match Codec.enc sch value with
               | Some b2 when List.length b2 = List.length bytes && List.for_all2 Z.equal b2 bytes ->
                 obs1 ("rt." ^ tag) "S" "ok";
                 obs1 ("sz." ^ tag) "N" (string_of_int (List.length b2));
                 obs1 ("len." ^ tag) "N" (string_of_int (List.length b2))
               | _ -> obs1 ("rt." ^ tag) "S" "model-reencoding-differs")
            | None -> obs1 ("rt." ^ tag) "S" "model-cannot-parse");
           if has c ("cuts." ^ tag) then begin
             let cuts = List.map int_of_string (get c ("cuts." ^ tag)) in
             let rec takeb n l = if n <= 0 then [] else match l with [] -> [] | x :: t -> x :: takeb (n - 1) t in
             obs ("tr." ^ tag) "S" (dash (List.map (fun k -> match Codec.dec_all_fast sch (takeb k bytes) with Some _ -> "ok" | None -> "err") cuts))
           end)
      | _ -> ()) c.fields

(* ---------------- C19: sizes of commitments and proofs from the scenario's parameters ---------------- *)
let run_c19 c =
  let scheme = str1 c "scheme" in
  let zn = Z.of_int in
  let n = int1 c "n" in
  let nv = if str1 c "num_vars" = "none" then 0 else int1 c "num_vars" in
  let bound i = str1 c (Printf.sprintf "bound.%d" i) <> "none" in
  let hiding i = str1 c (Printf.sprintf "hiding.%d" i) <> "none" in
  let pairing = not (scheme = "ipa" || scheme = "hyrax") in
  let bls_r = Z.of_string "52435875175126190479447740508185965837690552500527637822603658699938581184513" in
  let fuel = nat_of_int 40000 in
  (* linear-code parameters *)
  let (lam, rho_inv, wf) =
    if has c "lig" then (let v = List.map int_of_string (get c "lig") in (List.nth v 0, List.nth v 1, List.nth v 2 = 1))
    else (128, (if scheme = "ligero_ml" then 2 else 4), true) in   (* the setup defaults of univariate_ligero / multilinear_ligero *)
  let poly_len i =
    if scheme = "ligero_uni" then
      (let k = Printf.sprintf "poly.%d" i in
       let co = if has c k then List.map (fun s -> Z.erem (Z.of_string s) bls_r) (get c k) else [] in
       let rec trim = function [] -> [] | x :: t -> (match trim t with [] -> if Z.equal x Z.zero then [] else [ x ] | t' -> x :: t') in
       max 1 (List.length (trim co)))
    else 1 lsl nv in
  let lin_shape i : (Z.t * Z.t * Z.t * Z.t) option =
    if scheme = "brakedown_ml" then
      (* n, m as compute_dimensions with the Brakedown distance; codeword length from the library's parameters *)
      (match CalcT.calc_t (zn 128) (zn 61000) (zn 1521000) (zn (poly_len i)) bls_r fuel with
       | Some (Result.Ok t0) ->
         let (nr, m) = Sizes.dims_of t0 (zn (poly_len i)) in
         if has c "m_ext" then
           (let m_ext = Z.of_string (str1 c "m_ext") in
            match CalcT.calc_t (zn 128) (zn 61000) (zn 1521000) m_ext bls_r fuel with
            | Some (Result.Ok t) -> Some (nr, m, m_ext, t) | _ -> None)
         else None
       | _ -> None)
    else
      (match Sizes.lig_shape (zn lam) (zn rho_inv) bls_r fuel (zn (poly_len i)) with
       | Some (((a, b), cc), d) -> Some (a, b, cc, d) | None -> None) in
  List.iter (fun (tag, (g1, _g2, f)) ->
      let g1 = zn g1 and f = zn f in
      let d = zn 32 in
      for i = 0 to n - 1 do
        let sz = match scheme with
          | "marlin" -> Some (Sizes.marlin_commitment_size g1 (bound i))
          | "sonic" -> Some (Sizes.kzg_commitment_size g1)
          | "ipa" -> Some (Sizes.ipa_commitment_size g1 (bound i))
          | "pst13" -> Some (Sizes.marlin_commitment_size g1 false)
          | "hyrax" -> Some (Sizes.hyrax_commitment_size g1 (zn nv))
          | _ -> Some (Sizes.lincode_commitment_size d) in
        (match sz with
         | Some z -> obs1 (Printf.sprintf "size.comm.%d.%s" i tag) "N" (Z.to_string z);
           obs1 (Printf.sprintf "bytes.comm.%d.%s" i tag) "N" (Z.to_string z)
         | None -> ());
        if tag = "c" then
          (match scheme with
           | "marlin" | "ipa" -> obs1 (Printf.sprintf "shape.comm.%d" i) "N" (if bound i then "1" else "0")
           | "sonic" | "pst13" -> obs1 (Printf.sprintf "shape.comm.%d" i) "N" "0"
           | "hyrax" -> obs1 (Printf.sprintf "shape.comm.%d" i) "N" (Z.to_string (Sizes.hyrax_dim (zn nv)))
           | _ -> (match lin_shape i with
               | Some (a, b, cc, _) -> obs (Printf.sprintf "shape.comm.%d" i) "N" [ Z.to_string a; Z.to_string b; Z.to_string cc; "32" ]
               | None -> obs1 (Printf.sprintf "shape.comm.%d" i) "N" "model-refused"))
      done;
      let nops = int1 c "nops" in
      for t = 0 to nops - 1 do
        match get c (Printf.sprintf "op.%d" t) with
        | "single" :: _pt :: sel ->
          let sel = List.map int_of_string sel in
          let h = List.exists hiding sel in
          let b01 x = if x then "1" else "0" in
          let (sz, shape) = match scheme with
            | "marlin" | "sonic" -> (Some (Sizes.kzg_proof_size g1 f h), [ b01 h ])
            | "ipa" ->
              let s = int1 c "supported_degree" in
              let r = Sizes.ipa_rounds (zn s) in
              (Some (Sizes.ipa_proof_size g1 f r h), [ Z.to_string r; Z.to_string r; b01 h; b01 h ])
            | "pst13" -> (Some (Sizes.pst13_proof_size g1 f (zn nv) h), [ string_of_int nv; b01 h ])
            | "hyrax" ->
              let one = Sizes.hyrax_proof_size g1 f (zn nv) in
              (Some (Z.add (zn 8) (Z.mul (zn (List.length sel)) one)),
               string_of_int (List.length sel) :: List.map (fun _ -> Z.to_string (Sizes.hyrax_dim (zn nv))) sel)
            | _ ->
              let shapes = List.map lin_shape sel in
              if List.exists (fun x -> x = None) shapes then (None, [ "model-refused" ])
              else begin
                let shapes = List.map (function Some x -> x | None -> assert false) shapes in
                let total = List.fold_left (fun acc (nr, m, m_ext, tt) ->
                    Z.add acc (Sizes.lincode_proof_size f d nr m tt (Sizes.path_depth m_ext) wf)) (zn 8) shapes in
                let sh = string_of_int (List.length sel) ::
                         List.concat_map (fun (nr, m, m_ext, tt) ->
                             [ Z.to_string tt; Z.to_string (Sizes.path_depth m_ext); "32"; "32"; Z.to_string m; Z.to_string tt; Z.to_string nr;
                               b01 wf; (if wf then Z.to_string m else "0"); "1" ]) shapes in
                (Some total, sh)
              end in
          (* Brakedown codewords need not fill the Merkle tree: a path whose sibling is a padding leaf carries a
             shorter sibling digest, and which columns are opened depends on the transcript; the size is given as
             [all siblings full; every path at the last leaf] *)
          let slack = if scheme = "brakedown_ml" then
              (match shape with cnt :: rest when cnt <> "model-refused" ->
                 let rec tsum l = match l with tt :: _ :: _ :: _ :: _ :: _ :: _ :: _ :: _ :: _ :: tl -> int_of_string tt + tsum tl | _ -> 0 in
                 32 * tsum rest
               | _ -> 0) else 0 in
          (match sz with
           | Some z ->
             let toks = if slack > 0 then [ Z.to_string z; Z.to_string (Z.sub z (zn slack)) ] else [ Z.to_string z ] in
             obs (Printf.sprintf "size.proof.%d.%s" t tag) "N" toks;
             obs (Printf.sprintf "bytes.proof.%d.%s" t tag) "N" toks
           | None -> ());
          if tag = "c" then obs (Printf.sprintf "shape.proof.%d" t) "N" shape
        | _ -> ()
      done)
    [ ("c", if pairing then (48, 96, 32) else (32, 32, 32)); ("u", if pairing then (96, 192, 32) else (64, 64, 32)) ]

(* ---------------- Sonic (trait-level flow: keys, commitments, single-point openings and their mutations) ---------------- *)
let run_pc_sonic c =
  let fo = fo () in
  let d = int1 c "max_degree" in
  let beta = f_of_str (str1 c "beta") and g = f_of_str (str1 c "g")
  and gamma = f_of_str (str1 c "gamma") and h = f_of_str (str1 c "h") in
  let su = KZG10.setup fo (nat_of_int d) true beta g gamma h in
  obs1 "setup" "S" (class_of su);
  match su with
  | Result.Ok up ->
    let sd = int1 c "supported_degree" and sh = int1 c "supported_hiding" in
    let bounds = match str1 c "bounds" with
      | "none" -> None | "empty" -> Some []
      | _ -> Some (List.map (fun x -> nat_of_int (int_of_string x)) (get c "bounds")) in
    let tr = Sonic.strim fo up (nat_of_int sd) (nat_of_int sh) bounds in
    obs1 "trim" "S" (class_of tr);
    (match tr with
     | Result.Ok (ck, vk) ->
       let n = int1 c "n" in
       let lps = Array.init n (fun i ->
           let k x = Printf.sprintf "%s.%d" x i in
           { Marlin.lp_label = nlabel (int1 c (k "label")); lp_poly = fs_of c (k "poly");
             lp_bound = opt_nat_tok (str1 c (k "bound")); lp_hiding = opt_nat_tok (str1 c (k "hiding")) }) in
       let rng = if str1 c "commit_rng" = "some" then Some (fs_of c "ctape") else None in
       let cm = Sonic.s_commit_all fo ck (Array.to_list lps) rng in
       obs1 "commit" "S" (class_of cm);
       (match cm with
        | Result.Ok (cs, draws) ->
          obs1 "commit_draws" "N" (string_of_int (int_of_nat draws));
          let cs = Array.of_list cs in
          Array.iteri (fun i (cv, r) ->
              obs1 (Printf.sprintf "c.%d" i) "G1" (f_to_str cv);
              obs (Printf.sprintf "rand.%d" i) "F" (dash (fs_to r))) cs;
          let npts = int1 c "npts" in
          let pts = Array.init npts (fun j -> f_of_str (str1 c (Printf.sprintf "pt.%d" j))) in
          let nops = int1 c "nops" in
          let recs = Array.make nops None in
          for t = 0 to nops - 1 do
            let k x = Printf.sprintf "%s.%d" x t in
            match get c (k "op") with
            | "single" :: pj :: sel ->
              let chal = fs_of c (k "chal") and vchal = fs_of c (k "vchal") in
              let pj = int_of_string pj and sel = List.map int_of_string sel in
              let z = pts.(pj) in
              let values = List.map (fun i -> Poly.eval fo lps.(i).Marlin.lp_poly z) sel in
              obs (k "evals") "F" (fs_to values);
              let items = List.map (fun i -> (lps.(i), snd cs.(i))) sel in
              let r = Sonic.s_open fo ck items z chal in
              obs1 (k "open") "S" (class_of r);
              (match r with
               | Result.Ok (pf, rest) ->
                 obs1 (k "nchal") "N" (string_of_int (List.length chal - List.length rest));
                 obs1 (Printf.sprintf "pf.%d.w" t) "G1" (f_to_str pf.KZG10.pf_w);
                 obs1 (Printf.sprintf "pf.%d.rv" t) "F" (f_opt_to_str pf.KZG10.pf_random_v);
                 let cms = List.map (fun i -> (fst cs.(i), lps.(i).Marlin.lp_bound)) sel in
                 (match Sonic.s_check fo vk cms z values pf vchal with
                  | Result.Ok (b, vrest) ->
                    obs1 (k "check") "S" (if b then "accept" else "reject");
                    obs1 (k "nvchal") "N" (string_of_int (List.length vchal - List.length vrest))
                  | _ -> obs1 (k "check") "S" "refused");
                 recs.(t) <- Some (`Single (pj, sel, values, pf))
               | _ -> ())
            | [ "batch"; sq ] ->
              let chal = fs_of c (k "chal") and vchal = fs_of c (k "vchal") in
              let ident = List.init n (fun i -> i) in
              let pperm = if has c (k "pperm") then List.map int_of_string (get c (k "pperm")) else ident in
              let vperm = if has c (k "vperm") then List.map int_of_string (get c (k "vperm")) else ident in
              let tr3 = triples3 (get c ("qs." ^ sq)) in
              let qs = List.map (fun (i, zl, pj) -> (lps.(i).Marlin.lp_label, (nlabel zl, pts.(pj)))) tr3 in
              let ev = List.map (fun (i, _, pj) -> ((lps.(i).Marlin.lp_label, pts.(pj)), Poly.eval fo lps.(i).Marlin.lp_poly pts.(pj))) tr3 in
              let evm = Marlin.evals_map fo ev in
              obs (k "evals") "F" (fs_to (List.map snd evm));
              let items = List.map (fun i -> (lps.(i), snd cs.(i))) pperm in
              let r = Sonic.s_batch_open fo ck items qs chal in
              obs1 (k "open") "S" (class_of r);
              (match r with
               | Result.Ok (pfs, rest) ->
                 obs1 (k "nchal") "N" (string_of_int (List.length chal - List.length rest));
                 obs1 (k "nproofs") "N" (string_of_int (List.length pfs));
                 List.iteri (fun j pf ->
                     obs1 (Printf.sprintf "pf.%d.%d.w" t j) "G1" (f_to_str pf.KZG10.pf_w);
                     obs1 (Printf.sprintf "pf.%d.%d.rv" t j) "F" (f_opt_to_str pf.KZG10.pf_random_v)) pfs;
                 let vtape = fs_of c (k "vtape") in
                 let cml = List.map (fun i -> (lps.(i).Marlin.lp_label, (fst cs.(i), lps.(i).Marlin.lp_bound))) vperm in
                 (match Sonic.s_batch_check fo vk cml qs ev pfs vchal vtape with
                  | Result.Ok ((b, vrest), draws) ->
                    obs1 (k "check") "S" (if b then "accept" else "reject");
                    obs1 (k "nvchal") "N" (string_of_int (List.length vchal - List.length vrest));
                    obs1 (k "check_draws") "N" (string_of_int (int_of_nat draws))
                  | _ -> obs1 (k "check") "S" "refused");
                 recs.(t) <- Some (`Batch (tr3, pfs, vperm))
               | _ -> ())
            | [ "lc"; s; ls ] ->
              let chal = fs_of c (k "chal") and vchal = fs_of c (k "vchal") in
              let ident = List.init n (fun i -> i) in
              let pperm = if has c (k "pperm") then List.map int_of_string (get c (k "pperm")) else ident in
              let vperm = if has c (k "vperm") then List.map int_of_string (get c (k "vperm")) else ident in
              let lcs = parse_lcs c s lps in
              let tr3 = triples3 (get c ("lqs." ^ ls)) in
              let lcarr = Array.of_list lcs in
              let lc_value (_, terms) z = List.fold_left (fun acc (co, tm) ->
                  fo.Field.fadd acc (match tm with
                      | LC.TOne -> co
                      | LC.TPoly l ->
                        let lp = List.find (fun lp -> Z.equal lp.Marlin.lp_label l) (Array.to_list lps) in
                        fo.Field.fmul co (Poly.eval fo lp.Marlin.lp_poly z))) (tof Z.zero) terms in
              let qs = List.map (fun (kk, zl, pj) -> (fst lcarr.(kk), (nlabel zl, pts.(pj)))) tr3 in
              let ev = List.map (fun (kk, _, pj) -> ((fst lcarr.(kk), pts.(pj)), lc_value lcarr.(kk) pts.(pj))) tr3 in
              let evm = Marlin.evals_map fo ev in
              obs (k "evals") "F" (fs_to (List.map snd evm));
              let items = List.map (fun i -> ((lps.(i), snd cs.(i)), fst cs.(i))) pperm in
              let r = SonicLC.s_open_combinations fo ck lcs items qs chal in
              obs1 (k "open") "S" (class_of r);
              (match r with
               | Result.Ok (pfs, rest) ->
                 obs1 (k "nchal") "N" (string_of_int (List.length chal - List.length rest));
                 obs1 (k "nproofs") "N" (string_of_int (List.length pfs));
                 obs1 (k "lc_evals") "F" "none";
                 List.iteri (fun j pf ->
                     obs1 (Printf.sprintf "pf.%d.%d.w" t j) "G1" (f_to_str pf.KZG10.pf_w);
                     obs1 (Printf.sprintf "pf.%d.%d.rv" t j) "F" (f_opt_to_str pf.KZG10.pf_random_v)) pfs;
                 let vtape = fs_of c (k "vtape") in
                 let cml = List.map (fun i -> (lps.(i).Marlin.lp_label, (fst cs.(i), lps.(i).Marlin.lp_bound))) vperm in
                 (match SonicLC.s_check_combinations fo vk lcs cml qs ev pfs vchal vtape with
                  | Result.Ok ((b, vrest), draws) ->
                    obs1 (k "check") "S" (if b then "accept" else "reject");
                    obs1 (k "nvchal") "N" (string_of_int (List.length vchal - List.length vrest));
                    obs1 (k "check_draws") "N" (string_of_int (int_of_nat draws))
                  | _ -> obs1 (k "check") "S" "refused");
                 recs.(t) <- Some (`LC (lcs, tr3, pfs, vperm))
               | _ -> ())
            | _ -> ()
          done;
          List.iter (fun (m, mv) ->
              let name = Printf.sprintf "mut.%d" m in
              let t = int_of_string (List.nth mv 0) and kind = List.nth mv 1 in
              let args = List.tl (List.tl mv) in
              let arg i = List.nth args i in
              if t < nops && has c (Printf.sprintf "mchal.%d" m) then begin
                let mchal = fs_of c (Printf.sprintf "mchal.%d" m) in
                let cms = Array.init n (fun i -> (fst cs.(i), lps.(i).Marlin.lp_bound)) in
                let comm_mut_s i kind2 args2 =
                  let (cv, b) = cms.(i) in
                  match kind2 with
                  | "relabel_bound" when b <> None -> cms.(i) <- (cv, Some (nat_of_int (int_of_string (List.hd args2)))); true
                  | "drop_bound" when b <> None -> cms.(i) <- (cv, None); true
                  | "add_bound" when b = None -> cms.(i) <- (cv, Some (nat_of_int (int_of_string (List.hd args2)))); true
                  | _ -> false in
                let proof_mut_s pf kind2 args2 = match kind2 with
                  | "w_add" -> Some { pf with KZG10.pf_w = fo.Field.fadd pf.KZG10.pf_w (f_of_str (List.hd args2)) }
                  | "rv" -> Some { pf with KZG10.pf_random_v = (if List.hd args2 = "none" then None else Some (f_of_str (List.hd args2))) }
                  | _ -> None in
                match recs.(t) with
                | Some (`Batch (tr3, pfs, vperm)) ->
                  let pv = ref pfs and tr3 = ref tr3 and vperm = ref vperm and ok = ref true in
                  let deltas = ref [] and newpt = ref None in
                  let nth_opt l i = try Some (List.nth l i) with _ -> None in
                  (match kind with
                   | "value" -> deltas := [ (int_of_string (arg 0), f_of_str (arg 1)) ]
                   | "cancel" -> let dd = f_of_str (arg 2) in
                     deltas := [ (int_of_string (arg 0), dd); (int_of_string (arg 1), fo.Field.fopp dd) ]
                   | "point" -> newpt := Some (int_of_string (arg 0), int_of_string (arg 1))
                   | "comm_swap" -> let i = int_of_string (arg 0) and j = int_of_string (arg 1) in cms.(i) <- (fst cs.(j), snd cms.(i))
                   | "comm_mut" -> ok := comm_mut_s (int_of_string (arg 0)) (arg 1) (List.tl (List.tl args))
                   | "proof_mut" -> let kk = int_of_string (arg 0) in
                     (match nth_opt !pv kk with
                      | Some p -> (match proof_mut_s p (arg 1) (List.tl (List.tl args)) with
                          | Some p2 -> pv := List.mapi (fun i x -> if i = kk then p2 else x) !pv | None -> ok := false)
                      | None -> ok := false)
                   | "proofs" ->
                     let len = List.length !pv in
                     (match arg 0 with
                      | "perm" -> let a = int_of_string (arg 1) and b = int_of_string (arg 2) in
                        if a < len && b < len then begin
                          let pa = List.nth !pv a and pb = List.nth !pv b in
                          pv := List.mapi (fun i x -> if i = a then pb else if i = b then pa else x) !pv end else ok := false
                      | "trunc" -> let kk = int_of_string (arg 1) in if kk < len then pv := take kk !pv else ok := false
                      | "dup" -> let a = int_of_string (arg 1) and b = int_of_string (arg 2) in
                        if a < len && b < len then begin
                          let pa = List.nth !pv a in pv := List.mapi (fun i x -> if i = b then pa else x) !pv end else ok := false
                      | "empty" -> pv := []
                      | "extend" -> if len > 0 then pv := !pv @ [ List.nth !pv (len - 1) ] else ok := false
                      | _ -> ok := false)
                   | "proof_from" -> (match (try recs.(int_of_string (arg 0)) with _ -> None) with
                       | Some (`Batch (_, p2, _)) -> pv := p2 | _ -> ok := false)
                   | "sponge_pre" -> ()
                   | "vperm" -> vperm := List.map int_of_string args
                   | "drop_eval" -> ()
                   | "drop_comm" -> let i = int_of_string (arg 0) in vperm := List.filter (fun x -> x <> i) !vperm
                   | "drop_query" -> let kk = int_of_string (arg 0) in
                     if kk < List.length !tr3 then tr3 := List.filteri (fun i _ -> i <> kk) !tr3 else ok := false
                   | _ -> ok := false);
                  if !ok then begin
                    let usept pj = match !newpt with Some (o, nw) when o = pj -> nw | _ -> pj in
                    let qs = List.map (fun (i, zl, pj) -> (lps.(i).Marlin.lp_label, (nlabel zl, pts.(usept pj)))) !tr3 in
                    let ev = List.map (fun (i, _, pj) -> ((lps.(i).Marlin.lp_label, pts.(usept pj)), Poly.eval fo lps.(i).Marlin.lp_poly pts.(pj))) !tr3 in
                    let evm = Marlin.evals_map fo ev in
                    let nk = List.length evm in
                    if List.exists (fun (kk, _) -> kk >= nk) !deltas then ()
                    else begin
                      let evm = List.mapi (fun i (key, v) ->
                          (key, List.fold_left (fun v (kk, dd) -> if kk = i then fo.Field.fadd v dd else v) v !deltas)) evm in
                      let evm = if kind = "drop_eval" then List.filteri (fun i _ -> i <> int_of_string (arg 0)) evm else evm in
                      let vtape = fs_of c (Printf.sprintf "vtape.%d" t) in
                      let cml = List.map (fun i -> (lps.(i).Marlin.lp_label, cms.(i))) !vperm in
                      obs1 name "S" (decision (match Sonic.s_batch_check fo vk cml qs evm !pv mchal vtape with
                          | Result.Ok ((b, _), _) -> Result.Ok b | Result.Err e -> Result.Err e | Result.Panic -> Result.Panic))
                    end
                  end
                | Some (`LC (lcs0, tr3, pfs, vperm)) ->
                  let lcs = ref lcs0 and ok = ref true and deltas = ref [] in
                  let lcarr0 = Array.of_list lcs0 in
                  let upd kk f = lcs := List.mapi (fun i (lab, terms) -> if i = kk then (lab, f terms) else (lab, terms)) !lcs in
                  (match kind with
                   | "value" -> deltas := [ (int_of_string (arg 0), f_of_str (arg 1)) ]
                   | "coeff" -> let kk = int_of_string (arg 0) and tk = int_of_string (arg 1) in
                     if kk < List.length !lcs && tk < List.length (snd (List.nth !lcs kk)) then
                       upd kk (List.mapi (fun i (co, tm) -> if i = tk then (fo.Field.fadd co (f_of_str (arg 2)), tm) else (co, tm)))
                     else ok := false
                   | "const" -> let kk = int_of_string (arg 0) in
                     if kk < List.length !lcs then upd kk (fun terms -> terms @ [ (f_of_str (arg 1), LC.TOne) ]) else ok := false
                   | "comm_swap" -> let i = int_of_string (arg 0) and j = int_of_string (arg 1) in cms.(i) <- (fst cs.(j), snd cms.(i))
                   | "sponge_pre" -> ()
                   | _ -> ok := false);
                  if !ok then begin
                    let lc_value (_, terms) z = List.fold_left (fun acc (co, tm) ->
                        fo.Field.fadd acc (match tm with
                            | LC.TOne -> co
                            | LC.TPoly l ->
                              let lp = List.find (fun lp -> Z.equal lp.Marlin.lp_label l) (Array.to_list lps) in
                              fo.Field.fmul co (Poly.eval fo lp.Marlin.lp_poly z))) (tof Z.zero) terms in
                    let qs = List.map (fun (kk, zl, pj) -> (fst lcarr0.(kk), (nlabel zl, pts.(pj)))) tr3 in
                    let ev = List.map (fun (kk, _, pj) -> ((fst lcarr0.(kk), pts.(pj)), lc_value lcarr0.(kk) pts.(pj))) tr3 in
                    let evm = Marlin.evals_map fo ev in
                    let nk = List.length evm in
                    if List.exists (fun (kk, _) -> kk >= nk) !deltas then ()
                    else begin
                      let evm = List.mapi (fun i (key, v) ->
                          (key, List.fold_left (fun v (kk, dd) -> if kk = i then fo.Field.fadd v dd else v) v !deltas)) evm in
                      let vtape = fs_of c (Printf.sprintf "vtape.%d" t) in
                      let cml = List.map (fun i -> (lps.(i).Marlin.lp_label, cms.(i))) vperm in
                      obs1 name "S" (decision (match SonicLC.s_check_combinations fo vk !lcs cml qs evm pfs mchal vtape with
                          | Result.Ok ((b, _), _) -> Result.Ok b | Result.Err e -> Result.Err e | Result.Panic -> Result.Panic))
                    end
                  end
                | Some (`Single (pj, sel, values, pf)) ->
                  let pj = ref pj and sel = ref sel and values = ref values and pf = ref pf and ok = ref true in
                  (match kind with
                   | "value" -> let k = int_of_string (arg 0) in
                     if k < List.length !values then values := List.mapi (fun i v -> if i = k then fo.Field.fadd v (f_of_str (arg 1)) else v) !values else ok := false
                   | "point" -> pj := int_of_string (arg 0)
                   | "comm_swap" -> let i = int_of_string (arg 0) and j = int_of_string (arg 1) in cms.(i) <- (fst cs.(j), snd cms.(i))
                   | "proof_from" -> (match (try recs.(int_of_string (arg 0)) with _ -> None) with
                       | Some (`Single (_, _, _, p2)) -> pf := p2 | _ -> ok := false)
                   | "sponge_pre" -> ()
                   | "drop_poly" -> let k = int_of_string (arg 0) in
                     if k < List.length !sel then begin
                       sel := List.filteri (fun i _ -> i <> k) !sel; values := List.filteri (fun i _ -> i <> k) !values end else ok := false
                   | "comm_mut" ->
                     let i = int_of_string (arg 0) in
                     let (cv, b) = cms.(i) in
                     (match arg 1 with
                      | "relabel_bound" when b <> None -> cms.(i) <- (cv, Some (nat_of_int (int_of_string (arg 2))))
                      | "drop_bound" when b <> None -> cms.(i) <- (cv, None)
                      | "add_bound" when b = None -> cms.(i) <- (cv, Some (nat_of_int (int_of_string (arg 2))))
                      | _ -> ok := false)
                   | "proof_mut" ->
                     (match arg 0 with
                      | "w_add" -> pf := { !pf with KZG10.pf_w = fo.Field.fadd !pf.KZG10.pf_w (f_of_str (arg 1)) }
                      | "rv" -> pf := { !pf with KZG10.pf_random_v = (if arg 1 = "none" then None else Some (f_of_str (arg 1))) }
                      | _ -> ok := false)
                   | _ -> ok := false);
                  if !ok then
                    obs1 name "S" (decision (match Sonic.s_check fo vk (List.map (fun i -> cms.(i)) !sel) pts.(!pj) !values !pf mchal with
                        | Result.Ok (b, _) -> Result.Ok b | Result.Err e -> Result.Err e | Result.Panic -> Result.Panic))
                | None -> ()
              end)
            (indexed c "mut")
        | _ -> ())
     | _ -> ())
  | _ -> ()

(* ---------------- Hyrax (trait-level flow: commitments, single-point openings and their mutations) ---------------- *)
let gel_tok ((v, hcoef) : Field.coq_F list * Field.coq_F) = String.concat "," (fs_to v @ [ f_to_str hcoef ])
let run_pc_hyrax c =
  let fo = fo () in
  let nv = int1 c "num_vars" in
  let dim = 1 lsl (nv / 2) in
  let keylen = nat_of_int dim in
  let n = int1 c "n" in
  let polys = Array.init n (fun i -> fs_of c (Printf.sprintf "poly.%d" i)) in
  if str1 c "commit_rng" <> "some" then obs1 "commit" "S" "panic"
  else begin
    let tape = ref (fs_of c "ctape") in
    let res = Array.make n None and ok = ref true and draws = ref 0 and cls = ref "ok" in
    Array.iteri (fun i p ->
        if !ok then
          match Hyrax.h_commit1 fo keylen (nat_of_int nv) p !tape with
          | Result.Ok ((rows, st), k) ->
            let k = int_of_nat k in
            res.(i) <- Some (rows, st); draws := !draws + k;
            tape := List.filteri (fun j _ -> j >= k) !tape
          | r -> ok := false; cls := class_of r) polys;
    obs1 "commit" "S" !cls;
    if !ok then begin
      obs1 "commit_draws" "N" (string_of_int !draws);
      let cs = Array.map (function Some x -> x | None -> assert false) res in
      Array.iteri (fun i (rows, st) ->
          obs (Printf.sprintf "c.%d" i) "L:basis" (List.map gel_tok rows);
          obs (Printf.sprintf "rand.%d" i) "F" (fs_to st.Hyrax.hs_rand)) cs;
      let npts = int1 c "npts" in
      let pts = Array.init npts (fun j -> fs_of c (Printf.sprintf "pt.%d" j)) in
      let nops = int1 c "nops" in
      let recs = Array.make nops None in
      let brecs = Array.make nops None in
      let lrecs = Array.make nops None in
      let lab i = nlabel (int1 c (Printf.sprintf "label.%d" i)) in
      let cmpz a b = Z.compare (ofz a) (ofz b) in
      let rec cmpl a b = match a, b with [], [] -> 0 | [], _ -> -1 | _, [] -> 1 | x :: a', y :: b' -> let r = cmpz x y in if r <> 0 then r else cmpl a' b' in
      (* the query set and the evaluations as the BTreeSet / BTreeMap list them; optional point replacement, value deltas by
         position in the map, one evaluation dropped *)
      let hy_qs_ev tr3 newpt deltas drop =
        let usept pj = match newpt with Some (o, nw) when o = pj -> nw | _ -> pj in
        let qs = List.sort_uniq (fun (l1, (p1, z1)) (l2, (p2, z2)) ->
            let r = Z.compare l1 l2 in if r <> 0 then r else let r = Z.compare p1 p2 in if r <> 0 then r else cmpl z1 z2)
            (List.map (fun (i, zl, pj) -> (lab i, (nlabel zl, pts.(usept pj)))) tr3) in
        let tbl = Hashtbl.create 16 in
        List.iter (fun (i, _, pj) -> Hashtbl.replace tbl (Z.to_string (lab i) ^ "@" ^ String.concat "," (fs_to pts.(usept pj)))
                      ((lab i, pts.(usept pj)), MLPC.mle_eval fo polys.(i) pts.(pj))) tr3;
        let ev = Hashtbl.fold (fun _ v acc -> v :: acc) tbl [] in
        let evm = List.sort (fun ((l1, z1), _) ((l2, z2), _) -> let r = Z.compare l1 l2 in if r <> 0 then r else cmpl z1 z2) ev in
        let evm = List.mapi (fun idx (kx, v) -> (kx, List.fold_left (fun acc (kk, d) -> if kk = idx then fo.Field.fadd acc d else acc) v deltas)) evm in
        let evm = match drop with Some kk -> List.filteri (fun idx _ -> idx <> kk) evm | None -> evm in
        (qs, evm) in
      let hy_open sts z (ch, ot) = match Hyrax.h_open_list fo keylen z sts ot ch with
        | Result.Ok ((pfs, ot'), ch') -> Result.Ok (pfs, (ch', ot')) | Result.Err e -> Result.Err e | Result.Panic -> Result.Panic in
      let hy_check rowsl z vs pfs (ch, ot) = match Hyrax.h_check_list fo keylen z rowsl vs pfs ch with
        | Result.Ok (b, ch') -> Result.Ok (b, (ch', ot)) | Result.Err e -> Result.Err e | Result.Panic -> Result.Panic in
      let hy_decision r = decision (match r with Result.Ok (b, _) -> Result.Ok b | Result.Err e -> Result.Err e | Result.Panic -> Result.Panic) in
      let check_all rowsl point values pfs chal =
        (* the verifier's loop: refusals on shape, then one challenge per triple, stopping at the first failing equation *)
        if List.length point mod 2 = 1 then Result.Err Result.EInvalidNumberOfVariables
        else if List.length rowsl <> List.length pfs || List.length values <> List.length pfs then Result.Err Result.EIncorrectInputLength
        else begin
          let rec go rl vl pl ch = match rl, vl, pl with
            | rows :: rl', v :: vl', pf :: pl' ->
              (match ch with
               | [] -> Result.Err Result.EOther
               | cc :: ch' ->
                 (match Hyrax.h_check1 fo keylen point rows v pf cc with
                  | Result.Ok true -> go rl' vl' pl' ch'
                  | r -> r))
            | _ -> Result.Ok true in
          go rowsl values pfs chal
        end in
      for t = 0 to nops - 1 do
        let k x = Printf.sprintf "%s.%d" x t in
        match get c (k "op") with
        | "single" :: pj :: sel ->
          let chal = fs_of c (k "chal") and vchal = fs_of c (k "vchal") in
          let pj = int_of_string pj and sel = List.map int_of_string sel in
          let z = pts.(pj) in
          let otape = ref (if has c (k "otape") then fs_of c (k "otape") else []) in
          let ch = ref chal in
          let pfs = ref [] and okk = ref true and cls = ref "ok" in
          if List.length z mod 2 = 1 then (okk := false; cls := "err:InvalidNumberOfVariables");
          List.iter (fun i ->
              if !okk then
                match !ch with
                | [] -> okk := false; cls := "err:MODEL_TAPE_EXHAUSTED"
                | cc :: rest ->
                  (match Hyrax.h_open1 fo keylen z (snd cs.(i)) !otape cc with
                   | Result.Ok (pf, kk) ->
                     let kk = int_of_nat kk in
                     pfs := !pfs @ [ pf ]; ch := rest; otape := List.filteri (fun j _ -> j >= kk) !otape
                   | r -> okk := false; cls := class_of r)) sel;
          obs1 (k "open") "S" !cls;
          if !okk then begin
            obs1 (k "nchal") "N" (string_of_int (List.length chal - List.length !ch));
            obs1 (Printf.sprintf "pf.%d.n" t) "N" (string_of_int (List.length !pfs));
            obs1 (Printf.sprintf "pf.%d.fresh_masks" t) "S" "yes";
            obs1 (k "open_draws") "N" (string_of_int (List.length !pfs * (dim + 3)));
            List.iteri (fun j pf ->
                obs (Printf.sprintf "pf.%d.%d.coms" t j) "L:basis" [ gel_tok pf.Hyrax.hp_com_eval; gel_tok pf.Hyrax.hp_com_d; gel_tok pf.Hyrax.hp_com_b ];
                obs (Printf.sprintf "pf.%d.%d.z" t j) "F" (fs_to pf.Hyrax.hp_z);
                obs (Printf.sprintf "pf.%d.%d.s" t j) "F" [ f_to_str pf.Hyrax.hp_zd; f_to_str pf.Hyrax.hp_zb; f_to_str pf.Hyrax.hp_reval ]) !pfs;
            let mle i = MLPC.mle_eval fo polys.(i) z in
            let values = List.map mle sel in
            obs (k "evals") "F" (fs_to values);
            obs1 (k "check") "S" (decision (check_all (List.map (fun i -> fst cs.(i)) sel) z values !pfs vchal));
            recs.(t) <- Some (pj, sel, values, !pfs)
          end
        | [ "batch"; sq ] ->
          let chal = fs_of c (k "chal") and vchal = fs_of c (k "vchal") in
          let tr3 = triples3 (get c ("qs." ^ sq)) in
          let ident = List.init n (fun i -> i) in
          let pperm = if has c (k "pperm") then List.map int_of_string (get c (k "pperm")) else ident in
          let vperm = if has c (k "vperm") then List.map int_of_string (get c (k "vperm")) else ident in
          let otape = if has c (k "otape") then fs_of c (k "otape") else [] in
          let (qs, evm) = hy_qs_ev tr3 None [] None in
          obs (k "evals") "F" (fs_to (List.map snd evm));
          let items = List.map (fun i -> (lab i, snd cs.(i))) pperm in
          let r = DefaultBatch.default_batch_open fo hy_open items qs (chal, otape) in
          obs1 (k "open") "S" (class_of r);
          (match r with
           | Result.Ok (pfl, _) ->
             obs1 (k "nproofs") "N" (string_of_int (List.length pfl));
             List.iteri (fun g pfs ->
                 obs1 (Printf.sprintf "pf.%d.%d.n" t g) "N" (string_of_int (List.length pfs));
                 obs1 (Printf.sprintf "pf.%d.%d.fresh_masks" t g) "S" "yes";
                 List.iteri (fun j pf ->
                     obs (Printf.sprintf "pf.%d.%d.%d.coms" t g j) "L:basis" [ gel_tok pf.Hyrax.hp_com_eval; gel_tok pf.Hyrax.hp_com_d; gel_tok pf.Hyrax.hp_com_b ];
                     obs (Printf.sprintf "pf.%d.%d.%d.z" t g j) "F" (fs_to pf.Hyrax.hp_z);
                     obs (Printf.sprintf "pf.%d.%d.%d.s" t g j) "F" [ f_to_str pf.Hyrax.hp_zd; f_to_str pf.Hyrax.hp_zb; f_to_str pf.Hyrax.hp_reval ]) pfs) pfl;
             let cml = List.map (fun i -> (lab i, fst cs.(i))) vperm in
             obs1 (k "check") "S" (hy_decision (DefaultBatch.default_batch_check fo hy_check cml qs evm pfl (vchal, [])));
             brecs.(t) <- Some (tr3, pfl, vperm)
           | _ -> ())
        | [ "lc"; sq; ls ] ->
          let chal = fs_of c (k "chal") and vchal = fs_of c (k "vchal") in
          let ident = List.init n (fun i -> i) in
          let pperm = if has c (k "pperm") then List.map int_of_string (get c (k "pperm")) else ident in
          let vperm = if has c (k "vperm") then List.map int_of_string (get c (k "vperm")) else ident in
          let otape = if has c (k "otape") then fs_of c (k "otape") else [] in
          let lcs = List.map (fun (_, v) ->
              let lb = nlabel (int_of_string (List.nth v 0)) in
              let rec go = function
                | co :: tm :: r -> (f_of_str co, (if tm = "one" then LC.TOne else LC.TPoly (lab (int_of_string tm)))) :: go r
                | _ -> [] in
              (lb, go (List.tl (List.tl v)))) (indexed c ("lcs." ^ sq)) in
          let lcarr = Array.of_list lcs in
          let tr3 = triples3 (get c ("lqs." ^ ls)) in
          let idx_of_label l = let rec f i = if i >= n then 0 else if Z.equal (lab i) l then i else f (i + 1) in f 0 in
          let lc_value (_, terms) z = List.fold_left (fun acc (co, tm) ->
              fo.Field.fadd acc (match tm with
                  | LC.TOne -> co
                  | LC.TPoly l -> fo.Field.fmul co (MLPC.mle_eval fo polys.(idx_of_label l) z))) (tof Z.zero) terms in
          let qs = List.sort_uniq (fun (l1, (p1, z1)) (l2, (p2, z2)) ->
              let r = Z.compare l1 l2 in if r <> 0 then r else let r = Z.compare p1 p2 in if r <> 0 then r else cmpl z1 z2)
              (List.map (fun (kk, zl, pj) -> (fst lcarr.(kk), (nlabel zl, pts.(pj)))) tr3) in
          let tbl = Hashtbl.create 16 in
          List.iter (fun (kk, _, pj) -> Hashtbl.replace tbl (Z.to_string (fst lcarr.(kk)) ^ "@" ^ String.concat "," (fs_to pts.(pj)))
                        ((fst lcarr.(kk), pts.(pj)), lc_value lcarr.(kk) pts.(pj))) tr3;
          let eqn_ev = List.sort (fun ((l1, z1), _) ((l2, z2), _) -> let r = Z.compare l1 l2 in if r <> 0 then r else cmpl z1 z2)
              (Hashtbl.fold (fun _ v acc -> v :: acc) tbl []) in
          obs (k "evals") "F" (fs_to (List.map snd eqn_ev));
          let items = List.map (fun i -> (lab i, (i, snd cs.(i)))) pperm in
          let open2 its z st = hy_open (List.map snd its) z st in
          let eval_item (i, _) pt = MLPC.mle_eval fo polys.(i) pt in
          let r = DefaultBatch.default_open_combinations fo open2 eval_item lcs items qs (chal, otape) in
          obs1 (k "open") "S" (class_of r);
          (match r with
           | Result.Ok ((pfl, evs), _) ->
             obs (k "lc_evals") "F" (fs_to evs);
             obs1 (k "nproofs") "N" (string_of_int (List.length pfl));
             List.iteri (fun g pfs ->
                 obs1 (Printf.sprintf "pf.%d.%d.n" t g) "N" (string_of_int (List.length pfs));
                 List.iteri (fun j pf ->
                     obs (Printf.sprintf "pf.%d.%d.%d.coms" t g j) "L:basis" [ gel_tok pf.Hyrax.hp_com_eval; gel_tok pf.Hyrax.hp_com_d; gel_tok pf.Hyrax.hp_com_b ];
                     obs (Printf.sprintf "pf.%d.%d.%d.z" t g j) "F" (fs_to pf.Hyrax.hp_z);
                     obs (Printf.sprintf "pf.%d.%d.%d.s" t g j) "F" [ f_to_str pf.Hyrax.hp_zd; f_to_str pf.Hyrax.hp_zb; f_to_str pf.Hyrax.hp_reval ]) pfs) pfl;
             let cml = List.map (fun i -> (lab i, fst cs.(i))) vperm in
             obs1 (k "check") "S" (hy_decision (DefaultBatch.default_check_combinations fo hy_check lcs cml qs eqn_ev pfl (Some evs) (vchal, [])));
             lrecs.(t) <- Some (lcs, qs, eqn_ev, pfl, evs, vperm)
           | _ -> ())
        | _ -> ()
      done;
      List.iter (fun (m, mv) ->
          let name = Printf.sprintf "mut.%d" m in
          let t = int_of_string (List.nth mv 0) and kind = List.nth mv 1 in
          let args = List.tl (List.tl mv) in
          let arg i = List.nth args i in
          if t < nops && has c (Printf.sprintf "mchal.%d" m) then begin
            let mchal = fs_of c (Printf.sprintf "mchal.%d" m) in
            let rowsa = Array.init n (fun i -> fst cs.(i)) in
            match recs.(t) with
            | Some (pj, sel, values, pfs) ->
              let pj = ref pj and sel = ref sel and values = ref values and pfs = ref pfs and ok = ref true in
              let one = tof Z.one in
              let upd_pf which f = pfs := List.mapi (fun i p -> if i = which then f p else p) !pfs in
              (match kind with
               | "value" -> let kk = int_of_string (arg 0) in
                 if kk < List.length !values then values := List.mapi (fun i v -> if i = kk then fo.Field.fadd v (f_of_str (arg 1)) else v) !values else ok := false
               | "point" -> pj := int_of_string (arg 0)
               | "comm_swap" -> let i = int_of_string (arg 0) and j = int_of_string (arg 1) in rowsa.(i) <- fst cs.(j)
               | "comm_mut" -> let i = int_of_string (arg 0) in
                 let rows = rowsa.(i) in
                 (match arg 1 with
                  | "extra_row" when rows <> [] -> rowsa.(i) <- rows @ [ List.nth rows (List.length rows - 1) ]
                  | "drop_row" when List.length rows >= 2 -> rowsa.(i) <- List.rev (List.tl (List.rev rows))
                  | _ -> ok := false)
               | "drop_poly" -> let kk = int_of_string (arg 0) in
                 if kk < List.length !sel then begin
                   sel := List.filteri (fun i _ -> i <> kk) !sel; values := List.filteri (fun i _ -> i <> kk) !values end else ok := false
               | "sponge_pre" -> ()
               | ("proof_mut" | "proof_mut_v") when !pfs <> [] ->
                 let j = (try int_of_string (arg 1) with _ -> 0) in
                 let which = j mod List.length !pfs in
                 (match arg 0 with
                  | "z_tamper" -> upd_pf which (fun p -> if p.Hyrax.hp_z = [] then (ok := false; p) else
                                                  let kk = j mod List.length p.Hyrax.hp_z in
                                                  { p with Hyrax.hp_z = List.mapi (fun i x -> if i = kk then fo.Field.fadd x one else x) p.Hyrax.hp_z })
                  | "z_stretch" -> upd_pf which (fun p -> { p with Hyrax.hp_z = p.Hyrax.hp_z @ [ tof Z.zero ] })
                  | "z_shorten" -> upd_pf which (fun p -> if p.Hyrax.hp_z = [] then (ok := false; p) else
                                                   { p with Hyrax.hp_z = List.rev (List.tl (List.rev p.Hyrax.hp_z)) })
                  | "z_d" -> upd_pf which (fun p -> { p with Hyrax.hp_zd = fo.Field.fadd p.Hyrax.hp_zd one })
                  | "z_b" -> upd_pf which (fun p -> { p with Hyrax.hp_zb = fo.Field.fadd p.Hyrax.hp_zb one })
                  | "r_eval" -> upd_pf which (fun p -> { p with Hyrax.hp_reval = fo.Field.fadd p.Hyrax.hp_reval one })
                  | "list_drop" -> pfs := List.rev (List.tl (List.rev !pfs))
                  | "list_extend" -> pfs := !pfs @ [ List.nth !pfs which ]
                  | _ -> ok := false);
                 if kind = "proof_mut_v" && !ok then
                   values := (match !values with v :: tl -> fo.Field.fadd v one :: tl | [] -> [])
               | _ -> ok := false);
              if !ok then
                obs1 name "S" (decision (check_all (List.map (fun i -> rowsa.(i)) !sel) pts.(!pj) !values !pfs mchal))
            | None ->
              (match brecs.(t) with
               | Some (tr3, pfl, vperm) ->
                 let tr3 = ref tr3 and pfl = ref pfl and vperm = ref vperm and ok = ref true in
                 let deltas = ref [] and drop = ref None in
                 let nth_opt l i = if i < List.length l then Some (List.nth l i) else None in
                 (match kind with
                  | "value" -> deltas := [ (int_of_string (arg 0), f_of_str (arg 1)) ]
                  | "cancel" -> let d = f_of_str (arg 2) in
                    deltas := [ (int_of_string (arg 0), d); (int_of_string (arg 1), fo.Field.fopp d) ]
                  | "comm_swap" -> let i = int_of_string (arg 0) and j = int_of_string (arg 1) in rowsa.(i) <- fst cs.(j)
                  | "proofs" ->
                    let a () = int_of_string (arg 1) and b () = int_of_string (arg 2) in
                    let len = List.length !pfl in
                    (match arg 0 with
                     | "perm" -> if a () < len && b () < len then begin
                         let x = List.nth !pfl (a ()) and y = List.nth !pfl (b ()) in
                         pfl := List.mapi (fun i p -> if i = a () then y else if i = b () then x else p) !pfl end else ok := false
                     | "trunc" -> if a () < len then pfl := List.filteri (fun i _ -> i < a ()) !pfl else ok := false
                     | "dup" -> if a () < len && b () < len then begin
                         let x = List.nth !pfl (a ()) in pfl := List.mapi (fun i p -> if i = b () then x else p) !pfl end else ok := false
                     | "empty" -> pfl := []
                     | "extend" -> (match nth_opt !pfl (len - 1) with Some l when len > 0 -> pfl := !pfl @ [ l ] | _ -> ok := false)
                     | _ -> ok := false)
                  | "sponge_pre" -> ()
                  | "vperm" -> vperm := List.map int_of_string args
                  | "drop_query" -> let kk = int_of_string (arg 0) in
                    if kk < List.length !tr3 then tr3 := List.filteri (fun i _ -> i <> kk) !tr3 else ok := false
                  | "drop_eval" -> drop := Some (int_of_string (arg 0))
                  | "drop_comm" -> let i = int_of_string (arg 0) in vperm := List.filter (fun x -> x <> i) !vperm
                  | _ -> ok := false);
                 if !ok then begin
                   let (qs, evm0) = hy_qs_ev !tr3 None [] None in
                   let nk = List.length evm0 in
                   if List.exists (fun (kk, _) -> kk >= nk) !deltas || (match !drop with Some kk -> kk >= nk | None -> false) then ()
                   else begin
                     let (_, evm) = hy_qs_ev !tr3 None !deltas !drop in
                     let cml = List.map (fun i -> (lab i, rowsa.(i))) !vperm in
                     obs1 name "S" (hy_decision (DefaultBatch.default_batch_check fo hy_check cml qs evm !pfl (mchal, [])))
                   end
                 end
               | None ->
                 (match lrecs.(t) with
                  | Some (lcs0, qs, eqn_ev0, pfl, evs, vperm) ->
                    let lcs = ref lcs0 and pfl = ref pfl and evs = ref evs and ok = ref true and deltas = ref [] in
                    let upd kk f = lcs := List.mapi (fun i (lb, terms) -> if i = kk then (lb, f terms) else (lb, terms)) !lcs in
                    (match kind with
                     | "value" -> deltas := [ (int_of_string (arg 0), f_of_str (arg 1)) ]
                     | "coeff" -> let kk = int_of_string (arg 0) and tk = int_of_string (arg 1) in
                       if kk < List.length !lcs && tk < List.length (snd (List.nth !lcs kk)) then
                         upd kk (List.mapi (fun i (co, tm) -> if i = tk then (fo.Field.fadd co (f_of_str (arg 2)), tm) else (co, tm)))
                       else ok := false
                     | "const" -> let kk = int_of_string (arg 0) in
                       if kk < List.length !lcs then upd kk (fun terms -> terms @ [ (f_of_str (arg 1), LC.TOne) ]) else ok := false
                     | "evals" -> let a = int_of_string (arg 0) in
                       if a < List.length !evs then evs := List.mapi (fun i v -> if i = a then fo.Field.fadd v (f_of_str (arg 1)) else v) !evs else ok := false
                     | "comm_swap" -> let i = int_of_string (arg 0) and j = int_of_string (arg 1) in rowsa.(i) <- fst cs.(j)
                     | "proofs" ->
                       let len = List.length !pfl in
                       (match arg 0 with
                        | "empty" -> pfl := []
                        | "trunc" -> let kk = int_of_string (arg 1) in if kk < len then pfl := List.filteri (fun i _ -> i < kk) !pfl else ok := false
                        | "extend" -> if len > 0 then pfl := !pfl @ [ List.nth !pfl (len - 1) ] else ok := false
                        | _ -> ok := false)
                     | "sponge_pre" -> ()
                     | _ -> ok := false);
                    if !ok then begin
                      let nk = List.length eqn_ev0 in
                      if List.exists (fun (kk, _) -> kk >= nk) !deltas then ()
                      else begin
                        let eqn_ev = List.mapi (fun idx (kx, v) -> (kx, List.fold_left (fun acc (kk, d) -> if kk = idx then fo.Field.fadd acc d else acc) v !deltas)) eqn_ev0 in
                        let cml = List.map (fun i -> (lab i, rowsa.(i))) vperm in
                        obs1 name "S" (hy_decision (DefaultBatch.default_check_combinations fo hy_check !lcs cml qs eqn_ev !pfl (Some !evs) (mchal, [])))
                      end
                    end
                  | None -> ()))
          end)
        (indexed c "mut")
    end
  end

(* ---------------- IPA (trait-level flow: commitments, single-point openings and their mutations) ---------------- *)
let gv_tok (v : Field.coq_F list) = if v = [] then "0" else String.concat "," (fs_to v)
let run_pc_ipa c =
  let fo = fo () in
  let maxd = int1 c "max_degree" and sd = int1 c "supported_degree" in
  match IPA.itrim (nat_of_int maxd) (nat_of_int sd) with
  | Result.Ok dn ->
    let d = int_of_nat dn in
    obs1 "key_len" "N" (string_of_int (d + 1));
    let n = int1 c "n" in
    let lps = Array.init n (fun i ->
        let k x = Printf.sprintf "%s.%d" x i in
        { Marlin.lp_label = nlabel (int1 c (k "label")); lp_poly = fs_of c (k "poly");
          lp_bound = opt_nat_tok (str1 c (k "bound")); lp_hiding = opt_nat_tok (str1 c (k "hiding")) }) in
    let rng = if str1 c "commit_rng" = "some" then Some (fs_of c "ctape") else None in
    let cm = IPA.i_commit_all fo dn (Array.to_list lps) rng in
    obs1 "commit" "S" (class_of cm);
    (match cm with
     | Result.Ok (cs, draws) ->
       obs1 "commit_draws" "N" (string_of_int (int_of_nat draws));
       let cs = Array.of_list cs in
       Array.iteri (fun i (ic, ir) ->
           obs (Printf.sprintf "c.%d" i) "L:basis"
             (gv_tok ic.IPA.ic_comm :: (match ic.IPA.ic_shifted with Some s -> [ gv_tok s ] | None -> []));
           obs (Printf.sprintf "rand.%d" i) "F"
             (f_to_str ir.IPA.ir_rand :: (match ir.IPA.ir_shifted with Some s -> [ f_to_str s ] | None -> []))) cs;
       let npts = int1 c "npts" in
       let pts = Array.init npts (fun j -> f_of_str (str1 c (Printf.sprintf "pt.%d" j))) in
       let nops = int1 c "nops" in
       let recs = Array.make nops None in
       let tape_of k = if has c k then fs_of c k else [] in
       let brecs = Array.make nops None in
       let lrecs = Array.make nops None in
       let cmpz a b = Z.compare (ofz a) (ofz b) in
       (* query set and evaluations in BTreeSet / BTreeMap order; value deltas by position in the map, one evaluation dropped *)
       let ipa_qs_ev tr3 deltas drop =
         let qs = List.sort_uniq (fun (l1, (p1, z1)) (l2, (p2, z2)) ->
             let r = Z.compare l1 l2 in if r <> 0 then r else let r = Z.compare p1 p2 in if r <> 0 then r else compare (List.map ofz z1) (List.map ofz z2))
             (List.map (fun (i, zl, pj) -> (lps.(i).Marlin.lp_label, (nlabel zl, [ pts.(pj) ]))) tr3) in
         let tbl = Hashtbl.create 16 in
         List.iter (fun (i, _, pj) -> Hashtbl.replace tbl (Z.to_string lps.(i).Marlin.lp_label ^ "@" ^ f_to_str pts.(pj))
                       ((lps.(i).Marlin.lp_label, [ pts.(pj) ]), Poly.eval fo lps.(i).Marlin.lp_poly pts.(pj))) tr3;
         let ev = Hashtbl.fold (fun _ v acc -> v :: acc) tbl [] in
         let evm = List.sort (fun ((l1, z1), _) ((l2, z2), _) -> let r = Z.compare l1 l2 in if r <> 0 then r else cmpz (List.hd z1) (List.hd z2)) ev in
         let evm = List.mapi (fun idx (kx, v) -> (kx, List.fold_left (fun acc (kk, dd) -> if kk = idx then fo.Field.fadd acc dd else acc) v deltas)) evm in
         let evm = match drop with Some kk -> List.filteri (fun idx _ -> idx <> kk) evm | None -> evm in
         (qs, evm) in
       for t = 0 to nops - 1 do
         let k x = Printf.sprintf "%s.%d" x t in
         match get c (k "op") with
         | "single" :: pj :: sel ->
           let chal = fs_of c (k "chal") and vchal = fs_of c (k "vchal") in
           let pj = int_of_string pj and sel = List.map int_of_string sel in
           let z = pts.(pj) in
           let values = List.map (fun i -> Poly.eval fo lps.(i).Marlin.lp_poly z) sel in
           obs (k "evals") "F" (fs_to values);
           let items = List.map (fun i -> (((lps.(i), lps.(i).Marlin.lp_bound), fst cs.(i)), snd cs.(i))) sel in
           let otape = if has c (k "otape") then Some (fs_of c (k "otape")) else Some [] in
           let r = IPA.i_open fo dn items z chal (tape_of (k "hchal")) otape in
           obs1 (k "open") "S" (class_of r);
           (match r with
            | Result.Ok (((pf, rest), _hrest), nd) ->
              obs1 (k "nchal") "N" (string_of_int (List.length chal - List.length rest));
              obs1 (k "open_draws") "N" (string_of_int (int_of_nat nd));
              let nm = Printf.sprintf "pf.%d" t in
              obs1 (nm ^ ".rounds") "N" (string_of_int (List.length pf.IPA.ip_l));
              if pf.IPA.ip_l <> [] then begin
                obs (nm ^ ".l") "L:basis" (List.map gv_tok pf.IPA.ip_l);
                obs (nm ^ ".r") "L:basis" (List.map gv_tok pf.IPA.ip_r)
              end;
              obs1 (nm ^ ".key") "L:basis" (gv_tok pf.IPA.ip_key);
              obs1 (nm ^ ".c") "F" (f_to_str pf.IPA.ip_c);
              (match pf.IPA.ip_hcomm with Some h -> obs1 (nm ^ ".hcomm") "L:basis" (gv_tok h) | None -> ());
              obs1 (nm ^ ".rand") "F" (f_opt_to_str pf.IPA.ip_rand);
              let cms = List.map (fun i -> (fst cs.(i), lps.(i).Marlin.lp_bound)) sel in
              (match IPA.i_check fo dn cms z values pf vchal (tape_of (k "vhchal")) with
               | Result.Ok ((b, vrest), _) ->
                 obs1 (k "check") "S" (if b then "accept" else "reject");
                 obs1 (k "nvchal") "N" (string_of_int (List.length vchal - List.length vrest))
               | _ -> obs1 (k "check") "S" "refused");
              recs.(t) <- Some (pj, sel, values, pf)
            | _ -> ())
         | [ "batch"; sq ] ->
           let chal = fs_of c (k "chal") and vchal = fs_of c (k "vchal") in
           let tr3 = triples3 (get c ("qs." ^ sq)) in
           let ident = List.init n (fun i -> i) in
           let pperm = if has c (k "pperm") then List.map int_of_string (get c (k "pperm")) else ident in
           let vperm = if has c (k "vperm") then List.map int_of_string (get c (k "vperm")) else ident in
           let otape = if has c (k "otape") then fs_of c (k "otape") else [] in
           let (qs, evm) = ipa_qs_ev tr3 [] None in
           obs (k "evals") "F" (fs_to (List.map snd evm));
           let items = List.map (fun i -> (lps.(i).Marlin.lp_label, (((lps.(i), lps.(i).Marlin.lp_bound), fst cs.(i)), snd cs.(i)))) pperm in
           let r = IPABatch.i_batch_open fo dn items qs ((chal, tape_of (k "hchal")), Some otape) in
           obs1 (k "open") "S" (class_of r);
           (match r with
            | Result.Ok (pfl, ((rest, _), rng')) ->
              obs1 (k "nchal") "N" (string_of_int (List.length chal - List.length rest));
              obs1 (k "open_draws") "N" (string_of_int (List.length otape - (match rng' with Some l -> List.length l | None -> 0)));
              obs1 (k "nproofs") "N" (string_of_int (List.length pfl));
              List.iteri (fun g pf ->
                  let nm = Printf.sprintf "pf.%d.%d" t g in
                  obs1 (nm ^ ".rounds") "N" (string_of_int (List.length pf.IPA.ip_l));
                  if pf.IPA.ip_l <> [] then begin
                    obs (nm ^ ".l") "L:basis" (List.map gv_tok pf.IPA.ip_l);
                    obs (nm ^ ".r") "L:basis" (List.map gv_tok pf.IPA.ip_r)
                  end;
                  obs1 (nm ^ ".key") "L:basis" (gv_tok pf.IPA.ip_key);
                  obs1 (nm ^ ".c") "F" (f_to_str pf.IPA.ip_c);
                  (match pf.IPA.ip_hcomm with Some h -> obs1 (nm ^ ".hcomm") "L:basis" (gv_tok h) | None -> ());
                  obs1 (nm ^ ".rand") "F" (f_opt_to_str pf.IPA.ip_rand)) pfl;
              let cml = List.map (fun i -> (lps.(i).Marlin.lp_label, (fst cs.(i), lps.(i).Marlin.lp_bound))) vperm in
              (match IPABatch.i_batch_check fo dn cml qs evm pfl vchal (tape_of (k "vhchal")) (tape_of (k "vtape")) with
               | Result.Ok (((b, vrest), _), draws) ->
                 obs1 (k "check") "S" (if b then "accept" else "reject");
                 obs1 (k "nvchal") "N" (string_of_int (List.length vchal - List.length vrest));
                 obs1 (k "check_draws") "N" (string_of_int (int_of_nat draws))
               | _ -> obs1 (k "check") "S" "refused");
              brecs.(t) <- Some (tr3, pfl, vperm)
            | _ -> ())
         | [ "lc"; sq; ls ] ->
           let chal = fs_of c (k "chal") and vchal = fs_of c (k "vchal") in
           let ident = List.init n (fun i -> i) in
           let pperm = if has c (k "pperm") then List.map int_of_string (get c (k "pperm")) else ident in
           let vperm = if has c (k "vperm") then List.map int_of_string (get c (k "vperm")) else ident in
           let otape = if has c (k "otape") then fs_of c (k "otape") else [] in
           let lcs = parse_lcs c sq lps in
           let lcarr = Array.of_list lcs in
           let tr3 = triples3 (get c ("lqs." ^ ls)) in
           let lc_value (_, terms) z = List.fold_left (fun acc (co, tm) ->
               fo.Field.fadd acc (match tm with
                   | LC.TOne -> co
                   | LC.TPoly l ->
                     let lp = List.find (fun lp -> Z.equal lp.Marlin.lp_label l) (Array.to_list lps) in
                     fo.Field.fmul co (Poly.eval fo lp.Marlin.lp_poly z))) (tof Z.zero) terms in
           let qs = List.sort_uniq (fun (l1, (p1, z1)) (l2, (p2, z2)) ->
               let r = Z.compare l1 l2 in if r <> 0 then r else let r = Z.compare p1 p2 in if r <> 0 then r else compare (List.map ofz z1) (List.map ofz z2))
               (List.map (fun (kk, zl, pj) -> (fst lcarr.(kk), (nlabel zl, [ pts.(pj) ]))) tr3) in
           let tbl = Hashtbl.create 16 in
           List.iter (fun (kk, _, pj) -> Hashtbl.replace tbl (Z.to_string (fst lcarr.(kk)) ^ "@" ^ f_to_str pts.(pj))
                         ((fst lcarr.(kk), [ pts.(pj) ]), lc_value lcarr.(kk) pts.(pj))) tr3;
           let evm = List.sort (fun ((l1, z1), _) ((l2, z2), _) -> let r = Z.compare l1 l2 in if r <> 0 then r else cmpz (List.hd z1) (List.hd z2))
               (Hashtbl.fold (fun _ v acc -> v :: acc) tbl []) in
           obs (k "evals") "F" (fs_to (List.map snd evm));
           let items = List.map (fun i -> ((lps.(i), snd cs.(i)), (fst cs.(i), lps.(i).Marlin.lp_bound))) pperm in
           let r = IPABatch.i_open_combinations fo dn lcs items qs ((chal, tape_of (k "hchal")), Some otape) in
           obs1 (k "open") "S" (class_of r);
           (match r with
            | Result.Ok (pfl, ((rest, _), rng')) ->
              obs1 (k "nchal") "N" (string_of_int (List.length chal - List.length rest));
              obs1 (k "open_draws") "N" (string_of_int (List.length otape - (match rng' with Some l -> List.length l | None -> 0)));
              obs1 (k "nproofs") "N" (string_of_int (List.length pfl));
              obs1 (k "lc_evals") "F" "none";
              List.iteri (fun g pf ->
                  let nm = Printf.sprintf "pf.%d.%d" t g in
                  obs1 (nm ^ ".rounds") "N" (string_of_int (List.length pf.IPA.ip_l));
                  if pf.IPA.ip_l <> [] then begin
                    obs (nm ^ ".l") "L:basis" (List.map gv_tok pf.IPA.ip_l);
                    obs (nm ^ ".r") "L:basis" (List.map gv_tok pf.IPA.ip_r)
                  end;
                  obs1 (nm ^ ".key") "L:basis" (gv_tok pf.IPA.ip_key);
                  obs1 (nm ^ ".c") "F" (f_to_str pf.IPA.ip_c);
                  (match pf.IPA.ip_hcomm with Some h -> obs1 (nm ^ ".hcomm") "L:basis" (gv_tok h) | None -> ());
                  obs1 (nm ^ ".rand") "F" (f_opt_to_str pf.IPA.ip_rand)) pfl;
              let cml = List.map (fun i -> (lps.(i).Marlin.lp_label, (fst cs.(i), lps.(i).Marlin.lp_bound))) vperm in
              (match IPABatch.i_check_combinations fo dn lcs cml qs evm pfl vchal (tape_of (k "vhchal")) (tape_of (k "vtape")) with
               | Result.Ok (((b, vrest), _), draws) ->
                 obs1 (k "check") "S" (if b then "accept" else "reject");
                 obs1 (k "nvchal") "N" (string_of_int (List.length vchal - List.length vrest));
                 obs1 (k "check_draws") "N" (string_of_int (int_of_nat draws))
               | _ -> obs1 (k "check") "S" "refused");
              lrecs.(t) <- Some (lcs, qs, evm, pfl, vperm)
            | _ -> ())
         | _ -> ()
       done;
       List.iter (fun (m, mv) ->
           let name = Printf.sprintf "mut.%d" m in
           let t = int_of_string (List.nth mv 0) and kind = List.nth mv 1 in
           let args = List.tl (List.tl mv) in
           let arg i = List.nth args i in
           if t < nops && has c (Printf.sprintf "mchal.%d" m) then begin
             let mchal = fs_of c (Printf.sprintf "mchal.%d" m) in
             let mh = tape_of (Printf.sprintf "mhchal.%d" m) in
             let cms = Array.init n (fun i -> (fst cs.(i), lps.(i).Marlin.lp_bound)) in
             match recs.(t) with
             | Some (pj, sel, values, pf) ->
               let pj = ref pj and sel = ref sel and values = ref values and pf = ref pf and ok = ref true in
               let one = tof Z.one in
               (match kind with
                | "value" -> let kk = int_of_string (arg 0) in
                  if kk < List.length !values then values := List.mapi (fun i v -> if i = kk then fo.Field.fadd v (f_of_str (arg 1)) else v) !values else ok := false
                | "point" -> pj := int_of_string (arg 0)
                | "comm_swap" -> let i = int_of_string (arg 0) and j = int_of_string (arg 1) in cms.(i) <- (fst cs.(j), snd cms.(i))
                | "sponge_pre" -> ()
                | "drop_poly" -> let kk = int_of_string (arg 0) in
                  if kk < List.length !sel then begin
                    sel := List.filteri (fun i _ -> i <> kk) !sel; values := List.filteri (fun i _ -> i <> kk) !values end else ok := false
                | "comm_mut" ->
                  let i = int_of_string (arg 0) in
                  let (ic, b) = cms.(i) in
                  (match arg 1 with
                   | "drop_shifted" when ic.IPA.ic_shifted <> None -> cms.(i) <- ({ ic with IPA.ic_shifted = None }, None)
                   | "relabel_bound" when b <> None -> cms.(i) <- (ic, Some (nat_of_int (int_of_string (arg 2))))
                   | "add_bound" when b = None -> cms.(i) <- (ic, Some (nat_of_int (int_of_string (arg 2))))
                   | _ -> ok := false)
                | ("proof_mut" | "proof_mut_v") ->
                  let p = !pf in
                  let droplast l = List.rev (List.tl (List.rev l)) in
                  (match arg 0 with
                   | "c_tamper" -> pf := { p with IPA.ip_c = fo.Field.fadd p.IPA.ip_c one }
                   | "drop_round" when p.IPA.ip_l <> [] -> pf := { p with IPA.ip_l = droplast p.IPA.ip_l; ip_r = droplast p.IPA.ip_r }
                   | "extra_round_identity" -> pf := { p with IPA.ip_l = p.IPA.ip_l @ [ [] ]; ip_r = p.IPA.ip_r @ [ [] ] }
                   | "rand_tamper" -> (match p.IPA.ip_rand with Some r -> pf := { p with IPA.ip_rand = Some (fo.Field.fadd r one) } | None -> ok := false)
                   | "hiding_drop" when p.IPA.ip_hcomm <> None -> pf := { p with IPA.ip_hcomm = None; ip_rand = None }
                   | _ -> ok := false);
                  if kind = "proof_mut_v" && !ok then
                    values := (match !values with v :: tl -> fo.Field.fadd v one :: tl | [] -> [])
                | _ -> ok := false);
               if !ok then
                 obs1 name "S" (decision (match IPA.i_check fo dn (List.map (fun i -> cms.(i)) !sel) pts.(!pj) !values !pf mchal mh with
                     | Result.Ok ((b, _), _) -> Result.Ok b | Result.Err e -> Result.Err e | Result.Panic -> Result.Panic))
             | None ->
               (match brecs.(t) with
                | Some (tr3, pfl, vperm) ->
                  let tr3 = ref tr3 and pfl = ref pfl and vperm = ref vperm and ok = ref true in
                  let deltas = ref [] and drop = ref None in
                  (match kind with
                   | "value" -> deltas := [ (int_of_string (arg 0), f_of_str (arg 1)) ]
                   | "cancel" -> let dd = f_of_str (arg 2) in
                     deltas := [ (int_of_string (arg 0), dd); (int_of_string (arg 1), fo.Field.fopp dd) ]
                   | "comm_swap" -> let i = int_of_string (arg 0) and j = int_of_string (arg 1) in cms.(i) <- (fst cs.(j), snd cms.(i))
                   | "proofs" ->
                     let a () = int_of_string (arg 1) and b () = int_of_string (arg 2) in
                     let len = List.length !pfl in
                     (match arg 0 with
                      | "perm" -> if a () < len && b () < len then begin
                          let x = List.nth !pfl (a ()) and y = List.nth !pfl (b ()) in
                          pfl := List.mapi (fun i p -> if i = a () then y else if i = b () then x else p) !pfl end else ok := false
                      | "trunc" -> if a () < len then pfl := List.filteri (fun i _ -> i < a ()) !pfl else ok := false
                      | "dup" -> if a () < len && b () < len then begin
                          let x = List.nth !pfl (a ()) in pfl := List.mapi (fun i p -> if i = b () then x else p) !pfl end else ok := false
                      | "empty" -> pfl := []
                      | "extend" -> if len > 0 then pfl := !pfl @ [ List.nth !pfl (len - 1) ] else ok := false
                      | _ -> ok := false)
                   | "sponge_pre" -> ()
                   | "vperm" -> vperm := List.map int_of_string args
                   | "drop_query" -> let kk = int_of_string (arg 0) in
                     if kk < List.length !tr3 then tr3 := List.filteri (fun i _ -> i <> kk) !tr3 else ok := false
                   | "drop_eval" -> drop := Some (int_of_string (arg 0))
                   | "drop_comm" -> let i = int_of_string (arg 0) in vperm := List.filter (fun x -> x <> i) !vperm
                   | _ -> ok := false);
                  if !ok then begin
                    let (qs, evm0) = ipa_qs_ev !tr3 [] None in
                    let nk = List.length evm0 in
                    if List.exists (fun (kk, _) -> kk >= nk) !deltas || (match !drop with Some kk -> kk >= nk | None -> false) then ()
                    else begin
                      let (_, evm) = ipa_qs_ev !tr3 !deltas !drop in
                      let cml = List.map (fun i -> (lps.(i).Marlin.lp_label, cms.(i))) !vperm in
                      obs1 name "S" (decision (match IPABatch.i_batch_check fo dn cml qs evm !pfl mchal mh (tape_of (Printf.sprintf "vtape.%d" t)) with
                          | Result.Ok (((b, _), _), _) -> Result.Ok b | Result.Err e -> Result.Err e | Result.Panic -> Result.Panic))
                    end
                  end
                | None ->
                  (match lrecs.(t) with
                   | Some (lcs0, qs, evm0, pfl, vperm) ->
                  let lcs = ref lcs0 and pfl = ref pfl and ok = ref true and deltas = ref [] in
                  let upd kk f = lcs := List.mapi (fun i (lb, terms) -> if i = kk then (lb, f terms) else (lb, terms)) !lcs in
                  (match kind with
                   | "value" -> deltas := [ (int_of_string (arg 0), f_of_str (arg 1)) ]
                   | "coeff" -> let kk = int_of_string (arg 0) and tk = int_of_string (arg 1) in
                     if kk < List.length !lcs && tk < List.length (snd (List.nth !lcs kk)) then
                       upd kk (List.mapi (fun i (co, tm) -> if i = tk then (fo.Field.fadd co (f_of_str (arg 2)), tm) else (co, tm)))
                     else ok := false
                   | "const" -> let kk = int_of_string (arg 0) in
                     if kk < List.length !lcs then upd kk (fun terms -> terms @ [ (f_of_str (arg 1), LC.TOne) ]) else ok := false
                   | "comm_swap" -> let i = int_of_string (arg 0) and j = int_of_string (arg 1) in cms.(i) <- (fst cs.(j), snd cms.(i))
                   | "proofs" ->
                     let len = List.length !pfl in
                     (match arg 0 with
                      | "empty" -> pfl := []
                      | "trunc" -> let kk = int_of_string (arg 1) in if kk < len then pfl := List.filteri (fun i _ -> i < kk) !pfl else ok := false
                      | "extend" -> if len > 0 then pfl := !pfl @ [ List.nth !pfl (len - 1) ] else ok := false
                      | _ -> ok := false)
                   | "sponge_pre" -> ()
                   | _ -> ok := false);
                  if !ok then begin
                    let nk = List.length evm0 in
                    if List.exists (fun (kk, _) -> kk >= nk) !deltas then ()
                    else begin
                      let evm = List.mapi (fun idx (kx, v) -> (kx, List.fold_left (fun acc (kk, d) -> if kk = idx then fo.Field.fadd acc d else acc) v !deltas)) evm0 in
                      let cml = List.map (fun i -> (lps.(i).Marlin.lp_label, cms.(i))) vperm in
                      obs1 name "S" (decision (match IPABatch.i_check_combinations fo dn !lcs cml qs evm !pfl mchal mh (tape_of (Printf.sprintf "vtape.%d" t)) with
                          | Result.Ok (((b, _), _), _) -> Result.Ok b | Result.Err e -> Result.Err e | Result.Panic -> Result.Panic))
                    end
                  end
                   | None -> ()))
           end)
         (indexed c "mut")
     | _ -> ())
  | r -> obs1 "trim" "S" (class_of r)

(* ---------------- PST13 (trait-level flow, free module over (g, gamma_g, G)) ---------------- *)
let mpoly_of_toks (toks : string list) : (Field.coq_F * (Datatypes.nat * Datatypes.nat) list) list =
  if toks = [ "-" ] then [] else begin
    let a = Array.of_list toks in
    let n = Array.length a in
    let rec go i acc =
      if i >= n then List.rev acc
      else begin
        let coeff = f_of_str a.(i) in
        let k = int_of_string a.(i + 1) in
        let t = List.init k (fun j -> (nat_of_int (int_of_string a.(i + 2 + 2 * j)), nat_of_int (int_of_string a.(i + 3 + 2 * j)))) in
        go (i + 2 + 2 * k) ((coeff, t) :: acc)
      end in
    go 0 []
  end

(* canonical text of a sparse polynomial: like terms merged, zero coefficients dropped, sorted *)
let mpoly_canon (p : (Field.coq_F * (Datatypes.nat * Datatypes.nat) list) list) : string list =
  let tbl = Hashtbl.create 16 in
  List.iter (fun (c, t) ->
      let mon = String.concat "*" (List.map (fun (v, e) -> Printf.sprintf "%d^%d" (int_of_nat v) (int_of_nat e))
                                     (List.sort compare (List.map (fun (v, e) -> (v, e)) t))) in
      let cur = try Hashtbl.find tbl mon with Not_found -> Z.zero in
      Hashtbl.replace tbl mon (Z.erem (Z.add cur (ofz c)) !modulus)) p;
  let l = Hashtbl.fold (fun m c acc -> if Z.equal c Z.zero then acc else (m, Z.to_string c) :: acc) tbl [] in
  let l = List.sort compare l in
  if l = [] then [ "zero" ] else List.map (fun (m, c) -> c ^ ":" ^ m) l

let run_pc_pst13 c =
  let fo = fo () in
  if not (has c "betas") then () else begin
    let nv = int1 c "key_nv" and s = int1 c "supported_degree" in
    let nvn = nat_of_int nv and sn = nat_of_int s in
    let betas = if get c "betas" = [ "-" ] then [] else fs_of c "betas" in
    let n = int1 c "n" in
    let polys = Array.init n (fun i -> mpoly_of_toks (get c (Printf.sprintf "cpoly.%d" i))) in
    let tape = ref (if has c "ctape" then fs_of c "ctape" else []) in
    let with_rng = str1 c "commit_rng" = "some" in
    let res = Array.make n None and ok = ref true and cls = ref "ok" and draws = ref 0 in
    Array.iteri (fun i p ->
        if !ok then begin
          let hiding = opt_nat (str1 c (Printf.sprintf "hiding.%d" i)) in
          match PST13H.ph_commit1 fo nvn sn betas p hiding (if with_rng then Some !tape else None) with
          | Result.Ok ((cm, st), k) ->
            let k = int_of_nat k in
            res.(i) <- Some (cm, st); draws := !draws + k;
            tape := List.filteri (fun j _ -> j >= k) !tape
          | r -> ok := false; cls := class_of r
        end) polys;
    obs1 "commit" "S" !cls;
    if !ok then begin
      obs1 "commit_draws" "N" (string_of_int !draws);
      let cs = Array.map (function Some x -> x | None -> assert false) res in
      Array.iteri (fun i (cm, st) ->
          obs (Printf.sprintf "c.%d" i) "L:pbasis" [ gv_tok cm ];
          obs (Printf.sprintf "blind.%d" i) "S" (match st with Some b -> mpoly_canon b | None -> [ "zero" ])) cs;
      let npts = int1 c "npts" in
      let pts = Array.init npts (fun j -> fs_of c (Printf.sprintf "pt.%d" j)) in
      let nops = int1 c "nops" in
      let recs = Array.make nops None in
      let tape_of k = if has c k then fs_of c k else [] in
      let brecs = Array.make nops None in
      let lrecs = Array.make nops None in
      let lab i = nlabel (int1 c (Printf.sprintf "label.%d" i)) in
      let cmpz a b = Z.compare (ofz a) (ofz b) in
      let rec cmpl a b = match a, b with [], [] -> 0 | [], _ -> -1 | _, [] -> 1 | x :: a', y :: b' -> let r = cmpz x y in if r <> 0 then r else cmpl a' b' in
      let pst_qs_ev tr3 deltas drop =
        let qs = List.sort_uniq (fun (l1, (p1, z1)) (l2, (p2, z2)) ->
            let r = Z.compare l1 l2 in if r <> 0 then r else let r = Z.compare p1 p2 in if r <> 0 then r else cmpl z1 z2)
            (List.map (fun (i, zl, pj) -> (lab i, (nlabel zl, pts.(pj)))) tr3) in
        let tbl = Hashtbl.create 16 in
        List.iter (fun (i, _, pj) -> Hashtbl.replace tbl (Z.to_string (lab i) ^ "@" ^ String.concat "," (fs_to pts.(pj)))
                      ((lab i, pts.(pj)), PST13.eval_mpoly fo pts.(pj) polys.(i))) tr3;
        let ev = Hashtbl.fold (fun _ v acc -> v :: acc) tbl [] in
        let evm = List.sort (fun ((l1, z1), _) ((l2, z2), _) -> let r = Z.compare l1 l2 in if r <> 0 then r else cmpl z1 z2) ev in
        let evm = List.mapi (fun idx (kx, v) -> (kx, List.fold_left (fun acc (kk, dd) -> if kk = idx then fo.Field.fadd acc dd else acc) v deltas)) evm in
        let evm = match drop with Some kk -> List.filteri (fun idx _ -> idx <> kk) evm | None -> evm in
        (qs, evm) in
      let chk cml z values pf chal = match PST13H.ph_check fo nvn betas cml z values pf chal with
        | Result.Ok (b, _) -> Result.Ok b | Result.Err e -> Result.Err e | Result.Panic -> Result.Panic in
      for t = 0 to nops - 1 do
        let k x = Printf.sprintf "%s.%d" x t in
        match get c (k "op") with
        | "single" :: pj :: sel ->
          let pj = int_of_string pj and sel = List.map int_of_string sel in
          let z = pts.(pj) in
          let items = List.map (fun i -> (polys.(i), snd cs.(i))) sel in
          let op = PST13H.ph_open fo nvn sn betas items z (tape_of (k "chal")) in
          obs1 (k "open") "S" (class_of op);
          (match op with
           | Result.Ok (pf, _) ->
             obs (Printf.sprintf "pf.%d.w" t) "L:pbasis" (dash (List.map gv_tok pf.PST13H.pp_w));
             obs1 (Printf.sprintf "pf.%d.rv" t) "F" (match pf.PST13H.pp_rv with Some r -> f_to_str r | None -> "none");
             let values = List.map (fun i -> PST13.eval_mpoly fo z polys.(i)) sel in
             obs (k "evals") "F" (fs_to values);
             obs1 (k "check") "S" (decision (chk (List.map (fun i -> fst cs.(i)) sel) z values pf (tape_of (k "vchal"))));
             recs.(t) <- Some (pj, sel, values, pf)
           | _ -> ())
        | [ "batch"; sq ] ->
          let chal = tape_of (k "chal") and vchal = tape_of (k "vchal") in
          let tr3 = triples3 (get c ("qs." ^ sq)) in
          let ident = List.init n (fun i -> i) in
          let pperm = if has c (k "pperm") then List.map int_of_string (get c (k "pperm")) else ident in
          let vperm = if has c (k "vperm") then List.map int_of_string (get c (k "vperm")) else ident in
          let (qs, evm) = pst_qs_ev tr3 [] None in
          obs (k "evals") "F" (fs_to (List.map snd evm));
          let items = List.map (fun i -> (lab i, (polys.(i), snd cs.(i)))) pperm in
          let r = PST13Batch.pst_batch_open fo nvn sn betas items qs chal in
          obs1 (k "open") "S" (class_of r);
          (match r with
           | Result.Ok (pfl, _) ->
             obs1 (k "nproofs") "N" (string_of_int (List.length pfl));
             List.iteri (fun g pf ->
                 obs (Printf.sprintf "pf.%d.%d.w" t g) "L:pbasis" (dash (List.map gv_tok pf.PST13H.pp_w));
                 obs1 (Printf.sprintf "pf.%d.%d.rv" t g) "F" (match pf.PST13H.pp_rv with Some r -> f_to_str r | None -> "none")) pfl;
             let cml = List.map (fun i -> (lab i, fst cs.(i))) vperm in
             (match PST13Batch.pst_batch_check fo nvn betas cml qs evm pfl vchal (tape_of (k "vtape")) with
              | Result.Ok ((b, _), draws) ->
                obs1 (k "check") "S" (if b then "accept" else "reject");
                obs1 (k "check_draws") "N" (string_of_int (int_of_nat draws))
              | _ -> obs1 (k "check") "S" "refused");
             brecs.(t) <- Some (tr3, pfl, vperm)
           | _ -> ())
        | [ "lc"; sq; ls ] ->
          let chal = tape_of (k "chal") and vchal = tape_of (k "vchal") in
          let ident = List.init n (fun i -> i) in
          let pperm = if has c (k "pperm") then List.map int_of_string (get c (k "pperm")) else ident in
          let vperm = if has c (k "vperm") then List.map int_of_string (get c (k "vperm")) else ident in
          let lcs = List.map (fun (_, v) ->
              let lb = nlabel (int_of_string (List.nth v 0)) in
              let rec go = function
                | co :: tm :: r -> (f_of_str co, (if tm = "one" then LC.TOne else LC.TPoly (lab (int_of_string tm)))) :: go r
                | _ -> [] in
              (lb, go (List.tl (List.tl v)))) (indexed c ("lcs." ^ sq)) in
          let lcarr = Array.of_list lcs in
          let tr3 = triples3 (get c ("lqs." ^ ls)) in
          let idx_of_label l = let rec f i = if i >= n then 0 else if Z.equal (lab i) l then i else f (i + 1) in f 0 in
          let lc_value (_, terms) z = List.fold_left (fun acc (co, tm) ->
              fo.Field.fadd acc (match tm with
                  | LC.TOne -> co
                  | LC.TPoly l -> fo.Field.fmul co (PST13.eval_mpoly fo z polys.(idx_of_label l)))) (tof Z.zero) terms in
          let qs = List.sort_uniq (fun (l1, (p1, z1)) (l2, (p2, z2)) ->
              let r = Z.compare l1 l2 in if r <> 0 then r else let r = Z.compare p1 p2 in if r <> 0 then r else cmpl z1 z2)
              (List.map (fun (kk, zl, pj) -> (fst lcarr.(kk), (nlabel zl, pts.(pj)))) tr3) in
          let tbl = Hashtbl.create 16 in
          List.iter (fun (kk, _, pj) -> Hashtbl.replace tbl (Z.to_string (fst lcarr.(kk)) ^ "@" ^ String.concat "," (fs_to pts.(pj)))
                        ((fst lcarr.(kk), pts.(pj)), lc_value lcarr.(kk) pts.(pj))) tr3;
          let evm = List.sort (fun ((l1, z1), _) ((l2, z2), _) -> let r = Z.compare l1 l2 in if r <> 0 then r else cmpl z1 z2)
              (Hashtbl.fold (fun _ v acc -> v :: acc) tbl []) in
          obs (k "evals") "F" (fs_to (List.map snd evm));
          let items = List.map (fun i -> (lab i, ((polys.(i), snd cs.(i)), fst cs.(i)))) pperm in
          let r = PST13Batch.pst_open_combinations fo nvn sn betas lcs items qs chal in
          obs1 (k "open") "S" (class_of r);
          (match r with
           | Result.Ok (pfl, _) ->
             obs1 (k "nproofs") "N" (string_of_int (List.length pfl));
             obs1 (k "lc_evals") "F" "none";
             List.iteri (fun g pf ->
                 obs (Printf.sprintf "pf.%d.%d.w" t g) "L:pbasis" (dash (List.map gv_tok pf.PST13H.pp_w));
                 obs1 (Printf.sprintf "pf.%d.%d.rv" t g) "F" (match pf.PST13H.pp_rv with Some r -> f_to_str r | None -> "none")) pfl;
             let cml = List.map (fun i -> (lab i, fst cs.(i))) vperm in
             (match PST13Batch.pst_check_combinations fo nvn betas lcs cml qs evm pfl vchal (tape_of (k "vtape")) with
              | Result.Ok ((b, _), draws) ->
                obs1 (k "check") "S" (if b then "accept" else "reject");
                obs1 (k "check_draws") "N" (string_of_int (int_of_nat draws))
              | _ -> obs1 (k "check") "S" "refused");
             lrecs.(t) <- Some (lcs, qs, evm, pfl, vperm)
           | _ -> ())
        | _ -> ()
      done;
      List.iter (fun (m, mv) ->
          let name = Printf.sprintf "mut.%d" m in
          let t = int_of_string (List.nth mv 0) and kind = List.nth mv 1 in
          let args = List.tl (List.tl mv) in
          let arg i = List.nth args i in
          if t < nops && has c (Printf.sprintf "mchal.%d" m) then begin
            let mchal = fs_of c (Printf.sprintf "mchal.%d" m) in
            let cma = Array.init n (fun i -> fst cs.(i)) in
            match recs.(t) with
            | Some (pj, sel, values, pf) ->
              let pj = ref pj and sel = ref sel and values = ref values and pf = ref pf and ok = ref true in
              let one = tof Z.one and zero = tof Z.zero in
              (match kind with
               | "value" -> let kk = int_of_string (arg 0) in
                 if kk < List.length !values then values := List.mapi (fun i v -> if i = kk then fo.Field.fadd v (f_of_str (arg 1)) else v) !values else ok := false
               | "point" -> pj := int_of_string (arg 0)
               | "comm_swap" -> let i = int_of_string (arg 0) and j = int_of_string (arg 1) in cma.(i) <- fst cs.(j)
               | "drop_poly" -> let kk = int_of_string (arg 0) in
                 if kk < List.length !sel then begin
                   sel := List.filteri (fun i _ -> i <> kk) !sel; values := List.filteri (fun i _ -> i <> kk) !values end else ok := false
               | "sponge_pre" -> ()
               | "proof_mut" | "proof_mut_v" ->
                 let w = !pf.PST13H.pp_w and rv = !pf.PST13H.pp_rv in
                 let j = (try int_of_string (arg 1) with _ -> 0) in
                 let gstd f = [ zero; zero; f ] in
                 (match arg 0 with
                  | "w_tamper" -> if w = [] then ok := false else
                      let kk = j mod List.length w in
                      pf := { PST13H.pp_w = List.mapi (fun i x -> if i = kk then gstd (f_of_str (arg 2)) else x) w; pp_rv = rv }
                  | "w_shorter" -> if w = [] then ok := false else pf := { PST13H.pp_w = List.rev (List.tl (List.rev w)); pp_rv = rv }
                  | "w_longer" -> pf := { PST13H.pp_w = w @ [ gstd (f_of_str (arg 2)) ]; pp_rv = rv }
                  | "w_swap" -> if List.length w < 2 then ok := false else begin
                      let kk = j mod (List.length w - 1) in
                      let a = List.nth w kk and b = List.nth w (kk + 1) in
                      if gv_tok (IPA.gvsub fo a b) = gv_tok [] || IPA.gvzero fo (IPA.gvsub fo a b) then ok := false
                      else pf := { PST13H.pp_w = List.mapi (fun i x -> if i = kk then b else if i = kk + 1 then a else x) w; pp_rv = rv } end
                  | "rv" -> (match rv with Some r -> pf := { PST13H.pp_w = w; pp_rv = Some (fo.Field.fadd r one) } | None -> ok := false)
                  | "rv_drop" -> (match rv with Some _ -> pf := { PST13H.pp_w = w; pp_rv = None } | None -> ok := false)
                  | _ -> ok := false);
                 if kind = "proof_mut_v" && !ok then
                   values := (match !values with v :: tl -> fo.Field.fadd v one :: tl | [] -> [])
               | _ -> ok := false);
              if !ok then
                obs1 name "S" (decision (chk (List.map (fun i -> cma.(i)) !sel) pts.(!pj) !values !pf mchal))
            | None ->
              (match brecs.(t) with
               | Some (tr3, pfl, vperm) ->
                 let tr3 = ref tr3 and pfl = ref pfl and vperm = ref vperm and ok = ref true in
                 let deltas = ref [] and drop = ref None in
                 (match kind with
                  | "value" -> deltas := [ (int_of_string (arg 0), f_of_str (arg 1)) ]
                  | "cancel" -> let dd = f_of_str (arg 2) in
                    deltas := [ (int_of_string (arg 0), dd); (int_of_string (arg 1), fo.Field.fopp dd) ]
                  | "comm_swap" -> let i = int_of_string (arg 0) and j = int_of_string (arg 1) in cma.(i) <- fst cs.(j)
                  | "proofs" ->
                    let a () = int_of_string (arg 1) and b () = int_of_string (arg 2) in
                    let len = List.length !pfl in
                    (match arg 0 with
                     | "perm" -> if a () < len && b () < len then begin
                         let x = List.nth !pfl (a ()) and y = List.nth !pfl (b ()) in
                         pfl := List.mapi (fun i p -> if i = a () then y else if i = b () then x else p) !pfl end else ok := false
                     | "trunc" -> if a () < len then pfl := List.filteri (fun i _ -> i < a ()) !pfl else ok := false
                     | "dup" -> if a () < len && b () < len then begin
                         let x = List.nth !pfl (a ()) in pfl := List.mapi (fun i p -> if i = b () then x else p) !pfl end else ok := false
                     | "empty" -> pfl := []
                     | "extend" -> if len > 0 then pfl := !pfl @ [ List.nth !pfl (len - 1) ] else ok := false
                     | _ -> ok := false)
                  | "sponge_pre" -> ()
                  | "vperm" -> vperm := List.map int_of_string args
                  | "drop_query" -> let kk = int_of_string (arg 0) in
                    if kk < List.length !tr3 then tr3 := List.filteri (fun i _ -> i <> kk) !tr3 else ok := false
                  | "drop_eval" -> drop := Some (int_of_string (arg 0))
                  | "drop_comm" -> let i = int_of_string (arg 0) in vperm := List.filter (fun x -> x <> i) !vperm
                  | _ -> ok := false);
                 if !ok then begin
                   let (qs, evm0) = pst_qs_ev !tr3 [] None in
                   let nk = List.length evm0 in
                   if List.exists (fun (kk, _) -> kk >= nk) !deltas || (match !drop with Some kk -> kk >= nk | None -> false) then ()
                   else begin
                     let (_, evm) = pst_qs_ev !tr3 !deltas !drop in
                     let cml = List.map (fun i -> (lab i, cma.(i))) !vperm in
                     obs1 name "S" (decision (match PST13Batch.pst_batch_check fo nvn betas cml qs evm !pfl mchal (tape_of (Printf.sprintf "vtape.%d" t)) with
                         | Result.Ok ((b, _), _) -> Result.Ok b | Result.Err e -> Result.Err e | Result.Panic -> Result.Panic))
                   end
                 end
               | None ->
                 (match lrecs.(t) with
                  | Some (lcs0, qs, evm0, pfl, vperm) ->
                  let lcs = ref lcs0 and pfl = ref pfl and ok = ref true and deltas = ref [] in
                  let upd kk f = lcs := List.mapi (fun i (lb, terms) -> if i = kk then (lb, f terms) else (lb, terms)) !lcs in
                  (match kind with
                   | "value" -> deltas := [ (int_of_string (arg 0), f_of_str (arg 1)) ]
                   | "coeff" -> let kk = int_of_string (arg 0) and tk = int_of_string (arg 1) in
                     if kk < List.length !lcs && tk < List.length (snd (List.nth !lcs kk)) then
                       upd kk (List.mapi (fun i (co, tm) -> if i = tk then (fo.Field.fadd co (f_of_str (arg 2)), tm) else (co, tm)))
                     else ok := false
                   | "const" -> let kk = int_of_string (arg 0) in
                     if kk < List.length !lcs then upd kk (fun terms -> terms @ [ (f_of_str (arg 1), LC.TOne) ]) else ok := false
                   | "comm_swap" -> let i = int_of_string (arg 0) and j = int_of_string (arg 1) in cma.(i) <- fst cs.(j)
                   | "proofs" ->
                     let len = List.length !pfl in
                     (match arg 0 with
                      | "empty" -> pfl := []
                      | "trunc" -> let kk = int_of_string (arg 1) in if kk < len then pfl := List.filteri (fun i _ -> i < kk) !pfl else ok := false
                      | "extend" -> if len > 0 then pfl := !pfl @ [ List.nth !pfl (len - 1) ] else ok := false
                      | _ -> ok := false)
                   | "sponge_pre" -> ()
                   | _ -> ok := false);
                  if !ok then begin
                    let nk = List.length evm0 in
                    if List.exists (fun (kk, _) -> kk >= nk) !deltas then ()
                    else begin
                      let evm = List.mapi (fun idx (kx, v) -> (kx, List.fold_left (fun acc (kk, d) -> if kk = idx then fo.Field.fadd acc d else acc) v !deltas)) evm0 in
                      let cml = List.map (fun i -> (lab i, cma.(i))) vperm in
                      obs1 name "S" (decision (match PST13Batch.pst_check_combinations fo nvn betas !lcs cml qs evm !pfl mchal (tape_of (Printf.sprintf "vtape.%d" t)) with
                          | Result.Ok ((b, _), _) -> Result.Ok b | Result.Err e -> Result.Err e | Result.Panic -> Result.Panic))
                    end
                  end
                  | None -> ()))
          end)
        (indexed c "mut")
    end
  end

(* ---------------- linear codes (Ligero univariate / multilinear, Brakedown): trait-level flows on the threaded transcript ---------------- *)
let run_pc_lincode c =
  let fo = fo () in
  let scheme = str1 c "scheme" in
  if has c "dims.0" && has c "wf" then begin
    obs1 "commit" "S" "ok";
    let n = int1 c "n" in
    let wf = int1 c "wf" = 1 in
    let nn = nat_of_int in
    let undash k = let v = get c k in if v = [ "-" ] then [] else v in
    let bd = scheme = "brakedown_ml" and uni = scheme = "ligero_uni" in
    let dims = Array.init n (fun i -> match List.map int_of_string (get c (Printf.sprintf "dims.%d" i)) with [ a; b; cc ] -> (a, b, cc) | _ -> failwith "dims") in
    let usable = ref true in
    let enc = Array.init n (fun i ->
        let (_, _, ne) = dims.(i) in
        if bd then begin
          let g = List.map (fun (_, row) -> if row = [ "none" ] then (usable := false; []) else List.map f_of_str row) (indexed c (Printf.sprintf "G.%d" i)) in
          Ligero.mat_enc fo g (nn ne)
        end else begin
          let o = str1 c (Printf.sprintf "omega.%d" i) in
          if o = "none" then (usable := false; fun x -> x) else Ligero.encode fo (f_of_str o) (nn ne)
        end) in
    if !usable then begin
      let rows = Array.init n (fun i -> let (nr, nc, _) = dims.(i) in Ligero.lig_matrix fo (nn nr) (nn nc) (List.map f_of_str (undash (Printf.sprintf "coeffs.%d" i)))) in
      let cm = Array.init n (fun i ->
          let (nr, nc, ne) = dims.(i) in
          { LinCodeList.cm_enc = enc.(i); cm_n_rows = nn nr; cm_n_cols = nn nc; cm_n_ext = nn ne; cm_cext = List.map enc.(i) rows.(i);
            cm_t = (match str1 c (Printf.sprintf "t.%d" i) with "err" -> Result.Err Result.EInvalidParameters | k -> Result.Ok (nn (int_of_string k))) }) in
      let tensor pt nc nr = if uni then (match pt with [ z ] -> Result.Ok (Ligero.tensor_uni fo z nc nr) | _ -> Result.Panic) else Ligero.tensor_ml fo pt nc in
      let npts = int1 c "npts" in
      let pts = Array.init npts (fun j -> List.map f_of_str (undash (Printf.sprintf "ptvec.%d" j))) in
      (* the points as the query sets order them (the library's own point type) *)
      let qpts = Array.init npts (fun j -> fs_of c (Printf.sprintf "pt.%d" j)) in
      let value_of i j = match tensor pts.(j) cm.(i).LinCodeList.cm_n_cols cm.(i).LinCodeList.cm_n_rows with
        | Result.Ok (a, b) -> (match Ligero.row_mul fo rows.(i) cm.(i).LinCodeList.cm_n_cols b with Result.Ok v -> Ligero.ip fo v a | _ -> tof Z.zero)
        | _ -> tof Z.zero in
      let rec split k l = if k = 0 then ([], l) else (match l with x :: t -> let (a, b) = split (k - 1) t in (x :: a, b) | [] -> ([], [])) in
      let parse_events key =
        if not (has c key) then [] else
          let rec go = function
            | [] | [ "-" ] -> []
            | "F" :: k :: rest -> let (a, b) = split (int_of_string k) rest in LinCodeList.SqF (List.map f_of_str a) :: go b
            | "B" :: k :: rest -> let (a, b) = split (int_of_string k) rest in LinCodeList.SqB (List.map Z.of_string a) :: go b
            | _ -> failwith "events" in
          go (get c key) in
      let nfield evs = List.fold_left (fun acc e -> match e with LinCodeList.SqF l -> acc + List.length l | _ -> acc) 0 evs in
      let emit_pf name pfs =
        obs1 (name ^ ".n") "N" (string_of_int (List.length pfs));
        List.iteri (fun i pf ->
            let k x = Printf.sprintf "%s.%d.%s" name i x in
            obs (k "v") "F" (dash (fs_to pf.Ligero.lf_v));
            obs (k "wf") "F" (match pf.Ligero.lf_wf with Some w -> dash (fs_to w) | None -> [ "none" ]);
            obs (k "leaf_idx") "N" (dash (List.map (fun p -> string_of_int (int_of_nat p.Ligero.lpt_index)) pf.Ligero.lf_paths));
            obs (k "col_lens") "N" (dash (List.map (fun col -> string_of_int (List.length col)) pf.Ligero.lf_cols));
            obs (k "cols") "F" (dash (List.concat_map fs_to pf.Ligero.lf_cols))) pfs in
      (* a proof array handed over as sent: intact i = are the paths of inner proof i authentic *)
      let read_pf prefix intact =
        let cnt = int1 c (prefix ^ ".n") in
        List.init cnt (fun i ->
            let q x = Printf.sprintf "%s.%d.%s" prefix i x in
            let lens = List.map int_of_string (undash (q "col_lens")) in
            let flat = ref (List.map f_of_str (undash (q "cols"))) in
            let cols = List.map (fun len -> let (h, t) = split len !flat in flat := t; h) lens in
            let wfv = let v = get c (q "wf") in if v = [ "none" ] then None else Some (List.map f_of_str (if v = [ "-" ] then [] else v)) in
            { Ligero.lf_paths = List.map (fun s -> { Ligero.lpt_index = nn (int_of_string s); Ligero.lpt_intact = intact i }) (undash (q "leaf_idx"));
              Ligero.lf_v = List.map f_of_str (undash (q "v")); Ligero.lf_cols = cols; Ligero.lf_wf = wfv }) in
      let lc_open items pt tape = LinCodeList.lc_open_list fo tensor wf items pt tape in
      let lc_check cms pt vals pfs tape = LinCodeList.lc_check_list fo tensor wf cms pt vals pfs tape in
      let dec r = decision (match r with Result.Ok (b, _) -> Result.Ok b | Result.Err e -> Result.Err e | Result.Panic -> Result.Panic) in
      let lab i = nlabel (int1 c (Printf.sprintf "label.%d" i)) in
      let cmpz a b = Z.compare (ofz a) (ofz b) in
      let rec cmpl a b = match a, b with [], [] -> 0 | [], _ -> -1 | _, [] -> 1 | x :: a', y :: b' -> let r = cmpz x y in if r <> 0 then r else cmpl a' b' in
      (* the model's point of a query is the point vector; the ORDER of queries and evaluations is the order of the library's point type *)
      let pt_index = Hashtbl.create 8 in
      Array.iteri (fun j q -> Hashtbl.replace pt_index (String.concat "," (fs_to q)) j) qpts;
      let qs_ev tr3 newpt deltas drop =
        let usept pj = match newpt with Some (o, nw) when o = pj -> nw | _ -> pj in
        let qs = List.sort_uniq (fun (l1, (p1, z1)) (l2, (p2, z2)) ->
            let r = Z.compare l1 l2 in if r <> 0 then r else let r = Z.compare p1 p2 in if r <> 0 then r else cmpl z1 z2)
            (List.map (fun (i, zl, pj) -> (lab i, (nlabel zl, qpts.(usept pj)))) tr3) in
        let tbl = Hashtbl.create 16 in
        List.iter (fun (i, _, pj) -> Hashtbl.replace tbl (Z.to_string (lab i) ^ "@" ^ String.concat "," (fs_to qpts.(usept pj)))
                      ((lab i, qpts.(usept pj)), value_of i pj)) tr3;
        let ev = Hashtbl.fold (fun _ v acc -> v :: acc) tbl [] in
        let evm = List.sort (fun ((l1, z1), _) ((l2, z2), _) -> let r = Z.compare l1 l2 in if r <> 0 then r else cmpl z1 z2) ev in
        let evm = List.mapi (fun idx (kx, v) -> (kx, List.fold_left (fun acc (kk, d) -> if kk = idx then fo.Field.fadd acc d else acc) v deltas)) evm in
        let evm = match drop with Some kk -> List.filteri (fun idx _ -> idx <> kk) evm | None -> evm in
        (qs, evm) in
      (* the functor works on the library's points; the scheme's functions get the point vector of that point *)
      let vec_of q = match Hashtbl.find_opt pt_index (String.concat "," (fs_to q)) with Some j -> pts.(j) | None -> q in
      let f_open items q tape = lc_open items (vec_of q) tape in
      let f_check cms q vals pfs tape = lc_check cms (vec_of q) vals pfs tape in
      let nops = int1 c "nops" in
      let recs = Array.make nops None in
      for t = 0 to nops - 1 do
        let k x = Printf.sprintf "%s.%d" x t in
        let ptape = parse_events (k "psq") and vtape = parse_events (k "vsq") in
        let ident = List.init n (fun i -> i) in
        let pperm = if has c (k "pperm") then List.map int_of_string (get c (k "pperm")) else ident in
        let vperm = if has c (k "vperm") then List.map int_of_string (get c (k "vperm")) else ident in
        match get c (k "op") with
        | "single" :: pj :: sel ->
          let pj = int_of_string pj and sel = List.map int_of_string sel in
          let values = List.map (fun i -> value_of i pj) sel in
          obs (k "evals") "F" (dash (fs_to values));
          let r = lc_open (List.map (fun i -> (cm.(i), rows.(i))) sel) pts.(pj) ptape in
          obs1 (k "open") "S" (class_of r);
          (match r with
           | Result.Ok (pfs, rest) ->
             obs1 (k "nchal") "N" (string_of_int (nfield ptape - nfield rest));
             emit_pf (Printf.sprintf "pf.%d" t) pfs;
             let d = lc_check (List.map (fun i -> cm.(i)) sel) pts.(pj) values pfs vtape in
             obs1 (k "check") "S" (dec d);
             (match d with Result.Ok (_, vrest) -> obs1 (k "nvchal") "N" (string_of_int (nfield vtape - nfield vrest)) | _ -> ());
             recs.(t) <- Some (`Single (pj, sel, values, pfs))
           | _ -> ())
        | [ "batch"; sq ] ->
          let tr3 = triples3 (get c ("qs." ^ sq)) in
          let (qs, evm) = qs_ev tr3 None [] None in
          obs (k "evals") "F" (dash (fs_to (List.map snd evm)));
          let items = List.map (fun i -> (lab i, (cm.(i), rows.(i)))) pperm in
          let r = DefaultBatch.default_batch_open fo f_open items qs ptape in
          obs1 (k "open") "S" (class_of r);
          (match r with
           | Result.Ok (pfl, rest) ->
             obs1 (k "nchal") "N" (string_of_int (nfield ptape - nfield rest));
             obs1 (k "nproofs") "N" (string_of_int (List.length pfl));
             List.iteri (fun g pfs -> emit_pf (Printf.sprintf "pf.%d.%d" t g) pfs) pfl;
             let cml = List.map (fun i -> (lab i, cm.(i))) vperm in
             let d = DefaultBatch.default_batch_check fo f_check cml qs evm pfl vtape in
             obs1 (k "check") "S" (dec d);
             (match d with Result.Ok (_, vrest) -> obs1 (k "nvchal") "N" (string_of_int (nfield vtape - nfield vrest)) | _ -> ());
             recs.(t) <- Some (`Batch (tr3, pfl, vperm))
           | _ -> ())
        | [ "lc"; sq; ls ] ->
          let lcs = List.map (fun (_, v) ->
              let lb = nlabel (int_of_string (List.nth v 0)) in
              let rec go = function
                | co :: tm :: r -> (f_of_str co, (if tm = "one" then LC.TOne else LC.TPoly (lab (int_of_string tm)))) :: go r
                | _ -> [] in
              (lb, go (List.tl (List.tl v)))) (indexed c ("lcs." ^ sq)) in
          let lcarr = Array.of_list lcs in
          let tr3 = triples3 (get c ("lqs." ^ ls)) in
          let idx_of_label l = let rec f i = if i >= n then 0 else if Z.equal (lab i) l then i else f (i + 1) in f 0 in
          let lc_value (_, terms) pj = List.fold_left (fun acc (co, tm) ->
              fo.Field.fadd acc (match tm with
                  | LC.TOne -> co
                  | LC.TPoly l -> fo.Field.fmul co (value_of (idx_of_label l) pj))) (tof Z.zero) terms in
          let qs = List.sort_uniq (fun (l1, (p1, z1)) (l2, (p2, z2)) ->
              let r = Z.compare l1 l2 in if r <> 0 then r else let r = Z.compare p1 p2 in if r <> 0 then r else cmpl z1 z2)
              (List.map (fun (kk, zl, pj) -> (fst lcarr.(kk), (nlabel zl, qpts.(pj)))) tr3) in
          let eqn_ev deltas =
            let tbl = Hashtbl.create 16 in
            List.iter (fun (kk, _, pj) -> Hashtbl.replace tbl (Z.to_string (fst lcarr.(kk)) ^ "@" ^ String.concat "," (fs_to qpts.(pj)))
                          ((fst lcarr.(kk), qpts.(pj)), lc_value lcarr.(kk) pj)) tr3;
            let l = List.sort (fun ((l1, z1), _) ((l2, z2), _) -> let r = Z.compare l1 l2 in if r <> 0 then r else cmpl z1 z2)
                (Hashtbl.fold (fun _ v acc -> v :: acc) tbl []) in
            List.mapi (fun idx (kx, v) -> (kx, List.fold_left (fun acc (kk, d) -> if kk = idx then fo.Field.fadd acc d else acc) v deltas)) l in
          let ev0 = eqn_ev [] in
          obs (k "evals") "F" (dash (fs_to (List.map snd ev0)));
          let items = List.map (fun i -> (lab i, (i, (cm.(i), rows.(i))))) pperm in
          let open2 its q st = f_open (List.map snd its) q st in
          let eval_item (i, _) q = match Hashtbl.find_opt pt_index (String.concat "," (fs_to q)) with Some j -> value_of i j | None -> tof Z.zero in
          let r = DefaultBatch.default_open_combinations fo open2 eval_item lcs items qs ptape in
          obs1 (k "open") "S" (class_of r);
          (match r with
           | Result.Ok ((pfl, evs), rest) ->
             obs1 (k "nchal") "N" (string_of_int (nfield ptape - nfield rest));
             obs (k "lc_evals") "F" (dash (fs_to evs));
             obs1 (k "nproofs") "N" (string_of_int (List.length pfl));
             List.iteri (fun g pfs -> emit_pf (Printf.sprintf "pf.%d.%d" t g) pfs) pfl;
             let cml = List.map (fun i -> (lab i, cm.(i))) vperm in
             let d = DefaultBatch.default_check_combinations fo f_check lcs cml qs ev0 pfl (Some evs) vtape in
             obs1 (k "check") "S" (dec d);
             (match d with Result.Ok (_, vrest) -> obs1 (k "nvchal") "N" (string_of_int (nfield vtape - nfield vrest)) | _ -> ());
             recs.(t) <- Some (`LC (lcs, qs, eqn_ev, pfl, evs, vperm))
           | _ -> ())
        | _ -> ()
      done;
      (* ---- mutated verifier runs: the proof as sent, the verifier's own transcript of that run ---- *)
      List.iter (fun (m, mv) ->
          let name = Printf.sprintf "mut.%d" m in
          let t = int_of_string (List.nth mv 0) and kind = List.nth mv 1 in
          let args = List.tl (List.tl mv) in
          let arg i = List.nth args i in
          let mkey = Printf.sprintf "msq.%d" m in
          if t < nops && has c mkey then begin
            let mtape = parse_events mkey in
            let cma = Array.copy cm in
            let mpf = Printf.sprintf "mpf.%d" m in
            (* tampered paths: the paths of the mutated inner proof (and of its copies appended by list_extend) are not authentic *)
            let read_mutated kind2 j orig_len =
              let which = if orig_len = 0 then 0 else j mod orig_len in
              let tam = kind2 = "path_index" || kind2 = "path_node" in
              read_pf mpf (fun i -> not (tam && (i = which || i >= orig_len))) in
            match recs.(t) with
            | Some (`Single (pj, sel, values, pfs)) ->
              let pj = ref pj and sel = ref sel and values = ref values and pfs = ref pfs and ok = ref true in
              (match kind with
               | "value" -> let kk = int_of_string (arg 0) in
                 if kk < List.length !values then values := List.mapi (fun i v -> if i = kk then fo.Field.fadd v (f_of_str (arg 1)) else v) !values else ok := false
               | "point" -> pj := int_of_string (arg 0)
               | "comm_swap" -> let i = int_of_string (arg 0) and j = int_of_string (arg 1) in cma.(i) <- cm.(j)
               | "comm_mut" -> let i = int_of_string (arg 0) in
                 (match arg 1 with
                  | "meta_rows" -> cma.(i) <- { (cm.(i)) with LinCodeList.cm_n_rows = nn (int_of_nat cm.(i).LinCodeList.cm_n_rows + 1) }
                  | "meta_cols" -> cma.(i) <- { (cm.(i)) with LinCodeList.cm_n_cols = nn (int_of_nat cm.(i).LinCodeList.cm_n_cols + 1) }
                  | _ -> ok := false)
               | "proof_from" -> (match (try recs.(int_of_string (arg 0)) with _ -> None) with
                   | Some (`Single (_, _, _, p2)) -> pfs := p2 | _ -> ok := false)
               | "sponge_pre" -> ()
               | "drop_poly" -> let kk = int_of_string (arg 0) in
                 if kk < List.length !sel then begin
                   sel := List.filteri (fun i _ -> i <> kk) !sel; values := List.filteri (fun i _ -> i <> kk) !values end else ok := false
               | ("proof_mut" | "proof_mut_v") when has c (mpf ^ ".n") ->
                 let j = (try int_of_string (arg 1) with _ -> 0) in
                 pfs := read_mutated (arg 0) j (List.length !pfs);
                 values := List.map f_of_str (undash (Printf.sprintf "mvals.%d" m))
               | "attack" when has c (mpf ^ ".n") ->
                 pfs := read_pf mpf (fun _ -> true);
                 values := List.map f_of_str (undash (Printf.sprintf "mvals.%d" m))
               | _ -> ok := false);
              if !ok then obs1 name "S" (dec (lc_check (List.map (fun i -> cma.(i)) !sel) pts.(!pj) !values !pfs mtape))
            | Some (`Batch (tr3, pfl, vperm)) ->
              let tr3 = ref tr3 and pfl = ref pfl and vperm = ref vperm and ok = ref true in
              let deltas = ref [] and drop = ref None and newpt = ref None in
              (match kind with
               | "value" -> deltas := [ (int_of_string (arg 0), f_of_str (arg 1)) ]
               | "cancel" -> let d = f_of_str (arg 2) in
                 deltas := [ (int_of_string (arg 0), d); (int_of_string (arg 1), fo.Field.fopp d) ]
               | "point" -> newpt := Some (int_of_string (arg 0), int_of_string (arg 1))
               | "comm_swap" -> let i = int_of_string (arg 0) and j = int_of_string (arg 1) in cma.(i) <- cm.(j)
               | "proof_mut" when has c (mpf ^ ".n") ->
                 let g = int_of_string (arg 0) in
                 if g < List.length !pfl then begin
                   let j = (try int_of_string (arg 2) with _ -> 0) in
                   let mp = read_mutated (arg 1) j (List.length (List.nth !pfl g)) in
                   pfl := List.mapi (fun i p -> if i = g then mp else p) !pfl end else ok := false
               | "proofs" ->
                 let a () = int_of_string (arg 1) and b () = int_of_string (arg 2) in
                 let len = List.length !pfl in
                 (match arg 0 with
                  | "perm" -> if a () < len && b () < len then begin
                      let x = List.nth !pfl (a ()) and y = List.nth !pfl (b ()) in
                      pfl := List.mapi (fun i p -> if i = a () then y else if i = b () then x else p) !pfl end else ok := false
                  | "trunc" -> if a () < len then pfl := List.filteri (fun i _ -> i < a ()) !pfl else ok := false
                  | "dup" -> if a () < len && b () < len then begin
                      let x = List.nth !pfl (a ()) in pfl := List.mapi (fun i p -> if i = b () then x else p) !pfl end else ok := false
                  | "empty" -> pfl := []
                  | "extend" -> if len > 0 then pfl := !pfl @ [ List.nth !pfl (len - 1) ] else ok := false
                  | _ -> ok := false)
               | "proof_from" -> (match (try recs.(int_of_string (arg 0)) with _ -> None) with
                   | Some (`Batch (_, p2, _)) -> pfl := p2 | _ -> ok := false)
               | "sponge_pre" -> ()
               | "vperm" -> vperm := List.map int_of_string args
               | "drop_query" -> let kk = int_of_string (arg 0) in
                 if kk < List.length !tr3 then tr3 := List.filteri (fun i _ -> i <> kk) !tr3 else ok := false
               | "drop_eval" -> drop := Some (int_of_string (arg 0))
               | "drop_comm" -> let i = int_of_string (arg 0) in vperm := List.filter (fun x -> x <> i) !vperm
               | _ -> ok := false);
              if !ok then begin
                let (qs, evm0) = qs_ev !tr3 !newpt [] None in
                let nk = List.length evm0 in
                if List.exists (fun (kk, _) -> kk >= nk) !deltas || (match !drop with Some kk -> kk >= nk | None -> false) then ()
                else begin
                  let (_, evm) = qs_ev !tr3 !newpt !deltas !drop in
                  let cml = List.map (fun i -> (lab i, cma.(i))) !vperm in
                  obs1 name "S" (dec (DefaultBatch.default_batch_check fo f_check cml qs evm !pfl mtape))
                end
              end
            | Some (`LC (lcs0, qs, eqn_ev, pfl, evs, vperm)) ->
              let lcs = ref lcs0 and pfl = ref pfl and evs = ref evs and ok = ref true and deltas = ref [] in
              let upd kk f = lcs := List.mapi (fun i (lb, terms) -> if i = kk then (lb, f terms) else (lb, terms)) !lcs in
              (match kind with
               | "value" -> deltas := [ (int_of_string (arg 0), f_of_str (arg 1)) ]
               | "coeff" -> let kk = int_of_string (arg 0) and tk = int_of_string (arg 1) in
                 if kk < List.length !lcs && tk < List.length (snd (List.nth !lcs kk)) then
                   upd kk (List.mapi (fun i (co, tm) -> if i = tk then (fo.Field.fadd co (f_of_str (arg 2)), tm) else (co, tm)))
                 else ok := false
               | "const" -> let kk = int_of_string (arg 0) in
                 if kk < List.length !lcs then upd kk (fun terms -> terms @ [ (f_of_str (arg 1), LC.TOne) ]) else ok := false
               | "evals" -> let a = int_of_string (arg 0) in
                 if a < List.length !evs then evs := List.mapi (fun i v -> if i = a then fo.Field.fadd v (f_of_str (arg 1)) else v) !evs else ok := false
               | "comm_swap" -> let i = int_of_string (arg 0) and j = int_of_string (arg 1) in cma.(i) <- cm.(j)
               | "proofs" ->
                 let len = List.length !pfl in
                 (match arg 0 with
                  | "empty" -> pfl := []
                  | "trunc" -> let kk = int_of_string (arg 1) in if kk < len then pfl := List.filteri (fun i _ -> i < kk) !pfl else ok := false
                  | "extend" -> if len > 0 then pfl := !pfl @ [ List.nth !pfl (len - 1) ] else ok := false
                  | _ -> ok := false)
               | "sponge_pre" -> ()
               | _ -> ok := false);
              if !ok then begin
                let ev0 = eqn_ev [] in
                let nk = List.length ev0 in
                if List.exists (fun (kk, _) -> kk >= nk) !deltas then ()
                else begin
                  let cml = List.map (fun i -> (lab i, cma.(i))) vperm in
                  obs1 name "S" (dec (DefaultBatch.default_check_combinations fo f_check !lcs cml qs (eqn_ev !deltas) !pfl (Some !evs) mtape))
                end
              end
            | None -> ()
          end)
        (indexed c "mut")
    end
  end

let run_pc c =
  if has c "c19" then run_c19 c else begin
  (match str1 c "scheme" with
   | "marlin" when has c "beta" -> run_pc_marlin c
   | "sonic" when has c "beta" -> run_pc_sonic c
   | "hyrax" when has c "ctape" -> run_pc_hyrax c
   | "ipa" when has c "ctape" -> run_pc_ipa c
   | "pst13" when has c "betas" -> run_pc_pst13 c
   | "ligero_uni" | "ligero_ml" | "brakedown_ml" -> run_pc_lincode c
   | _ -> ());
  if has c "c12" then run_c12 c end

(* ---------------- C13: calculate_t, indices, Reed-Solomon ---------------- *)
let field_of = function
  | "bls381" -> (Z.of_string "52435875175126190479447740508185965837690552500527637822603658699938581184513", 255)
  | "ed" -> (Z.of_string "6554484396890773809930967563523245729705921265872317281365359162392183254199", 252)
  | "bn254" -> (Z.of_string "21888242871839275222246405745257275088548364400416034343698204186575808495617", 254)
  | f -> failwith ("unknown field " ^ f)
(* ---------------- Ligero: several polynomials in one opening ---------------- *)
let run_ligmulti c =
  let fo = fo () in
  obs1 "commit" "S" "ok";
  if has c "dims.0" then begin
    let wf = int1 c "wf" = 1 in
    let n = int1 c "n" in
    let nn = nat_of_int in
    let undash k = let v = get c k in if v = [ "-" ] then [] else v in
    let ml = str1 c "scheme" = "ligero_ml" in
    let point = if ml then List.map f_of_str (undash "point_vec") else [] in
    let z = if ml then tof Z.zero else f_of_str (str1 c "pt") in
    let dims = Array.init n (fun i -> match List.map int_of_string (get c (Printf.sprintf "dims.%d" i)) with [ a; b; cc ] -> (a, b, cc) | _ -> failwith "dims") in
    let omega = Array.init n (fun i -> f_of_str (str1 c (Printf.sprintf "omega.%d" i))) in
    let rows = Array.init n (fun i -> let (nr, nc, _) = dims.(i) in Ligero.lig_matrix fo (nn nr) (nn nc) (List.map f_of_str (undash (Printf.sprintf "coeffs.%d" i)))) in
    let enc i = let (_, _, ne) = dims.(i) in Ligero.encode fo omega.(i) (nn ne) in
    let cext = Array.init n (fun i -> List.map (enc i) rows.(i)) in
    let ab i = let (nr, nc, _) = dims.(i) in
      if ml then Ligero.tensor_ml fo point (nn nc) else Result.Ok (Ligero.tensor_uni fo z (nn nc) (nn nr)) in
    let rtape pre i = List.map f_of_str (undash (Printf.sprintf "%sr.%d" pre i)) in
    let idx_of pre i = let (_, _, ne) = dims.(i) in
      let sq = List.map (fun (_, b) -> List.map Z.of_string b) (indexed c (Printf.sprintf "%ssq.%d" pre i)) in
      match CalcT.indices_of (Z.of_int ne) sq with Result.Ok l -> List.map (fun x -> nn (Z.to_int x)) l | _ -> [] in
    if has c "p.nsq.0" then begin
      (* the prover: one opening per polynomial, in order; the first failure ends it *)
      let pfs = Array.make n None and ok = ref true and cls = ref "ok" in
      for i = 0 to n - 1 do
        if !ok then begin
          let (_, nc, ne) = dims.(i) in
          match ab i with
          | Result.Ok (_, b) ->
            (match Ligero.l_open_e fo (enc i) wf (nn nc) (nn ne) rows.(i) b (rtape "p." i) (idx_of "p." i) with
             | Result.Ok pf -> pfs.(i) <- Some pf
             | r -> ok := false; cls := class_of r)
          | r -> ok := false; cls := class_of r
        end
      done;
      obs1 "open" "S" !cls;
      if !ok then begin
        let pfs = Array.map (function Some x -> x | None -> assert false) pfs in
        obs1 "nproofs" "N" (string_of_int n);
        Array.iteri (fun i pf ->
            let k x = Printf.sprintf "pf.%d.%s" i x in
            obs (k "v") "F" (dash (fs_to pf.Ligero.lf_v));
            obs (k "wf") "F" (match pf.Ligero.lf_wf with Some w -> dash (fs_to w) | None -> [ "none" ]);
            obs (k "leaf_idx") "N" (dash (List.map (fun p -> string_of_int (int_of_nat p.Ligero.lpt_index)) pf.Ligero.lf_paths));
            obs (k "col_lens") "N" (dash (List.map (fun col -> string_of_int (List.length col)) pf.Ligero.lf_cols));
            obs (k "cols") "F" (dash (List.concat_map fs_to pf.Ligero.lf_cols))) pfs;
        let values = Array.init n (fun i -> match ab i with Result.Ok (a, _) -> Ligero.ip fo pfs.(i).Ligero.lf_v a | _ -> tof Z.zero) in
        obs "values" "F" (fs_to (Array.to_list values));
        let item pre i value pf = { Ligero.li_enc = enc i; li_n_cols = (let (_, nc, _) = dims.(i) in nn nc); li_cext = cext.(i); li_ab = ab i;
                                    li_value = value; li_pf = pf; li_r = rtape pre i; li_idx = idx_of pre i } in
        let run pre vals proofs =
          let m = min n (Array.length proofs) in
          let items = List.init m (fun i -> item pre i vals.(i) proofs.(i)) in
          decision (Ligero.l_check_array fo wf items (Array.length proofs < n)) in
        if has c "v.nsq.0" then obs1 "check" "S" (run "v." values pfs);
        if has c "b.nsq.0" then begin
          let bp = int1 c "bad_pos" mod n in
          let bad = Array.mapi (fun i v -> if i = bp then fo.Field.fadd v (f_of_str (str1 c "delta")) else v) values in
          obs1 "check_bad" "S" (run "b." bad pfs)
        end;
        List.iter (fun (k, _) ->
            let pre = Printf.sprintf "m%d." k in
            if has c (pre ^ "skip") || not (has c (pre ^ "n")) then () else begin
              let cnt = int1 c (pre ^ "n") and which = int1 c (pre ^ "which") and intact = str1 c (pre ^ "intact") = "1" in
              let proofs = Array.init cnt (fun i ->
                  let q x = Printf.sprintf "%s%d.%s" pre i x in
                  let lens = List.map int_of_string (undash (q "col_lens")) in
                  let flat = ref (List.map f_of_str (undash (q "cols"))) in
                  let take len = let rec go len acc l = if len = 0 then (List.rev acc, l) else (match l with x :: t -> go (len - 1) (x :: acc) t | [] -> (List.rev acc, [])) in
                    let (h, t) = go len [] !flat in flat := t; h in
                  let cols = List.map take lens in
                  let wfv = let v = get c (q "wf") in if v = [ "none" ] then None else Some (List.map f_of_str (if v = [ "-" ] then [] else v)) in
                  (* list_extend appends a copy of proof `which`: a tampered path travels with its copy *)
                  let ok_paths = intact || not (i = which || i >= n) in
                  { Ligero.lf_paths = List.map (fun s -> { Ligero.lpt_index = nn (int_of_string s); Ligero.lpt_intact = ok_paths }) (undash (q "leaf_idx"));
                    Ligero.lf_v = List.map f_of_str (undash (q "v")); Ligero.lf_cols = cols; Ligero.lf_wf = wfv }) in
              obs1 (Printf.sprintf "mut.%d" k) "S" (run pre values proofs)
            end) (indexed c "mut")
      end
    end
  end

(* ---------------- Ligero (univariate): algebraic core with an ideal column commitment ---------------- *)
let run_ligflow c =
  let fo = fo () in
  if not (has c "n_rows") then obs1 "commit" "S" "ok" else begin
    obs1 "commit" "S" "ok";
    let bd = has c "scheme" && str1 c "scheme" = "brakedown_ml" in
    let wf = int1 c "wf" = 1 in
    let n_rows = int1 c "n_rows" and n_cols = int1 c "n_cols" and n_ext = int1 c "n_ext" in
    if not bd then begin
      let rho_inv = int_of_string (List.nth (get c "lig") 1) in
      obs1 "dom_size" "N" (Z.to_string (Sizes.next_pow2 (Z.of_int (n_cols * rho_inv))))
    end;
    let nn = nat_of_int in
    let undash k = let v = get c k in if v = [ "-" ] then [] else v in
    let coeffs = List.map f_of_str (undash "coeffs") in
    let rows = Ligero.lig_matrix fo (nn n_rows) (nn n_cols) coeffs in
    let omega = if bd then tof Z.zero else f_of_str (str1 c "omega") in
    let ml = has c "scheme" && (str1 c "scheme" = "ligero_ml" || bd) in
    let z = if ml then tof Z.zero else f_of_str (str1 c "pt") in
    let gmat = if bd then List.map (fun (_, row) -> List.map f_of_str row) (indexed c "G") else [] in
    let cext = if bd then List.map (Ligero.mat_enc fo gmat (nn n_ext)) rows else List.map (Ligero.encode fo omega (nn n_ext)) rows in
    let sqs pre = List.map (fun (_, b) -> List.map Z.of_string b) (indexed c (pre ^ "sq")) in
    let rtape pre = List.map f_of_str (undash (pre ^ "r")) in
    let idx_of pre = match CalcT.indices_of (Z.of_int n_ext) (sqs pre) with
      | Result.Ok l -> List.map (fun x -> nn (Z.to_int x)) l | _ -> [] in
    let point = if ml then List.map f_of_str (undash "point_vec") else [] in
    let chk value pf pre =
      if bd then Ligero.l_check_bd fo gmat wf (nn n_cols) (nn n_ext) cext point value pf (rtape pre) (idx_of pre)
      else if ml then Ligero.l_check_ml fo wf (nn n_cols) (nn n_ext) omega cext point value pf (rtape pre) (idx_of pre)
      else Ligero.l_check fo wf (nn n_rows) (nn n_cols) (nn n_ext) omega cext z value pf (rtape pre) (idx_of pre) in
    if has c "p.nsq" then begin
      let op =
        if bd then Ligero.l_open_bd fo gmat wf (nn n_cols) (nn n_ext) rows point (rtape "p.") (idx_of "p.")
        else if ml then Ligero.l_open_ml fo wf (nn n_cols) (nn n_ext) omega rows point (rtape "p.") (idx_of "p.")
        else Ligero.l_open fo wf (nn n_rows) (nn n_cols) (nn n_ext) omega rows z (rtape "p.") (idx_of "p.") in
      obs1 "open" "S" (class_of op);
      match op with
      | Result.Ok pf ->
        obs "pf.v" "F" (dash (fs_to pf.Ligero.lf_v));
        obs "pf.wf" "F" (match pf.Ligero.lf_wf with Some w -> dash (fs_to w) | None -> [ "none" ]);
        obs "pf.leaf_idx" "N" (dash (List.map (fun p -> string_of_int (int_of_nat p.Ligero.lpt_index)) pf.Ligero.lf_paths));
        obs "pf.col_lens" "N" (dash (List.map (fun col -> string_of_int (List.length col)) pf.Ligero.lf_cols));
        obs "pf.cols" "F" (dash (List.concat_map fs_to pf.Ligero.lf_cols));
        let a = if ml then (match Ligero.tensor_ml fo point (nn n_cols) with Result.Ok (a, _) -> a | _ -> [])
          else fst (Ligero.tensor_uni fo z (nn n_cols) (nn n_rows)) in
        let value = Ligero.ip fo pf.Ligero.lf_v a in
        obs1 "value" "F" (f_to_str value);
        if has c "v.nsq" then begin
          obs1 "check" "S" (decision (chk value pf "v."));
          let delta = f_of_str (str1 c "delta") in
          (* the false value: the verifier's transcript does not depend on the value *)
          obs1 "check_bad" "S" (decision (chk (fo.Field.fadd value delta) pf "v."))
        end;
        List.iter (fun (i, _) ->
            let pre = Printf.sprintf "m%d." i in
            if has c (pre ^ "skip") || not (has c (pre ^ "v")) then () else begin
              let intact = str1 c (pre ^ "intact") = "1" in
              let lens = List.map int_of_string (undash (pre ^ "col_lens")) in
              let flat = ref (List.map f_of_str (undash (pre ^ "cols"))) in
              let take n = let rec go n acc l = if n = 0 then (List.rev acc, l) else (match l with x :: t -> go (n - 1) (x :: acc) t | [] -> (List.rev acc, [])) in
                let (h, t) = go n [] !flat in flat := t; h in
              let cols = List.map take lens in
              let wfv = let v = get c (pre ^ "wf") in if v = [ "none" ] then None else Some (List.map f_of_str (if v = [ "-" ] then [] else v)) in
              let mpf = { Ligero.lf_paths = List.map (fun s -> { Ligero.lpt_index = nn (int_of_string s); Ligero.lpt_intact = intact }) (undash (pre ^ "leaf_idx"));
                          Ligero.lf_v = List.map f_of_str (undash (pre ^ "v")); Ligero.lf_cols = cols; Ligero.lf_wf = wfv } in
              obs1 (Printf.sprintf "mut.%d" i) "S" (decision (chk value mpf pre))
            end) (indexed c "mut")
      | _ -> ()
    end
  end

let calc_fuel = 40000
let run_c13 c =
  match str1 c "sub" with
  | "ligflow" -> run_ligflow c
  | "ligmulti" -> run_ligmulti c
  | "calct" ->
    let (q, bits) = field_of (str1 c "field") in
    let zn k = Z.of_string (str1 c k) in
    let lam = zn "lam" and d0 = zn "d0" and d1 = zn "d1" and n = zn "n" in
    let show fsize = match CalcT.calc_t lam d0 d1 n fsize (nat_of_int calc_fuel) with
      | None -> "MODEL_FUEL_EXHAUSTED"
      | Some (Result.Ok t) -> Z.to_string t
      | Some _ -> "err" in
    (* the property's bound divides by |F|; the code's closed form by 2^bits: both are reported, the
       comparator accepts either (they differ only in a thin band next to infeasibility) *)
    obs "t" "N" [ show q; show (Z.shift_left Z.one bits) ]
  | "indices" ->
    let n = Z.of_string (str1 c "n") in
    obs1 "nbytes" "N" (Z.to_string (CalcT.get_num_bytes n));
    let sq = List.map (fun (_, b) -> List.map Z.of_string b) (indexed c "sq") in
    obs1 "nsqueezes" "N" (str1 c "t");
    obs1 "reabsorbed" "S" "yes";
    (match CalcT.indices_of n sq with
     | Result.Ok l -> obs1 "indices_res" "S" "ok"; obs "indices" "N" (dash (List.map Z.to_string l))
     | r -> obs1 "indices_res" "S" (class_of r))
  | "proofshape" when has c "n_ext" ->
    let (q, bits) = field_of "bls381" in
    let zn k = Z.of_string (str1 c k) in
    let n = zn "n_ext" in
    (* security level and distance from the scenario's own parameters (the code's relative distance 1 - 1/rho_inv for
       Reed-Solomon, Brakedown's constants), not from what the library reports *)
    let (lam, d0, d1) =
      if has c "lig" then (let v = List.map Z.of_string (get c "lig") in (List.nth v 0, Z.pred (List.nth v 1), List.nth v 1))
      else match str1 c "scheme" with
        | "ligero_uni" -> (Z.of_int 128, Z.of_int 3, Z.of_int 4)
        | "ligero_ml" -> (Z.of_int 128, Z.of_int 1, Z.of_int 2)
        | _ -> (Z.of_int 128, Z.of_int 61000, Z.of_int 1521000) in
    ignore (zn "lam"); ignore (zn "d0"); ignore (zn "d1");
    let show fsize = match CalcT.calc_t lam d0 d1 n fsize (nat_of_int calc_fuel) with
      | None -> "MODEL_FUEL_EXHAUSTED" | Some (Result.Ok t) -> Z.to_string t | Some _ -> "err" in
    let ts = [ show q; show (Z.shift_left Z.one bits) ] in
    (* an honest proof authenticates exactly t columns, at the positions derived from the transcript *)
    obs "npaths" "N" ts; obs "ncols" "N" ts;
    let sq = List.map (fun (_, b) -> List.map Z.of_string b) (indexed c "sq") in
    (match CalcT.indices_of n sq with
     | Result.Ok l -> obs "leaf_idx" "N" (dash (List.map Z.to_string l))
     | _ -> obs1 "leaf_idx" "N" "model-refused");
    obs1 "nproofs" "N" "1";
    obs1 "check" "S" "accept"
  | "rs" ->
    let fo = fo () in
    let msg = fs_of c "x" in
    let omega = f_of_str (str1 c "omega") and m_ext = int1 c "m_ext" in
    let e = CalcT.rs_encode fo omega (nat_of_int m_ext) msg in
    obs1 "enc_len" "N" (string_of_int (List.length e));
    obs "enc" "F" (fs_to e)
  | _ -> ()

(* ---------------- C15: PST13 parameters and division ---------------- *)
let ints_of_nats l = List.map int_of_nat l
let exps_str (v : int list) = String.concat "." (List.map string_of_int v)
let run_c15 c =
  let fo = fo () in
  let fuel = nat_of_int 100000 in
  match str1 c "sub" with
  | "comb" ->
    let orig = List.map (fun s -> nat_of_int (int_of_string s)) (get c "orig") and len = int1 c "len" in
    (match PST13.comb_new orig (nat_of_int len) with
     | Result.Ok st ->
       let all = PST13.comb_all fuel st in
       obs1 "comb" "S" "ok";
       obs1 "ncombos" "N" (string_of_int (List.length all));
       obs "combos" "S" (List.map (fun x -> String.concat "," (List.map string_of_int (ints_of_nats x))) all)
     | r -> obs1 "comb" "S" (class_of r))
  | "setup" ->
    let nv = int1 c "num_vars" and d = int1 c "D" and s = int1 c "s" in
    if nv < 1 then obs1 "setup" "S" "err:InvalidNumberOfVariables"
    else if d < 1 then obs1 "setup" "S" "err:DegreeIsZero"
    else if not (has c "betas") then obs1 "setup" "S" "ok"
    else begin
      let betas = fs_of c "betas" in
      match PST13.setup_pairs fo fuel (nat_of_int nv) (nat_of_int d) betas with
      | Result.Ok pairs ->
        obs1 "setup" "S" "ok";
        (* the BTreeMap keeps one element per distinct term (the last inserted) *)
        let tbl = Hashtbl.create 64 in
        List.iter (fun (v, e) -> Hashtbl.replace tbl (ints_of_nats e) v) pairs;
        let keys = List.sort compare (Hashtbl.fold (fun e v acc -> (e, v) :: acc) tbl []) in
        obs1 "constant_term" "S" (if Hashtbl.mem tbl (List.init nv (fun _ -> 0)) then "present" else "missing");
        obs1 "nkeys" "N" (string_of_int (List.length keys));
        obs "terms" "S" (List.map (fun (e, _) -> exps_str e) keys);
        obs "vals" "R:base_g" (List.map (fun (_, v) -> f_to_str v) keys);
        obs "beta_h" "R:base_h" (fs_to betas);
        let gp = PST13.setup_gamma_powers fo (nat_of_int d) betas in
        obs1 "gamma_rows" "N" (string_of_int (List.length gp));
        obs "gamma_lens" "N" (List.map (fun r -> string_of_int (List.length r)) gp);
        obs "gamma" "R:base_gamma" (fs_to (List.concat gp));
        obs "reports" "N" [ string_of_int nv; string_of_int d ];
        obs1 "values_match_trapdoor" "S" "yes";
        obs1 "pairing_consistent" "S" "yes";
        obs1 "pairing_missing" "N" "0";
        if s > d then obs1 "trim" "S" "err:TrimmingDegreeTooLarge"
        else begin
          obs1 "trim" "S" "ok";
          let all_e = List.map (fun (e, _) -> List.map nat_of_int e) keys in
          let tk = List.sort compare (List.map ints_of_nats (PST13.trim_keys (nat_of_int s) all_e)) in
          obs "trim_terms" "S" (List.map exps_str tk);
          obs1 "trim_values_same" "S" "yes";
          obs "trim_gamma_lens" "N" (List.map (fun r -> string_of_int (List.length r)) (PST13.trim_gamma_powers fo (nat_of_int s) gp));
          obs1 "trim_gamma_same" "S" "yes";
          obs1 "trim_vk" "S" "faithful"
        end
      | r -> obs1 "setup" "S" (class_of r)
    end
  | "divide" ->
    let nv = int1 c "num_vars" in
    let toks = Array.of_list (if has c "poly" then get c "poly" else []) in
    let terms = ref [] and i = ref 0 in
    while !i < Array.length toks do
      let coeff = f_of_str toks.(!i) and k = int_of_string toks.(!i + 1) in
      let t = List.init k (fun j -> (int_of_string toks.(!i + 2 + 2 * j), int_of_string toks.(!i + 3 + 2 * j))) in
      terms := (coeff, t) :: !terms;
      i := !i + 2 + 2 * k
    done;
    (* SparsePolynomial::from_coefficients_vec: sort, merge like terms, drop zeros *)
    let tbl = Hashtbl.create 16 in
    List.iter (fun (cf, t) ->
        let t = List.filter (fun (_, e) -> e > 0) (List.sort compare t) in
        let cur = try Hashtbl.find tbl t with Not_found -> Z.zero in
        Hashtbl.replace tbl t (Z.erem (Z.add cur (ofz cf)) !modulus)) (List.rev !terms);
    let p = Hashtbl.fold (fun t cf acc -> if Z.equal cf Z.zero then acc else (t, cf) :: acc) tbl [] in
    (* the library's term order: by total degree, then lexicographic on (var, power) reversed; the model's result is
       canonicalised before comparison, so any fixed order will do *)
    let p = List.sort compare p in
    let mp = List.map (fun (t, cf) -> (tof cf, List.map (fun (v, e) -> (nat_of_int v, nat_of_int e)) t)) p in
    let z = fs_of c "z" and x = fs_of c "x" in
    let qs = PST13.divide_at_point fo (nat_of_int nv) mp z in
    obs1 "divide" "S" "ok";
    obs1 "nquot" "N" (string_of_int (List.length qs));
    List.iteri (fun i q -> obs (Printf.sprintf "q.%d" i) "S" (mpoly_canon q)) qs;
    obs1 "identity" "S" "holds";
    obs1 "pz" "F" (f_to_str (PST13.eval_mpoly fo z mp));
    ignore x;
    obs1 "quot_degree_ok" "S" "yes"
  | _ -> ()

(* ---------------- C14: streaming KZG ---------------- *)
let run_c14 c =
  let fo = fo () in
  let one = tof Z.one in
  let fadd a b = fo.Field.fadd a b in
  let yn b = if b then "yes" else "no" in
  let acc_rej = function Result.Ok true -> "accept" | Result.Ok false -> "reject" | _ -> "refused" in
  let mk_key () =
    let d = int1 c "D" and me = int1 c "max_eval_points" in
    StreamKZG.sk_new fo (nat_of_int d) (nat_of_int me) (f_of_str (str1 c "tau")) one one in
  match str1 c "sub" with
  | "stream" when has c "tau" ->
    let ck = mk_key () in
    let pg = ck.StreamKZG.sk_g and pg2 = ck.StreamKZG.sk_g2 in
    obs "key_sizes" "N" [ string_of_int (List.length pg); string_of_int (List.length pg2) ];
    obs "key_g" "R:base_g" (fs_to pg);
    obs "key_g2" "R:base_h" (fs_to pg2);
    obs1 "max_eval_points" "N" (string_of_int (List.length pg2 - 1));
    let vk = StreamKZG.vk_of_time fo ck and svk = StreamKZG.vk_of_stream fo ck in
    (match vk with
     | Result.Ok v -> obs "vk_sizes" "N" [ string_of_int (List.length v.StreamKZG.sk_g); string_of_int (List.length v.StreamKZG.sk_g2) ]
     | _ -> ());
    obs1 "svk_g0_same" "S" "yes";
    let n = int1 c "n" in
    let polys = List.init n (fun i -> let k = Printf.sprintf "poly.%d" i in if has c k then fs_of c k else []) in
    let alpha = f_of_str (str1 c "alpha") and delta = f_of_str (str1 c "delta") and eta = f_of_str (str1 c "eta") in
    let pts = if has c "pts" then fs_of c "pts" else [] in
    let buffers = List.map int_of_string (get c "buffers") in
    let comms = ref [] in
    let vmulti v cs evals pi = match v with Result.Ok v -> Result.Ok (StreamKZG.verify_multi fo v cs pts evals pi eta) | _ -> Result.Panic in
    List.iteri (fun i p ->
        let k x = Printf.sprintf "%s.%d" x i in
        let kb x b = Printf.sprintf "%s.%d.%d" x i b in
        obs1 (k "tcommit") "S" "ok";
        let tc = StreamKZG.time_commit fo ck p in
        obs1 (k "tc") "R:base_g" (f_to_str tc);
        let sc = StreamKZG.space_commit fo ck p in
        obs1 (k "scommit") "S" (class_of sc);
        (match sc with
         | Result.Ok x -> obs1 (k "sc") "R:base_g" (f_to_str x); obs1 (k "commit_same") "S" "yes"
         | _ -> ());
        comms := tc :: !comms;
        obs1 (k "topen") "S" "ok";
        let (tv, tpi) = StreamKZG.time_open fo ck p alpha in
        obs1 (k "tv") "F" (f_to_str tv);
        obs1 (k "tpi") "R:base_g" (f_to_str tpi);
        obs1 (k "tv_is_eval") "S" "yes";
        List.iter (fun b ->
            let so = StreamKZG.space_open fo ck p alpha in
            obs1 (kb "sopen" b) "S" (class_of so);
            match so with
            | Result.Ok (sv, spi) ->
              obs1 (kb "sv" b) "F" (f_to_str sv); obs1 (kb "spi" b) "R:base_g" (f_to_str spi);
              obs1 (kb "open_same" b) "S" "yes"
            | _ -> ()) buffers;
        let ver v value = match v with
          | Result.Ok v -> StreamKZG.verify fo v tc alpha value tpi | _ -> Result.Panic in
        obs1 (k "verify") "S" (acc_rej (ver vk tv));
        obs1 (k "verify_svk") "S" (acc_rej (ver svk tv));
        obs1 (k "verify_bad") "S" (acc_rej (ver vk (fadd tv delta)));
        obs1 (k "verify_bad_svk") "S" (acc_rej (ver svk (fadd tv delta)));
        if pts <> [] then begin
          obs1 (k "tmopen") "S" "ok";
          let tm = StreamKZG.time_open_multi fo ck p pts in
          obs1 (k "tmpi") "R:base_g" (f_to_str tm);
          List.iter (fun b ->
              let sm = StreamKZG.space_open_multi fo ck p pts in
              obs1 (kb "smopen" b) "S" (class_of sm);
              match sm with
              | Result.Ok (rem, spi) ->
                obs (kb "smrem" b) "F" (fs_to rem); obs1 (kb "smpi" b) "R:base_g" (f_to_str spi);
                obs1 (kb "smrem_evals" b) "S" "yes"; obs1 (kb "mopen_same" b) "S" "yes"
              | _ -> ()) buffers;
          let evals = [ List.map (fun x -> Poly.eval fo p x) pts ] in
          obs1 (k "vmp1") "S" (acc_rej (vmulti vk [ tc ] evals tm));
          obs1 (k "vmp1_svk") "S" (acc_rej (vmulti svk [ tc ] evals tm));
          let j = i mod List.length pts in
          let bad = [ List.mapi (fun jj y -> if jj = j then fadd y delta else y) (List.hd evals) ] in
          obs1 (k "vmp1_bad") "S" (acc_rej (vmulti vk [ tc ] bad tm))
        end) polys;
    let comms = List.rev !comms in
    if pts <> [] && n > 0 then begin
      let bo = StreamKZG.time_batch_open_multi fo ck polys pts eta in
      obs1 "bopen" "S" (class_of bo);
      match bo with
      | Result.Ok pi ->
        obs1 "bpi" "R:base_g" (f_to_str pi);
        let evals = List.map (fun p -> List.map (fun x -> Poly.eval fo p x) pts) polys in
        obs1 "vmp" "S" (acc_rej (vmulti vk comms evals pi));
        obs1 "vmp_svk" "S" (acc_rej (vmulti svk comms evals pi));
        let bi = int1 c "bad_i" mod n and bj = int1 c "bad_j" mod List.length pts in
        let bad = List.mapi (fun ii row -> if ii = bi then List.mapi (fun jj y -> if jj = bj then fadd y delta else y) row else row) evals in
        obs1 "vmp_bad" "S" (acc_rej (vmulti vk comms bad pi));
        if n > 1 then begin
          let v2 = match vk with Result.Ok v -> Result.Ok (StreamKZG.verify_multi fo v comms pts evals pi (fadd eta one)) | _ -> Result.Panic in
          obs1 "vmp_other_eta" "S" (acc_rej v2)
        end
      | _ -> ()
    end
  | "fold" ->
    let coeffs = fs_of c "coeffs" and chs = if has c "chs" then fs_of c "chs" else [] in
    let items = StreamKZG.tree_iter fo chs coeffs in
    obs1 "tree" "S" "ok";
    obs "tree_levels" "N" (List.map (fun (l, _) -> string_of_int (int_of_nat l)) items);
    obs "tree_coeffs" "F" (List.map (fun (_, x) -> f_to_str x) items);
    obs1 "tree_depth" "N" (string_of_int (List.length chs));
    let sv = StreamKZG.stream_iter fo chs coeffs in
    obs1 "stream" "S" "ok";
    obs "stream_coeffs" "F" (fs_to sv);
    let depth = List.length chs in
    obs1 "stream_len_reported" "N" (string_of_int ((List.length coeffs + (1 lsl depth) - 1) / (1 lsl depth)));
    (* the specification side: naive foldings of the padded stream *)
    List.iteri (fun i l -> obs (Printf.sprintf "naive.%d" (i + 1)) "F" (fs_to l)) (StreamKZG.fold_tree fo chs coeffs);
    if has c "tau" && depth > 0 then begin
      let ck = mk_key () in
      let cf = StreamKZG.commit_folding fo ck chs coeffs in
      obs1 "commit_folding" "S" (class_of cf);
      (match cf with
       | Result.Ok l -> obs "cf" "R:base_g" (fs_to l); obs1 "cf_matches_time" "S" "yes"
       | _ -> ());
      let pts = if has c "pts" then fs_of c "pts" else [] in
      if pts <> [] then begin
        let etas = fs_of c "etas" in
        let o = StreamKZG.open_folding fo ck chs coeffs pts etas in
        obs1 "open_folding" "S" (class_of o);
        match o with
        | Result.Ok (rems, pi) ->
          List.iteri (fun i r -> obs (Printf.sprintf "of_rem.%d" (i + 1)) "F" (fs_to r)) rems;
          obs1 "of_pi" "R:base_g" (f_to_str pi);
          obs1 "of_rem_evals" "S" "yes"; obs1 "of_matches_time" "S" "yes"
        | _ -> ()
      end
    end
  | _ -> ()

(* ---------------- multilinear_pc ---------------- *)
let run_mlpc c =
  let fo = fo () in
  let one = tof Z.one in
  let nv = int1 c "num_vars" and snv = int1 c "supported" in
  if nv = 0 then obs1 "setup" "S" "panic"
  else if not (has c "t") then obs1 "setup" "S" "ok"
  else begin
    let t = fs_of c "t" in
    match MLPC.ml_setup fo (nat_of_int nv) one one t with
    | Result.Ok pp ->
      obs1 "setup" "S" "ok";
      obs "pp_shape" "N" [ string_of_int nv; string_of_int (List.length pp.MLPC.mp_pg); string_of_int (List.length pp.MLPC.mp_ph);
                          string_of_int (List.length pp.MLPC.mp_mask) ];
      obs "pp_table_lens" "N" (List.map (fun l -> string_of_int (List.length l)) pp.MLPC.mp_pg);
      if nv <= 6 then begin
        obs "pp_g" "R:base_g" (fs_to (List.concat pp.MLPC.mp_pg));
        obs "pp_h" "R:base_h" (fs_to (List.concat pp.MLPC.mp_ph))
      end else obs "pp_g0" "R:base_g" (fs_to (List.hd pp.MLPC.mp_pg));
      obs "pp_mask" "R:base_g" (fs_to pp.MLPC.mp_mask);
      (match MLPC.ml_trim fo pp (nat_of_int snv) with
       | Result.Ok ck ->
         obs1 "trim" "S" "ok"; obs1 "trim_faithful" "S" "yes";
         let n = int1 c "n" in
         for i = 0 to n - 1 do
           let k x = Printf.sprintf "%s.%d" x i in
           let pnv = int1 c (k "pnv") in
           let f = fs_of c (k "poly") in
           let z = if has c (k "z") then fs_of c (k "z") else [] in
           let delta = f_of_str (str1 c (k "delta")) in
           let cm = MLPC.ml_commit fo ck (nat_of_int pnv) f in
           obs1 (k "commit") "S" (class_of cm);
           (match cm with
            | Result.Ok cv ->
              obs1 (k "c") "R:base_g" (f_to_str cv);
              obs1 (k "c_nv") "N" (string_of_int pnv);
              List.iter (fun (tag, g1, g2) ->
                  let sc = Sizes.mlpc_commitment_size (Z.of_int g1) in
                  obs1 (Printf.sprintf "size.comm.%d.%s" i tag) "N" (Z.to_string sc);
                  obs1 (Printf.sprintf "bytes.comm.%d.%s" i tag) "N" (Z.to_string sc);
                  ignore g2) [ ("c", 48, 96); ("u", 96, 192) ];
              let op = MLPC.ml_open fo ck (nat_of_int pnv) f z in
              obs1 (k "open") "S" (class_of op);
              (match op with
               | Result.Ok pf ->
                 obs (k "pi") "R:base_h" (fs_to pf);
                 List.iter (fun (tag, g2) ->
                     let sp = Sizes.mlpc_proof_size (Z.of_int g2) (Z.of_int (List.length pf)) in
                     obs1 (Printf.sprintf "size.proof.%d.%s" i tag) "N" (Z.to_string sp);
                     obs1 (Printf.sprintf "bytes.proof.%d.%s" i tag) "N" (Z.to_string sp)) [ ("c", 96); ("u", 192) ];
                 if List.length z >= snv then begin
                   let v = MLPC.mle_eval fo f (List.filteri (fun j _ -> j < pnv) z) in
                   obs1 (k "v") "F" (f_to_str v);
                   let chk value p = decision (MLPC.ml_check fo ck cv z value p) in
                   obs1 (k "check") "S" (chk v pf);
                   obs1 (k "check_bad") "S" (chk (fo.Field.fadd v delta) pf);
                   (match pf with
                    | p0 :: rest ->
                      let j = i mod List.length pf in
                      obs1 (Printf.sprintf "mut.tamper.%d" i) "S" (chk v (List.mapi (fun jj x -> if jj = j then fo.Field.fadd x one else x) pf));
                      (match rest with
                       | p1 :: rest' when not (Z.equal (ofz p0) (ofz p1)) -> obs1 (Printf.sprintf "mut.swap.%d" i) "S" (chk v (p1 :: p0 :: rest'))
                       | _ -> ());
                      let rev = List.rev pf in
                      if not (Z.equal (ofz (List.hd rev)) Z.zero) then
                        obs1 (Printf.sprintf "mut.truncate.%d" i) "S" (chk v (List.rev (List.tl rev)))
                    | [] -> ());
                   if has c (k "z2") then obs1 (k "check_other_point") "S" (decision (MLPC.ml_check fo ck cv (fs_of c (k "z2")) v pf))
                 end
               | _ -> ())
            | _ ->
              obs1 (k "open") "S" (class_of (MLPC.ml_open fo ck (nat_of_int pnv) f z)))
         done
       | r -> obs1 "trim" "S" (class_of r))
    | r -> obs1 "setup" "S" (class_of r)
  end

let () =
  let file = Sys.argv.(1) in
  let ic = open_in file in
  let cases = read_cases ic in
  close_in ic;
  List.iter (fun c ->
      Buffer.clear buf;
      (if has c "modulus" then modulus := Z.of_string (str1 c "modulus")
       else modulus := Z.of_string "52435875175126190479447740508185965837690552500527637822603658699938581184513");
      (try
         (match c.kind with
          | "kzg10" -> run_kzg10 c
          | "c16" -> run_c16 c
          | "pc" -> run_pc c
          | "c13" -> run_c13 c
          | "c08" -> run_c08 c
          | "c09" -> run_c09 c
          | "c15" -> run_c15 c
          | "mlpc" -> run_mlpc c; if has c "c12" then run_c12 c
          | "c14" -> run_c14 c
          | _ -> () (* not modelled: the library run is judged by the implementation-level oracle only *))
       with e -> obs1 "runner_exception" "S" (String.map (fun ch -> if ch = ' ' then '_' else ch) (Printexc.to_string e)));
      print_string ("case " ^ c.id ^ "\n");
      print_string (Buffer.contents buf);
      print_string "end\n")
    cases
