//! Shared helpers: field/group text encoding, counting RNG, panic capture.
use ark_ec::{AffineRepr, CurveGroup};
use ark_ff::{BigInteger, PrimeField};
use ark_poly_commit::Error;
use ark_serialize::CanonicalSerialize;
use ark_std::rand::RngCore;
use rand_chacha::ChaCha20Rng;
use ark_std::rand::SeedableRng;
use std::panic::{catch_unwind, AssertUnwindSafe};

pub fn f_from_str<F: PrimeField>(s: &str) -> F {
    if let Some(rest) = s.strip_prefix('-') {
        -F::from_str(rest).ok().unwrap()
    } else {
        F::from_str(s).ok().unwrap_or_else(|| panic!("bad field literal {}", s))
    }
}
pub fn f_to_str<F: PrimeField>(x: &F) -> String {
    x.into_bigint().to_string()
}
pub fn fs_to_strs<F: PrimeField>(xs: &[F]) -> Vec<String> {
    xs.iter().map(f_to_str).collect()
}
pub fn fs_from_strs<F: PrimeField>(xs: &[String]) -> Vec<F> {
    xs.iter().map(|s| f_from_str(s)).collect()
}
pub fn hex(bytes: &[u8]) -> String {
    let mut s = String::with_capacity(bytes.len() * 2);
    for b in bytes {
        s.push_str(&format!("{:02x}", b));
    }
    s
}
pub fn ser_hex<T: CanonicalSerialize>(x: &T) -> String {
    let mut v = Vec::new();
    x.serialize_compressed(&mut v).unwrap();
    hex(&v)
}
pub fn ser_bytes<T: CanonicalSerialize>(x: &T, compressed: bool) -> Vec<u8> {
    let mut v = Vec::new();
    if compressed {
        x.serialize_compressed(&mut v).unwrap();
    } else {
        x.serialize_uncompressed(&mut v).unwrap();
    }
    v
}
/// [e]·generator, computed with the curve library's scalar multiplication
pub fn exp_g<G: AffineRepr>(e: G::ScalarField) -> G {
    (G::generator() * e).into_affine()
}
#[allow(dead_code)]
pub fn bits_le<F: PrimeField>(x: &F) -> Vec<bool> {
    x.into_bigint().to_bits_le()
}

/// ChaCha20 seeded from a u64, counting the bytes handed out.
pub struct CountingRng {
    pub inner: ChaCha20Rng,
    pub bytes: u64,
    pub calls: u64,
}
impl CountingRng {
    pub fn new(seed: u64) -> Self {
        CountingRng {
            inner: ChaCha20Rng::seed_from_u64(seed),
            bytes: 0,
            calls: 0,
        }
    }
}
impl RngCore for CountingRng {
    fn next_u32(&mut self) -> u32 {
        self.bytes += 4;
        self.calls += 1;
        self.inner.next_u32()
    }
    fn next_u64(&mut self) -> u64 {
        self.bytes += 8;
        self.calls += 1;
        self.inner.next_u64()
    }
    fn fill_bytes(&mut self, dest: &mut [u8]) {
        self.bytes += dest.len() as u64;
        self.calls += 1;
        self.inner.fill_bytes(dest)
    }
    fn try_fill_bytes(&mut self, dest: &mut [u8]) -> Result<(), ark_std::rand::Error> {
        self.bytes += dest.len() as u64;
        self.calls += 1;
        self.inner.try_fill_bytes(dest)
    }
}

/// Replays `seed`, drawing `n` values with `draw`; returns the values and the
/// cumulative byte counts (entry k = bytes consumed after k draws; n+1 entries).
pub fn replay<T>(seed: u64, n: usize, mut draw: impl FnMut(&mut CountingRng) -> T) -> (Vec<T>, Vec<u64>) {
    let mut rng = CountingRng::new(seed);
    let mut vals = Vec::new();
    let mut cum = vec![0u64];
    for _ in 0..n {
        vals.push(draw(&mut rng));
        cum.push(rng.bytes);
    }
    (vals, cum)
}
/// number of draws matching a consumed byte count, or -1
pub fn draws_of(cum: &[u64], bytes: u64) -> i64 {
    cum.iter().position(|b| *b == bytes).map(|p| p as i64).unwrap_or(-1)
}

#[derive(Debug)]
pub enum Outcome<T> {
    Ok(T),
    Err(String),
    Panic,
}
impl<T> Outcome<T> {
    pub fn class(&self) -> String {
        match self {
            Outcome::Ok(_) => "ok".into(),
            Outcome::Err(e) => format!("err:{}", e),
            Outcome::Panic => "panic".into(),
        }
    }
    pub fn ok(self) -> Option<T> {
        match self {
            Outcome::Ok(t) => Some(t),
            _ => None,
        }
    }
}

pub fn err_name(e: &Error) -> String {
    let s = format!("{:?}", e);
    let name: String = s
        .chars()
        .take_while(|c| c.is_ascii_alphanumeric() || *c == '_')
        .collect();
    name
}

pub fn guard<T>(f: impl FnOnce() -> Result<T, Error>) -> Outcome<T> {
    match catch_unwind(AssertUnwindSafe(f)) {
        Ok(Ok(t)) => Outcome::Ok(t),
        Ok(Err(e)) => Outcome::Err(err_name(&e)),
        Err(_) => Outcome::Panic,
    }
}
pub fn guard_any<T, E2: core::fmt::Debug>(f: impl FnOnce() -> Result<T, E2>) -> Outcome<T> {
    match catch_unwind(AssertUnwindSafe(f)) {
        Ok(Ok(t)) => Outcome::Ok(t),
        Ok(Err(e)) => {
            let s = format!("{:?}", e);
            Outcome::Err(s.chars().take_while(|c| c.is_ascii_alphanumeric() || *c == '_').collect())
        }
        Err(_) => Outcome::Panic,
    }
}
pub fn decision(o: &Outcome<bool>) -> String {
    match o {
        Outcome::Ok(true) => "accept".into(),
        Outcome::Ok(false) => "reject".into(),
        _ => "refused".into(),
    }
}

pub fn unhex(s: &str) -> Vec<u8> {
    (0..s.len() / 2).map(|i| u8::from_str_radix(&s[2 * i..2 * i + 2], 16).unwrap()).collect()
}
