//! C13: calculate_t, index derivation, row encoding.
use crate::proto::{Case, Out};
use crate::schemes::{BrakedownMLPC, ColH, LigeroMLPC, LigeroUniPC, MTConfig, UniPoly};
use crate::sponge::{Ev, RecSponge};
use crate::util::*;
use ark_bls12_381::Fr;
use ark_crypto_primitives::sponge::CryptographicSponge;
use ark_ff::{Field, One, PrimeField, Zero};
use ark_poly::{EvaluationDomain, GeneralEvaluationDomain, SparseMultilinearExtension};
use ark_poly_commit::linear_codes::{verif_hooks as lh, LinearEncode, MultilinearBrakedown, MultilinearLigero, UnivariateLigero};
use ark_poly_commit::PolynomialCommitment;

fn calct<F: PrimeField>(c: &Case, out: &mut Out) {
    let lam = c.usize1("lam");
    let d0 = c.usize1("d0");
    let d1 = c.usize1("d1");
    let n = c.usize1("n");
    let r = guard(|| lh::calculate_t::<F>(lam, (d0, d1), n));
    out.obs1("t", "N", match r { Outcome::Ok(t) => t.to_string(), Outcome::Err(_) => "err".into(), Outcome::Panic => "panic".into() });
}

fn lin<F: PrimeField>(a: F, x: &[F], b: F, y: &[F]) -> Vec<F> {
    x.iter().zip(y).map(|(u, v)| a * u + b * v).collect()
}

fn encode_case<L, P>(c: &Case, out: &mut Out, pp: &L::LinCodePCParams, fix: Option<usize>)
where
    P: ark_poly::Polynomial<Fr>,
    L: LinearEncode<Fr, MTConfig, P, ColH<Fr>>,
{
    let mut x: Vec<Fr> = fs_from_strs(c.get("x"));
    let mut y: Vec<Fr> = fs_from_strs(c.get("y"));
    if let Some(m) = fix {
        // messages of exactly the row length the parameters were generated for (cyclic extension)
        x = (0..m).map(|i| x[i % x.len()] + Fr::from(i as u64)).collect();
        y = (0..m).map(|i| y[i % y.len()] - Fr::from(i as u64)).collect();
    }
    let a: Fr = f_from_str(c.str1("a"));
    let b: Fr = f_from_str(c.str1("b"));
    let ex = guard(|| L::encode(&x, pp));
    out.obs1("encode", "S", ex.class());
    if let Some(ex) = ex.ok() {
        let ey = L::encode(&y, pp).unwrap();
        let exy = L::encode(&lin(a, &x, b, &y), pp).unwrap();
        out.obs1("enc_len", "N", ex.len().to_string());
        out.obs1("linear", "S", if exy == lin(a, &ex, b, &ey) && ey.len() == ex.len() { "holds".into() } else { "fails".into() });
        out.obs("enc", "F", &fs_to_strs(&ex));
    }
}

/// honest single-polynomial opening: shape of the proof against t and the transcript-derived positions
fn proofshape<L, P>(c: &Case, out: &mut Out, poly: P, point: P::Point, pp_override: Option<L::LinCodePCParams>)
where
    P: ark_poly::Polynomial<Fr> + Clone,
    P::Point: Clone,
    L: LinearEncode<Fr, MTConfig, P, ColH<Fr>>,
{
    use ark_poly_commit::linear_codes::{LinCodeParametersInfo, LinearCodePCS};
    use ark_poly_commit::{LabeledPolynomial, PCUniversalParams};
    type PCS<L, P> = LinearCodePCS<L, Fr, P, MTConfig, ColH<Fr>>;
    let mut rng = CountingRng::new(c.u64_1("seed"));
    let nv = if c.str1("num_vars") == "none" { None } else { Some(c.usize1("num_vars")) };
    let pp = match pp_override {
        Some(p) => p,
        None => match guard_any(|| PCS::<L, P>::setup(c.usize1("max_degree"), nv, &mut rng)).ok() { Some(p) => p, None => { out.obs1("setup", "S", "refused".into()); return; } },
    };
    let (ck, vk) = PCS::<L, P>::trim(&pp, pp.max_degree(), 0, None).unwrap();
    let lp = LabeledPolynomial::new("p".into(), poly.clone(), None, None);
    let (cm, st) = PCS::<L, P>::commit(&ck, [&lp], None).unwrap();
    let (n_rows, n_cols, n_ext) = lh::commitment_metadata(cm[0].commitment());
    let mut ps = RecSponge::<Fr>::fresh();
    let mut vs = ps.clone();
    let pf = PCS::<L, P>::open(&ck, [&lp], &cm, &point, &mut ps, &st, None).unwrap();
    let (d0, d1) = ck.distance();
    out.input("lam", &[ck.sec_param().to_string()]);
    out.input("d0", &[d0.to_string()]);
    out.input("d1", &[d1.to_string()]);
    out.input("n_ext", &[n_ext.to_string()]);
    let mut k = 0;
    for e in &ps.log {
        if let Ev::SqBytes(_, b) = e {
            out.input(&format!("sq.{}", k), &b.iter().map(|x| x.to_string()).collect::<Vec<_>>());
            k += 1;
        }
    }
    out.obs("dims", "N", &[n_rows.to_string(), n_cols.to_string(), n_ext.to_string()]);
    out.obs1("nproofs", "N", pf.len().to_string());
    let (paths, v, cols, wf) = lh::proof_parts(&pf[0]);
    out.obs("shape", "N", &[paths.len().to_string(), cols.len().to_string(), v.len().to_string(),
        wf.as_ref().map(|w| w.len().to_string()).unwrap_or("none".into())]);
    out.obs1("npaths", "N", paths.len().to_string());
    out.obs1("ncols", "N", cols.len().to_string());
    out.obs("col_lens", "N", &{ let mut l: Vec<usize> = cols.iter().map(|x| x.len()).collect(); l.dedup(); if l.is_empty() { vec!["-".into()] } else { l.iter().map(|x| x.to_string()).collect() } });
    out.obs("leaf_idx", "N", &{ let l: Vec<String> = paths.iter().map(|p| p.leaf_index.to_string()).collect(); if l.is_empty() { vec!["-".into()] } else { l } });
    let val = poly.evaluate(&point);
    let d = guard_any(|| PCS::<L, P>::check(&vk, &cm, &point, [val], &pf, &mut vs, None));
    out.obs1("check", "S", decision(&d));
}

/// Ligero (univariate) end to end against the algebraic model: the coefficient matrix, the opened vectors, the queried
/// columns, the verifier's decision on the honest proof, on a false value and on mutated proofs (the proof "as sent"
/// and the verifier's own transcript are handed to the model).
fn ligflow<L, P>(c: &Case, out: &mut Out, poly: P, z: P::Point, pp: L::LinCodePCParams, rho_inv: Option<usize>)
where
    P: ark_poly::Polynomial<Fr> + Clone,
    P::Point: Clone,
    L: LinearEncode<Fr, MTConfig, P, ColH<Fr>>,
    L::LinCodePCParams: Clone,
{
    use ark_poly_commit::linear_codes::{LinCodeParametersInfo, LinearCodePCS};
    use ark_poly_commit::LabeledPolynomial;
    type PCS<L, P> = LinearCodePCS<L, Fr, P, MTConfig, ColH<Fr>>;
    let (ck, vk) = (pp.clone(), pp.clone());
    out.input("wf", &[if ck.check_well_formedness() { "1".into() } else { "0".into() }]);
    let lp = LabeledPolynomial::new("p".into(), poly.clone(), None, None);
    let cmr = guard_any(|| PCS::<L, P>::commit(&ck, [&lp], None));
    out.obs1("commit", "S", cmr.class());
    let (cm, st) = match cmr.ok() { Some(x) => x, None => return };
    let (n_rows, n_cols, n_ext) = lh::commitment_metadata(cm[0].commitment());
    out.input("n_rows", &[n_rows.to_string()]);
    out.input("n_cols", &[n_cols.to_string()]);
    out.input("n_ext", &[n_ext.to_string()]);
    match rho_inv {
        Some(rho) => {
            // Reed-Solomon: the FFT domain the rows are evaluated on
            let dom = GeneralEvaluationDomain::<Fr>::new(n_cols * rho).unwrap();
            out.input("omega", &[f_to_str(&dom.group_gen())]);
            out.obs1("dom_size", "N", dom.size().to_string());
        }
        None => {
            // any other linear code: its generator matrix, the images of the unit messages under the library's encoder
            for i in 0..n_cols {
                let mut e = vec![Fr::zero(); n_cols];
                e[i] = Fr::one();
                let g = L::encode(&e, &ck).unwrap();
                out.input(&format!("G.{}", i), &fs_to_strs(&g));
            }
        }
    }
    // the vector the library arranges into the matrix (coefficients with trailing zeros stripped / evaluations) and the point as a vector
    out.input("coeffs", &{ let v = fs_to_strs(&L::poly_to_vec(&poly)); if v.is_empty() { vec!["-".into()] } else { v } });
    out.input("point_vec", &{ let v = fs_to_strs(&L::point_to_vec(z.clone())); if v.is_empty() { vec!["-".into()] } else { v } });
    let tape = |sp: &RecSponge<Fr>, pre: &str, out: &mut Out| {
        let mut k = 0;
        let mut r: Vec<String> = vec![];
        for e in &sp.log {
            match e {
                Ev::SqBytes(_, b) => { out.input(&format!("{}sq.{}", pre, k), &b.iter().map(|x| x.to_string()).collect::<Vec<_>>()); k += 1; }
                Ev::SqField(_, v) => r.extend(v.iter().cloned()),
                _ => {}
            }
        }
        out.input(&format!("{}r", pre), &if r.is_empty() { vec!["-".into()] } else { r });
        out.input(&format!("{}nsq", pre), &[k.to_string()]);
    };
    let mut ps = RecSponge::<Fr>::fresh();
    let opr = guard_any(|| PCS::<L, P>::open(&ck, [&lp], &cm, &z, &mut ps, &st, None));
    out.obs1("open", "S", opr.class());
    let pf = match opr.ok() { Some(x) => x, None => return };
    tape(&ps, "p.", out);
    let dash = |v: Vec<String>| if v.is_empty() { vec!["-".to_string()] } else { v };
    let parts_obs = |name: &str, p: &ark_poly_commit::linear_codes::LinCodePCProof<Fr, MTConfig>, as_input: bool, intact: bool, out: &mut Out| {
        let (paths, v, cols, wf) = lh::proof_parts(p);
        let items: Vec<(String, &str, Vec<String>)> = vec![
            (format!("{}v", name), "F", dash(fs_to_strs(v))),
            (format!("{}wf", name), "F", match wf { Some(w) => dash(fs_to_strs(w)), None => vec!["none".into()] }),
            (format!("{}leaf_idx", name), "N", dash(paths.iter().map(|q| q.leaf_index.to_string()).collect())),
            (format!("{}col_lens", name), "N", dash(cols.iter().map(|x| x.len().to_string()).collect())),
            (format!("{}cols", name), "F", dash(cols.iter().flat_map(|x| fs_to_strs(x)).collect())),
        ];
        for (k, t, v) in items { if as_input { out.input(&k, &v); } else { out.obs(&k, t, &v); } }
        if as_input { out.input(&format!("{}intact", name), &[if intact { "1".into() } else { "0".into() }]); }
    };
    parts_obs("pf.", &pf[0], false, true, out);
    let val = poly.evaluate(&z);
    out.obs1("value", "F", f_to_str(&val));
    let mut vs = RecSponge::<Fr>::fresh();
    let d = guard_any(|| PCS::<L, P>::check(&vk, &cm, &z, [val], &pf, &mut vs, None));
    out.obs1("check", "S", decision(&d));
    tape(&vs, "v.", out);
    let delta: Fr = f_from_str(c.str1("delta"));
    let mut vs2 = RecSponge::<Fr>::fresh();
    let d2 = guard_any(|| PCS::<L, P>::check(&vk, &cm, &z, [val + delta], &pf, &mut vs2, None));
    out.obs1("check_bad", "S", decision(&d2));
    // mutated proofs: kind j k2
    for (i, toks) in c.indexed("mut") {
        let kind = toks[0].as_str();
        let args: Vec<String> = toks[1..].to_vec();
        let m = match crate::schemes::mutate_lincode_proof(kind, &pf, &args) { Some(m) => m, None => { out.input(&format!("m{}.skip", i), &["1".into()]); continue } };
        if m.len() != 1 { out.input(&format!("m{}.skip", i), &["1".into()]); continue; }
        let intact = !(kind == "path_index" || kind == "path_node");
        parts_obs(&format!("m{}.", i), &m[0], true, intact, out);
        let mut ms = RecSponge::<Fr>::fresh();
        let dm = guard_any(|| PCS::<L, P>::check(&vk, &cm, &z, [val], &m, &mut ms, None));
        out.obs1(&format!("mut.{}", i), "S", decision(&dm));
        tape(&ms, &format!("m{}.", i), out);
    }
}

/// Ligero with several polynomials in one opening (univariate: of different sizes): the verifier's outer loop.
/// The transcript of every run is split per polynomial (one block of well-formedness challenges, then t index squeezes).
fn ligmulti<L, P>(c: &Case, out: &mut Out, polys: Vec<P>, z: P::Point, pp: L::LinCodePCParams, rho: usize)
where
    P: ark_poly::Polynomial<Fr> + Clone,
    P::Point: Clone,
    L: LinearEncode<Fr, MTConfig, P, ColH<Fr>>,
    L::LinCodePCParams: Clone,
{
    use ark_poly_commit::linear_codes::{LinCodeParametersInfo, LinearCodePCS};
    use ark_poly_commit::LabeledPolynomial;
    type PCS<L, P> = LinearCodePCS<L, Fr, P, MTConfig, ColH<Fr>>;
    let (ck, vk) = (pp.clone(), pp.clone());
    let wf = ck.check_well_formedness();
    out.input("wf", &[if wf { "1".into() } else { "0".into() }]);
    let n = polys.len();
    let lps: Vec<LabeledPolynomial<Fr, P>> = polys.iter().enumerate().map(|(i, p)| LabeledPolynomial::new(format!("p{:03}", i), p.clone(), None, None)).collect();
    let cmr = guard_any(|| PCS::<L, P>::commit(&ck, lps.iter(), None));
    out.obs1("commit", "S", cmr.class());
    let (cm, st) = match cmr.ok() { Some(x) => x, None => return };
    let dash = |v: Vec<String>| if v.is_empty() { vec!["-".to_string()] } else { v };
    for i in 0..n {
        let (n_rows, n_cols, n_ext) = lh::commitment_metadata(cm[i].commitment());
        out.input(&format!("dims.{}", i), &[n_rows.to_string(), n_cols.to_string(), n_ext.to_string()]);
        let dom = GeneralEvaluationDomain::<Fr>::new(n_cols * rho).unwrap();
        out.input(&format!("omega.{}", i), &[f_to_str(&dom.group_gen())]);
        out.input(&format!("coeffs.{}", i), &dash(fs_to_strs(&L::poly_to_vec(&polys[i]))));
    }
    out.input("point_vec", &dash(fs_to_strs(&L::point_to_vec(z.clone()))));
    let mut ps = RecSponge::<Fr>::fresh();
    let opr = guard_any(|| PCS::<L, P>::open(&ck, lps.iter(), cm.iter(), &z, &mut ps, st.iter(), None));
    out.obs1("open", "S", opr.class());
    let pf = match opr.ok() { Some(x) => x, None => return };
    let ts: Vec<usize> = pf.iter().map(|p| lh::proof_parts(p).0.len()).collect();
    // per-polynomial split of a transcript
    let tape = |sp: &RecSponge<Fr>, pre: &str, out: &mut Out| {
        let mut fields: Vec<&Vec<String>> = vec![];
        let mut bytes: Vec<&Vec<u8>> = vec![];
        for e in &sp.log {
            match e { Ev::SqBytes(_, b) => bytes.push(b), Ev::SqField(_, v) => fields.push(v), _ => {} }
        }
        let mut bi = 0;
        for i in 0..n {
            let r: Vec<String> = if wf { fields.get(i).map(|v| (*v).clone()).unwrap_or_default() } else { vec![] };
            out.input(&format!("{}r.{}", pre, i), &if r.is_empty() { vec!["-".into()] } else { r });
            let mut k = 0;
            while k < ts[i] && bi < bytes.len() {
                out.input(&format!("{}sq.{}.{}", pre, i, k), &bytes[bi].iter().map(|x| x.to_string()).collect::<Vec<_>>());
                k += 1; bi += 1;
            }
            out.input(&format!("{}nsq.{}", pre, i), &[k.to_string()]);
        }
    };
    tape(&ps, "p.", out);
    let parts = |name: &str, p: &ark_poly_commit::linear_codes::LinCodePCProof<Fr, MTConfig>, as_input: bool, out: &mut Out| {
        let (paths, v, cols, wfv) = lh::proof_parts(p);
        let items: Vec<(String, &str, Vec<String>)> = vec![
            (format!("{}v", name), "F", dash(fs_to_strs(v))),
            (format!("{}wf", name), "F", match wfv { Some(w) => dash(fs_to_strs(w)), None => vec!["none".into()] }),
            (format!("{}leaf_idx", name), "N", dash(paths.iter().map(|q| q.leaf_index.to_string()).collect())),
            (format!("{}col_lens", name), "N", dash(cols.iter().map(|x| x.len().to_string()).collect())),
            (format!("{}cols", name), "F", dash(cols.iter().flat_map(|x| fs_to_strs(x)).collect())),
        ];
        for (k, t, v) in items { if as_input { out.input(&k, &v); } else { out.obs(&k, t, &v); } }
    };
    out.obs1("nproofs", "N", pf.len().to_string());
    for i in 0..pf.len() { parts(&format!("pf.{}.", i), &pf[i], false, out); }
    let vals: Vec<Fr> = polys.iter().map(|p| p.evaluate(&z)).collect();
    out.obs("values", "F", &fs_to_strs(&vals));
    let mut vs = RecSponge::<Fr>::fresh();
    let d = guard_any(|| PCS::<L, P>::check(&vk, cm.iter(), &z, vals.clone(), &pf, &mut vs, None));
    out.obs1("check", "S", decision(&d));
    tape(&vs, "v.", out);
    // a false value at one position
    let bp = c.usize1("bad_pos") % n;
    let delta: Fr = f_from_str(c.str1("delta"));
    let mut bad = vals.clone();
    bad[bp] += delta;
    let mut vs2 = RecSponge::<Fr>::fresh();
    let d2 = guard_any(|| PCS::<L, P>::check(&vk, cm.iter(), &z, bad, &pf, &mut vs2, None));
    out.obs1("check_bad", "S", decision(&d2));
    tape(&vs2, "b.", out);
    // mutated proof arrays: kind, which polynomial, second index
    for (k, toks) in c.indexed("mut") {
        let kind = toks[0].as_str();
        let args: Vec<String> = toks[1..].to_vec();
        let m = match crate::schemes::mutate_lincode_proof(kind, &pf, &args) { Some(m) => m, None => { out.input(&format!("m{}.skip", k), &["1".into()]); continue } };
        let which = args.get(0).and_then(|x| x.parse::<usize>().ok()).unwrap_or(0) % pf.len();
        out.input(&format!("m{}.n", k), &[m.len().to_string()]);
        out.input(&format!("m{}.which", k), &[which.to_string()]);
        out.input(&format!("m{}.intact", k), &[if kind == "path_index" || kind == "path_node" { "0".into() } else { "1".into() }]);
        for i in 0..m.len() { parts(&format!("m{}.{}.", k, i), &m[i], true, out); }
        let mut ms = RecSponge::<Fr>::fresh();
        let dm = guard_any(|| PCS::<L, P>::check(&vk, cm.iter(), &z, vals.clone(), &m, &mut ms, None));
        out.obs1(&format!("mut.{}", k), "S", decision(&dm));
        tape(&ms, &format!("m{}.", k), out);
    }
}

pub fn run(c: &Case, out: &mut Out) {
    match c.str1("sub") {
        "ligmulti" => {
            use crate::pc::Adapter;
            use crate::schemes::{LigeroMLA, LigeroUniA};
            let pp = crate::schemes::ligero_params(c).expect("lig parameters");
            let rho = c.usizes("lig")[1];
            let n = c.usize1("n");
            match c.str1("scheme") {
                "ligero_ml" => {
                    let nv = Some(c.usize1("num_vars"));
                    let polys = (0..n).map(|i| LigeroMLA::make_poly(c.get(&format!("poly.{}", i)), nv)).collect();
                    ligmulti::<MultilinearLigero<Fr, MTConfig, SparseMultilinearExtension<Fr>, ColH<Fr>>, SparseMultilinearExtension<Fr>>(c, out, polys, LigeroMLA::make_point(c.get("pt")), pp, rho)
                }
                _ => {
                    let polys = (0..n).map(|i| LigeroUniA::make_poly(c.get(&format!("poly.{}", i)), None)).collect();
                    ligmulti::<UnivariateLigero<Fr, MTConfig, UniPoly, ColH<Fr>>, UniPoly>(c, out, polys, LigeroUniA::make_point(c.get("pt")), pp, rho)
                }
            }
        }
        "ligflow" => {
            use crate::pc::Adapter;
            use crate::schemes::{LigeroMLA, LigeroUniA};
            match c.str1("scheme") {
                "ligero_ml" => {
                    let nv = Some(c.usize1("num_vars"));
                    let pp = crate::schemes::ligero_params(c).expect("lig parameters");
                    let rho = c.usizes("lig")[1];
                    ligflow::<MultilinearLigero<Fr, MTConfig, SparseMultilinearExtension<Fr>, ColH<Fr>>, SparseMultilinearExtension<Fr>>(c, out, LigeroMLA::make_poly(c.get("poly"), nv), LigeroMLA::make_point(c.get("pt")), pp, Some(rho))
                }
                "brakedown_ml" => {
                    use crate::schemes::BrakedownMLA;
                    use ark_poly_commit::PolynomialCommitment;
                    let nv = Some(c.usize1("num_vars"));
                    let mut rng = CountingRng::new(c.u64_1("seed"));
                    let pp = match guard_any(|| BrakedownMLPC::setup(1, nv, &mut rng)).ok() { Some(p) => p, None => { out.obs1("commit", "S", "setup-refused".into()); return; } };
                    ligflow::<MultilinearBrakedown<Fr, MTConfig, SparseMultilinearExtension<Fr>, ColH<Fr>>, SparseMultilinearExtension<Fr>>(c, out, BrakedownMLA::make_poly(c.get("poly"), nv), BrakedownMLA::make_point(c.get("pt")), pp, None)
                }
                _ => {
                    let pp = crate::schemes::ligero_params(c).expect("lig parameters");
                    let rho = c.usizes("lig")[1];
                    ligflow::<UnivariateLigero<Fr, MTConfig, UniPoly, ColH<Fr>>, UniPoly>(c, out, LigeroUniA::make_poly(c.get("poly"), None), LigeroUniA::make_point(c.get("pt")), pp, Some(rho))
                }
            }
        }
        "proofshape" => {
            use crate::pc::Adapter;
            use crate::schemes::{BrakedownMLA, LigeroMLA, LigeroUniA};
            let nv = if c.str1("num_vars") == "none" { None } else { Some(c.usize1("num_vars")) };
            match c.str1("scheme") {
                "ligero_uni" => proofshape::<UnivariateLigero<Fr, MTConfig, UniPoly, ColH<Fr>>, UniPoly>(c, out, LigeroUniA::make_poly(c.get("poly"), nv), LigeroUniA::make_point(c.get("pt")), crate::schemes::ligero_params(c)),
                "ligero_ml" => proofshape::<MultilinearLigero<Fr, MTConfig, SparseMultilinearExtension<Fr>, ColH<Fr>>, SparseMultilinearExtension<Fr>>(c, out, LigeroMLA::make_poly(c.get("poly"), nv), LigeroMLA::make_point(c.get("pt")), crate::schemes::ligero_params(c)),
                "brakedown_ml" => proofshape::<MultilinearBrakedown<Fr, MTConfig, SparseMultilinearExtension<Fr>, ColH<Fr>>, SparseMultilinearExtension<Fr>>(c, out, BrakedownMLA::make_poly(c.get("poly"), nv), BrakedownMLA::make_point(c.get("pt")), None),
                s => panic!("unknown scheme {}", s),
            }
        }
        "calct" => match c.str1("field") {
            "bls381" => calct::<Fr>(c, out),
            "ed" => calct::<ark_ed_on_bls12_381::Fr>(c, out),
            "bn254" => calct::<ark_bn254::Fr>(c, out),
            f => panic!("unknown field {}", f),
        },
        "indices" => {
            let n = c.usize1("n");
            let t = c.usize1("t");
            let mut sp = RecSponge::<Fr>::fresh();
            sp.absorb(&fs_from_strs::<Fr>(c.get("pre")));
            let start = sp.log.len();
            out.obs1("nbytes", "N", lh::get_num_bytes(n).to_string());
            let r = guard(|| lh::get_indices_from_sponge(n, t, &mut sp));
            out.obs1("indices_res", "S", r.class());
            let mut k = 0;
            for e in &sp.log[start..] {
                if let Ev::SqBytes(_, b) = e {
                    out.input(&format!("sq.{}", k), &b.iter().map(|x| x.to_string()).collect::<Vec<_>>());
                    k += 1;
                }
            }
            out.obs1("nsqueezes", "N", k.to_string());
            // every squeezed block is re-absorbed (squeeze/absorb alternate)
            let alt = sp.log[start..].chunks(2).all(|ch| ch.len() == 2 && matches!((&ch[0], &ch[1]), (Ev::SqBytes(_, a), Ev::Absorb(b)) if a == b));
            out.obs1("reabsorbed", "S", if alt { "yes".into() } else { "no".into() });
            if let Some(ix) = r.ok() {
                out.obs("indices", "N", &{ let v: Vec<String> = ix.iter().map(|x| x.to_string()).collect(); if v.is_empty() { vec!["-".into()] } else { v } });
            }
        }
        "rs" => {
            let msg: Vec<Fr> = fs_from_strs(c.get("x"));
            let rho_inv = c.usize1("rho_inv");
            let dom = GeneralEvaluationDomain::<Fr>::new(msg.len() * rho_inv).unwrap();
            out.input("omega", &[f_to_str(&dom.group_gen())]);
            out.input("m_ext", &[dom.size().to_string()]);
            let e = lh::reed_solomon(&msg, rho_inv);
            out.obs1("enc_len", "N", e.len().to_string());
            out.obs("enc", "F", &fs_to_strs(&e));
        }
        "encode" => {
            let mut rng = CountingRng::new(c.u64_1("seed"));
            match c.str1("scheme") {
                "ligero_uni" => {
                    let pp = LigeroUniPC::setup(c.usize1("max_degree"), None, &mut rng).unwrap();
                    encode_case::<UnivariateLigero<Fr, MTConfig, UniPoly, ColH<Fr>>, UniPoly>(c, out, &pp, None);
                }
                "ligero_ml" => {
                    let pp = LigeroMLPC::setup(1, Some(c.usize1("num_vars")), &mut rng).unwrap();
                    encode_case::<MultilinearLigero<Fr, MTConfig, SparseMultilinearExtension<Fr>, ColH<Fr>>, SparseMultilinearExtension<Fr>>(c, out, &pp, None);
                }
                "brakedown_ml" => {
                    let pp = BrakedownMLPC::setup(1, Some(c.usize1("num_vars")), &mut rng).unwrap();
                    // Brakedown encodes messages of exactly the row length fixed at setup
                    let m = ark_poly_commit::linear_codes::LinCodeParametersInfo::<MTConfig, ColH<Fr>>::compute_dimensions(&pp, 1usize << c.usize1("num_vars")).1;
                    encode_case::<MultilinearBrakedown<Fr, MTConfig, SparseMultilinearExtension<Fr>, ColH<Fr>>, SparseMultilinearExtension<Fr>>(c, out, &pp, Some(m));
                }
                s => panic!("unknown scheme {}", s),
            }
        }
        s => panic!("unknown c13 sub {}", s),
    }
}
