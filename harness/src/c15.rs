//! C15: PST13 parameters and the multivariate division.  The `Combinations` iterator and
//! `divide_at_point` through the verif hooks; setup with a seeded RNG (trapdoors recovered by
//! replaying the RNG; group elements compared relative to the library's own base elements);
//! trim; pairing consistency of the published monomials.
use crate::proto::{Case, Out};
use crate::schemes::{MVPoly, Pst13A, Pst13PC};
use crate::pc::Adapter;
use crate::util::*;
use ark_bls12_381::{Bls12_381, Fr};
use ark_ec::pairing::Pairing;
use ark_ec::AffineRepr;
use ark_ff::{One, UniformRand, Zero};
use ark_poly::multivariate::{SparseTerm, Term};
use ark_poly::{DenseMVPolynomial, Polynomial};
use ark_poly_commit::marlin_pst13_pc::verif_hooks as hooks;
use ark_poly_commit::PolynomialCommitment;

fn hx<T: ark_serialize::CanonicalSerialize>(x: &T) -> String { ser_hex(x) }

/// exponent vector of a term, "e0.e1.e2"
fn exps(t: &SparseTerm, nv: usize) -> Vec<usize> {
    let mut v = vec![0usize; nv];
    for (var, pow) in t.iter() { if *var < nv { v[*var] += *pow; } else { v.push(*pow + 1000 * *var); } }
    v
}
fn exps_str(v: &[usize]) -> String { v.iter().map(|e| e.to_string()).collect::<Vec<_>>().join(".") }

/// canonical text of a sparse polynomial: terms sorted by their text, "coeff*v^p*v^p"
pub fn poly_canon(p: &MVPoly) -> Vec<String> {
    let mut ts: Vec<(String, String)> = p.terms().iter().filter(|(c, _)| !c.is_zero()).map(|(c, t)| {
        let mon = t.iter().map(|(v, e)| format!("{}^{}", v, e)).collect::<Vec<_>>().join("*");
        (mon, f_to_str(c))
    }).collect();
    ts.sort();
    if ts.is_empty() { return vec!["zero".into()]; }
    ts.into_iter().map(|(m, c)| format!("{}:{}", c, m)).collect()
}

pub fn run(c: &Case, out: &mut Out) {
    match c.str1("sub") {
        "comb" => {
            let orig = c.usizes("orig");
            let len = c.usize1("len");
            let r = guard_any(|| -> Result<Vec<Vec<usize>>, ()> { Ok(hooks::combinations(orig.clone(), len)) });
            out.obs1("comb", "S", r.class());
            if let Some(v) = r.ok() {
                out.obs1("ncombos", "N", v.len().to_string());
                out.obs("combos", "S", &v.iter().map(|x| x.iter().map(|e| e.to_string()).collect::<Vec<_>>().join(",")).collect::<Vec<_>>());
            }
        }
        "setup" => {
            let nv = c.usize1("num_vars");
            let d = c.usize1("D");
            let seed = c.u64_1("seed");
            let (betas, _) = replay(seed, nv, |r| Fr::rand(r));
            let mut rng = CountingRng::new(seed);
            let r = guard(|| Pst13PC::setup(d, Some(nv), &mut rng));
            out.obs1("setup", "S", r.class());
            let pp = match r.ok() { Some(p) => p, None => return };
            out.input("betas", &fs_to_strs(&betas));
            let one_term = SparseTerm::new(vec![]);
            let g = match pp.powers_of_g.get(&one_term) { Some(g) => *g, None => { out.obs1("constant_term", "S", "missing".into()); return } };
            out.obs1("constant_term", "S", "present".into());
            out.input("base_g", &["G1".into(), hx(&g)]);
            out.input("base_gamma", &["G1".into(), hx(&pp.gamma_g)]);
            out.input("base_h", &["G2".into(), hx(&pp.h)]);
            let mut keys: Vec<(Vec<usize>, String)> = pp.powers_of_g.iter().map(|(t, v)| (exps(t, nv), hx(v))).collect();
            keys.sort();
            out.obs1("nkeys", "N", keys.len().to_string());
            out.obs("terms", "S", &keys.iter().map(|(e, _)| exps_str(e)).collect::<Vec<_>>());
            out.obs("vals", "R:base_g", &keys.iter().map(|(_, v)| v.clone()).collect::<Vec<_>>());
            out.obs("beta_h", "R:base_h", &pp.beta_h.iter().map(hx).collect::<Vec<_>>());
            out.obs1("gamma_rows", "N", pp.powers_of_gamma_g.len().to_string());
            out.obs("gamma_lens", "N", &pp.powers_of_gamma_g.iter().map(|r| r.len().to_string()).collect::<Vec<_>>());
            out.obs("gamma", "R:base_gamma", &pp.powers_of_gamma_g.iter().flat_map(|r| r.iter().map(hx)).collect::<Vec<_>>());
            out.obs("reports", "N", &[pp.num_vars.to_string(), pp.max_degree.to_string()]);
            // the published elements against the trapdoor, and the pairing identity, on the library's outputs only
            let mut vals_ok = true;
            for (t, v) in pp.powers_of_g.iter() {
                let m: Fr = t.iter().map(|(var, pow)| { let mut x = Fr::one(); for _ in 0..*pow { x *= betas[*var]; } x }).product();
                if (g * m) != v.into_group() { vals_ok = false; }
            }
            out.obs1("values_match_trapdoor", "S", if vals_ok { "yes".into() } else { "no".into() });
            let budget = c.usize1("pairings");
            let mut done = 0usize; let mut pair_ok = true; let mut missing = 0usize;
            let stride = c.usize1("stride").max(1);
            let mut idx = 0usize;
            'outer: for (t, v) in pp.powers_of_g.iter() {
                if t.degree() + 1 > d { continue; }
                for i in 0..nv {
                    idx += 1;
                    if idx % stride != 0 { continue; }
                    if done >= budget { break 'outer; }
                    let mut e = exps(t, nv); e[i] += 1;
                    let t2 = SparseTerm::new(e.iter().enumerate().filter(|(_, p)| **p > 0).map(|(v, p)| (v, *p)).collect());
                    match pp.powers_of_g.get(&t2) {
                        Some(v2) => {
                            if Bls12_381::pairing(*v2, pp.h) != Bls12_381::pairing(*v, pp.beta_h[i]) { pair_ok = false; }
                            done += 1;
                        }
                        None => missing += 1,
                    }
                }
            }
            out.obs1("pairing_consistent", "S", if pair_ok { "yes".into() } else { "no".into() });
            out.obs1("pairing_missing", "N", missing.to_string());
            // trim
            let s = c.usize1("s");
            let tr = guard(|| Pst13PC::trim(&pp, s, 1, None));
            out.obs1("trim", "S", tr.class());
            if let Some((ck, vk)) = tr.ok() {
                let mut tk: Vec<(Vec<usize>, String)> = ck.powers_of_g.iter().map(|(t, v)| (exps(t, nv), hx(v))).collect();
                tk.sort();
                out.obs("trim_terms", "S", &tk.iter().map(|(e, _)| exps_str(e)).collect::<Vec<_>>());
                let same = ck.powers_of_g.iter().all(|(t, v)| pp.powers_of_g.get(t) == Some(v));
                out.obs1("trim_values_same", "S", if same { "yes".into() } else { "no".into() });
                out.obs("trim_gamma_lens", "N", &ck.powers_of_gamma_g.iter().map(|r| r.len().to_string()).collect::<Vec<_>>());
                let gsame = ck.powers_of_gamma_g.iter().zip(pp.powers_of_gamma_g.iter()).all(|(a, b)| a[..] == b[..a.len()]) && ck.gamma_g == pp.gamma_g
                    && ck.powers_of_gamma_g.len() == pp.powers_of_gamma_g.len();
                out.obs1("trim_gamma_same", "S", if gsame { "yes".into() } else { "no".into() });
                let vk_ok = vk.g == g && vk.gamma_g == pp.gamma_g && vk.h == pp.h && vk.beta_h == pp.beta_h && vk.num_vars == nv
                    && vk.supported_degree == s && vk.max_degree == d && ck.num_vars == nv && ck.supported_degree == s && ck.max_degree == d;
                out.obs1("trim_vk", "S", if vk_ok { "faithful".into() } else { "WRONG".into() });
            }
        }
        "divide" => {
            let nv = c.usize1("num_vars");
            let p = <Pst13A as Adapter>::make_poly(&c.fields.get("poly").cloned().unwrap_or_default(), Some(nv));
            let z: Vec<Fr> = fs_from_strs(&c.get("z").clone());
            let x: Vec<Fr> = fs_from_strs(&c.get("x").clone());
            let r = guard_any(|| -> Result<Vec<MVPoly>, ()> { Ok(hooks::divide_at_point::<Bls12_381, MVPoly>(&p, &z)) });
            out.obs1("divide", "S", r.class());
            let qs = match r.ok() { Some(q) => q, None => return };
            out.obs1("nquot", "N", qs.len().to_string());
            for (i, q) in qs.iter().enumerate() { out.obs(&format!("q.{}", i), "S", &poly_canon(q)); }
            // p(x) - p(z) = sum (x_i - z_i) q_i(x) on the library's outputs alone
            let lhs = p.evaluate(&x) - p.evaluate(&z);
            let mut rhs = Fr::zero();
            for (i, q) in qs.iter().enumerate() { rhs += (x[i] - z[i]) * q.evaluate(&x); }
            out.obs1("identity", "S", if lhs == rhs && qs.len() == nv { "holds".into() } else { "fails".into() });
            out.obs1("pz", "F", f_to_str(&p.evaluate(&z)));
            let maxdeg = qs.iter().map(|q| q.degree()).max().unwrap_or(0);
            out.obs1("quot_degree_ok", "S", if p.degree() == 0 || maxdeg < p.degree() { "yes".into() } else { "no".into() });
        }
        s => panic!("unknown c15 sub {}", s),
    }
}
