//! C09: setup and trim.  KZG10::setup with a seeded RNG (trapdoor recovered by replaying the RNG, group
//! elements compared relative to the library's own base elements), Sonic trim against the parameters,
//! transparent generators of IPA and Hyrax.
use crate::proto::{Case, Out};
use crate::schemes::{HyraxPCS, IpaPC, SonicPC, UniPoly};
use crate::util::*;
use ark_bls12_381::{Bls12_381, Fr, G1Affine, G2Affine};
use ark_ec::AffineRepr;
use ark_ff::UniformRand;
use ark_poly_commit::kzg10::{PreparedVerifierKey, VerifierKey, KZG10};
use ark_poly_commit::{PCCommitterKey, PCUniversalParams, PCVerifierKey, PolynomialCommitment};
use std::collections::BTreeSet;

fn hx<T: ark_serialize::CanonicalSerialize>(x: &T) -> String { ser_hex(x) }

pub fn run(c: &Case, out: &mut Out) {
    match c.str1("sub") {
        "kzg_setup" => {
            let d = c.usize1("D");
            let g2 = c.usize1("g2") == 1;
            let seed = c.u64_1("seed");
            let (draws, _) = replay(seed, 1, |r| Fr::rand(r));
            let mut rng = CountingRng::new(seed);
            let r = guard(|| KZG10::<Bls12_381, UniPoly>::setup(d, g2, &mut rng));
            out.obs1("setup", "S", r.class());
            let pp = match r.ok() { Some(p) => p, None => return };
            out.input("beta", &[f_to_str(&draws[0])]);
            out.input("base_g", &["G1".into(), hx(&pp.powers_of_g[0])]);
            out.input("base_gamma", &["G1".into(), hx(&pp.powers_of_gamma_g[&0])]);
            out.input("base_h", &["G2".into(), hx(&pp.h)]);
            out.obs("pp_sizes", "N", &[pp.powers_of_g.len().to_string(), pp.powers_of_gamma_g.len().to_string(), pp.neg_powers_of_h.len().to_string()]);
            out.obs("pp_g", "R:base_g", &pp.powers_of_g.iter().map(hx).collect::<Vec<_>>());
            out.obs("pp_gamma", "R:base_gamma", &(0..pp.powers_of_gamma_g.len()).map(|i| hx(&pp.powers_of_gamma_g[&i])).collect::<Vec<_>>());
            out.obs1("pp_beta_h", "R:base_h", hx(&pp.beta_h));
            if g2 { out.obs("pp_neg", "R:base_h", &(0..pp.neg_powers_of_h.len()).map(|i| hx(&pp.neg_powers_of_h[&i])).collect::<Vec<_>>()); }
            out.obs1("max_degree", "N", pp.max_degree().to_string());
            let distinct = !pp.powers_of_g[0].is_zero() && !pp.powers_of_gamma_g[&0].is_zero() && !pp.h.is_zero() && pp.powers_of_g[0] != pp.powers_of_gamma_g[&0];
            out.obs1("generators_ok", "S", if distinct { "yes".into() } else { "no".into() });
            // prepared verifier key: tables of successive doublings
            let vk = VerifierKey::<Bls12_381> { g: pp.powers_of_g[0], gamma_g: pp.powers_of_gamma_g[&0], h: pp.h, beta_h: pp.beta_h,
                prepared_h: pp.prepared_h.clone(), prepared_beta_h: pp.prepared_beta_h.clone() };
            let pvk = PreparedVerifierKey::prepare(&vk);
            out.obs1("prep_len", "N", pvk.prepared_g.len().to_string());
            let pick: Vec<usize> = vec![0, 1, 2, 3, 64, 127, 200, pvk.prepared_g.len() - 1];
            out.obs("prep_g", "R:base_g", &pick.iter().map(|i| hx(&pvk.prepared_g[*i])).collect::<Vec<_>>());
            // determinism: the same seed gives the same parameters
            let mut rng2 = CountingRng::new(seed);
            let pp2 = KZG10::<Bls12_381, UniPoly>::setup(d, g2, &mut rng2).unwrap();
            out.obs1("deterministic", "S", if ser_bytes(&pp2, true) == ser_bytes(&pp, true) { "yes".into() } else { "no".into() });
        }
        "sonic_trim" => {
            let d = c.usize1("D");
            let mut rng = CountingRng::new(c.u64_1("seed"));
            let pp = SonicPC::setup(d, None, &mut rng).unwrap();
            let s = c.usize1("s");
            let sh = c.usize1("sh");
            let bounds: Option<Vec<usize>> = match c.str1("bounds") { "none" => None, "empty" => Some(vec![]), _ => Some(c.usizes("bounds")) };
            let r = guard_any(|| SonicPC::trim(&pp, s, sh, bounds.as_deref()));
            out.obs1("trim", "S", r.class());
            let (ck, vk) = match r.ok() { Some(x) => x, None => return };
            let mut sorted: Vec<usize> = bounds.clone().unwrap_or_default();
            sorted.sort(); sorted.dedup();
            let mut ok = vec![];
            ok.push(("powers", ck.powers_of_g[..] == pp.powers_of_g[..=s]));
            ok.push(("gamma", (0..ck.powers_of_gamma_g.len()).all(|i| ck.powers_of_gamma_g[i] == pp.powers_of_gamma_g[&i]) && ck.powers_of_gamma_g.len() == sh + 2));
            ok.push(("bounds", ck.enforced_degree_bounds == bounds.as_ref().map(|_| sorted.clone())));
            ok.push(("reports", ck.supported_degree() == s && ck.max_degree() == d && vk.supported_degree() == s && vk.max_degree() == d));
            ok.push(("vk", vk.g == pp.powers_of_g[0] && vk.gamma_g == pp.powers_of_gamma_g[&0] && vk.h == pp.h && vk.beta_h == pp.beta_h));
            match (&ck.shifted_powers_of_g, sorted.last()) {
                (Some(sp), Some(hi)) => ok.push(("shifted", sp[..] == pp.powers_of_g[d - hi..])),
                (None, None) => ok.push(("shifted", true)),
                _ => ok.push(("shifted", false)),
            }
            match &vk.degree_bounds_and_neg_powers_of_h {
                Some(v) => ok.push(("neg_powers", v.len() == sorted.len() && v.iter().zip(&sorted).all(|((b, h), s)| b == s && *h == pp.neg_powers_of_h[&(d - *s)]))),
                None => ok.push(("neg_powers", sorted.is_empty())),
            }
            for (name, v) in ok { out.obs1(&format!("sub.{}", name), "S", if v { "faithful".into() } else { "WRONG".into() }); }
        }
        "transparent" => {
            // hash-derived generators: valid, non-identity, pairwise distinct, deterministic in the protocol seed only
            let d = c.usize1("D");
            let mut r1 = CountingRng::new(c.u64_1("seed"));
            let mut r2 = CountingRng::new(c.u64_1("seed") ^ 0xffff);
            match c.str1("scheme") {
                "ipa" => {
                    let a = IpaPC::setup(d, None, &mut r1).unwrap();
                    let b = IpaPC::setup(d, None, &mut r2).unwrap();
                    let mut all: Vec<_> = a.comm_key.clone(); all.push(a.h); all.push(a.s);
                    let set: BTreeSet<String> = all.iter().map(hx).collect();
                    out.obs1("count", "N", a.comm_key.len().to_string());
                    out.obs1("expected_count", "N", (d + 1).next_power_of_two().to_string());
                    out.obs1("distinct", "S", if set.len() == all.len() { "yes".into() } else { "no".into() });
                    out.obs1("non_identity", "S", if all.iter().all(|p| !p.is_zero() && p.is_on_curve() && p.is_in_correct_subgroup_assuming_on_curve()) { "yes".into() } else { "no".into() });
                    out.obs1("rng_independent", "S", if ser_bytes(&a, true) == ser_bytes(&b, true) && r1.bytes == 0 { "yes".into() } else { "no".into() });
                    out.obs1("max_degree", "N", a.max_degree().to_string());
                    let s = c.usize1("s");
                    if let Some((ck, vk)) = guard_any(|| IpaPC::trim(&a, s, 0, None)).ok() {
                        let eff = (s + 1).next_power_of_two() - 1;
                        let ok = ck.comm_key[..] == a.comm_key[..=eff] && vk.comm_key[..] == a.comm_key[..=eff] && ck.h == a.h && ck.s == a.s && vk.h == a.h && vk.s == a.s
                            && PCCommitterKey::supported_degree(&ck) == eff && PCVerifierKey::supported_degree(&vk) == eff && eff >= s && PCCommitterKey::max_degree(&ck) == a.max_degree();
                        out.obs1("trim_faithful", "S", if ok { "yes".into() } else { "no".into() });
                    } else { out.obs1("trim_faithful", "S", "refused".into()); }
                }
                "hyrax" => {
                    let nv = c.usize1("num_vars");
                    let a = HyraxPCS::setup(1, Some(nv), &mut r1).unwrap();
                    let b = HyraxPCS::setup(1, Some(nv), &mut r2).unwrap();
                    let mut all: Vec<_> = a.com_key.clone(); all.push(a.h);
                    let set: BTreeSet<String> = all.iter().map(hx).collect();
                    out.obs1("count", "N", a.com_key.len().to_string());
                    out.obs1("expected_count", "N", (1usize << (nv / 2)).to_string());
                    out.obs1("distinct", "S", if set.len() == all.len() { "yes".into() } else { "no".into() });
                    out.obs1("non_identity", "S", if all.iter().all(|p| !p.is_zero() && p.is_on_curve() && p.is_in_correct_subgroup_assuming_on_curve()) { "yes".into() } else { "no".into() });
                    out.obs1("rng_independent", "S", if ser_bytes(&a, true) == ser_bytes(&b, true) { "yes".into() } else { "no".into() });
                    if let Some((ck, vk)) = guard_any(|| HyraxPCS::trim(&a, 1, 1, None)).ok() {
                        out.obs1("trim_faithful", "S", if ser_bytes(&ck, true) == ser_bytes(&a, true) && ser_bytes(&vk, true) == ser_bytes(&a, true) { "yes".into() } else { "no".into() });
                    }
                }
                s => panic!("unknown scheme {}", s),
            }
        }
        s => panic!("unknown c09 sub {}", s),
    }
    let _ = (G1Affine::generator(), G2Affine::generator());
}
