//! C16: LinearCombination operators, evaluate_query_set, SuccinctCheckPolynomial.
use crate::proto::{Case, Out};
use crate::util::*;
use ark_bls12_381::Fr;
use ark_ff::{Field, One, Zero};
use ark_poly::{univariate::DensePolynomial, DenseUVPolynomial, Polynomial};
use ark_poly_commit::{evaluate_query_set, ipa_pc::SuccinctCheckPolynomial, LCTerm, LabeledPolynomial, LinearCombination, QuerySet};
use std::collections::BTreeMap;

fn plabel(i: usize) -> String { format!("p{:04}", i) }

fn parse_terms(toks: &[String]) -> Vec<(Fr, LCTerm)> {
    toks.chunks(2)
        .map(|c| {
            let coeff: Fr = f_from_str(&c[0]);
            let t = if c[1] == "one" { LCTerm::One } else { LCTerm::PolyLabel(plabel(c[1].parse().unwrap())) };
            (coeff, t)
        })
        .collect()
}

pub fn run(c: &Case, out: &mut Out) {
    match c.str1("sub") {
        "lcop" => {
            let mut lc = LinearCombination::<Fr>::empty("lc");
            for t in parse_terms(c.get("lc0")) { lc.push(t); }
            let mut ev: BTreeMap<String, Fr> = BTreeMap::new();
            for ch in c.get("ev").chunks(2) { ev.insert(plabel(ch[0].parse().unwrap()), f_from_str(&ch[1])); }
            let val = |terms: &[(Fr, LCTerm)]| -> Fr {
                let mut v = Fr::zero();
                for (co, t) in terms { v += *co * match t { LCTerm::One => Fr::one(), LCTerm::PolyLabel(l) => *ev.get(l).unwrap_or(&Fr::zero()) }; }
                v
            };
            // the same operator sequence applied to values (the statement of the property)
            let mut vops = val(&lc.terms);
            for (_i, op) in c.indexed("op") {
                match op[0].as_str() {
                    "addscaled" => vops += f_from_str::<Fr>(&op[1]) * val(&parse_terms(&op[2..])),
                    "subscaled" => vops -= f_from_str::<Fr>(&op[1]) * val(&parse_terms(&op[2..])),
                    "add" => vops += val(&parse_terms(&op[1..])),
                    "sub" => vops -= val(&parse_terms(&op[1..])),
                    "addc" => vops += f_from_str::<Fr>(&op[1]),
                    "subc" => vops -= f_from_str::<Fr>(&op[1]),
                    "mul" => vops *= f_from_str::<Fr>(&op[1]),
                    k => panic!("unknown lc op {}", k),
                }
            }
            out.obs1("value_by_ops", "F", f_to_str(&vops));
            for (_i, op) in c.indexed("op") {
                match op[0].as_str() {
                    "addscaled" => { let o = LinearCombination { label: "o".into(), terms: parse_terms(&op[2..]) }; lc += (f_from_str::<Fr>(&op[1]), &o); }
                    "subscaled" => { let o = LinearCombination { label: "o".into(), terms: parse_terms(&op[2..]) }; lc -= (f_from_str::<Fr>(&op[1]), &o); }
                    "add" => { let o = LinearCombination { label: "o".into(), terms: parse_terms(&op[1..]) }; lc += &o; }
                    "sub" => { let o = LinearCombination { label: "o".into(), terms: parse_terms(&op[1..]) }; lc -= &o; }
                    "addc" => { lc += f_from_str::<Fr>(&op[1]); }
                    "subc" => { lc -= f_from_str::<Fr>(&op[1]); }
                    "mul" => { lc *= f_from_str::<Fr>(&op[1]); }
                    k => panic!("unknown lc op {}", k),
                }
            }
            let coeffs: Vec<Fr> = lc.terms.iter().map(|(c, _)| *c).collect();
            let labs: Vec<String> = lc.terms.iter().map(|(_, t)| match t { LCTerm::One => "one".to_string(), LCTerm::PolyLabel(l) => l[1..].trim_start_matches('0').to_string() }).map(|s| if s.is_empty() { "0".into() } else { s }).collect();
            let mut v = Fr::zero();
            for (co, t) in lc.iter() {
                v += *co * match t { LCTerm::One => Fr::one(), LCTerm::PolyLabel(l) => *ev.get(l).unwrap_or(&Fr::zero()) };
            }
            out.obs("terms", "F", &if coeffs.is_empty() { vec!["-".into()] } else { fs_to_strs(&coeffs) });
            out.obs("tlabels", "S", &if labs.is_empty() { vec!["-".into()] } else { labs });
            out.obs1("value", "F", f_to_str(&v));
        }
        "eqs" => {
            let mut polys = vec![];
            for (_i, p) in c.indexed("poly") {
                let lab: usize = p[0].parse().unwrap();
                polys.push(LabeledPolynomial::new(plabel(lab), DensePolynomial::from_coefficients_vec(fs_from_strs::<Fr>(&p[1..])), None, None));
            }
            let mut qs: QuerySet<Fr> = QuerySet::new();
            for ch in c.get("qs").chunks(3) {
                qs.insert((plabel(ch[0].parse().unwrap()), (format!("z{:04}", ch[1].parse::<usize>().unwrap()), f_from_str(&ch[2]))));
            }
            let r = guard(|| Ok(evaluate_query_set(polys.iter(), &qs)));
            out.obs1("eqs", "S", r.class());
            if let Some(m) = r.ok() {
                let keys: Vec<String> = m.keys().map(|(l, z)| format!("{}:{}", l[1..].parse::<usize>().unwrap(), f_to_str(z))).collect();
                out.obs("eq_keys", "S", &if keys.is_empty() { vec!["-".into()] } else { keys });
                let vals: Vec<Fr> = m.values().cloned().collect();
                out.obs("eq_vals", "F", &if vals.is_empty() { vec!["-".into()] } else { fs_to_strs(&vals) });
                // independent re-evaluation of every queried pair (oracle)
                let mut good = true;
                for (l, (_, z)) in qs.iter() {
                    let p = polys.iter().rev().find(|p| p.label() == l).unwrap();
                    if m.get(&(l.clone(), *z)) != Some(&p.polynomial().evaluate(z)) { good = false; }
                }
                out.obs1("eq_spec", "S", if good && m.len() <= qs.len() { "holds".into() } else { "fails".into() });
            }
        }
        "scp" => {
            let chs: Vec<Fr> = fs_from_strs(c.get("chs"));
            let z: Fr = f_from_str(c.str1("z"));
            let p = SuccinctCheckPolynomial(chs.clone());
            let coeffs = p.compute_coeffs();
            let e = p.evaluate(z);
            let mut h = Fr::zero();
            for co in coeffs.iter().rev() { h = h * z + co; }
            out.obs1("ncoeffs", "N", coeffs.len().to_string());
            out.obs("coeffs", "F", &fs_to_strs(&coeffs));
            out.obs1("evalz", "F", f_to_str(&e));
            out.obs1("horner", "F", f_to_str(&h));
        }
        s => panic!("unknown c16 sub {}", s),
    }
}
