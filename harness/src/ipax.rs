//! IPA check_combinations with a commitment that carries a shifted part although its polynomial has no degree bound:
//! the flat element list of `construct_labeled_commitments` shifts by one and the NEXT combination is checked against
//! the stray element.  The experiment builds the honest opening of (p1, q) and presents it for the claim "p2(z) = q(z)".
use crate::proto::{Case, Out};
use crate::schemes::IpaPC;
use crate::sponge::RecSponge;
use crate::util::*;
use ark_ed_on_bls12_381::Fr as EdFr;
use ark_poly::univariate::DensePolynomial;
use ark_poly::{DenseUVPolynomial, Polynomial};
use ark_poly_commit::{Evaluations, LabeledCommitment, LabeledPolynomial, LinearCombination, PolynomialCommitment, QuerySet};

pub fn run(c: &Case, out: &mut Out) {
    let d = c.usize1("degree");
    let mut rng = CountingRng::new(c.u64_1("seed"));
    let pp = IpaPC::setup(d, None, &mut rng).unwrap();
    let (ck, vk) = IpaPC::trim(&pp, d, 0, None).unwrap();
    let mk = |name: &str, toks: &Vec<String>| LabeledPolynomial::new(name.into(), DensePolynomial::<EdFr>::from_coefficients_vec(fs_from_strs(toks)), None, None);
    let p1 = mk("p1", c.get("p1"));
    let p2 = mk("p2", c.get("p2"));
    let q = mk("q", c.get("q"));
    let z: EdFr = f_from_str(c.str1("z"));
    let polys = vec![p1.clone(), p2.clone(), q.clone()];
    let (comms, states) = IpaPC::commit(&ck, polys.iter(), None).unwrap();
    let lc = |name: &str, term: &str| { let mut l = LinearCombination::<EdFr>::empty(name); l.push((EdFr::from(1u64), term.to_string().into())); l };
    // honest opening of (lc1 = p1, lc2 = q)
    let lcs_h = vec![lc("lc1", "p1"), lc("lc2", "q")];
    let mut qs = QuerySet::new();
    qs.insert(("lc1".to_string(), ("z".to_string(), z)));
    qs.insert(("lc2".to_string(), ("z".to_string(), z)));
    let mut ps = RecSponge::<EdFr>::fresh();
    let mut orng = CountingRng::new(7);
    let proof = IpaPC::open_combinations(&ck, lcs_h.iter(), polys.iter(), comms.iter(), &qs, &mut ps, states.iter(), Some(&mut orng)).unwrap();
    let mut ev_h: Evaluations<EdFr, EdFr> = Evaluations::new();
    ev_h.insert(("lc1".to_string(), z), p1.evaluate(&z));
    ev_h.insert(("lc2".to_string(), z), q.evaluate(&z));
    let mut vs = RecSponge::<EdFr>::fresh();
    let mut vrng = CountingRng::new(9);
    let honest = guard_any(|| IpaPC::check_combinations(&vk, lcs_h.iter(), comms.iter(), &qs, &ev_h, &proof, &mut vs, &mut vrng));
    out.obs1("honest", "S", decision(&honest));
    // the claim about p2, with p1's commitment carrying q's commitment as a stray shifted part
    let lcs_a = vec![lc("lc1", "p1"), lc("lc2", "p2")];
    let mut c1 = comms[0].commitment().clone();
    c1.shifted_comm = Some(comms[2].commitment().comm);
    let comms_a = vec![LabeledCommitment::new("p1".to_string(), c1, None), comms[1].clone(), comms[2].clone()];
    let mut ev_a: Evaluations<EdFr, EdFr> = Evaluations::new();
    ev_a.insert(("lc1".to_string(), z), p1.evaluate(&z));
    ev_a.insert(("lc2".to_string(), z), q.evaluate(&z));          // claimed for p2: false unless p2(z) = q(z)
    out.obs1("claim_is_false", "S", if p2.evaluate(&z) != q.evaluate(&z) { "yes".into() } else { "no".into() });
    let mut vs2 = RecSponge::<EdFr>::fresh();
    let mut vrng2 = CountingRng::new(9);
    let attack = guard_any(|| IpaPC::check_combinations(&vk, lcs_a.iter(), comms_a.iter(), &qs, &ev_a, &proof, &mut vs2, &mut vrng2));
    out.obs1("stray_shifted", "S", decision(&attack));
    // the same inconsistent commitment in a plain check: refused by the assertion of succinct_check
    let mut vs3 = RecSponge::<EdFr>::fresh();
    let mut ps3 = RecSponge::<EdFr>::fresh();
    let mut orng3 = CountingRng::new(7);
    let pf1 = IpaPC::open(&ck, [&p1], [&comms[0]], &z, &mut ps3, [&states[0]], Some(&mut orng3)).unwrap();
    let plain = guard_any(|| IpaPC::check(&vk, [&comms_a[0]], &z, [p1.evaluate(&z)], &pf1, &mut vs3, None));
    out.obs1("plain_check_with_stray_shifted", "S", decision(&plain));
}
