//! Adapters instantiating the generic flow for every scheme behind the trait.
use crate::pc::{Adapter, Cm, Pf, Pt, St, UP, CK, VK, opt_usize};
use crate::proto::{Case, Out};
use crate::util::*;
use ark_bls12_381::{Bls12_381, Fr};
use ark_crypto_primitives::{
    crh::{sha256::Sha256, CRHScheme, TwoToOneCRHScheme},
    merkle_tree::{ByteDigestConverter, Config},
};
use ark_ed_on_bls12_381::{EdwardsAffine, Fr as EdFr};
use ark_ff::{PrimeField, Zero};
use ark_poly::{
    multivariate::{SparsePolynomial, SparseTerm, Term},
    univariate::DensePolynomial,
    DenseMVPolynomial, DenseMultilinearExtension, DenseUVPolynomial, SparseMultilinearExtension,
};
use ark_poly_commit::{
    hyrax::HyraxPC,
    ipa_pc::InnerProductArgPC,
    linear_codes::{LinearCodePCS, MultilinearBrakedown, MultilinearLigero, UnivariateLigero},
    marlin_pc::MarlinKZG10,
    marlin_pst13_pc::MarlinPST13,
    sonic_pc::SonicKZG10,
    LabeledCommitment, PolynomialCommitment,
};
use ark_serialize::CanonicalSerialize;
use ark_std::borrow::Borrow;
use ark_std::marker::PhantomData;
use ark_std::rand::RngCore;
use blake2::Blake2s256;
use digest::Digest;

// ---------- hashers (same definitions as bench-templates, which cannot be a dependency) ----------
#[derive(Clone)]
pub struct LeafIdentityHasher;
impl CRHScheme for LeafIdentityHasher {
    type Input = Vec<u8>;
    type Output = Vec<u8>;
    type Parameters = ();
    fn setup<R: RngCore>(_: &mut R) -> Result<Self::Parameters, ark_crypto_primitives::Error> { Ok(()) }
    fn evaluate<T: Borrow<Self::Input>>(_: &Self::Parameters, input: T) -> Result<Self::Output, ark_crypto_primitives::Error> {
        Ok(input.borrow().to_vec().into())
    }
}
pub struct FieldToBytesColHasher<F: PrimeField + CanonicalSerialize, D: Digest> { _p: PhantomData<(F, D)> }
impl<F: PrimeField + CanonicalSerialize, D: Digest> CRHScheme for FieldToBytesColHasher<F, D> {
    type Input = Vec<F>;
    type Output = Vec<u8>;
    type Parameters = ();
    fn setup<R: RngCore>(_rng: &mut R) -> Result<Self::Parameters, ark_crypto_primitives::Error> { Ok(()) }
    fn evaluate<T: Borrow<Self::Input>>(_p: &Self::Parameters, input: T) -> Result<Self::Output, ark_crypto_primitives::Error> {
        let mut dig = D::new();
        let mut bytes = Vec::new();
        input.borrow().serialize_compressed(&mut bytes).unwrap();
        dig.update(bytes);
        Ok(dig.finalize().to_vec())
    }
}
pub struct MTConfig;
impl Config for MTConfig {
    type Leaf = Vec<u8>;
    type LeafDigest = <LeafIdentityHasher as CRHScheme>::Output;
    type LeafInnerDigestConverter = ByteDigestConverter<Self::LeafDigest>;
    type InnerDigest = <Sha256 as TwoToOneCRHScheme>::Output;
    type LeafHash = LeafIdentityHasher;
    type TwoToOneHash = Sha256;
}
pub type ColH<F> = FieldToBytesColHasher<F, Blake2s256>;

pub type UniPoly = DensePolynomial<Fr>;
pub type MarlinPC = MarlinKZG10<Bls12_381, UniPoly>;
pub type SonicPC = SonicKZG10<Bls12_381, UniPoly>;
pub type IpaPC = InnerProductArgPC<EdwardsAffine, Blake2s256, DensePolynomial<EdFr>>;
pub type MVPoly = SparsePolynomial<Fr, SparseTerm>;
pub type Pst13PC = MarlinPST13<Bls12_381, MVPoly>;
pub type HyraxPCS = HyraxPC<EdwardsAffine, DenseMultilinearExtension<EdFr>>;
pub type LigeroUniPC = LinearCodePCS<UnivariateLigero<Fr, MTConfig, UniPoly, ColH<Fr>>, Fr, UniPoly, MTConfig, ColH<Fr>>;
pub type LigeroMLPC = LinearCodePCS<MultilinearLigero<Fr, MTConfig, SparseMultilinearExtension<Fr>, ColH<Fr>>, Fr, SparseMultilinearExtension<Fr>, MTConfig, ColH<Fr>>;
pub type BrakedownMLPC = LinearCodePCS<MultilinearBrakedown<Fr, MTConfig, SparseMultilinearExtension<Fr>, ColH<Fr>>, Fr, SparseMultilinearExtension<Fr>, MTConfig, ColH<Fr>>;

fn uni_poly<F: PrimeField>(toks: &[String]) -> DensePolynomial<F> {
    DensePolynomial::from_coefficients_vec(fs_from_strs(toks))
}
fn sparse_ml<F: PrimeField>(toks: &[String], nv: Option<usize>) -> SparseMultilinearExtension<F> {
    let nv = nv.expect("num_vars");
    let ev: Vec<F> = fs_from_strs(toks);
    let pts: Vec<(usize, F)> = ev.into_iter().enumerate().filter(|(_, v)| !v.is_zero()).collect();
    SparseMultilinearExtension::from_evaluations(nv, &pts)
}

fn g1_lin(a: Fr, x: &ark_bls12_381::G1Affine, b: Fr, y: &ark_bls12_381::G1Affine) -> ark_bls12_381::G1Affine {
    use ark_ec::{AffineRepr, CurveGroup};
    (x.into_group() * a + y.into_group() * b).into_affine()
}
fn marlin_comm_lin(a: Fr, c1: &ark_poly_commit::marlin_pc::Commitment<Bls12_381>, b: Fr, c2: &ark_poly_commit::marlin_pc::Commitment<Bls12_381>)
    -> Option<ark_poly_commit::marlin_pc::Commitment<Bls12_381>> {
    use ark_poly_commit::kzg10::Commitment as KC;
    let shifted = match (&c1.shifted_comm, &c2.shifted_comm) {
        (Some(x), Some(y)) => Some(KC(g1_lin(a, &x.0, b, &y.0))),
        (None, None) => None,
        _ => return None,
    };
    Some(ark_poly_commit::marlin_pc::Commitment { comm: KC(g1_lin(a, &c1.comm.0, b, &c2.comm.0)), shifted_comm: shifted })
}

/// a*c1 + b*c2 with kzg10::Commitment's own `+= (scalar, &commitment)`: once accumulated from the empty commitment, once in the
/// other order (the accumulator is not the identity when the second term arrives, in either order)
fn kzg_lin_lib(a: Fr, c1: &ark_poly_commit::kzg10::Commitment<Bls12_381>, b: Fr, c2: &ark_poly_commit::kzg10::Commitment<Bls12_381>)
    -> Vec<ark_poly_commit::kzg10::Commitment<Bls12_381>> {
    use ark_poly_commit::PCCommitment;
    let mut x = ark_poly_commit::kzg10::Commitment::<Bls12_381>::empty();
    x += (a, c1);
    x += (b, c2);
    let mut y = ark_poly_commit::kzg10::Commitment::<Bls12_381>::empty();
    y += (b, c2);
    y += (a, c1);
    vec![x, y]
}
fn marlin_comm_lin_lib(a: Fr, c1: &ark_poly_commit::marlin_pc::Commitment<Bls12_381>, b: Fr, c2: &ark_poly_commit::marlin_pc::Commitment<Bls12_381>)
    -> Option<Vec<ark_poly_commit::marlin_pc::Commitment<Bls12_381>>> {
    let plain = kzg_lin_lib(a, &c1.comm, b, &c2.comm);
    let shifted = match (&c1.shifted_comm, &c2.shifted_comm) {
        (Some(x), Some(y)) => Some(kzg_lin_lib(a, x, b, y)),
        (None, None) => None,
        _ => return None,
    };
    Some((0..2).map(|k| ark_poly_commit::marlin_pc::Commitment { comm: plain[k].clone(), shifted_comm: shifted.as_ref().map(|s| s[k].clone()) }).collect())
}

pub struct MarlinA;
impl Adapter for MarlinA {
    type F = Fr; type P = UniPoly; type PC = MarlinPC;
    fn size_shape_comm(cm: &Cm<Self>) -> Vec<String> { vec![(cm.shifted_comm.is_some() as usize).to_string()] }
    fn size_shape_proof(pf: &Pf<Self>) -> Vec<String> { vec![(pf.random_v.is_some() as usize).to_string()] }
    fn make_poly(toks: &[String], _nv: Option<usize>) -> UniPoly { uni_poly(toks) }
    fn make_point(toks: &[String]) -> Fr { f_from_str(&toks[0]) }
    fn setup(c: &Case) -> Outcome<UP<Self>> {
        if c.has("beta") {
            let pp = crate::kzg::build_params(c.usize1("max_degree"), false, f_from_str(c.str1("beta")), f_from_str(c.str1("g")),
                                              f_from_str(c.str1("gamma")), f_from_str(c.str1("h")));
            Outcome::Ok(pp)
        } else {
            let mut rng = CountingRng::new(c.u64_1("setup_seed"));
            guard_any(|| MarlinPC::setup(c.usize1("max_degree"), opt_usize(c.str1("num_vars")), &mut rng))
        }
    }
    fn key_obs(ck: &CK<Self>, vk: &VK<Self>, out: &mut Out) {
        let dash = |v: Vec<String>| if v.is_empty() { vec!["-".to_string()] } else { v };
        out.obs("key.powers", "G1", &ck.powers.iter().map(ser_hex).collect::<Vec<_>>());
        out.obs("key.gamma", "G1", &ck.powers_of_gamma_g.iter().map(ser_hex).collect::<Vec<_>>());
        if let Some(sp) = &ck.shifted_powers { out.obs("key.shifted", "G1", &sp.iter().map(ser_hex).collect::<Vec<_>>()); }
        out.obs("key.bounds", "N", &dash(ck.enforced_degree_bounds.clone().map(|b| b.iter().map(|x| x.to_string()).collect()).unwrap_or(vec!["none".into()])));
        if let Some(v) = &vk.degree_bounds_and_shift_powers {
            out.obs("key.shift_bounds", "N", &dash(v.iter().map(|(b, _)| b.to_string()).collect()));
            out.obs("key.shift_powers", "G1", &v.iter().map(|(_, p)| ser_hex(p)).collect::<Vec<_>>());
        }
        out.obs("key.vk1", "G1", &[ser_hex(&vk.vk.g), ser_hex(&vk.vk.gamma_g)]);
        out.obs("key.vk2", "G2", &[ser_hex(&vk.vk.h), ser_hex(&vk.vk.beta_h)]);
    }
    fn comm_obs(i: usize, cm: &Cm<Self>, st: &St<Self>, out: &mut Out) {
        let mut v = vec![ser_hex(&cm.comm.0)];
        if let Some(s) = &cm.shifted_comm { v.push(ser_hex(&s.0)); }
        out.obs(&format!("c.{}", i), "G1", &v);
        out.obs(&format!("rand.{}", i), "F", &{ let x = fs_to_strs(st.rand.blinding_polynomial.coeffs()); if x.is_empty() { vec!["-".into()] } else { x } });
        if let Some(sr) = &st.shifted_rand {
            out.obs(&format!("srand.{}", i), "F", &{ let x = fs_to_strs(sr.blinding_polynomial.coeffs()); if x.is_empty() { vec!["-".into()] } else { x } });
        }
    }
    fn proof_obs(name: &str, pf: &Pf<Self>, out: &mut Out) {
        out.obs1(&format!("{}.w", name), "G1", ser_hex(&pf.w));
        out.obs1(&format!("{}.rv", name), "F", pf.random_v.map(|x| f_to_str(&x)).unwrap_or("none".into()));
    }
    fn extra_c12(ck: &CK<Self>, vk: &VK<Self>, out: &mut Out) {
        crate::pc::ser_obs("kzgpowers", &ck.powers(), out);
        crate::pc::ser_obs("kzgvk", &vk.vk, out);
    }
    fn comm_lin(a: Fr, c1: &Cm<Self>, b: Fr, c2: &Cm<Self>) -> Option<Cm<Self>> { marlin_comm_lin(a, c1, b, c2) }
    fn comm_lin_lib(a: Fr, c1: &Cm<Self>, b: Fr, c2: &Cm<Self>) -> Option<Vec<Cm<Self>>> { marlin_comm_lin_lib(a, c1, b, c2) }
    fn comm_is_identity(c: &Cm<Self>) -> Option<bool> { use ark_ec::AffineRepr; Some(c.comm.0.is_zero() && c.shifted_comm.as_ref().map(|s| s.0.is_zero()).unwrap_or(true)) }
    fn mutate_comm(kind: &str, cm: &LabeledCommitment<Cm<Self>>, args: &[String]) -> Option<LabeledCommitment<Cm<Self>>> {
        let mut c = cm.commitment().clone();
        let mut b = cm.degree_bound();
        match kind {
            "drop_shifted" => { if c.shifted_comm.is_none() { return None; } c.shifted_comm = None; b = None; }
            "drop_shifted_keep_bound" => { if c.shifted_comm.is_none() { return None; } c.shifted_comm = None; }
            "relabel_bound" => { if b.is_none() { return None; } b = Some(args[0].parse().unwrap()); }
            "add_bound" => { if b.is_some() { return None; } b = Some(args[0].parse().unwrap()); }
            "swap_parts" => { match c.shifted_comm.clone() { Some(s) => { let t = c.comm.clone(); c.comm = s; c.shifted_comm = Some(t); } None => return None } }
            _ => return None,
        }
        Some(LabeledCommitment::new(cm.label().clone(), c, b))
    }
    fn mutate_proof(kind: &str, pf: &Pf<Self>, args: &[String]) -> Option<Pf<Self>> {
        let mut p = pf.clone();
        match kind {
            "w_add" => { use ark_ec::{AffineRepr, CurveGroup}; p.w = (p.w.into_group() + exp_g::<ark_bls12_381::G1Affine>(f_from_str(&args[0]))).into_affine(); }
            "rv" => { p.random_v = if args[0] == "none" { None } else { Some(f_from_str(&args[0])) }; }
            _ => return None,
        }
        Some(p)
    }
}

pub struct SonicA;
impl Adapter for SonicA {
    type F = Fr; type P = UniPoly; type PC = SonicPC;
    fn size_shape_comm(_cm: &Cm<Self>) -> Vec<String> { vec!["0".into()] }
    fn size_shape_proof(pf: &Pf<Self>) -> Vec<String> { vec![(pf.random_v.is_some() as usize).to_string()] }
    fn make_poly(toks: &[String], _nv: Option<usize>) -> UniPoly { uni_poly(toks) }
    fn make_point(toks: &[String]) -> Fr { f_from_str(&toks[0]) }
    fn setup(c: &Case) -> Outcome<UP<Self>> {
        if c.has("beta") {
            Outcome::Ok(crate::kzg::build_params(c.usize1("max_degree"), true, f_from_str(c.str1("beta")), f_from_str(c.str1("g")),
                                                 f_from_str(c.str1("gamma")), f_from_str(c.str1("h"))))
        } else {
            let mut rng = CountingRng::new(c.u64_1("setup_seed"));
            guard_any(|| SonicPC::setup(c.usize1("max_degree"), opt_usize(c.str1("num_vars")), &mut rng))
        }
    }
    fn comm_obs(i: usize, cm: &Cm<Self>, st: &St<Self>, out: &mut Out) {
        out.obs1(&format!("c.{}", i), "G1", ser_hex(&cm.0));
        out.obs(&format!("rand.{}", i), "F", &{ let x = fs_to_strs(st.blinding_polynomial.coeffs()); if x.is_empty() { vec!["-".into()] } else { x } });
    }
    fn proof_obs(name: &str, pf: &Pf<Self>, out: &mut Out) {
        out.obs1(&format!("{}.w", name), "G1", ser_hex(&pf.w));
        out.obs1(&format!("{}.rv", name), "F", pf.random_v.map(|x| f_to_str(&x)).unwrap_or("none".into()));
    }
    fn extra_c12(ck: &CK<Self>, _vk: &VK<Self>, out: &mut Out) {
        crate::pc::ser_obs("kzgpowers", &ck.powers(), out);
    }
    fn comm_lin(a: Fr, c1: &Cm<Self>, b: Fr, c2: &Cm<Self>) -> Option<Cm<Self>> { Some(ark_poly_commit::kzg10::Commitment(g1_lin(a, &c1.0, b, &c2.0))) }
    fn comm_lin_lib(a: Fr, c1: &Cm<Self>, b: Fr, c2: &Cm<Self>) -> Option<Vec<Cm<Self>>> { Some(kzg_lin_lib(a, c1, b, c2)) }
    fn comm_is_identity(c: &Cm<Self>) -> Option<bool> { use ark_ec::AffineRepr; Some(c.0.is_zero()) }
    /// C08: without bound sum_i p_i*powers_of_g[i]; with bound d sum_i p_i*shifted_powers_of_g[max_bound - d + i]
    fn reference_commitment(ck: &CK<Self>, p: &UniPoly, b: Option<usize>, cm: &Cm<Self>, _st: &St<Self>) -> Option<bool> {
        use ark_ec::{AffineRepr, CurveGroup};
        let mut acc = <ark_bls12_381::G1Affine as AffineRepr>::Group::default();
        match b {
            None => { for (i, c) in p.coeffs.iter().enumerate() { acc += ck.powers_of_g[i].into_group() * c; } }
            Some(d) => {
                let sp = ck.shifted_powers_of_g.as_ref()?;
                let maxb = *ck.enforced_degree_bounds.as_ref()?.last()?;
                for (i, c) in p.coeffs.iter().enumerate() { acc += sp[maxb - d + i].into_group() * c; }
            }
        }
        Some(acc.into_affine() == cm.0)
    }
    fn mutate_comm(kind: &str, cm: &LabeledCommitment<Cm<Self>>, args: &[String]) -> Option<LabeledCommitment<Cm<Self>>> {
        let b = cm.degree_bound();
        match kind {
            "relabel_bound" => { if b.is_none() { return None; } Some(LabeledCommitment::new(cm.label().clone(), cm.commitment().clone(), Some(args[0].parse().unwrap()))) }
            "drop_bound" => { if b.is_none() { return None; } Some(LabeledCommitment::new(cm.label().clone(), cm.commitment().clone(), None)) }
            "add_bound" => { if b.is_some() { return None; } Some(LabeledCommitment::new(cm.label().clone(), cm.commitment().clone(), Some(args[0].parse().unwrap()))) }
            _ => None,
        }
    }
}

fn ed_lin(a: EdFr, x: &EdwardsAffine, b: EdFr, y: &EdwardsAffine) -> EdwardsAffine {
    use ark_ec::{AffineRepr, CurveGroup};
    (x.into_group() * a + y.into_group() * b).into_affine()
}

pub struct IpaA;
impl Adapter for IpaA {
    type F = EdFr; type P = DensePolynomial<EdFr>; type PC = IpaPC;
    fn take_hash_log() -> Vec<String> {
        use ark_serialize::CanonicalDeserialize;
        ark_poly_commit::ipa_pc::verif_hooks::take_challenge_log().iter()
            .map(|b| f_to_str(&EdFr::deserialize_compressed(&b[..]).unwrap())).collect()
    }
    fn open_draws(c: &Case, _npolys: usize) -> usize { 4 * ((c.usize1("supported_degree") + 1).next_power_of_two() + 4) }
    fn key_obs(ck: &CK<Self>, _vk: &VK<Self>, out: &mut Out) {
        let mut b: Vec<String> = vec!["ED".into()];
        b.extend(ck.comm_key.iter().map(ser_hex));
        b.push(ser_hex(&ck.h));
        b.push(ser_hex(&ck.s));
        out.input("basis", &b);
        out.obs1("key_len", "N", ck.comm_key.len().to_string());
    }
    fn comm_obs(i: usize, cm: &Cm<Self>, st: &St<Self>, out: &mut Out) {
        let mut v = vec![ser_hex(&cm.comm)];
        if let Some(s) = &cm.shifted_comm { v.push(ser_hex(s)); }
        out.obs(&format!("c.{}", i), "L:basis", &v);
        let mut r = vec![f_to_str(&st.rand)];
        if let Some(s) = &st.shifted_rand { r.push(f_to_str(s)); }
        out.obs(&format!("rand.{}", i), "F", &r);
    }
    fn proof_obs(name: &str, pf: &Pf<Self>, out: &mut Out) {
        out.obs1(&format!("{}.rounds", name), "N", pf.l_vec.len().to_string());
        if !pf.l_vec.is_empty() {
            out.obs(&format!("{}.l", name), "L:basis", &pf.l_vec.iter().map(ser_hex).collect::<Vec<_>>());
            out.obs(&format!("{}.r", name), "L:basis", &pf.r_vec.iter().map(ser_hex).collect::<Vec<_>>());
        }
        out.obs1(&format!("{}.key", name), "L:basis", ser_hex(&pf.final_comm_key));
        out.obs1(&format!("{}.c", name), "F", f_to_str(&pf.c));
        if let Some(h) = &pf.hiding_comm { out.obs1(&format!("{}.hcomm", name), "L:basis", ser_hex(h)); }
        out.obs1(&format!("{}.rand", name), "F", pf.rand.map(|x| f_to_str(&x)).unwrap_or("none".into()));
    }
    fn size_shape_comm(cm: &Cm<Self>) -> Vec<String> { vec![(cm.shifted_comm.is_some() as usize).to_string()] }
    fn size_shape_proof(pf: &Pf<Self>) -> Vec<String> {
        vec![pf.l_vec.len().to_string(), pf.r_vec.len().to_string(), (pf.hiding_comm.is_some() as usize).to_string(), (pf.rand.is_some() as usize).to_string()]
    }
    fn make_poly(toks: &[String], _nv: Option<usize>) -> Self::P { uni_poly(toks) }
    fn make_point(toks: &[String]) -> EdFr { f_from_str(&toks[0]) }
    fn comm_lin(a: EdFr, c1: &Cm<Self>, b: EdFr, c2: &Cm<Self>) -> Option<Cm<Self>> {
        let shifted = match (&c1.shifted_comm, &c2.shifted_comm) {
            (Some(x), Some(y)) => Some(ed_lin(a, x, b, y)),
            (None, None) => None,
            _ => return None,
        };
        Some(ark_poly_commit::ipa_pc::Commitment { comm: ed_lin(a, &c1.comm, b, &c2.comm), shifted_comm: shifted })
    }
    fn comm_is_identity(c: &Cm<Self>) -> Option<bool> { use ark_ec::AffineRepr; Some(c.comm.is_zero() && c.shifted_comm.map(|s| s.is_zero()).unwrap_or(true)) }
    /// C08: comm = sum_i p_i*comm_key[i]; shifted = sum_i p_i*comm_key[i + supported - bound]  (non-hiding; naive sums)
    fn reference_commitment(ck: &CK<Self>, p: &Self::P, b: Option<usize>, cm: &Cm<Self>, _st: &St<Self>) -> Option<bool> {
        use ark_ec::{AffineRepr, CurveGroup};
        let naive = |off: usize| -> EdwardsAffine {
            let mut acc = <EdwardsAffine as AffineRepr>::Group::default();
            for (i, c) in p.coeffs.iter().enumerate() { acc += ck.comm_key[i + off].into_group() * c; }
            acc.into_affine()
        };
        let s = ck.comm_key.len() - 1;
        let ok_plain = naive(0) == cm.comm;
        let ok_shift = match (b, &cm.shifted_comm) {
            (Some(d), Some(sc)) => naive(s - d) == *sc,
            (None, None) => true,
            _ => false,
        };
        Some(ok_plain && ok_shift)
    }
    fn mutate_comm(kind: &str, cm: &LabeledCommitment<Cm<Self>>, args: &[String]) -> Option<LabeledCommitment<Cm<Self>>> {
        let mut c = cm.commitment().clone();
        let mut b = cm.degree_bound();
        match kind {
            "drop_shifted" => { if c.shifted_comm.is_none() { return None; } c.shifted_comm = None; b = None; }
            "relabel_bound" => { if b.is_none() { return None; } b = Some(args[0].parse().unwrap()); }
            "add_bound" => { if b.is_some() { return None; } b = Some(args[0].parse().unwrap()); }
            _ => return None,
        }
        Some(LabeledCommitment::new(cm.label().clone(), c, b))
    }
    fn mutate_proof(kind: &str, pf: &Pf<Self>, args: &[String]) -> Option<Pf<Self>> {
        use ark_ec::AffineRepr;
        let mut p = pf.clone();
        let j: usize = args.get(0).and_then(|x| x.parse().ok()).unwrap_or(0);
        match kind {
            "l_tamper" => { if p.l_vec.is_empty() { return None; } let k = j % p.l_vec.len(); p.l_vec[k] = Self::rnd_point(&args[1]); }
            "r_tamper" => { if p.r_vec.is_empty() { return None; } let k = j % p.r_vec.len(); p.r_vec[k] = Self::rnd_point(&args[1]); }
            "final_key" => { p.final_comm_key = Self::rnd_point(&args[1]); }
            "c_tamper" => { p.c += EdFr::from(1u64); }
            "drop_round" => { if p.l_vec.is_empty() { return None; } p.l_vec.pop(); p.r_vec.pop(); }
            "extra_round_identity" => { p.l_vec.push(EdwardsAffine::zero()); p.r_vec.push(EdwardsAffine::zero()); }
            "extra_round_random" => { p.l_vec.push(Self::rnd_point(&args[1])); p.r_vec.push(Self::rnd_point(&args[1])); }
            "unbalanced" => { p.l_vec.push(Self::rnd_point(&args[1])); }
            "rand_tamper" => { match p.rand { Some(r) => p.rand = Some(r + EdFr::from(1u64)), None => return None } }
            "hiding_comm_tamper" => { match p.hiding_comm { Some(_) => p.hiding_comm = Some(Self::rnd_point(&args[1])), None => return None } }
            "hiding_drop" => { if p.hiding_comm.is_none() { return None; } p.hiding_comm = None; p.rand = None; }
            _ => return None,
        }
        Some(p)
    }
    /// "IPA rounds log_d + k with padded/identity generators" + "prover run on (q, state_q) against commitment(p)"
    fn attack(kind: &str, ck: &CK<Self>, polys: &[&ark_poly_commit::LabeledPolynomial<EdFr, Self::P>],
              comms: &[&LabeledCommitment<Cm<Self>>], states: &[&St<Self>], pt: &EdFr,
              sponge: &mut crate::sponge::RecSponge<EdFr>, _args: &[String]) -> Option<(Pf<Self>, Vec<EdFr>)> {
        use ark_ec::AffineRepr;
        use ark_ff::Field;
        use ark_poly::Polynomial;
        if kind != "padded_key" || polys.len() != 1 || polys[0].degree_bound().is_some() || pt.is_zero() { return None; }
        let d = ck.comm_key.len() - 1;
        let mut padded = ck.clone();
        padded.comm_key.extend(core::iter::repeat(EdwardsAffine::zero()).take(d + 1));
        let p = polys[0].polynomial();
        let truth = p.evaluate(pt);
        let fake = truth + EdFr::from(12345u64);
        let a = (fake - truth) * pt.pow([(d + 1) as u64]).inverse().unwrap();
        let mut q = p.coeffs.clone();
        q.resize(d + 1, EdFr::from(0u64));
        q.push(a);
        let lq = ark_poly_commit::LabeledPolynomial::new(polys[0].label().clone(), DensePolynomial::from_coefficients_vec(q), None, polys[0].hiding_bound());
        let mut rng = CountingRng::new(99);
        let pf = IpaPC::open(&padded, [&lq], comms.iter().cloned(), pt, sponge, states.iter().cloned(), Some(&mut rng)).ok()?;
        Some((pf, vec![fake]))
    }
}

impl IpaA {
    fn rnd_point(tag: &str) -> EdwardsAffine {
        use ark_ec::{AffineRepr, CurveGroup};
        let k: EdFr = f_from_str(tag);
        (EdwardsAffine::generator() * (k + EdFr::from(7u64))).into_affine()
    }
}

pub struct Pst13A;
impl Adapter for Pst13A {
    type F = Fr; type P = MVPoly; type PC = Pst13PC;
    fn size_shape_comm(cm: &Cm<Self>) -> Vec<String> { vec![(cm.shifted_comm.is_some() as usize).to_string()] }
    fn size_shape_proof(pf: &Pf<Self>) -> Vec<String> { vec![pf.w.len().to_string(), (pf.random_v.is_some() as usize).to_string()] }
    /// tokens: (coeff k (var pow){k})*
    fn make_poly(toks: &[String], nv: Option<usize>) -> MVPoly {
        let nv = nv.expect("num_vars");
        let mut terms = vec![];
        let mut i = 0;
        while i < toks.len() {
            let coeff: Fr = f_from_str(&toks[i]);
            let k: usize = toks[i + 1].parse().unwrap();
            let mut t = vec![];
            for j in 0..k {
                t.push((toks[i + 2 + 2 * j].parse().unwrap(), toks[i + 3 + 2 * j].parse().unwrap()));
            }
            terms.push((coeff, SparseTerm::new(t)));
            i += 2 + 2 * k;
        }
        MVPoly::from_coefficients_vec(nv, terms)
    }
    fn make_point(toks: &[String]) -> Vec<Fr> { fs_from_strs(toks) }
    /// terms in the given order, repeated monomials kept (the public fields of SparsePolynomial)
    fn make_poly_raw(toks: &[String], nv: Option<usize>) -> Option<MVPoly> {
        let nv = nv?;
        let mut terms = vec![];
        let mut i = 0;
        while i < toks.len() {
            let coeff: Fr = f_from_str(&toks[i]);
            let k: usize = toks[i + 1].parse().unwrap();
            let mut t = vec![];
            for j in 0..k { t.push((toks[i + 2 + 2 * j].parse().unwrap(), toks[i + 3 + 2 * j].parse().unwrap())); }
            terms.push((coeff, SparseTerm::new(t)));
            i += 2 + 2 * k;
        }
        Some(SparsePolynomial { num_vars: nv, terms })
    }
    /// SparsePolynomial::rand(h + 1, nv): one draw for the constant and one per variable and power
    fn extra_commit_draws(c: &Case) -> usize {
        let nv = opt_usize(c.str1("num_vars")).unwrap_or(0);
        (0..c.usize1("n")).map(|i| match opt_usize(c.str1(&format!("hiding.{}", i))) { Some(h) => 1 + nv * (h + 1), None => 0 }).sum()
    }
    /// elements over (g, gamma_g, standard generator): the two published generators and the one proof mutations use
    fn key_obs(_ck: &CK<Self>, vk: &VK<Self>, out: &mut Out) {
        out.input("pbasis", &["G1".into(), ser_hex(&vk.g), ser_hex(&vk.gamma_g), ser_hex(&exp_g::<ark_bls12_381::G1Affine>(Fr::from(1u64)))]);
        out.input("key_nv", &[vk.num_vars.to_string()]);
    }
    fn trapdoor_obs(c: &Case, out: &mut Out) {
        if let Some(nv) = opt_usize(c.str1("num_vars")) {
            let (betas, _) = replay(c.u64_1("setup_seed"), nv, |r| <Fr as ark_ff::UniformRand>::rand(r));
            out.input("betas", &{ let v = fs_to_strs(&betas); if v.is_empty() { vec!["-".into()] } else { v } });
        }
    }
    fn poly_input(i: usize, p: &MVPoly, out: &mut Out) { out.input(&format!("cpoly.{}", i), &mv_tokens(p)); }
    fn comm_obs(i: usize, cm: &Cm<Self>, st: &St<Self>, out: &mut Out) {
        out.obs(&format!("c.{}", i), "L:pbasis", &[ser_hex(&cm.comm.0)]);
        out.obs(&format!("blind.{}", i), "S", &crate::c15::poly_canon(&st.blinding_polynomial));
    }
    fn proof_obs(name: &str, pf: &Pf<Self>, out: &mut Out) {
        out.obs(&format!("{}.w", name), "L:pbasis", &{ let v: Vec<String> = pf.w.iter().map(ser_hex).collect(); if v.is_empty() { vec!["-".into()] } else { v } });
        out.obs1(&format!("{}.rv", name), "F", match pf.random_v { Some(r) => f_to_str(&r), None => "none".into() });
    }
    fn comm_lin(a: Fr, c1: &Cm<Self>, b: Fr, c2: &Cm<Self>) -> Option<Cm<Self>> { marlin_comm_lin(a, c1, b, c2) }
    fn comm_lin_lib(a: Fr, c1: &Cm<Self>, b: Fr, c2: &Cm<Self>) -> Option<Vec<Cm<Self>>> { marlin_comm_lin_lib(a, c1, b, c2) }
    fn comm_is_identity(c: &Cm<Self>) -> Option<bool> { use ark_ec::AffineRepr; Some(c.comm.0.is_zero()) }
    /// C08: sum over the terms of coefficient * powers_of_g[term]
    fn reference_commitment(ck: &CK<Self>, p: &MVPoly, _b: Option<usize>, cm: &Cm<Self>, _st: &St<Self>) -> Option<bool> {
        use ark_ec::{AffineRepr, CurveGroup};
        let mut acc = <ark_bls12_381::G1Affine as AffineRepr>::Group::default();
        for (c, t) in p.terms() { acc += ck.powers_of_g.get(t)?.into_group() * c; }
        Some(acc.into_affine() == cm.comm.0)
    }
    fn mutate_proof(kind: &str, pf: &Pf<Self>, args: &[String]) -> Option<Pf<Self>> {
        let mut p = pf.clone();
        let j: usize = args.get(0).and_then(|x| x.parse().ok()).unwrap_or(0);
        match kind {
            "w_tamper" => { if p.w.is_empty() { return None; } let k = j % p.w.len(); p.w[k] = exp_g::<ark_bls12_381::G1Affine>(f_from_str(&args[1])); }
            "w_shorter" => { if p.w.is_empty() { return None; } p.w.pop(); }
            "w_longer" => { p.w.push(exp_g::<ark_bls12_381::G1Affine>(f_from_str(&args[1]))); }
            "w_swap" => { if p.w.len() < 2 { return None; } let k = j % (p.w.len() - 1); if p.w[k] == p.w[k + 1] { return None; } p.w.swap(k, k + 1); }
            "rv" => { match p.random_v { Some(r) => p.random_v = Some(r + Fr::from(1u64)), None => return None } }
            "rv_drop" => { if p.random_v.is_none() { return None; } p.random_v = None; }
            _ => return None,
        }
        Some(p)
    }
}

/// term list of a sparse multivariate polynomial as tokens (coeff k (var pow){k})*, "-" for the zero polynomial
fn mv_tokens(p: &MVPoly) -> Vec<String> {
    use ark_poly::multivariate::Term;
    let mut v: Vec<String> = vec![];
    for (c, t) in p.terms() {
        v.push(f_to_str(c));
        let vp: Vec<(usize, usize)> = t.iter().cloned().collect();
        v.push(vp.len().to_string());
        for (var, pow) in vp { v.push(var.to_string()); v.push(pow.to_string()); }
    }
    if v.is_empty() { vec!["-".into()] } else { v }
}

pub struct HyraxA;
impl Adapter for HyraxA {
    type F = EdFr; type P = DenseMultilinearExtension<EdFr>; type PC = HyraxPCS;
    fn extra_commit_draws(c: &Case) -> usize { let nv = opt_usize(c.str1("num_vars")).unwrap_or(0); c.usize1("n") * (1usize << (nv / 2)) }
    fn open_draws(c: &Case, npolys: usize) -> usize { let nv = opt_usize(c.str1("num_vars")).unwrap_or(0); 4 * npolys * ((1usize << (nv / 2)) + 3) }
    fn key_obs(ck: &CK<Self>, _vk: &VK<Self>, out: &mut Out) {
        let mut b: Vec<String> = vec!["ED".into()];
        b.extend(ck.com_key.iter().map(ser_hex));
        b.push(ser_hex(&ck.h));
        out.input("basis", &b);
    }
    fn comm_obs(i: usize, cm: &Cm<Self>, st: &St<Self>, out: &mut Out) {
        use ark_serialize::CanonicalDeserialize;
        out.obs(&format!("c.{}", i), "L:basis", &cm.row_coms.iter().map(ser_hex).collect::<Vec<_>>());
        let bytes = ser_bytes(st, true);
        if let Ok(rands) = Vec::<EdFr>::deserialize_compressed(&bytes[..]) { out.obs(&format!("rand.{}", i), "F", &fs_to_strs(&rands)); }
    }
    fn proof_obs(name: &str, pf: &Pf<Self>, out: &mut Out) {
        out.obs1(&format!("{}.n", name), "N", pf.len().to_string());
        // the masks of the dot-product argument are fresh per polynomial
        let mut fresh = true;
        for a in 0..pf.len() { for b in (a + 1)..pf.len() { if pf[a].com_d == pf[b].com_d || pf[a].com_b == pf[b].com_b { fresh = false; } } }
        out.obs1(&format!("{}.fresh_masks", name), "S", if fresh { "yes".into() } else { "no".into() });
        for (k, p) in pf.iter().enumerate() {
            out.obs(&format!("{}.{}.coms", name, k), "L:basis", &[ser_hex(&p.com_eval), ser_hex(&p.com_d), ser_hex(&p.com_b)]);
            out.obs(&format!("{}.{}.z", name, k), "F", &fs_to_strs(&p.z));
            out.obs(&format!("{}.{}.s", name, k), "F", &[f_to_str(&p.z_d), f_to_str(&p.z_b), f_to_str(&p.r_eval)]);
        }
    }
    fn size_shape_comm(cm: &Cm<Self>) -> Vec<String> { vec![cm.row_coms.len().to_string()] }
    fn size_shape_proof(pf: &Pf<Self>) -> Vec<String> {
        let mut v = vec![pf.len().to_string()];
        for p in pf.iter() { v.push(p.z.len().to_string()); }
        v
    }
    fn make_poly(toks: &[String], nv: Option<usize>) -> Self::P {
        DenseMultilinearExtension::from_evaluations_vec(nv.expect("num_vars"), fs_from_strs(toks))
    }
    fn make_point(toks: &[String]) -> Vec<EdFr> { fs_from_strs(toks) }
    fn always_blinded() -> bool { true }
    /// C08: every row commitment is sum_j M[i][j]*com_key[j] + r_i*h with M[row][col] = evals[col*dim + row]
    /// (naive double-and-add sums, row randomness read from the serialized commitment state)
    fn reference_commitment(ck: &CK<Self>, p: &Self::P, _b: Option<usize>, cm: &Cm<Self>, st: &St<Self>) -> Option<bool> {
        use ark_ec::{AffineRepr, CurveGroup};
        use ark_poly::MultilinearExtension;
        use ark_serialize::CanonicalDeserialize;
        let bytes = ser_bytes(st, true);
        let rands: Vec<EdFr> = Vec::<EdFr>::deserialize_compressed(&bytes[..]).ok()?;
        let n = p.num_vars();
        let dim = 1usize << (n / 2);
        let ev = p.to_evaluations();
        if cm.row_coms.len() != dim || rands.len() != dim { return Some(false); }
        for row in 0..dim {
            let mut acc = <EdwardsAffine as AffineRepr>::Group::default();
            for col in 0..dim { acc += ck.com_key[col].into_group() * ev[col * dim + row]; }
            acc += ck.h.into_group() * rands[row];
            if acc.into_affine() != cm.row_coms[row] { return Some(false); }
        }
        Some(true)
    }
    /// commitments of another size than the point asks for: a surplus row (copy of the last one) / the last row dropped
    fn mutate_comm(kind: &str, cm: &LabeledCommitment<Cm<Self>>, _args: &[String]) -> Option<LabeledCommitment<Cm<Self>>> {
        let mut c = cm.commitment().clone();
        match kind {
            "extra_row" => { let l = c.row_coms.last().cloned()?; c.row_coms.push(l); }
            "drop_row" => { if c.row_coms.len() < 2 { return None; } c.row_coms.pop(); }
            _ => return None,
        }
        Some(LabeledCommitment::new(cm.label().clone(), c, cm.degree_bound()))
    }
    fn mutate_proof(kind: &str, pf: &Pf<Self>, args: &[String]) -> Option<Pf<Self>> {
        // Pf = Vec<HyraxProof>: one proof per polynomial opened at the point
        let mut v = pf.clone();
        if v.is_empty() { return if kind == "list_extend" { None } else { None }; }
        let j: usize = args.get(0).and_then(|x| x.parse().ok()).unwrap_or(0);
        let which = j % v.len();
        let one = EdFr::from(1u64);
        match kind {
            "com_eval" => v[which].com_eval = IpaA::rnd_point(&args[1]),
            "com_d" => v[which].com_d = IpaA::rnd_point(&args[1]),
            "com_b" => v[which].com_b = IpaA::rnd_point(&args[1]),
            "z_tamper" => { if v[which].z.is_empty() { return None; } let k = j % v[which].z.len(); v[which].z[k] += one; }
            "z_stretch" => { v[which].z.push(EdFr::from(0u64)); }
            "z_shorten" => { if v[which].z.is_empty() { return None; } v[which].z.pop(); }
            "z_d" => v[which].z_d += one,
            "z_b" => v[which].z_b += one,
            "r_eval" => v[which].r_eval += one,
            "list_drop" => { v.pop(); }
            "list_extend" => { let l = v[which].clone(); v.push(l); }
            _ => return None,
        }
        Some(v)
    }
}

/// C08: the Merkle root recomputed from the polynomial: row-major coefficient matrix, rows encoded with the
/// scheme's public encoder, columns hashed with Blake2s over their canonical serialization, leaves padded to a
/// power of two with the default leaf, ark-crypto-primitives' MerkleTree (identity leaf hash, SHA-256 inner hash)
fn reference_root<L, P>(ck: &L::LinCodePCParams, coeffs: Vec<Fr>, cm: &Cm<LigeroUniA>) -> Option<bool>
where
    P: ark_poly::Polynomial<Fr>,
    L: ark_poly_commit::linear_codes::LinearEncode<Fr, MTConfig, P, ColH<Fr>>,
{
    use ark_crypto_primitives::merkle_tree::MerkleTree;
    use ark_poly_commit::linear_codes::{verif_hooks as lh, LinCodeParametersInfo};
    let mut coeffs = coeffs;
    if coeffs.is_empty() { coeffs.push(Fr::from(0u64)); }
    let (n_rows, n_cols) = ck.compute_dimensions(coeffs.len());
    coeffs.resize(n_rows * n_cols, Fr::from(0u64));
    let rows: Vec<Vec<Fr>> = (0..n_rows).map(|r| coeffs[r * n_cols..(r + 1) * n_cols].to_vec()).collect();
    let ext: Vec<Vec<Fr>> = rows.iter().map(|r| L::encode(r, ck).unwrap()).collect();
    let n_ext = ext[0].len();
    let mut leaves: Vec<Vec<u8>> = (0..n_ext)
        .map(|j| {
            let col: Vec<Fr> = (0..n_rows).map(|i| ext[i][j]).collect();
            let mut bytes = Vec::new();
            col.serialize_compressed(&mut bytes).unwrap();
            let mut d = Blake2s256::new();
            d.update(&bytes);
            d.finalize().to_vec()
        })
        .collect();
    leaves.resize(n_ext.next_power_of_two(), Vec::<u8>::default());
    let tree = MerkleTree::<MTConfig>::new(&(), &(), leaves.iter()).ok()?;
    let mut c2 = cm.clone();
    let root = lh::commitment_root_mut(&mut c2).clone();
    Some(tree.root() == root && lh::commitment_metadata(cm) == (n_rows, n_cols, n_ext))
}

/// mutations of linear-code proofs (Ligero / Brakedown share the proof type); through the verification hooks
pub fn mutate_lincode_proof(kind: &str, pf: &Vec<ark_poly_commit::linear_codes::LinCodePCProof<Fr, MTConfig>>, args: &[String])
    -> Option<Vec<ark_poly_commit::linear_codes::LinCodePCProof<Fr, MTConfig>>> {
    use ark_poly_commit::linear_codes::verif_hooks as lh;
    let mut v = pf.clone();
    if v.is_empty() { return None; }
    let j: usize = args.get(0).and_then(|x| x.parse().ok()).unwrap_or(0);
    let k2: usize = args.get(1).and_then(|x| x.parse().ok()).unwrap_or(0);
    let which = j % v.len();
    let one = Fr::from(1u64);
    if kind == "list_drop" { v.pop(); return Some(v); }
    if kind == "list_extend" { let l = v[which].clone(); v.push(l); return Some(v); }
    {
        let (paths, vv, cols, wf) = lh::proof_parts_mut(&mut v[which]);
        let nc = cols.len();
        match kind {
            "col_tamper" => { if nc == 0 { return None; } let c = k2 % nc; if cols[c].is_empty() { return None; } let r = j % cols[c].len(); cols[c][r] += one; }
            "col_swap" => { if nc < 2 { return None; } let a = k2 % nc; let b = (k2 + 1 + j) % nc; if cols[a] == cols[b] { return None; } cols.swap(a, b); }
            "path_swap" => { if paths.len() < 2 { return None; } let a = k2 % paths.len(); let b = (k2 + 1 + j) % paths.len(); if paths[a].leaf_index == paths[b].leaf_index { return None; } paths.swap(a, b); }
            "both_swap" => { if nc < 2 { return None; } let a = k2 % nc; let b = (k2 + 1 + j) % nc; if paths[a].leaf_index == paths[b].leaf_index { return None; } cols.swap(a, b); paths.swap(a, b); }
            "dup_col" => { if nc < 2 { return None; } let a = k2 % nc; let b = (k2 + 1 + j) % nc; if paths[a].leaf_index == paths[b].leaf_index { return None; } cols[b] = cols[a].clone(); paths[b] = paths[a].clone(); }
            "path_index" => { if paths.is_empty() { return None; } let a = k2 % paths.len(); paths[a].leaf_index ^= 1; }
            "path_node" => { if paths.is_empty() { return None; } let a = k2 % paths.len(); if paths[a].auth_path.is_empty() { return None; } let n = j % paths[a].auth_path.len(); paths[a].auth_path[n][0] ^= 1; }
            "trunc_cols" => { if nc == 0 { return None; } cols.pop(); paths.pop(); }
            "trunc_paths" => { if paths.is_empty() { return None; } paths.pop(); }
            "extra_col" => { if nc == 0 { return None; } let c = cols[nc - 1].clone(); let p = paths[nc - 1].clone(); cols.push(c); paths.push(p); }
            "v_tamper" => { if vv.is_empty() { return None; } let k = j % vv.len(); vv[k] += one; }
            "v_stretch" => { let l = vv.len().max(1); for _ in 0..l * (1 + j % 3) { vv.push(Fr::from(0u64)); } }
            "v_shorten" => { if vv.is_empty() { return None; } vv.pop(); }
            "wf_tamper" => { match wf { Some(w) if !w.is_empty() => { let k = j % w.len(); w[k] += one; } _ => return None } }
            "wf_drop" => { if wf.is_none() { return None; } *wf = None; }
            "wf_stretch" => { match wf { Some(w) => { let l = w.len().max(1); for _ in 0..l { w.push(Fr::from(0u64)); } } None => return None } }
            _ => return None,
        }
    }
    Some(v)
}

/// model inputs of one linear-code commitment: dimensions, the vector arranged into the matrix, the encoder (the FFT domain
/// generator of the Reed-Solomon code, or the generator matrix = images of the unit messages under the library's own
/// encoder), and the number of queries the library's calculate_t yields for the codeword length
fn lincode_model_inputs<L, P>(i: usize, ck: &L::LinCodePCParams, p: &P, cm: &Cm<LigeroUniA>, reed_solomon: bool, out: &mut Out)
where
    P: ark_poly::Polynomial<Fr>,
    L: ark_poly_commit::linear_codes::LinearEncode<Fr, MTConfig, P, ColH<Fr>>,
{
    use ark_poly::EvaluationDomain;
    use ark_poly_commit::linear_codes::{verif_hooks as lh, LinCodeParametersInfo};
    let (n_rows, n_cols, n_ext) = lh::commitment_metadata(cm);
    out.input(&format!("dims.{}", i), &[n_rows.to_string(), n_cols.to_string(), n_ext.to_string()]);
    let dash = |v: Vec<String>| if v.is_empty() { vec!["-".to_string()] } else { v };
    out.input(&format!("coeffs.{}", i), &dash(fs_to_strs(&L::poly_to_vec(p))));
    if i == 0 { out.input("wf", &[if ck.check_well_formedness() { "1".into() } else { "0".into() }]); }
    match guard_any(|| lh::calculate_t::<Fr>(ck.sec_param(), ck.distance(), n_ext)).ok() {
        Some(t) => out.input(&format!("t.{}", i), &[t.to_string()]),
        None => out.input(&format!("t.{}", i), &["err".to_string()]),
    }
    if reed_solomon {
        match ark_poly::GeneralEvaluationDomain::<Fr>::new(n_ext) {
            Some(dom) if dom.size() == n_ext => out.input(&format!("omega.{}", i), &[f_to_str(&dom.group_gen())]),
            _ => out.input(&format!("omega.{}", i), &["none".to_string()]),
        }
    } else {
        for k in 0..n_cols {
            let mut e = vec![Fr::zero(); n_cols];
            e[k] = Fr::from(1u64);
            match guard_any(|| L::encode(&e, ck)).ok() {
                Some(g) => out.input(&format!("G.{}.{}", i, k), &fs_to_strs(&g)),
                None => out.input(&format!("G.{}.{}", i, k), &["none".to_string()]),
            }
        }
    }
}

/// a linear-code proof array as tokens (observables of honest proofs, inputs for proofs handed to the model)
fn lincode_proof_tokens(name: &str, pf: &Vec<ark_poly_commit::linear_codes::LinCodePCProof<Fr, MTConfig>>, as_input: bool, out: &mut Out) {
    use ark_poly_commit::linear_codes::verif_hooks as lh;
    let dash = |v: Vec<String>| if v.is_empty() { vec!["-".to_string()] } else { v };
    if as_input { out.input(&format!("{}.n", name), &[pf.len().to_string()]); } else { out.obs1(&format!("{}.n", name), "N", pf.len().to_string()); }
    for (i, p) in pf.iter().enumerate() {
        let (paths, v, cols, wf) = lh::proof_parts(p);
        let items: Vec<(String, &str, Vec<String>)> = vec![
            (format!("{}.{}.v", name, i), "F", dash(fs_to_strs(v))),
            (format!("{}.{}.wf", name, i), "F", match wf { Some(w) => dash(fs_to_strs(w)), None => vec!["none".into()] }),
            (format!("{}.{}.leaf_idx", name, i), "N", dash(paths.iter().map(|q| q.leaf_index.to_string()).collect())),
            (format!("{}.{}.col_lens", name, i), "N", dash(cols.iter().map(|x| x.len().to_string()).collect())),
            (format!("{}.{}.cols", name, i), "F", dash(cols.iter().flat_map(|x| fs_to_strs(x)).collect())),
        ];
        for (k, t, v) in items { if as_input { out.input(&k, &v); } else { out.obs(&k, t, &v); } }
    }
}

/// linear-code commitments with altered metadata (the root is kept): one more row / one more column than committed
fn lincode_mutate_comm(kind: &str, cm: &LabeledCommitment<Cm<LigeroUniA>>) -> Option<LabeledCommitment<Cm<LigeroUniA>>> {
    use ark_poly_commit::linear_codes::verif_hooks as lh;
    let mut c = cm.commitment().clone();
    let (r, k, e) = lh::commitment_metadata(&c);
    match kind {
        "meta_rows" => lh::commitment_set_metadata(&mut c, r + 1, k, e),
        "meta_cols" => lh::commitment_set_metadata(&mut c, r, k + 1, e),
        _ => return None,
    }
    Some(LabeledCommitment::new(cm.label().clone(), c, cm.degree_bound()))
}

pub struct LigeroUniA;
/// Ligero parameters other than the ones hard-wired in `setup` (security level, rate, well-formedness switch)
fn lincode_shape_comm(cm: &Cm<LigeroUniA>) -> Vec<String> {
    let (r, c, e) = ark_poly_commit::linear_codes::verif_hooks::commitment_metadata(cm);
    let mut cm2 = cm.clone();
    let root = ark_poly_commit::linear_codes::verif_hooks::commitment_root_mut(&mut cm2);
    vec![r.to_string(), c.to_string(), e.to_string(), (ser_bytes(root, true).len() - 8).to_string()]   // digest bytes without the length prefix
}
/// [count, then per proof: paths, auth path length, leaf-sibling bytes, inner digest bytes, |v|, columns, column length, wf present, |wf|]
fn lincode_shape_proof(pf: &Vec<ark_poly_commit::linear_codes::LinCodePCProof<Fr, MTConfig>>) -> Vec<String> {
    let mut v = vec![pf.len().to_string()];
    for p in pf.iter() {
        let (paths, vv, cols, wf) = ark_poly_commit::linear_codes::verif_hooks::proof_parts(p);
        let (apl, lsb, idb) = match paths.first() {
            Some(pa) => (pa.auth_path.len(), paths.iter().map(|q| ser_bytes(&q.leaf_sibling_hash, true).len() - 8).max().unwrap_or(0).max(32), pa.auth_path.first().map(|d| ser_bytes(d, true).len() - 8).unwrap_or(32)),
            None => (0, 0, 0),
        };
        let same = paths.iter().all(|pa| pa.auth_path.len() == apl) && cols.iter().all(|c| c.len() == cols[0].len());
        v.extend([paths.len(), apl, lsb, idb, vv.len(), cols.len(), cols.first().map(|c| c.len()).unwrap_or(0),
                  wf.is_some() as usize, wf.as_ref().map(|w| w.len()).unwrap_or(0), same as usize].iter().map(|x| x.to_string()));
    }
    v
}

/// C03 attack "authentic columns at shifted positions": the Reed-Solomon code is cyclic, so scaling column k of the
/// coefficient matrix by w^k (w = generator of the encoding domain) rotates every encoded row by one position.  The
/// library's own prover is run on that related polynomial p' against the ORIGINAL Merkle root (same transcript as the
/// verifier will replay); its columns are the original columns of the next leaf, and their authentic paths in the
/// original tree are harvested from honest openings of p.  The crafted proof argues for p'(z) != p(z); it is rejected
/// as long as the verifier ties every path to the position the transcript asked for.
macro_rules! rs_transplant_attack {
    ($pc:ty, $scale:expr, $eval:expr) => {
        fn attack(kind: &str, ck: &CK<Self>, polys: &[&ark_poly_commit::LabeledPolynomial<Fr, Self::P>],
                  comms: &[&LabeledCommitment<Cm<Self>>], states: &[&St<Self>], pt: &Pt<Self>,
                  sponge: &mut crate::sponge::RecSponge<Fr>, _args: &[String]) -> Option<(Pf<Self>, Vec<Fr>)> {
            use ark_poly::EvaluationDomain;
            use ark_poly_commit::linear_codes::verif_hooks as lh;
            use ark_crypto_primitives::sponge::CryptographicSponge;
            if kind != "rs_transplant" || polys.is_empty() { return None; }
            let (_n_rows, n_cols, n_ext) = lh::commitment_metadata(comms[0].commitment());
            let dom = ark_poly::GeneralEvaluationDomain::<Fr>::new(n_ext)?;
            if dom.size() != n_ext { return None; }
            let w = dom.group_gen();
            let scale: fn(&Self::P, usize, Fr) -> Self::P = $scale;
            let evalf: fn(&Self::P, &Pt<Self>) -> Fr = $eval;
            let p0 = polys[0].polynomial();
            let p1 = scale(p0, n_cols, w);
            let truth = evalf(p0, pt);
            let fake = evalf(&p1, pt);
            if truth == fake { return None; }
            let lp1 = ark_poly_commit::LabeledPolynomial::new(polys[0].label().clone(), p1, None, None);
            let (cm1, st1) = <$pc>::commit(ck, [&lp1], None).ok()?;
            // the related polynomial's commitment, carrying the original root
            let mut c1 = cm1[0].commitment().clone();
            let mut orig = comms[0].commitment().clone();
            *lh::commitment_root_mut(&mut c1) = lh::commitment_root_mut(&mut orig).clone();
            let lc1 = LabeledCommitment::new(polys[0].label().clone(), c1, None);
            let mut lps: Vec<&ark_poly_commit::LabeledPolynomial<Fr, Self::P>> = vec![&lp1];
            lps.extend(polys[1..].iter().cloned());
            let mut lcs: Vec<&LabeledCommitment<Cm<Self>>> = vec![&lc1];
            lcs.extend(comms[1..].iter().cloned());
            let mut sts: Vec<&St<Self>> = vec![&st1[0]];
            sts.extend(states[1..].iter().cloned());
            let mut pf = <$pc>::open(ck, lps, lcs, pt, sponge, sts, None).ok()?;
            // positions the transcript asked for, and the authentic (path, column) of the following leaves
            let want: Vec<usize> = { let (paths, _, _, _) = lh::proof_parts(&pf[0]); paths.iter().map(|p| (p.leaf_index + 1) % n_ext).collect() };
            let mut have: std::collections::HashMap<usize, (ark_crypto_primitives::merkle_tree::Path<MTConfig>, Vec<Fr>)> = std::collections::HashMap::new();
            for k in 0..600u64 {
                if want.iter().all(|i| have.contains_key(i)) { break; }
                let mut sp = crate::sponge::RecSponge::<Fr>::fresh();
                sp.absorb(&Fr::from(k + 1));
                let h = <$pc>::open(ck, [polys[0]], [comms[0]], pt, &mut sp, [states[0]], None).ok()?;
                let (paths, _, cols, _) = lh::proof_parts(&h[0]);
                for (pa, co) in paths.iter().zip(cols.iter()) { have.entry(pa.leaf_index).or_insert((pa.clone(), co.clone())); }
            }
            if !want.iter().all(|i| have.contains_key(i)) { return None; }
            {
                let (paths, _, cols, _) = lh::proof_parts_mut(&mut pf[0]);
                for (j, i) in want.iter().enumerate() {
                    let (pa, co) = &have[i];
                    if cols[j] != *co { return None; }      // the layout assumption does not hold: no attack
                    paths[j] = pa.clone();
                }
            }
            let mut values = vec![fake];
            for q in polys[1..].iter() { values.push(evalf(q.polynomial(), pt)); }
            Some((pf, values))
        }
    };
}

pub fn ligero_params(c: &Case) -> Option<ark_poly_commit::linear_codes::LigeroPCParams<Fr, MTConfig, ColH<Fr>>> {
    if !c.has("lig") { return None; }
    let v = c.usizes("lig");   // sec_param rho_inv check_well_formedness
    Some(ark_poly_commit::linear_codes::LigeroPCParams::new(v[0], v[1], v[2] == 1, (), (), ()))
}

impl Adapter for LigeroUniA {
    type F = Fr; type P = UniPoly; type PC = LigeroUniPC;
    fn size_shape_comm(cm: &Cm<Self>) -> Vec<String> { lincode_shape_comm(cm) }
    fn size_shape_proof(pf: &Pf<Self>) -> Vec<String> { lincode_shape_proof(pf) }
    fn make_poly(toks: &[String], _nv: Option<usize>) -> UniPoly { uni_poly(toks) }
    fn make_point(toks: &[String]) -> Fr { f_from_str(&toks[0]) }
    fn setup(c: &Case) -> Outcome<UP<Self>> {
        if let Some(p) = ligero_params(c) { return Outcome::Ok(p); }
        let mut rng = CountingRng::new(c.u64_1("setup_seed"));
        guard_any(|| LigeroUniPC::setup(c.usize1("max_degree"), opt_usize(c.str1("num_vars")), &mut rng))
    }
    fn mutate_proof(kind: &str, pf: &Pf<Self>, args: &[String]) -> Option<Pf<Self>> { mutate_lincode_proof(kind, pf, args) }
    fn model_inputs(i: usize, ck: &CK<Self>, p: &UniPoly, cm: &Cm<Self>, out: &mut Out) {
        lincode_model_inputs::<UnivariateLigero<Fr, MTConfig, UniPoly, ColH<Fr>>, UniPoly>(i, ck, p, cm, true, out)
    }
    fn point_input(j: usize, pt: &Fr, out: &mut Out) { out.input(&format!("ptvec.{}", j), &[f_to_str(pt)]); }
    fn proof_obs(name: &str, pf: &Pf<Self>, out: &mut Out) { lincode_proof_tokens(name, pf, false, out) }
    fn proof_input(name: &str, pf: &Pf<Self>, out: &mut Out) { lincode_proof_tokens(name, pf, true, out) }
    fn mutate_comm(kind: &str, cm: &LabeledCommitment<Cm<Self>>, _args: &[String]) -> Option<LabeledCommitment<Cm<Self>>> { lincode_mutate_comm(kind, cm) }
    fn wants_sq_events() -> bool { true }
    fn reference_commitment(ck: &CK<Self>, p: &UniPoly, _b: Option<usize>, cm: &Cm<Self>, _st: &St<Self>) -> Option<bool> {
        reference_root::<UnivariateLigero<Fr, MTConfig, UniPoly, ColH<Fr>>, UniPoly>(ck, p.coeffs.clone(), cm)
    }
    rs_transplant_attack!(LigeroUniPC,
        |p: &UniPoly, n_cols: usize, w: Fr| { use ark_ff::Field; DensePolynomial::from_coefficients_vec(p.coeffs.iter().enumerate().map(|(j, c)| *c * w.pow([(j % n_cols) as u64])).collect()) },
        |p: &UniPoly, z: &Fr| { use ark_poly::Polynomial; p.evaluate(z) });
}
pub struct LigeroMLA;
impl Adapter for LigeroMLA {
    type F = Fr; type P = SparseMultilinearExtension<Fr>; type PC = LigeroMLPC;
    fn size_shape_comm(cm: &Cm<Self>) -> Vec<String> { lincode_shape_comm(cm) }
    fn size_shape_proof(pf: &Pf<Self>) -> Vec<String> { lincode_shape_proof(pf) }
    fn make_poly(toks: &[String], nv: Option<usize>) -> Self::P { sparse_ml(toks, nv) }
    fn make_point(toks: &[String]) -> Vec<Fr> { fs_from_strs(toks) }
    fn setup(c: &Case) -> Outcome<UP<Self>> {
        if let Some(p) = ligero_params(c) { return Outcome::Ok(p); }
        let mut rng = CountingRng::new(c.u64_1("setup_seed"));
        guard_any(|| LigeroMLPC::setup(c.usize1("max_degree"), opt_usize(c.str1("num_vars")), &mut rng))
    }
    fn mutate_proof(kind: &str, pf: &Pf<Self>, args: &[String]) -> Option<Pf<Self>> { mutate_lincode_proof(kind, pf, args) }
    fn model_inputs(i: usize, ck: &CK<Self>, p: &Self::P, cm: &Cm<Self>, out: &mut Out) {
        lincode_model_inputs::<MultilinearLigero<Fr, MTConfig, SparseMultilinearExtension<Fr>, ColH<Fr>>, SparseMultilinearExtension<Fr>>(i, ck, p, cm, true, out)
    }
    fn point_input(j: usize, pt: &Vec<Fr>, out: &mut Out) {
        use ark_poly_commit::linear_codes::LinearEncode;
        let v = <MultilinearLigero<Fr, MTConfig, SparseMultilinearExtension<Fr>, ColH<Fr>> as LinearEncode<Fr, MTConfig, SparseMultilinearExtension<Fr>, ColH<Fr>>>::point_to_vec(pt.clone());
        out.input(&format!("ptvec.{}", j), &{ let t = fs_to_strs(&v); if t.is_empty() { vec!["-".into()] } else { t } });
    }
    fn proof_obs(name: &str, pf: &Pf<Self>, out: &mut Out) { lincode_proof_tokens(name, pf, false, out) }
    fn proof_input(name: &str, pf: &Pf<Self>, out: &mut Out) { lincode_proof_tokens(name, pf, true, out) }
    fn mutate_comm(kind: &str, cm: &LabeledCommitment<Cm<Self>>, _args: &[String]) -> Option<LabeledCommitment<Cm<Self>>> { lincode_mutate_comm(kind, cm) }
    fn wants_sq_events() -> bool { true }
    fn reference_commitment(ck: &CK<Self>, p: &Self::P, _b: Option<usize>, cm: &Cm<Self>, _st: &St<Self>) -> Option<bool> {
        use ark_poly::MultilinearExtension;
        reference_root::<MultilinearLigero<Fr, MTConfig, SparseMultilinearExtension<Fr>, ColH<Fr>>, SparseMultilinearExtension<Fr>>(ck, p.to_evaluations(), cm)
    }
    rs_transplant_attack!(LigeroMLPC,
        |p: &SparseMultilinearExtension<Fr>, n_cols: usize, w: Fr| {
            use ark_ff::Field; use ark_poly::MultilinearExtension;
            let ev: Vec<(usize, Fr)> = p.to_evaluations().into_iter().enumerate().map(|(j, c)| (j, c * w.pow([(j % n_cols) as u64]))).filter(|(_, c)| !c.is_zero()).collect();
            SparseMultilinearExtension::from_evaluations(p.num_vars(), &ev) },
        |p: &SparseMultilinearExtension<Fr>, z: &Vec<Fr>| { use ark_poly::Polynomial; p.evaluate(z) });
}
pub struct BrakedownMLA;
impl Adapter for BrakedownMLA {
    type F = Fr; type P = SparseMultilinearExtension<Fr>; type PC = BrakedownMLPC;
    fn size_shape_comm(cm: &Cm<Self>) -> Vec<String> { lincode_shape_comm(cm) }
    fn size_shape_proof(pf: &Pf<Self>) -> Vec<String> { lincode_shape_proof(pf) }
    fn make_poly(toks: &[String], nv: Option<usize>) -> Self::P { sparse_ml(toks, nv) }
    fn make_point(toks: &[String]) -> Vec<Fr> { fs_from_strs(toks) }
    fn setup(c: &Case) -> Outcome<UP<Self>> {
        let mut rng = CountingRng::new(c.u64_1("setup_seed"));
        if c.has("lig") {
            // same defaults as `setup`, with the well-formedness switch chosen by the scenario
            let wf = c.usizes("lig")[2] == 1;
            let nv = opt_usize(c.str1("num_vars")).unwrap();
            return guard_any(|| Ok::<_, ()>(ark_poly_commit::linear_codes::BrakedownPCParams::default(&mut rng, 1usize << nv, wf, (), (), ())));
        }
        guard_any(|| BrakedownMLPC::setup(c.usize1("max_degree"), opt_usize(c.str1("num_vars")), &mut rng))
    }
    fn mutate_proof(kind: &str, pf: &Pf<Self>, args: &[String]) -> Option<Pf<Self>> { mutate_lincode_proof(kind, pf, args) }
    fn model_inputs(i: usize, ck: &CK<Self>, p: &Self::P, cm: &Cm<Self>, out: &mut Out) {
        lincode_model_inputs::<MultilinearBrakedown<Fr, MTConfig, SparseMultilinearExtension<Fr>, ColH<Fr>>, SparseMultilinearExtension<Fr>>(i, ck, p, cm, false, out)
    }
    fn point_input(j: usize, pt: &Vec<Fr>, out: &mut Out) {
        use ark_poly_commit::linear_codes::LinearEncode;
        let v = <MultilinearBrakedown<Fr, MTConfig, SparseMultilinearExtension<Fr>, ColH<Fr>> as LinearEncode<Fr, MTConfig, SparseMultilinearExtension<Fr>, ColH<Fr>>>::point_to_vec(pt.clone());
        out.input(&format!("ptvec.{}", j), &{ let t = fs_to_strs(&v); if t.is_empty() { vec!["-".into()] } else { t } });
    }
    fn proof_obs(name: &str, pf: &Pf<Self>, out: &mut Out) { lincode_proof_tokens(name, pf, false, out) }
    fn proof_input(name: &str, pf: &Pf<Self>, out: &mut Out) { lincode_proof_tokens(name, pf, true, out) }
    fn mutate_comm(kind: &str, cm: &LabeledCommitment<Cm<Self>>, _args: &[String]) -> Option<LabeledCommitment<Cm<Self>>> { lincode_mutate_comm(kind, cm) }
    fn wants_sq_events() -> bool { true }
    fn reference_commitment(ck: &CK<Self>, p: &Self::P, _b: Option<usize>, cm: &Cm<Self>, _st: &St<Self>) -> Option<bool> {
        use ark_poly::MultilinearExtension;
        reference_root::<MultilinearBrakedown<Fr, MTConfig, SparseMultilinearExtension<Fr>, ColH<Fr>>, SparseMultilinearExtension<Fr>>(ck, p.to_evaluations(), cm)
    }
}

pub fn run_c08(c: &Case, out: &mut Out) {
    match c.str1("scheme") {
        "marlin" => crate::pc::run_c08::<MarlinA>(c, out),
        "sonic" => crate::pc::run_c08::<SonicA>(c, out),
        "ipa" => crate::pc::run_c08::<IpaA>(c, out),
        "pst13" => crate::pc::run_c08::<Pst13A>(c, out),
        "hyrax" => crate::pc::run_c08::<HyraxA>(c, out),
        "ligero_uni" => crate::pc::run_c08::<LigeroUniA>(c, out),
        "ligero_ml" => crate::pc::run_c08::<LigeroMLA>(c, out),
        "brakedown_ml" => crate::pc::run_c08::<BrakedownMLA>(c, out),
        s => panic!("unknown scheme {}", s),
    }
}

pub fn run(c: &Case, out: &mut Out) {
    match c.str1("scheme") {
        "marlin" => crate::pc::run::<MarlinA>(c, out),
        "sonic" => crate::pc::run::<SonicA>(c, out),
        "ipa" => crate::pc::run::<IpaA>(c, out),
        "pst13" => crate::pc::run::<Pst13A>(c, out),
        "hyrax" => crate::pc::run::<HyraxA>(c, out),
        "ligero_uni" => crate::pc::run::<LigeroUniA>(c, out),
        "ligero_ml" => crate::pc::run::<LigeroMLA>(c, out),
        "brakedown_ml" => crate::pc::run::<BrakedownMLA>(c, out),
        s => panic!("unknown scheme {}", s),
    }
}
#[allow(dead_code)]
fn _unused(_: PhantomData<(Pt<MarlinA>, CK<MarlinA>, VK<MarlinA>)>) {}
