//! Adapters instantiating the generic flow for every scheme behind the trait.
use crate::pc::{Adapter, Cm, Pf, Pt, St, UP, CK, VK, opt_usize};
use crate::proto::{Case, Out};
use crate::util::*;
use ark_bls12_381::{Bls12_381, Fr};
use ark_crypto_primitives::{
    crh::{sha256::Sha256, CRHScheme, TwoToOneCRHScheme},
    merkle_tree::{ByteDigestConverter, Config},
};
use ark_ed_on_bls12_381::{EdwardsAffine, Fr as EdFr};
use ark_ff::PrimeField;
use ark_poly::{
    multivariate::{SparsePolynomial, SparseTerm, Term},
    univariate::DensePolynomial,
    DenseMVPolynomial, DenseMultilinearExtension, DenseUVPolynomial, SparseMultilinearExtension,
};
use ark_poly_commit::{
    hyrax::HyraxPC,
    ipa_pc::InnerProductArgPC,
    linear_codes::{LinearCodePCS, MultilinearBrakedown, MultilinearLigero, UnivariateLigero},
    marlin_pc::MarlinKZG10,
    marlin_pst13_pc::MarlinPST13,
    sonic_pc::SonicKZG10,
    LabeledCommitment, PolynomialCommitment,
};
use ark_serialize::CanonicalSerialize;
use ark_std::borrow::Borrow;
use ark_std::marker::PhantomData;
use ark_std::rand::RngCore;
use blake2::Blake2s256;
use digest::Digest;

// ---------- hashers (same definitions as bench-templates, which cannot be a dependency) ----------
#[derive(Clone)]
pub struct LeafIdentityHasher;
impl CRHScheme for LeafIdentityHasher {
    type Input = Vec<u8>;
    type Output = Vec<u8>;
    type Parameters = ();
    fn setup<R: RngCore>(_: &mut R) -> Result<Self::Parameters, ark_crypto_primitives::Error> { Ok(()) }
    fn evaluate<T: Borrow<Self::Input>>(_: &Self::Parameters, input: T) -> Result<Self::Output, ark_crypto_primitives::Error> {
        Ok(input.borrow().to_vec().into())
    }
}
pub struct FieldToBytesColHasher<F: PrimeField + CanonicalSerialize, D: Digest> { _p: PhantomData<(F, D)> }
impl<F: PrimeField + CanonicalSerialize, D: Digest> CRHScheme for FieldToBytesColHasher<F, D> {
    type Input = Vec<F>;
    type Output = Vec<u8>;
    type Parameters = ();
    fn setup<R: RngCore>(_rng: &mut R) -> Result<Self::Parameters, ark_crypto_primitives::Error> { Ok(()) }
    fn evaluate<T: Borrow<Self::Input>>(_p: &Self::Parameters, input: T) -> Result<Self::Output, ark_crypto_primitives::Error> {
        let mut dig = D::new();
        let mut bytes = Vec::new();
        input.borrow().serialize_compressed(&mut bytes).unwrap();
        dig.update(bytes);
        Ok(dig.finalize().to_vec())
    }
}
pub struct MTConfig;
impl Config for MTConfig {
    type Leaf = Vec<u8>;
    type LeafDigest = <LeafIdentityHasher as CRHScheme>::Output;
    type LeafInnerDigestConverter = ByteDigestConverter<Self::LeafDigest>;
    type InnerDigest = <Sha256 as TwoToOneCRHScheme>::Output;
    type LeafHash = LeafIdentityHasher;
    type TwoToOneHash = Sha256;
}
pub type ColH<F> = FieldToBytesColHasher<F, Blake2s256>;

pub type UniPoly = DensePolynomial<Fr>;
pub type MarlinPC = MarlinKZG10<Bls12_381, UniPoly>;
pub type SonicPC = SonicKZG10<Bls12_381, UniPoly>;
pub type IpaPC = InnerProductArgPC<EdwardsAffine, Blake2s256, DensePolynomial<EdFr>>;
pub type MVPoly = SparsePolynomial<Fr, SparseTerm>;
pub type Pst13PC = MarlinPST13<Bls12_381, MVPoly>;
pub type HyraxPCS = HyraxPC<EdwardsAffine, DenseMultilinearExtension<EdFr>>;
pub type LigeroUniPC = LinearCodePCS<UnivariateLigero<Fr, MTConfig, UniPoly, ColH<Fr>>, Fr, UniPoly, MTConfig, ColH<Fr>>;
pub type LigeroMLPC = LinearCodePCS<MultilinearLigero<Fr, MTConfig, SparseMultilinearExtension<Fr>, ColH<Fr>>, Fr, SparseMultilinearExtension<Fr>, MTConfig, ColH<Fr>>;
pub type BrakedownMLPC = LinearCodePCS<MultilinearBrakedown<Fr, MTConfig, SparseMultilinearExtension<Fr>, ColH<Fr>>, Fr, SparseMultilinearExtension<Fr>, MTConfig, ColH<Fr>>;

fn uni_poly<F: PrimeField>(toks: &[String]) -> DensePolynomial<F> {
    DensePolynomial::from_coefficients_vec(fs_from_strs(toks))
}
fn sparse_ml<F: PrimeField>(toks: &[String], nv: Option<usize>) -> SparseMultilinearExtension<F> {
    let nv = nv.expect("num_vars");
    let ev: Vec<F> = fs_from_strs(toks);
    let pts: Vec<(usize, F)> = ev.into_iter().enumerate().filter(|(_, v)| !v.is_zero()).collect();
    SparseMultilinearExtension::from_evaluations(nv, &pts)
}

pub struct MarlinA;
impl Adapter for MarlinA {
    type F = Fr; type P = UniPoly; type PC = MarlinPC;
    fn make_poly(toks: &[String], _nv: Option<usize>) -> UniPoly { uni_poly(toks) }
    fn make_point(toks: &[String]) -> Fr { f_from_str(&toks[0]) }
    fn setup(c: &Case) -> Outcome<UP<Self>> {
        if c.has("beta") {
            let pp = crate::kzg::build_params(c.usize1("max_degree"), false, f_from_str(c.str1("beta")), f_from_str(c.str1("g")),
                                              f_from_str(c.str1("gamma")), f_from_str(c.str1("h")));
            Outcome::Ok(pp)
        } else {
            let mut rng = CountingRng::new(c.u64_1("setup_seed"));
            guard_any(|| MarlinPC::setup(c.usize1("max_degree"), opt_usize(c.str1("num_vars")), &mut rng))
        }
    }
    fn comm_obs(i: usize, cm: &Cm<Self>, st: &St<Self>, out: &mut Out) {
        let mut v = vec![ser_hex(&cm.comm.0)];
        if let Some(s) = &cm.shifted_comm { v.push(ser_hex(&s.0)); }
        out.obs(&format!("c.{}", i), "G1", &v);
        out.obs(&format!("rand.{}", i), "F", &{ let x = fs_to_strs(st.rand.blinding_polynomial.coeffs()); if x.is_empty() { vec!["-".into()] } else { x } });
        if let Some(sr) = &st.shifted_rand {
            out.obs(&format!("srand.{}", i), "F", &{ let x = fs_to_strs(sr.blinding_polynomial.coeffs()); if x.is_empty() { vec!["-".into()] } else { x } });
        }
    }
    fn proof_obs(name: &str, pf: &Pf<Self>, out: &mut Out) {
        out.obs1(&format!("{}.w", name), "G1", ser_hex(&pf.w));
        out.obs1(&format!("{}.rv", name), "F", pf.random_v.map(|x| f_to_str(&x)).unwrap_or("none".into()));
    }
    fn mutate_comm(kind: &str, cm: &LabeledCommitment<Cm<Self>>, args: &[String]) -> Option<LabeledCommitment<Cm<Self>>> {
        let mut c = cm.commitment().clone();
        let mut b = cm.degree_bound();
        match kind {
            "drop_shifted" => { if c.shifted_comm.is_none() { return None; } c.shifted_comm = None; b = None; }
            "drop_shifted_keep_bound" => { if c.shifted_comm.is_none() { return None; } c.shifted_comm = None; }
            "relabel_bound" => { if b.is_none() { return None; } b = Some(args[0].parse().unwrap()); }
            "add_bound" => { if b.is_some() { return None; } b = Some(args[0].parse().unwrap()); }
            "swap_parts" => { match c.shifted_comm.clone() { Some(s) => { let t = c.comm.clone(); c.comm = s; c.shifted_comm = Some(t); } None => return None } }
            _ => return None,
        }
        Some(LabeledCommitment::new(cm.label().clone(), c, b))
    }
    fn mutate_proof(kind: &str, pf: &Pf<Self>, args: &[String]) -> Option<Pf<Self>> {
        let mut p = pf.clone();
        match kind {
            "w_add" => { use ark_ec::{AffineRepr, CurveGroup}; p.w = (p.w.into_group() + exp_g::<ark_bls12_381::G1Affine>(f_from_str(&args[0]))).into_affine(); }
            "rv" => { p.random_v = if args[0] == "none" { None } else { Some(f_from_str(&args[0])) }; }
            _ => return None,
        }
        Some(p)
    }
}

pub struct SonicA;
impl Adapter for SonicA {
    type F = Fr; type P = UniPoly; type PC = SonicPC;
    fn make_poly(toks: &[String], _nv: Option<usize>) -> UniPoly { uni_poly(toks) }
    fn make_point(toks: &[String]) -> Fr { f_from_str(&toks[0]) }
    fn setup(c: &Case) -> Outcome<UP<Self>> {
        if c.has("beta") {
            Outcome::Ok(crate::kzg::build_params(c.usize1("max_degree"), true, f_from_str(c.str1("beta")), f_from_str(c.str1("g")),
                                                 f_from_str(c.str1("gamma")), f_from_str(c.str1("h"))))
        } else {
            let mut rng = CountingRng::new(c.u64_1("setup_seed"));
            guard_any(|| SonicPC::setup(c.usize1("max_degree"), opt_usize(c.str1("num_vars")), &mut rng))
        }
    }
    fn comm_obs(i: usize, cm: &Cm<Self>, st: &St<Self>, out: &mut Out) {
        out.obs1(&format!("c.{}", i), "G1", ser_hex(&cm.0));
        out.obs(&format!("rand.{}", i), "F", &{ let x = fs_to_strs(st.blinding_polynomial.coeffs()); if x.is_empty() { vec!["-".into()] } else { x } });
    }
    fn proof_obs(name: &str, pf: &Pf<Self>, out: &mut Out) {
        out.obs1(&format!("{}.w", name), "G1", ser_hex(&pf.w));
        out.obs1(&format!("{}.rv", name), "F", pf.random_v.map(|x| f_to_str(&x)).unwrap_or("none".into()));
    }
    fn mutate_comm(kind: &str, cm: &LabeledCommitment<Cm<Self>>, args: &[String]) -> Option<LabeledCommitment<Cm<Self>>> {
        let b = cm.degree_bound();
        match kind {
            "relabel_bound" => { if b.is_none() { return None; } Some(LabeledCommitment::new(cm.label().clone(), cm.commitment().clone(), Some(args[0].parse().unwrap()))) }
            "drop_bound" => { if b.is_none() { return None; } Some(LabeledCommitment::new(cm.label().clone(), cm.commitment().clone(), None)) }
            "add_bound" => { if b.is_some() { return None; } Some(LabeledCommitment::new(cm.label().clone(), cm.commitment().clone(), Some(args[0].parse().unwrap()))) }
            _ => None,
        }
    }
}

pub struct IpaA;
impl Adapter for IpaA {
    type F = EdFr; type P = DensePolynomial<EdFr>; type PC = IpaPC;
    fn make_poly(toks: &[String], _nv: Option<usize>) -> Self::P { uni_poly(toks) }
    fn make_point(toks: &[String]) -> EdFr { f_from_str(&toks[0]) }
    fn mutate_comm(kind: &str, cm: &LabeledCommitment<Cm<Self>>, args: &[String]) -> Option<LabeledCommitment<Cm<Self>>> {
        let mut c = cm.commitment().clone();
        let mut b = cm.degree_bound();
        match kind {
            "drop_shifted" => { if c.shifted_comm.is_none() { return None; } c.shifted_comm = None; b = None; }
            "relabel_bound" => { if b.is_none() { return None; } b = Some(args[0].parse().unwrap()); }
            "add_bound" => { if b.is_some() { return None; } b = Some(args[0].parse().unwrap()); }
            _ => return None,
        }
        Some(LabeledCommitment::new(cm.label().clone(), c, b))
    }
}

pub struct Pst13A;
impl Adapter for Pst13A {
    type F = Fr; type P = MVPoly; type PC = Pst13PC;
    /// tokens: (coeff k (var pow){k})*
    fn make_poly(toks: &[String], nv: Option<usize>) -> MVPoly {
        let nv = nv.expect("num_vars");
        let mut terms = vec![];
        let mut i = 0;
        while i < toks.len() {
            let coeff: Fr = f_from_str(&toks[i]);
            let k: usize = toks[i + 1].parse().unwrap();
            let mut t = vec![];
            for j in 0..k {
                t.push((toks[i + 2 + 2 * j].parse().unwrap(), toks[i + 3 + 2 * j].parse().unwrap()));
            }
            terms.push((coeff, SparseTerm::new(t)));
            i += 2 + 2 * k;
        }
        MVPoly::from_coefficients_vec(nv, terms)
    }
    fn make_point(toks: &[String]) -> Vec<Fr> { fs_from_strs(toks) }
}

pub struct HyraxA;
impl Adapter for HyraxA {
    type F = EdFr; type P = DenseMultilinearExtension<EdFr>; type PC = HyraxPCS;
    fn make_poly(toks: &[String], nv: Option<usize>) -> Self::P {
        DenseMultilinearExtension::from_evaluations_vec(nv.expect("num_vars"), fs_from_strs(toks))
    }
    fn make_point(toks: &[String]) -> Vec<EdFr> { fs_from_strs(toks) }
}

pub struct LigeroUniA;
impl Adapter for LigeroUniA {
    type F = Fr; type P = UniPoly; type PC = LigeroUniPC;
    fn make_poly(toks: &[String], _nv: Option<usize>) -> UniPoly { uni_poly(toks) }
    fn make_point(toks: &[String]) -> Fr { f_from_str(&toks[0]) }
}
pub struct LigeroMLA;
impl Adapter for LigeroMLA {
    type F = Fr; type P = SparseMultilinearExtension<Fr>; type PC = LigeroMLPC;
    fn make_poly(toks: &[String], nv: Option<usize>) -> Self::P { sparse_ml(toks, nv) }
    fn make_point(toks: &[String]) -> Vec<Fr> { fs_from_strs(toks) }
}
pub struct BrakedownMLA;
impl Adapter for BrakedownMLA {
    type F = Fr; type P = SparseMultilinearExtension<Fr>; type PC = BrakedownMLPC;
    fn make_poly(toks: &[String], nv: Option<usize>) -> Self::P { sparse_ml(toks, nv) }
    fn make_point(toks: &[String]) -> Vec<Fr> { fs_from_strs(toks) }
}

pub fn run(c: &Case, out: &mut Out) {
    match c.str1("scheme") {
        "marlin" => crate::pc::run::<MarlinA>(c, out),
        "sonic" => crate::pc::run::<SonicA>(c, out),
        "ipa" => crate::pc::run::<IpaA>(c, out),
        "pst13" => crate::pc::run::<Pst13A>(c, out),
        "hyrax" => crate::pc::run::<HyraxA>(c, out),
        "ligero_uni" => crate::pc::run::<LigeroUniA>(c, out),
        "ligero_ml" => crate::pc::run::<LigeroMLA>(c, out),
        "brakedown_ml" => crate::pc::run::<BrakedownMLA>(c, out),
        s => panic!("unknown scheme {}", s),
    }
}
#[allow(dead_code)]
fn _unused(_: PhantomData<(Pt<MarlinA>, CK<MarlinA>, VK<MarlinA>)>) {}
