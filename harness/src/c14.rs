//! C14: streaming KZG.  Time-efficient and space-efficient committers/provers on the same inputs
//! (several MSM buffer sizes), the verifier on true and false claims, and the folding iterators.
//! The key is generated with a seeded RNG; the trapdoor is recovered by replaying the RNG and all
//! group elements are reported relative to the key's own generators.
use crate::proto::{Case, Out};
use crate::util::*;
use ark_bls12_381::{Bls12_381, Fr};
use ark_ff::{One, UniformRand, Zero};
use ark_poly_commit::streaming_kzg::verif_hooks as hooks;
use ark_poly_commit::streaming_kzg::{
    CommitterKey, CommitterKeyStream, EvaluationProof, FoldedPolynomialStream, FoldedPolynomialTree, VerifierKey,
};
use ark_std::iterable::{Iterable, Reverse};

fn hx<T: ark_serialize::CanonicalSerialize>(x: &T) -> String { ser_hex(x) }
fn eval_le(p: &[Fr], x: &Fr) -> Fr { p.iter().rev().fold(Fr::zero(), |a, c| a * x + c) }
fn eval_be(p: &[Fr], x: &Fr) -> Fr { p.iter().fold(Fr::zero(), |a, c| a * x + c) }
fn okerr<T, E>(r: &Result<T, E>) -> String { if r.is_ok() { "accept".into() } else { "reject".into() } }

pub fn run(c: &Case, out: &mut Out) {
    match c.str1("sub") {
        "stream" => stream(c, out),
        "fold" => fold(c, out),
        s => panic!("unknown c14 sub {}", s),
    }
}

fn stream(c: &Case, out: &mut Out) {
    let d = c.usize1("D");
    let me = c.usize1("max_eval_points");
    let seed = c.u64_1("seed");
    let (draws, _) = replay(seed, 1, |r| Fr::rand(r));
    let mut rng = CountingRng::new(seed);
    let ck = CommitterKey::<Bls12_381>::new(d, me, &mut rng);
    let (pg, pg2) = hooks::committer_key_parts(&ck);
    out.input("tau", &[f_to_str(&draws[0])]);
    out.input("base_g", &["G1".into(), hx(&pg[0])]);
    out.input("base_h", &["G2".into(), hx(&pg2[0])]);
    out.obs("key_sizes", "N", &[pg.len().to_string(), pg2.len().to_string()]);
    out.obs("key_g", "R:base_g", &pg.iter().map(hx).collect::<Vec<_>>());
    out.obs("key_g2", "R:base_h", &pg2.iter().map(hx).collect::<Vec<_>>());
    out.obs1("max_eval_points", "N", ck.max_eval_points().to_string());
    let sck = CommitterKeyStream::from(&ck);
    let vk = VerifierKey::from(&ck);
    let svk = VerifierKey::from(&sck);
    {
        let (vg, vg2) = hooks::verifier_key_parts(&vk);
        out.obs("vk_sizes", "N", &[vg.len().to_string(), vg2.len().to_string()]);
        let (sg, sg2) = hooks::verifier_key_parts(&svk);
        out.obs1("svk_g0_same", "S", if sg.first() == vg.first().or(Some(&pg[0])) && sg2 == vg2 { "yes".into() } else { "no".into() });
    }
    let n = c.usize1("n");
    let polys: Vec<Vec<Fr>> = (0..n).map(|i| fs_from_strs(c.fields.get(&format!("poly.{}", i)).map(|v| &v[..]).unwrap_or(&[]))).collect();
    let alpha: Fr = f_from_str(c.str1("alpha"));
    let delta: Fr = f_from_str(c.str1("delta"));
    let pts: Vec<Fr> = fs_from_strs(c.get("pts"));
    let eta: Fr = f_from_str(c.str1("eta"));
    let buffers = c.usizes("buffers");
    let mut comms = vec![];
    for (i, p) in polys.iter().enumerate() {
        let k = |s: &str| format!("{}.{}", s, i);
        let ps = Reverse(p.as_slice());
        // commitments
        let tc = guard_any(|| -> Result<_, ()> { Ok(ck.commit(p)) });
        out.obs1(&k("tcommit"), "S", tc.class());
        let tc = match tc.ok() { Some(x) => x, None => continue };
        out.obs1(&k("tc"), "R:base_g", hx(&hooks::commitment_point(&tc)));
        let sc = guard_any(|| -> Result<_, ()> { Ok(sck.commit(&ps)) });
        out.obs1(&k("scommit"), "S", sc.class());
        if let Some(sc) = sc.ok() {
            out.obs1(&k("sc"), "R:base_g", hx(&hooks::commitment_point(&sc)));
            out.obs1(&k("commit_same"), "S", if sc == tc { "yes".into() } else { "no".into() });
        }
        comms.push(tc.clone());
        // single-point openings
        let to = guard_any(|| -> Result<_, ()> { Ok(ck.open(p, &alpha)) });
        out.obs1(&k("topen"), "S", to.class());
        let (tv, tpi) = match to.ok() { Some(x) => x, None => continue };
        out.obs1(&k("tv"), "F", f_to_str(&tv));
        out.obs1(&k("tpi"), "R:base_g", hx(&tpi.0));
        out.obs1(&k("tv_is_eval"), "S", if tv == eval_le(p, &alpha) { "yes".into() } else { "no".into() });
        for b in &buffers {
            let so = guard_any(|| -> Result<_, ()> { Ok(sck.open(&ps, &alpha, *b)) });
            out.obs1(&format!("sopen.{}.{}", i, b), "S", so.class());
            if let Some((sv, spi)) = so.ok() {
                out.obs1(&format!("sv.{}.{}", i, b), "F", f_to_str(&sv));
                out.obs1(&format!("spi.{}.{}", i, b), "R:base_g", hx(&spi.0));
                out.obs1(&format!("open_same.{}.{}", i, b), "S", if sv == tv && spi == tpi { "yes".into() } else { "no".into() });
            }
        }
        out.obs1(&k("verify"), "S", okerr(&vk.verify(&tc, &alpha, &tv, &tpi)));
        out.obs1(&k("verify_svk"), "S", okerr(&svk.verify(&tc, &alpha, &tv, &tpi)));
        out.obs1(&k("verify_bad"), "S", okerr(&vk.verify(&tc, &alpha, &(tv + delta), &tpi)));
        out.obs1(&k("verify_bad_svk"), "S", okerr(&svk.verify(&tc, &alpha, &(tv + delta), &tpi)));
        // multi-point openings of one polynomial
        if !pts.is_empty() {
            let tm = guard_any(|| -> Result<_, ()> { Ok(ck.open_multi_points(p, &pts)) });
            out.obs1(&k("tmopen"), "S", tm.class());
            let tm = tm.ok();
            if let Some(tm) = &tm { out.obs1(&k("tmpi"), "R:base_g", hx(&tm.0)); }
            for b in &buffers {
                let sm = guard_any(|| -> Result<_, ()> { Ok(sck.open_multi_points(&ps, &pts, *b)) });
                out.obs1(&format!("smopen.{}.{}", i, b), "S", sm.class());
                if let Some((rem, spi)) = sm.ok() {
                    out.obs(&format!("smrem.{}.{}", i, b), "F", &fs_to_strs(&rem));
                    out.obs1(&format!("smpi.{}.{}", i, b), "R:base_g", hx(&spi.0));
                    let evals_ok = pts.iter().all(|x| eval_be(&rem, x) == eval_le(p, x));
                    out.obs1(&format!("smrem_evals.{}.{}", i, b), "S", if evals_ok { "yes".into() } else { "no".into() });
                    if let Some(tm) = &tm { out.obs1(&format!("mopen_same.{}.{}", i, b), "S", if *tm == spi { "yes".into() } else { "no".into() }); }
                }
            }
            // verified as a batch of one
            if let Some(tm) = &tm {
                let evals = vec![pts.iter().map(|x| eval_le(p, x)).collect::<Vec<_>>()];
                out.obs1(&k("vmp1"), "S", okerr(&vk.verify_multi_points(&[tc.clone()], &pts, &evals, tm, &eta)));
                out.obs1(&k("vmp1_svk"), "S", okerr(&svk.verify_multi_points(&[tc.clone()], &pts, &evals, tm, &eta)));
                let mut bad = evals.clone(); let j = i % pts.len(); bad[0][j] += delta;
                out.obs1(&k("vmp1_bad"), "S", okerr(&vk.verify_multi_points(&[tc.clone()], &pts, &bad, tm, &eta)));
            }
        }
    }
    // batch of all polynomials at all points
    if !pts.is_empty() && comms.len() == n && n > 0 {
        let refs: Vec<&Vec<Fr>> = polys.iter().collect();
        let bo = guard_any(|| -> Result<EvaluationProof<Bls12_381>, ()> { Ok(ck.batch_open_multi_points(&refs[..], &pts, &eta)) });
        out.obs1("bopen", "S", bo.class());
        if let Some(pi) = bo.ok() {
            out.obs1("bpi", "R:base_g", hx(&pi.0));
            let evals: Vec<Vec<Fr>> = polys.iter().map(|p| pts.iter().map(|x| eval_le(p, x)).collect()).collect();
            out.obs1("vmp", "S", okerr(&vk.verify_multi_points(&comms, &pts, &evals, &pi, &eta)));
            out.obs1("vmp_svk", "S", okerr(&svk.verify_multi_points(&comms, &pts, &evals, &pi, &eta)));
            let bi = c.usize1("bad_i") % n; let bj = c.usize1("bad_j") % pts.len();
            let mut bad = evals.clone(); bad[bi][bj] += delta;
            out.obs1("vmp_bad", "S", okerr(&vk.verify_multi_points(&comms, &pts, &bad, &pi, &eta)));
            let eta2 = eta + Fr::one();
            if n > 1 { out.obs1("vmp_other_eta", "S", okerr(&vk.verify_multi_points(&comms, &pts, &evals, &pi, &eta2))); }
        }
    }
}

fn fold(c: &Case, out: &mut Out) {
    let coeffs: Vec<Fr> = fs_from_strs(c.get("coeffs"));           // the stream, in the order it is read
    let chs: Vec<Fr> = fs_from_strs(c.fields.get("chs").map(|v| &v[..]).unwrap_or(&[]));
    let cs = coeffs.as_slice();
    let tree = FoldedPolynomialTree::new(&cs, chs.as_slice());
    let items = guard_any(|| -> Result<Vec<(usize, Fr)>, ()> { Ok(tree.iter().collect()) });
    out.obs1("tree", "S", items.class());
    if let Some(items) = items.ok() {
        out.obs("tree_levels", "N", &items.iter().map(|(l, _)| l.to_string()).collect::<Vec<_>>());
        out.obs("tree_coeffs", "F", &items.iter().map(|(_, x)| f_to_str(x)).collect::<Vec<_>>());
    }
    out.obs1("tree_depth", "N", tree.depth().to_string());
    let st = FoldedPolynomialStream::new(&cs, chs.as_slice());
    let sv = guard_any(|| -> Result<Vec<Fr>, ()> { Ok(st.iter().collect()) });
    out.obs1("stream", "S", sv.class());
    if let Some(sv) = sv.ok() {
        out.obs("stream_coeffs", "F", &fs_to_strs(&sv));
        out.obs1("stream_len_reported", "N", st.len().to_string());
    }
    // naive folding, by the definition of the property: pad in front to a multiple of 2^depth, fold pairs
    let depth = chs.len();
    let chunk = 1usize << depth;
    let mut cur: Vec<Fr> = vec![];
    if coeffs.len() % chunk != 0 { cur.extend(std::iter::repeat(Fr::zero()).take(chunk - coeffs.len() % chunk)); }
    cur.extend(coeffs.iter().cloned());
    let mut levels: Vec<Vec<Fr>> = vec![];
    for ch in &chs {
        cur = cur.chunks(2).map(|p| p[0] * ch + p[1]).collect();
        levels.push(cur.clone());
    }
    for (i, l) in levels.iter().enumerate() { out.obs(&format!("naive.{}", i + 1), "F", &fs_to_strs(l)); }
    // commit_folding / open_folding against the time prover on the explicitly folded polynomials
    if c.has("D") && depth > 0 {
        let d = c.usize1("D");
        let seed = c.u64_1("seed");
        let (draws, _) = replay(seed, 1, |r| Fr::rand(r));
        let mut rng = CountingRng::new(seed);
        let ck = CommitterKey::<Bls12_381>::new(d, c.usize1("max_eval_points"), &mut rng);
        let (pg, pg2) = hooks::committer_key_parts(&ck);
        out.input("tau", &[f_to_str(&draws[0])]);
        out.input("base_g", &["G1".into(), hx(&pg[0])]);
        out.input("base_h", &["G2".into(), hx(&pg2[0])]);
        let sck = CommitterKeyStream::from(&ck);
        let buf = c.usize1("buffer");
        let cf = guard_any(|| -> Result<_, ()> { Ok(sck.commit_folding(&tree, buf)) });
        out.obs1("commit_folding", "S", cf.class());
        if let Some(cf) = cf.ok() {
            out.obs("cf", "R:base_g", &cf.iter().map(|x| hx(&hooks::commitment_point(x))).collect::<Vec<_>>());
            // time commitments of the folded polynomials (little-endian = reversed level lists)
            let same = cf.len() == levels.len() && cf.iter().zip(levels.iter()).all(|(a, l)| { let le: Vec<Fr> = l.iter().rev().cloned().collect(); *a == ck.commit(&le) });
            out.obs1("cf_matches_time", "S", if same { "yes".into() } else { "no".into() });
        }
        let pts: Vec<Fr> = fs_from_strs(c.get("pts"));
        let etas: Vec<Fr> = fs_from_strs(c.get("etas"));
        if !pts.is_empty() {
            let of = guard_any(|| -> Result<_, ()> { Ok(sck.open_folding(tree, &pts, &etas, buf)) });
            out.obs1("open_folding", "S", of.class());
            if let Some((rems, pi)) = of.ok() {
                for (i, r) in rems.iter().enumerate() { out.obs(&format!("of_rem.{}", i + 1), "F", &fs_to_strs(r)); }
                out.obs1("of_pi", "R:base_g", hx(&pi.0));
                // remainders evaluate like the folded polynomials; proof = sum eta_i * time multi-point proof of level i
                let mut ok = rems.len() == levels.len();
                let mut acc = <ark_bls12_381::G1Projective as Zero>::zero();
                for (i, l) in levels.iter().enumerate() {
                    let le: Vec<Fr> = l.iter().rev().cloned().collect();
                    if i < rems.len() { ok &= pts.iter().all(|x| eval_be(&rems[i], x) == eval_le(&le, x)); }
                    let tp = ck.open_multi_points(&le, &pts);
                    acc += tp.0 * etas[i];
                }
                out.obs1("of_rem_evals", "S", if ok { "yes".into() } else { "no".into() });
                use ark_ec::CurveGroup;
                out.obs1("of_matches_time", "S", if acc.into_affine() == pi.0 { "yes".into() } else { "no".into() });
            }
        }
    }
}
