#![allow(dead_code, unused_imports, unused_variables)]
mod c09;
mod c14;
mod c15;
mod mlpc;
mod ipax;
mod c13;
mod c16;
mod kzg;
mod pc;
mod proto;
mod schemes;
mod sponge;
mod util;

use proto::{read_cases, Out};
use std::io::{BufReader, Write};

fn conv(args: &[String]) {
    // stdin lines: "<TYPE> <exp>..." -> hex of [exp]generator, one line per input line
    use ark_bls12_381::{Fr, G1Affine, G2Affine};
    use std::io::BufRead;
    let _ = args;
    let stdin = std::io::stdin();
    let mut o = std::io::BufWriter::new(std::io::stdout());
    for line in stdin.lock().lines() {
        let line = line.unwrap();
        let mut it = line.split_whitespace();
        let ty = match it.next() { Some(t) => t.to_string(), None => { writeln!(o).unwrap(); continue; } };
        let toks: Vec<String> = it
            .map(|s| {
                let efr = || -> Fr { util::f_from_str(s) };
                match ty.as_str() {
                    "G1" => util::ser_hex(&util::exp_g::<G1Affine>(efr())),
                    "G2" => util::ser_hex(&util::exp_g::<G2Affine>(efr())),
                    t if t.starts_with("G1@") => {
                        use ark_ec::{AffineRepr, CurveGroup};
                        use ark_serialize::CanonicalDeserialize;
                        let b = G1Affine::deserialize_compressed(&util::unhex(&t[3..])[..]).unwrap();
                        util::ser_hex(&(b.into_group() * efr()).into_affine())
                    }
                    t if t.starts_with("G2@") => {
                        use ark_ec::{AffineRepr, CurveGroup};
                        use ark_serialize::CanonicalDeserialize;
                        let b = G2Affine::deserialize_compressed(&util::unhex(&t[3..])[..]).unwrap();
                        util::ser_hex(&(b.into_group() * efr()).into_affine())
                    }
                    t if t.starts_with("G1L@") => {
                        // one token = the coefficients (comma separated) of a combination of the listed G1 points
                        use ark_ec::{AffineRepr, CurveGroup};
                        use ark_serialize::CanonicalDeserialize;
                        let basis: Vec<G1Affine> = t[4..].split(',').map(|h| G1Affine::deserialize_compressed(&util::unhex(h)[..]).unwrap()).collect();
                        let mut acc = <G1Affine as AffineRepr>::Group::default();
                        for (k, es) in s.split(',').enumerate() {
                            if es.is_empty() { continue; }
                            let e: Fr = util::f_from_str(es);
                            if k < basis.len() { acc += basis[k].into_group() * e; }
                        }
                        util::ser_hex(&acc.into_affine())
                    }
                    t if t.starts_with("EDL@") => {
                        // one token = the coefficients (comma separated) of a combination of the listed Edwards points
                        use ark_ec::{AffineRepr, CurveGroup};
                        use ark_serialize::CanonicalDeserialize;
                        use ark_ed_on_bls12_381::{EdwardsAffine, Fr as EdFr};
                        let basis: Vec<EdwardsAffine> = t[4..].split(',').map(|h| EdwardsAffine::deserialize_compressed(&util::unhex(h)[..]).unwrap()).collect();
                        let mut acc = <EdwardsAffine as AffineRepr>::Group::default();
                        for (k, es) in s.split(',').enumerate() {
                            if es.is_empty() { continue; }
                            let e: EdFr = util::f_from_str(es);
                            if k < basis.len() { acc += basis[k].into_group() * e; }
                        }
                        util::ser_hex(&acc.into_affine())
                    }
                    _ => panic!("conv: unknown type {}", ty),
                }
            })
            .collect();
        writeln!(o, "{}", toks.join(" ")).unwrap();
    }
}

fn main() {
    std::panic::set_hook(Box::new(|_| {}));
    let args: Vec<String> = std::env::args().collect();
    if args.len() < 2 {
        eprintln!("usage: pc-harness run <cases-file> | conv");
        std::process::exit(2);
    }
    match args[1].as_str() {
        "conv" => conv(&args[2..]),
        "run" => {
            let f = std::fs::File::open(&args[2]).expect("open cases");
            let cases = read_cases(BufReader::new(f));
            let stdout = std::io::stdout();
            let mut o = std::io::BufWriter::new(stdout.lock());
            for c in cases {
                let mut out = Out::default();
                let r = std::panic::catch_unwind(std::panic::AssertUnwindSafe(|| match c.kind.as_str() {
                    "kzg10" => kzg::run(&c, &mut out),
                    "pc" => schemes::run(&c, &mut out),
                    "c16" => c16::run(&c, &mut out),
                    "c13" => c13::run(&c, &mut out),
                    "c09" => c09::run(&c, &mut out),
                    "c14" => c14::run(&c, &mut out),
                    "c15" => c15::run(&c, &mut out),
                    "mlpc" => mlpc::run(&c, &mut out),
                    "ipax" => ipax::run(&c, &mut out),
                    "c08" => schemes::run_c08(&c, &mut out),
                    k => panic!("unknown case kind {}", k),
                }));
                writeln!(o, "case {}", c.id).unwrap();
                for l in &out.lines {
                    writeln!(o, "{}", l).unwrap();
                }
                if r.is_err() {
                    writeln!(o, "obs harness_panic S yes").unwrap();
                }
                writeln!(o, "end").unwrap();
            }
        }
        _ => {
            eprintln!("unknown command");
            std::process::exit(2);
        }
    }
}
