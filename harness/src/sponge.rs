//! Recording sponge: wraps the Poseidon sponge the repository's tests use and logs
//! every interaction, so prover, verifier and model transcripts can be compared.
use ark_crypto_primitives::sponge::{
    poseidon::{PoseidonConfig, PoseidonSponge},
    Absorb, CryptographicSponge, FieldElementSize,
};
use ark_ff::PrimeField;
use ark_std::UniformRand;

#[derive(Clone, Debug, PartialEq, Eq)]
pub enum Ev {
    Absorb(Vec<u8>),
    SqBytes(usize, Vec<u8>),
    SqBits(usize),
    /// sizes ("f" full / "t<bits>" truncated) and the values as decimal strings
    SqField(Vec<String>, Vec<String>),
}

#[derive(Clone)]
pub struct RecSponge<F: PrimeField> {
    pub inner: PoseidonSponge<F>,
    pub log: Vec<Ev>,
}

pub fn poseidon_config<F: PrimeField>() -> PoseidonConfig<F> {
    let full_rounds = 8;
    let partial_rounds = 31;
    let alpha = 17;
    let mds = vec![
        vec![F::one(), F::zero(), F::one()],
        vec![F::one(), F::one(), F::zero()],
        vec![F::zero(), F::one(), F::one()],
    ];
    let mut v = Vec::new();
    let mut ark_rng = ark_std::test_rng();
    for _ in 0..(full_rounds + partial_rounds) {
        let mut res = Vec::new();
        for _ in 0..3 {
            res.push(F::rand(&mut ark_rng));
        }
        v.push(res);
    }
    PoseidonConfig::new(full_rounds, partial_rounds, alpha, mds, v, 2, 1)
}

impl<F: PrimeField> RecSponge<F> {
    pub fn fresh() -> Self {
        RecSponge {
            inner: PoseidonSponge::new(&poseidon_config::<F>()),
            log: Vec::new(),
        }
    }
    /// compact description of events from index `from`
    pub fn summary(&self, from: usize) -> Vec<String> {
        self.log[from..]
            .iter()
            .map(|e| match e {
                Ev::Absorb(b) => format!("a{}", b.len()),
                Ev::SqBytes(n, _) => format!("sb{}", n),
                Ev::SqBits(n) => format!("sbit{}", n),
                Ev::SqField(s, _) => format!("sf[{}]", s.join(",")),
            })
            .collect()
    }
    /// squeeze events from index `from` as tokens: F <count> <values..> | B <count> <bytes..>  (for models that thread the tape)
    pub fn sq_events(&self, from: usize) -> Vec<String> {
        let mut out = vec![];
        for e in &self.log[from..] {
            match e {
                Ev::SqField(_, v) => { out.push("F".to_string()); out.push(v.len().to_string()); out.extend(v.iter().cloned()); }
                Ev::SqBytes(_, b) => { out.push("B".to_string()); out.push(b.len().to_string()); out.extend(b.iter().map(|x| x.to_string())); }
                _ => {}
            }
        }
        if out.is_empty() { out.push("-".to_string()); }
        out
    }
    /// squeezed field challenges (flattened) from index `from`
    pub fn challenges(&self, from: usize) -> Vec<String> {
        let mut out = vec![];
        for e in &self.log[from..] {
            if let Ev::SqField(_, v) = e {
                out.extend(v.iter().cloned());
            }
        }
        out
    }
}

impl<F: PrimeField> CryptographicSponge for RecSponge<F> {
    type Config = PoseidonConfig<F>;
    fn new(params: &Self::Config) -> Self {
        RecSponge {
            inner: PoseidonSponge::new(params),
            log: Vec::new(),
        }
    }
    fn absorb(&mut self, input: &impl Absorb) {
        self.log.push(Ev::Absorb(input.to_sponge_bytes_as_vec()));
        self.inner.absorb(input)
    }
    fn squeeze_bytes(&mut self, num_bytes: usize) -> Vec<u8> {
        let r = self.inner.squeeze_bytes(num_bytes);
        self.log.push(Ev::SqBytes(num_bytes, r.clone()));
        r
    }
    fn squeeze_bits(&mut self, num_bits: usize) -> Vec<bool> {
        self.log.push(Ev::SqBits(num_bits));
        self.inner.squeeze_bits(num_bits)
    }
    fn squeeze_field_elements_with_sizes<F2: PrimeField>(&mut self, sizes: &[FieldElementSize]) -> Vec<F2> {
        let r: Vec<F2> = self.inner.squeeze_field_elements_with_sizes(sizes);
        let s = sizes
            .iter()
            .map(|s| match s {
                FieldElementSize::Full => "f".to_string(),
                FieldElementSize::Truncated(n) => format!("t{}", n),
            })
            .collect();
        self.log
            .push(Ev::SqField(s, r.iter().map(|x| x.into_bigint().to_string()).collect()));
        r
    }
    fn squeeze_field_elements<F2: PrimeField>(&mut self, num_elements: usize) -> Vec<F2> {
        let r: Vec<F2> = self.inner.squeeze_field_elements(num_elements);
        self.log.push(Ev::SqField(
            vec!["f".to_string(); num_elements],
            r.iter().map(|x| x.into_bigint().to_string()).collect(),
        ));
        r
    }
}
