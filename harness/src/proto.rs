//! Line protocol shared with the OCaml runner and the python orchestrator.
use std::collections::BTreeMap;
use std::io::BufRead;

#[derive(Clone, Debug, Default)]
pub struct Case {
    pub id: String,
    pub kind: String,
    pub fields: BTreeMap<String, Vec<String>>,
}

impl Case {
    pub fn get(&self, k: &str) -> &Vec<String> {
        self.fields
            .get(k)
            .unwrap_or_else(|| panic!("case {}: missing field {}", self.id, k))
    }
    pub fn has(&self, k: &str) -> bool {
        self.fields.contains_key(k)
    }
    pub fn str1(&self, k: &str) -> &str {
        &self.get(k)[0]
    }
    pub fn usize1(&self, k: &str) -> usize {
        self.get(k)[0].parse().unwrap()
    }
    pub fn i64_1(&self, k: &str) -> i64 {
        self.get(k)[0].parse().unwrap()
    }
    pub fn u64_1(&self, k: &str) -> u64 {
        self.get(k)[0].parse().unwrap()
    }
    pub fn usizes(&self, k: &str) -> Vec<usize> {
        self.get(k).iter().map(|s| s.parse().unwrap()).collect()
    }
    /// all keys "prefix.N" in numeric order of N
    pub fn indexed(&self, prefix: &str) -> Vec<(usize, &Vec<String>)> {
        let mut v: Vec<(usize, &Vec<String>)> = self
            .fields
            .iter()
            .filter_map(|(k, val)| {
                let p = format!("{}.", prefix);
                if k.starts_with(&p) {
                    k[p.len()..].parse::<usize>().ok().map(|i| (i, val))
                } else {
                    None
                }
            })
            .collect();
        v.sort_by_key(|x| x.0);
        v
    }
}

pub fn read_cases<R: BufRead>(r: R) -> Vec<Case> {
    let mut out = Vec::new();
    let mut cur: Option<Case> = None;
    for line in r.lines() {
        let line = line.unwrap();
        let line = line.trim();
        if line.is_empty() || line.starts_with('#') {
            continue;
        }
        let mut it = line.split_whitespace();
        let head = it.next().unwrap();
        if head == "case" {
            let id = it.next().unwrap().to_string();
            let kind = it.next().unwrap().to_string();
            cur = Some(Case {
                id,
                kind,
                fields: BTreeMap::new(),
            });
        } else if head == "end" {
            out.push(cur.take().unwrap());
        } else {
            let vals: Vec<String> = it.map(|s| s.to_string()).collect();
            cur.as_mut().unwrap().fields.insert(head.to_string(), vals);
        }
    }
    out
}

/// Output collector for one case.
#[derive(Default)]
pub struct Out {
    pub lines: Vec<String>,
}
impl Out {
    pub fn obs(&mut self, name: &str, ty: &str, toks: &[String]) {
        self.lines
            .push(format!("obs {} {} {}", name, ty, toks.join(" ")));
    }
    pub fn obs1(&mut self, name: &str, ty: &str, tok: String) {
        self.obs(name, ty, &[tok]);
    }
    pub fn input(&mut self, name: &str, toks: &[String]) {
        self.lines.push(format!("in {} {}", name, toks.join(" ")));
    }
}
