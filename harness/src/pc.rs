//! Generic flow over the `PolynomialCommitment` trait: setup / trim / commit, then a
//! history of open / batch_open / open_combinations operations on one recording
//! sponge per side, followed by mutated verifier runs.
use crate::proto::{Case, Out};
use crate::sponge::RecSponge;
use crate::util::*;
use ark_crypto_primitives::sponge::{Absorb, CryptographicSponge};
use ark_ff::{PrimeField, Zero};
use ark_poly::Polynomial;
use ark_poly_commit::{
    BatchLCProof, Evaluations, LCTerm, LabeledCommitment, LabeledPolynomial, LinearCombination,
    PCCommitment, PCCommitmentState, PCCommitterKey, PCUniversalParams, PCVerifierKey, PolynomialCommitment, QuerySet,
};
use ark_serialize::{CanonicalDeserialize, CanonicalSerialize};
use sha2::{Digest, Sha256};

pub type Pt<A> = <<A as Adapter>::P as Polynomial<<A as Adapter>::F>>::Point;
pub type UP<A> = <<A as Adapter>::PC as PolynomialCommitment<<A as Adapter>::F, <A as Adapter>::P>>::UniversalParams;
pub type CK<A> = <<A as Adapter>::PC as PolynomialCommitment<<A as Adapter>::F, <A as Adapter>::P>>::CommitterKey;
pub type VK<A> = <<A as Adapter>::PC as PolynomialCommitment<<A as Adapter>::F, <A as Adapter>::P>>::VerifierKey;
pub type Cm<A> = <<A as Adapter>::PC as PolynomialCommitment<<A as Adapter>::F, <A as Adapter>::P>>::Commitment;
pub type St<A> = <<A as Adapter>::PC as PolynomialCommitment<<A as Adapter>::F, <A as Adapter>::P>>::CommitmentState;
pub type Pf<A> = <<A as Adapter>::PC as PolynomialCommitment<<A as Adapter>::F, <A as Adapter>::P>>::Proof;
pub type BPf<A> = <<A as Adapter>::PC as PolynomialCommitment<<A as Adapter>::F, <A as Adapter>::P>>::BatchProof;

pub trait Adapter {
    type F: PrimeField + Absorb;
    type P: Polynomial<Self::F> + Clone;
    type PC: PolynomialCommitment<Self::F, Self::P>;

    fn make_poly(toks: &[String], num_vars: Option<usize>) -> Self::P;
    /// the same polynomial built WITHOUT canonicalising the representation (term order, repeated terms), where the type allows it
    fn make_poly_raw(_toks: &[String], _num_vars: Option<usize>) -> Option<Self::P> { None }
    fn make_point(toks: &[String]) -> Pt<Self>;
    fn setup(c: &Case) -> Outcome<UP<Self>> {
        let md = c.usize1("max_degree");
        let nv = opt_usize(c.str1("num_vars"));
        let mut rng = CountingRng::new(c.u64_1("setup_seed"));
        guard_any(|| Self::PC::setup(md, nv, &mut rng))
    }
    /// scheme-specific observables of a commitment (exponent-comparable parts)
    fn comm_obs(_i: usize, _cm: &Cm<Self>, _st: &St<Self>, _out: &mut Out) {}
    fn proof_obs(_name: &str, _pf: &Pf<Self>, _out: &mut Out) {}
    fn key_obs(_ck: &CK<Self>, _vk: &VK<Self>, _out: &mut Out) {}
    /// trapdoors recovered by replaying the setup RNG (schemes whose parameters cannot be built from chosen trapdoors)
    fn trapdoor_obs(_c: &Case, _out: &mut Out) {}
    /// the polynomial as the library holds it (canonical term list), for schemes whose model needs it
    fn poly_input(_i: usize, _p: &Self::P, _out: &mut Out) {}
    /// inputs of the scheme's model for one committed polynomial (linear codes: dimensions, coefficient vector, encoder, number of queries)
    fn model_inputs(_i: usize, _ck: &CK<Self>, _p: &Self::P, _cm: &Cm<Self>, _out: &mut Out) {}
    fn point_input(_j: usize, _pt: &Pt<Self>, _out: &mut Out) {}
    /// a (mutated / crafted) proof as sent, for models that are handed the proof
    fn proof_input(_name: &str, _pf: &Pf<Self>, _out: &mut Out) {}
    /// models that thread the squeezes of the transcript are given every squeeze event of every run
    fn wants_sq_events() -> bool { false }
    /// C12: further serializable artefacts reachable from the keys (KZG10 Powers, the inner KZG10 verifier key)
    fn extra_c12(_ck: &CK<Self>, _vk: &VK<Self>, _out: &mut Out) {}
    /// C19: the shape parameters a size formula depends on (vector lengths, option tags)
    /// field draws the committer / the prover take beyond the generic estimate (schemes that always blind)
    fn extra_commit_draws(_c: &Case) -> usize { 0 }
    fn open_draws(_c: &Case, _npolys: usize) -> usize { 0 }
    /// challenges the scheme derives by hashing (outside the caller's sponge) since the last call, in order (verif hook)
    fn take_hash_log() -> Vec<String> { vec![] }
    fn size_shape_comm(_cm: &Cm<Self>) -> Vec<String> { vec![] }
    fn size_shape_proof(_pf: &Pf<Self>) -> Vec<String> { vec![] }
    /// scheme-specific commitment mutation (e.g. dropping the shifted part)
    fn mutate_comm(_kind: &str, _cm: &LabeledCommitment<Cm<Self>>, _args: &[String]) -> Option<LabeledCommitment<Cm<Self>>> {
        None
    }
    fn mutate_proof(_kind: &str, _pf: &Pf<Self>, _args: &[String]) -> Option<Pf<Self>> {
        None
    }
    /// C08: a*c1 + b*c2 computed with the curve library (None for hash-based commitments)
    fn comm_lin(_a: Self::F, _c1: &Cm<Self>, _b: Self::F, _c2: &Cm<Self>) -> Option<Cm<Self>> { None }
    /// the same combination a*c1 + b*c2 formed with the library's OWN public operators on commitments (C08: the homomorphic
    /// add used by combination code), accumulated from the empty commitment and, separately, from c1 scaled in place
    fn comm_lin_lib(_a: Self::F, _c1: &Cm<Self>, _b: Self::F, _c2: &Cm<Self>) -> Option<Vec<Cm<Self>>> { None }
    fn comm_is_identity(_c: &Cm<Self>) -> Option<bool> { None }
    /// schemes without a non-hiding mode (Hyrax): commitments are compared through their opening (state)
    fn always_blinded() -> bool { false }
    /// C08: independent recomputation of a hash-based commitment from the polynomial
    fn reference_commitment(_ck: &CK<Self>, _p: &Self::P, _bound: Option<usize>, _cm: &Cm<Self>, _st: &St<Self>) -> Option<bool> { None }
    /// constructive attack from the property's catalogue: returns a crafted proof and the FALSE values it claims
    fn attack(_kind: &str, _ck: &CK<Self>, _polys: &[&LabeledPolynomial<Self::F, Self::P>],
              _comms: &[&LabeledCommitment<Cm<Self>>], _states: &[&St<Self>], _pt: &Pt<Self>,
              _sponge: &mut RecSponge<Self::F>, _args: &[String]) -> Option<(Pf<Self>, Vec<Self::F>)> {
        None
    }
}

pub fn opt_usize(s: &str) -> Option<usize> {
    if s == "none" { None } else { Some(s.parse().unwrap()) }
}
fn plabel(i: usize) -> String { format!("p{:04}", i) }
fn zlabel(i: usize) -> String { format!("z{:04}", i) }
fn llabel(i: usize) -> String { format!("l{:04}", i) }

pub fn sha_hex(b: &[u8]) -> String {
    let mut h = Sha256::new();
    h.update(b);
    hex(&h.finalize())
}
fn ser<T: CanonicalSerialize>(x: &T) -> Vec<u8> {
    let mut v = Vec::new();
    x.serialize_compressed(&mut v).unwrap();
    v
}

struct OpRec<A: Adapter> {
    kind: String,
    vsponge_before: RecSponge<A::F>,
    // single
    sel: Vec<usize>,
    pt: usize,
    values: Vec<A::F>,
    proof: Option<Pf<A>>,
    // batch
    qs: Vec<(usize, usize, usize)>,
    bproof: Option<BPf<A>>,
    vperm: Vec<usize>,
    // lc
    lcs: Vec<(usize, Vec<(A::F, Option<usize>)>)>,
    lqs: Vec<(usize, usize, usize)>,
    lcproof: Option<BatchLCProof<A::F, BPf<A>>>,
    check_seed: u64,
}

fn triples(v: &[String]) -> Vec<(usize, usize, usize)> {
    v.chunks(3).map(|c| (c[0].parse().unwrap(), c[1].parse().unwrap(), c[2].parse().unwrap())).collect()
}

fn build_qs<A: Adapter>(tr: &[(usize, usize, usize)], labels: &[usize], pts: &[Pt<A>]) -> QuerySet<Pt<A>> {
    let mut qs = QuerySet::new();
    for (i, zl, pj) in tr {
        qs.insert((plabel(labels[*i]), (zlabel(*zl), pts[*pj].clone())));
    }
    qs
}

fn parse_lcs<A: Adapter>(c: &Case, s: usize) -> Vec<(usize, Vec<(A::F, Option<usize>)>)> {
    let mut out = vec![];
    for (_k, v) in c.indexed(&format!("lcs.{}", s)) {
        let lab: usize = v[0].parse().unwrap();
        let nt: usize = v[1].parse().unwrap();
        let mut terms = vec![];
        for t in 0..nt {
            let coeff: A::F = f_from_str(&v[2 + 2 * t]);
            let term = if v[3 + 2 * t] == "one" { None } else { Some(v[3 + 2 * t].parse().unwrap()) };
            terms.push((coeff, term));
        }
        out.push((lab, terms));
    }
    out
}

fn mk_lcs<A: Adapter>(lcs: &[(usize, Vec<(A::F, Option<usize>)>)], labels: &[usize]) -> Vec<LinearCombination<A::F>> {
    lcs.iter()
        .map(|(lab, terms)| {
            let mut lc = LinearCombination::empty(llabel(*lab));
            for (coeff, t) in terms {
                match t {
                    None => { lc.push((*coeff, LCTerm::One)); }
                    Some(i) => { lc.push((*coeff, LCTerm::PolyLabel(plabel(labels[*i])))); }
                }
            }
            lc
        })
        .collect()
}

pub fn run<A: Adapter>(c: &Case, out: &mut Out)
where
    Pt<A>: Clone + Ord + core::fmt::Debug,
    Pf<A>: CanonicalSerialize + CanonicalDeserialize,
{
    // ---- setup / trim ----
    let pp = A::setup(c);
    out.obs1("setup", "S", pp.class());
    let pp = match pp.ok() { Some(p) => p, None => return };
    out.obs1("pp_max_degree", "N", pp.max_degree().to_string());
    let sd = c.usize1("supported_degree");
    let sh = c.usize1("supported_hiding");
    let bounds: Option<Vec<usize>> = match c.str1("bounds") {
        "none" => None,
        "empty" => Some(vec![]),
        _ => Some(c.usizes("bounds")),
    };
    let tr = guard_any(|| A::PC::trim(&pp, sd, sh, bounds.as_deref()));
    out.obs1("trim", "S", tr.class());
    let (ck, vk) = match tr.ok() { Some(x) => x, None => return };
    out.obs("key_degrees", "N", &[ck.supported_degree().to_string(), ck.max_degree().to_string(),
                                   vk.supported_degree().to_string(), vk.max_degree().to_string()]);
    A::key_obs(&ck, &vk, out);
    A::trapdoor_obs(c, out);

    // ---- polynomials ----
    let nv = opt_usize(c.str1("num_vars"));
    let n = c.usize1("n");
    let mut labels = vec![];
    let mut polys: Vec<LabeledPolynomial<A::F, A::P>> = vec![];
    for i in 0..n {
        let p = A::make_poly(c.get(&format!("poly.{}", i)), nv);
        let lab = c.usize1(&format!("label.{}", i));
        labels.push(lab);
        let bound = opt_usize(c.str1(&format!("bound.{}", i)));
        let hiding = opt_usize(c.str1(&format!("hiding.{}", i)));
        A::poly_input(i, &p, out);
        polys.push(LabeledPolynomial::new(plabel(lab), p, bound, hiding));
    }
    let npts = c.usize1("npts");
    let pts: Vec<Pt<A>> = (0..npts).map(|j| A::make_point(c.get(&format!("pt.{}", j)))).collect();

    // ---- commit ----
    let mut crng = CountingRng::new(c.u64_1("commit_seed"));
    let with_rng = c.str1("commit_rng") == "some";
    let cm = guard_any(|| {
        if with_rng { A::PC::commit(&ck, polys.iter(), Some(&mut crng)) } else { A::PC::commit(&ck, polys.iter(), None) }
    });
    out.obs1("commit", "S", cm.class());
    out.obs1("commit_rng_bytes", "N", crng.bytes.to_string());
    {
        // field draws of the committer's RNG, replayed for the model (tape) and counted
        let mut need = 8usize;
        for i in 0..n { need += 2 * (opt_usize(c.str1(&format!("hiding.{}", i))).unwrap_or(0) + 3); }
        need += A::extra_commit_draws(c);
        let (tape, cum) = replay(c.u64_1("commit_seed"), need.min(4096), |r| <A::F as ark_std::UniformRand>::rand(r));
        out.input("ctape", &fs_to_strs(&tape));
        out.obs1("commit_draws", "N", draws_of(&cum, crng.bytes).to_string());
    }
    let (comms, states) = match cm.ok() { Some(x) => x, None => return };
    for i in 0..n {
        let b = ser(comms[i].commitment());
        out.obs1(&format!("comm.{}", i), "H", hex(&b));
        out.obs(&format!("comm_size.{}", i), "N", &[b.len().to_string(), comms[i].commitment().uncompressed_size().to_string(),
                comms[i].commitment().compressed_size().to_string()]);
        let sb = ser(&states[i]);
        out.obs1(&format!("state.{}", i), "H", sha_hex(&sb));
        A::comm_obs(i, comms[i].commitment(), &states[i], out);
        A::model_inputs(i, &ck, polys[i].polynomial(), comms[i].commitment(), out);
    }
    for j in 0..npts { A::point_input(j, &pts[j], out); }

    // ---- C07: repeated commitments under equal / different RNG streams, and without an RNG ----
    if c.has("c07") {
        let seed = c.u64_1("commit_seed");
        let again = |sd: u64| -> Option<Vec<Vec<u8>>> {
            let mut r = CountingRng::new(sd);
            guard_any(|| A::PC::commit(&ck, polys.iter(), Some(&mut r))).ok().map(|(cs, _)| cs.iter().map(|x| ser(x.commitment())).collect())
        };
        let base: Vec<Vec<u8>> = comms.iter().map(|x| ser(x.commitment())).collect();
        let same = again(seed);
        let other = again(seed ^ 0x5a5a_5a5a_1234);
        for i in 0..n {
            out.obs1(&format!("same_seed.{}", i), "S", match &same { Some(v) => if v[i] == base[i] { "equal".into() } else { "differ".into() }, None => "refused".into() });
            out.obs1(&format!("diff_seed.{}", i), "S", match &other { Some(v) => if v[i] == base[i] { "equal".into() } else { "differ".into() }, None => "refused".into() });
        }
        // N repeated commitments: pairwise distinct per polynomial
        let reps: Vec<Option<Vec<Vec<u8>>>> = (1..=6u64).map(|k| again(seed.wrapping_add(k * 7919))).collect();
        for i in 0..n {
            let mut all: Vec<&Vec<u8>> = vec![&base[i]];
            for r in reps.iter().flatten() { all.push(&r[i]); }
            let mut distinct = true;
            for a in 0..all.len() { for b in (a + 1)..all.len() { if all[a] == all[b] { distinct = false; } } }
            out.obs1(&format!("repeat_distinct.{}", i), "S", if distinct { "yes".into() } else { "no".into() });
        }
        let norng = guard_any(|| A::PC::commit(&ck, polys.iter(), None));
        out.obs1("commit_without_rng", "S", norng.class());
        if let Some((cs, _)) = norng.ok() {
            for i in 0..n { out.obs1(&format!("norng_equal.{}", i), "S", if ser(cs[i].commitment()) == base[i] { "equal".into() } else { "differ".into() }); }
        }
        // proofs made from states of different streams differ when hiding
        if npts > 0 && n > 0 {
            let mut r3 = CountingRng::new(seed ^ 0x5a5a_5a5a_1234);
            if let Some((cs3, st3)) = guard_any(|| A::PC::commit(&ck, polys.iter(), Some(&mut r3))).ok() {
                for i in 0..n {
                    let mut s1 = RecSponge::<A::F>::fresh();
                    let mut s2 = RecSponge::<A::F>::fresh();
                    let mut o1 = CountingRng::new(5);
                    let mut o2 = CountingRng::new(5);
                    let p1 = guard_any(|| A::PC::open(&ck, [&polys[i]], [&comms[i]], &pts[0], &mut s1, [&states[i]], Some(&mut o1)));
                    let p2 = guard_any(|| A::PC::open(&ck, [&polys[i]], [&cs3[i]], &pts[0], &mut s2, [&st3[i]], Some(&mut o2)));
                    if let (Some(a), Some(b)) = (p1.ok(), p2.ok()) {
                        let ba: BPf<A> = vec![a].into();
                        let bb: BPf<A> = vec![b].into();
                        out.obs1(&format!("proof_diff.{}", i), "S", if ser(&ba) == ser(&bb) { "equal".into() } else { "differ".into() });
                    }
                }
            }
        }
    }

    // ---- sponges ----
    let pre: Vec<A::F> = fs_from_strs(c.get("sponge_pre"));
    let mut ps = RecSponge::<A::F>::fresh();
    ps.absorb(&pre);
    let mut vs = ps.clone();

    // ---- history ----
    let nops = c.usize1("nops");
    let mut recs: Vec<OpRec<A>> = vec![];
    for t in 0..nops {
        let op = c.get(&format!("op.{}", t)).clone();
        let oseed = c.u64_1(&format!("open_seed.{}", t));
        let cseed = c.u64_1(&format!("check_seed.{}", t));
        let identity: Vec<usize> = (0..n).collect();
        let pperm: Vec<usize> = if c.has(&format!("pperm.{}", t)) { c.usizes(&format!("pperm.{}", t)) } else { identity.clone() };
        let vperm: Vec<usize> = if c.has(&format!("vperm.{}", t)) { c.usizes(&format!("vperm.{}", t)) } else { identity.clone() };
        let pstart = ps.log.len();
        let vstart = vs.log.len();
        let mut rec = OpRec::<A> {
            kind: op[0].clone(), vsponge_before: vs.clone(), sel: vec![], pt: 0, values: vec![], proof: None,
            qs: vec![], bproof: None, vperm: vperm.clone(), lcs: vec![], lqs: vec![], lcproof: None, check_seed: cseed,
        };
        let mut orng = CountingRng::new(oseed);
        let mut vrng = CountingRng::new(cseed);
        let mut open_cum: Option<Vec<u64>> = None;
        {
            // field draws of the prover's RNG for this operation (schemes whose prover is randomised)
            let k = A::open_draws(c, n);
            if k > 0 {
                let (tape, cum) = replay(oseed, k.min(8192), |r| <A::F as ark_std::UniformRand>::rand(r));
                out.input(&format!("otape.{}", t), &fs_to_strs(&tape));
                open_cum = Some(cum);
            }
        }
        match op[0].as_str() {
            "single" => {
                let pj: usize = op[1].parse().unwrap();
                let sel: Vec<usize> = op[2..].iter().map(|x| x.parse().unwrap()).collect();
                let values: Vec<A::F> = sel.iter().map(|i| polys[*i].evaluate(&pts[pj])).collect();
                out.obs(&format!("evals.{}", t), "F", &fs_to_strs(&values));
                let _ = A::take_hash_log();
                let r = guard_any(|| A::PC::open(&ck, sel.iter().map(|i| &polys[*i]), sel.iter().map(|i| &comms[*i]),
                    &pts[pj], &mut ps, sel.iter().map(|i| &states[*i]), Some(&mut orng)));
                { let hl = A::take_hash_log(); if !hl.is_empty() { out.input(&format!("hchal.{}", t), &hl); } }
                out.obs1(&format!("open.{}", t), "S", r.class());
                if let Some(cum) = &open_cum { out.obs1(&format!("open_draws.{}", t), "N", draws_of(cum, orng.bytes).to_string()); }
                rec.sel = sel.clone(); rec.pt = pj; rec.values = values.clone();
                if let Some(pf) = r.ok() {
                    let bp: BPf<A> = vec![pf.clone()].into();
                    let b = ser(&bp);
                    out.obs1(&format!("proof.{}", t), "H", sha_hex(&b));
                    out.obs1(&format!("proof_size.{}", t), "N", b.len().to_string());
                    A::proof_obs(&format!("pf.{}", t), &pf, out);
                    let d = guard_any(|| A::PC::check(&vk, sel.iter().map(|i| &comms[*i]), &pts[pj], values.clone(), &pf, &mut vs, Some(&mut vrng)));
                    { let hl = A::take_hash_log(); if !hl.is_empty() { out.input(&format!("vhchal.{}", t), &hl); } }
                    out.obs1(&format!("check.{}", t), "S", decision(&d));
                    rec.proof = Some(pf);
                }
            }
            "batch" => {
                let s: usize = op[1].parse().unwrap();
                let tr3 = triples(c.get(&format!("qs.{}", s)));
                let qs = build_qs::<A>(&tr3, &labels, &pts);
                let mut evals: Evaluations<Pt<A>, A::F> = Evaluations::new();
                for (i, _zl, pj) in &tr3 {
                    evals.insert((plabel(labels[*i]), pts[*pj].clone()), polys[*i].evaluate(&pts[*pj]));
                }
                out.obs(&format!("evals.{}", t), "F", &fs_to_strs(&evals.values().cloned().collect::<Vec<_>>()));
                let _ = A::take_hash_log();
                let r = guard_any(|| A::PC::batch_open(&ck, pperm.iter().map(|i| &polys[*i]), pperm.iter().map(|i| &comms[*i]),
                    &qs, &mut ps, pperm.iter().map(|i| &states[*i]), Some(&mut orng)));
                { let hl = A::take_hash_log(); if !hl.is_empty() { out.input(&format!("hchal.{}", t), &hl); } }
                if let Some(cum) = &open_cum { out.obs1(&format!("open_draws.{}", t), "N", draws_of(cum, orng.bytes).to_string()); }
                out.obs1(&format!("open.{}", t), "S", r.class());
                rec.qs = tr3.clone();
                if let Some(bp) = r.ok() {
                    let b = ser(&bp);
                    out.obs1(&format!("proof.{}", t), "H", sha_hex(&b));
                    out.obs1(&format!("proof_size.{}", t), "N", b.len().to_string());
                    let pv: Vec<Pf<A>> = bp.clone().into();
                    out.obs1(&format!("nproofs.{}", t), "N", pv.len().to_string());
                    for (k, pf) in pv.iter().enumerate() { A::proof_obs(&format!("pf.{}.{}", t, k), pf, out); }
                    let d = guard_any(|| A::PC::batch_check(&vk, vperm.iter().map(|i| &comms[*i]), &qs, &evals, &bp, &mut vs, &mut vrng));
                    { let hl = A::take_hash_log(); if !hl.is_empty() { out.input(&format!("vhchal.{}", t), &hl); } }
                    out.obs1(&format!("check.{}", t), "S", decision(&d));
                    out.obs1(&format!("check_rng_bytes.{}", t), "N", vrng.bytes.to_string());
                    rec.bproof = Some(bp);
                }
            }
            "lc" => {
                let s: usize = op[1].parse().unwrap();
                let ls: usize = op[2].parse().unwrap();
                let lcs = parse_lcs::<A>(c, s);
                let lcv = mk_lcs::<A>(&lcs, &labels);
                let tr3 = triples(c.get(&format!("lqs.{}", ls)));
                let mut qs = QuerySet::new();
                let mut evals: Evaluations<Pt<A>, A::F> = Evaluations::new();
                for (k, zl, pj) in &tr3 {
                    let (lab, terms) = &lcs[*k];
                    qs.insert((llabel(*lab), (zlabel(*zl), pts[*pj].clone())));
                    let mut v = A::F::zero();
                    for (coeff, tm) in terms {
                        v += match tm { None => *coeff, Some(i) => *coeff * polys[*i].evaluate(&pts[*pj]) };
                    }
                    evals.insert((llabel(*lab), pts[*pj].clone()), v);
                }
                out.obs(&format!("evals.{}", t), "F", &fs_to_strs(&evals.values().cloned().collect::<Vec<_>>()));
                let _ = A::take_hash_log();
                let r = guard_any(|| A::PC::open_combinations(&ck, lcv.iter(), pperm.iter().map(|i| &polys[*i]), pperm.iter().map(|i| &comms[*i]),
                    &qs, &mut ps, pperm.iter().map(|i| &states[*i]), Some(&mut orng)));
                { let hl = A::take_hash_log(); if !hl.is_empty() { out.input(&format!("hchal.{}", t), &hl); } }
                if let Some(cum) = &open_cum { out.obs1(&format!("open_draws.{}", t), "N", draws_of(cum, orng.bytes).to_string()); }
                out.obs1(&format!("open.{}", t), "S", r.class());
                rec.lcs = lcs.clone(); rec.lqs = tr3.clone();
                if let Some(lp) = r.ok() {
                    let b = ser(&lp);
                    out.obs1(&format!("proof.{}", t), "H", sha_hex(&b));
                    out.obs1(&format!("proof_size.{}", t), "N", b.len().to_string());
                    out.obs(&format!("lc_evals.{}", t), "F", &lp.evals.clone().map(|e| fs_to_strs(&e)).unwrap_or(vec!["none".into()]));
                    {
                        let pv: Vec<Pf<A>> = lp.proof.clone().into();
                        out.obs1(&format!("nproofs.{}", t), "N", pv.len().to_string());
                        for (k, pf) in pv.iter().enumerate() { A::proof_obs(&format!("pf.{}.{}", t, k), pf, out); }
                    }
                    let d = guard_any(|| A::PC::check_combinations(&vk, lcv.iter(), vperm.iter().map(|i| &comms[*i]), &qs, &evals, &lp, &mut vs, &mut vrng));
                    { let hl = A::take_hash_log(); if !hl.is_empty() { out.input(&format!("vhchal.{}", t), &hl); } }
                    out.obs1(&format!("check.{}", t), "S", decision(&d));
                    out.obs1(&format!("check_rng_bytes.{}", t), "N", vrng.bytes.to_string());
                    rec.lcproof = Some(lp);
                }
            }
            k => panic!("unknown op {}", k),
        }
        out.obs(&format!("plog.{}", t), "S", &{ let s = ps.summary(pstart); if s.is_empty() { vec!["-".into()] } else { s } });
        out.obs(&format!("vlog.{}", t), "S", &{ let s = vs.summary(vstart); if s.is_empty() { vec!["-".into()] } else { s } });
        out.input(&format!("chal.{}", t), &ps.challenges(pstart));
        out.input(&format!("vchal.{}", t), &vs.challenges(vstart));
        if A::wants_sq_events() {
            out.input(&format!("psq.{}", t), &ps.sq_events(pstart));
            out.input(&format!("vsq.{}", t), &vs.sq_events(vstart));
        }
        out.obs1(&format!("nchal.{}", t), "N", ps.challenges(pstart).len().to_string());
        out.obs1(&format!("nvchal.{}", t), "N", vs.challenges(vstart).len().to_string());
        {
            let (vt, vcum) = replay(cseed, 12, |r| { let x: A::F = <u128 as ark_std::UniformRand>::rand(r).into(); x });
            out.input(&format!("vtape.{}", t), &fs_to_strs(&vt));
            out.obs1(&format!("check_draws.{}", t), "N", draws_of(&vcum, vrng.bytes).to_string());
        }
        // lock-step: one more squeeze on copies of both sponges
        let a: Vec<A::F> = ps.clone().inner.squeeze_field_elements(1);
        let b: Vec<A::F> = vs.clone().inner.squeeze_field_elements(1);
        out.obs1(&format!("sync.{}", t), "S", if a == b && ps.log[pstart..] == vs.log[vstart..] { "equal".into() } else { "differ".into() });
        recs.push(rec);
    }

    // ---- mutated verifier runs ----
    for (m, mv) in c.indexed("mut") {
        let name = format!("mut.{}", m);
        let t: usize = mv[0].parse().unwrap();
        let kind = mv[1].as_str();
        let args = &mv[2..];
        if t >= recs.len() { out.obs1(&name, "S", "skipped".into()); continue; }
        let rec = &recs[t];
        let mut vs2 = rec.vsponge_before.clone();
        let vs2_start = vs2.log.len();
        let mut vrng = CountingRng::new(rec.check_seed);
        let mut cms: Vec<LabeledCommitment<Cm<A>>> = comms.clone();
        let mut skipped = false;
        let swap = |cms: &mut Vec<LabeledCommitment<Cm<A>>>, i: usize, j: usize| {
            cms[i] = LabeledCommitment::new(cms[i].label().clone(), comms[j].commitment().clone(), comms[i].degree_bound());
        };
        if kind == "sponge_pre" {
            vs2.absorb(&fs_from_strs::<A::F>(&args[0..1]));
        }
        match rec.kind.as_str() {
            "single" => {
                let mut pf = match &rec.proof { Some(p) => p.clone(), None => { out.obs1(&name, "S", "skipped".into()); continue; } };
                let mut values = rec.values.clone();
                let mut pj = rec.pt;
                let mut sel = rec.sel.clone();
                match kind {
                    "value" => { let k: usize = args[0].parse().unwrap(); if k < values.len() { values[k] += f_from_str::<A::F>(&args[1]); } else { skipped = true; } }
                    "point" => { pj = args[0].parse().unwrap(); }
                    "comm_swap" => { let i: usize = args[0].parse().unwrap(); let j: usize = args[1].parse().unwrap(); swap(&mut cms, i, j); }
                    "proof_from" => { let t2: usize = args[0].parse().unwrap(); match recs.get(t2).and_then(|r| r.proof.clone()) { Some(p) => pf = p, None => skipped = true } }
                    "sponge_pre" => {}
                    "drop_poly" => { let k: usize = args[0].parse().unwrap(); if k < sel.len() { sel.remove(k); values.remove(k); } else { skipped = true; } }
                    "comm_mut" => { let i: usize = args[0].parse().unwrap(); match A::mutate_comm(&args[1], &cms[i], &args[2..]) { Some(x) => cms[i] = x, None => skipped = true } }
                    "proof_mut" => { match guard_any(|| Ok::<_, ()>(A::mutate_proof(&args[0], &pf, &args[1..]))).ok().flatten() { Some(x) => pf = x, None => skipped = true } }
                    // crafted proof AND a false claim (C03)
                    "proof_mut_v" => { match guard_any(|| Ok::<_, ()>(A::mutate_proof(&args[0], &pf, &args[1..]))).ok().flatten() { Some(x) => { pf = x; values[0] += A::F::from(1u64); } None => skipped = true } }
                    "attack" => {
                        let ps: Vec<&LabeledPolynomial<A::F, A::P>> = sel.iter().map(|i| &polys[*i]).collect();
                        let cs: Vec<&LabeledCommitment<Cm<A>>> = sel.iter().map(|i| &comms[*i]).collect();
                        let ss: Vec<&St<A>> = sel.iter().map(|i| &states[*i]).collect();
                        let mut asp = rec.vsponge_before.clone();
                        match guard_any(|| Ok::<_, ()>(A::attack(&args[0], &ck, &ps, &cs, &ss, &pts[pj], &mut asp, &args[1..]))).ok().flatten() {
                            Some((x, v)) => { pf = x; values = v; }
                            None => skipped = true,
                        }
                    }
                    _ => skipped = true,
                }
                if skipped { out.obs1(&name, "S", "skipped".into()); continue; }
                if matches!(kind, "proof_mut" | "proof_mut_v" | "attack") {
                    A::proof_input(&format!("mpf.{}", m), &pf, out);
                    out.input(&format!("mvals.{}", m), &{ let v = fs_to_strs(&values); if v.is_empty() { vec!["-".into()] } else { v } });
                }
                let _ = A::take_hash_log();
                let d = guard_any(|| A::PC::check(&vk, sel.iter().map(|i| &cms[*i]), &pts[pj], values.clone(), &pf, &mut vs2, Some(&mut vrng)));
                { let hl = A::take_hash_log(); if !hl.is_empty() { out.input(&format!("mhchal.{}", m), &hl); } }
                out.obs1(&name, "S", decision(&d));
                out.input(&format!("mchal.{}", m), &vs2.challenges(vs2_start));
                if A::wants_sq_events() { out.input(&format!("msq.{}", m), &vs2.sq_events(vs2_start)); }
                if kind == "comm_mut" {
                    // the prover cooperates: a fresh opening against the altered commitments, then the check
                    let mut ps3 = rec.vsponge_before.clone();
                    let mut vs3 = rec.vsponge_before.clone();
                    let mut orng = CountingRng::new(c.u64_1(&format!("open_seed.{}", t)));
                    let mut vrng3 = CountingRng::new(rec.check_seed);
                    let r3 = guard_any(|| A::PC::open(&ck, sel.iter().map(|i| &polys[*i]), sel.iter().map(|i| &cms[*i]),
                        &pts[pj], &mut ps3, sel.iter().map(|i| &states[*i]), Some(&mut orng)));
                    let dec = match r3.ok() {
                        Some(pf3) => decision(&guard_any(|| A::PC::check(&vk, sel.iter().map(|i| &cms[*i]), &pts[pj], values.clone(), &pf3, &mut vs3, Some(&mut vrng3)))),
                        None => "refused".to_string(),
                    };
                    let _ = A::take_hash_log();
                    out.obs1(&format!("{}.reopen", name), "S", dec);
                }
            }
            "batch" => {
                let bp = match &rec.bproof { Some(p) => p.clone(), None => { out.obs1(&name, "S", "skipped".into()); continue; } };
                let mut pv: Vec<Pf<A>> = bp.clone().into();
                let orig_bytes = ser(&bp);
                let mut tr3 = rec.qs.clone();
                let mut vperm = rec.vperm.clone();
                let mut deltas: Vec<(usize, A::F)> = vec![];
                let mut newpt: Option<(usize, usize)> = None;
                match kind {
                    "value" => { deltas.push((args[0].parse().unwrap(), f_from_str(&args[1]))); }
                    "cancel" => { let d: A::F = f_from_str(&args[2]); deltas.push((args[0].parse().unwrap(), d)); deltas.push((args[1].parse().unwrap(), -d)); }
                    "point" => { newpt = Some((args[0].parse().unwrap(), args[1].parse().unwrap())); }
                    "comm_swap" => { let i: usize = args[0].parse().unwrap(); let j: usize = args[1].parse().unwrap(); swap(&mut cms, i, j); }
                    "comm_mut" => { let i: usize = args[0].parse().unwrap(); match A::mutate_comm(&args[1], &cms[i], &args[2..]) { Some(x) => cms[i] = x, None => skipped = true } }
                    "proof_mut" => { let k: usize = args[0].parse().unwrap(); if k < pv.len() { match A::mutate_proof(&args[1], &pv[k], &args[2..]) { Some(x) => { A::proof_input(&format!("mpf.{}", m), &x, out); pv[k] = x }, None => skipped = true } } else { skipped = true } }
                    "proofs" => {
                        match args[0].as_str() {
                            "perm" => { let a: usize = args[1].parse().unwrap(); let b: usize = args[2].parse().unwrap(); if a < pv.len() && b < pv.len() { pv.swap(a, b); } else { skipped = true; } }
                            "trunc" => { let k: usize = args[1].parse().unwrap(); if k < pv.len() { pv.truncate(k); } else { skipped = true; } }
                            "dup" => { let a: usize = args[1].parse().unwrap(); let b: usize = args[2].parse().unwrap(); if a < pv.len() && b < pv.len() { pv[b] = pv[a].clone(); } else { skipped = true; } }
                            "empty" => { pv.clear(); }
                            "extend" => { if let Some(l) = pv.last().cloned() { pv.push(l); } else { skipped = true; } }
                            _ => skipped = true,
                        }
                    }
                    "proof_from" => { let t2: usize = args[0].parse().unwrap(); match recs.get(t2).and_then(|r| r.bproof.clone()) { Some(p) => pv = p.into(), None => skipped = true } }
                    "sponge_pre" => {}
                    "vperm" => { vperm = args.iter().map(|x| x.parse().unwrap()).collect(); }
                    "drop_query" => { let k: usize = args[0].parse().unwrap(); if k < tr3.len() { tr3.remove(k); } else { skipped = true; } }
                    "drop_eval" => {}
                    "drop_comm" => { let i: usize = args[0].parse().unwrap(); vperm.retain(|x| *x != i); }
                    _ => skipped = true,
                }
                if skipped { out.obs1(&name, "S", "skipped".into()); continue; }
                let bp2: BPf<A> = pv.into();
                if matches!(kind, "proofs" | "proof_from") && ser(&bp2) == orig_bytes { out.obs1(&name, "S", "skipped".into()); continue; }
                // query set / evaluations (claimed values are the true ones at the ORIGINAL points)
                let mut qs = QuerySet::new();
                let mut evals: Evaluations<Pt<A>, A::F> = Evaluations::new();
                for (i, zl, pj) in &tr3 {
                    let usept = match newpt { Some((old, new)) if old == *pj => new, _ => *pj };
                    qs.insert((plabel(labels[*i]), (zlabel(*zl), pts[usept].clone())));
                    evals.insert((plabel(labels[*i]), pts[usept].clone()), polys[*i].evaluate(&pts[*pj]));
                }
                let keys: Vec<(String, Pt<A>)> = evals.keys().cloned().collect();
                for (k, d) in &deltas {
                    if *k < keys.len() { *evals.get_mut(&keys[*k]).unwrap() += *d; } else { skipped = true; }
                }
                if kind == "drop_eval" { let k: usize = args[0].parse().unwrap(); if k < keys.len() { evals.remove(&keys[k]); } else { skipped = true; } }
                if skipped { out.obs1(&name, "S", "skipped".into()); continue; }
                let _ = A::take_hash_log();
                let d = guard_any(|| A::PC::batch_check(&vk, vperm.iter().map(|i| &cms[*i]), &qs, &evals, &bp2, &mut vs2, &mut vrng));
                { let hl = A::take_hash_log(); if !hl.is_empty() { out.input(&format!("mhchal.{}", m), &hl); } }
                out.obs1(&name, "S", decision(&d));
                out.input(&format!("mchal.{}", m), &vs2.challenges(vs2_start));
                if A::wants_sq_events() { out.input(&format!("msq.{}", m), &vs2.sq_events(vs2_start)); }
            }
            "lc" => {
                let mut lp = match &rec.lcproof { Some(p) => p.clone(), None => { out.obs1(&name, "S", "skipped".into()); continue; } };
                let mut lcs = rec.lcs.clone();
                let mut deltas: Vec<(usize, A::F)> = vec![];
                match kind {
                    "value" => { deltas.push((args[0].parse().unwrap(), f_from_str(&args[1]))); }
                    "coeff" => { let k: usize = args[0].parse().unwrap(); let tk: usize = args[1].parse().unwrap();
                                 if k < lcs.len() && tk < lcs[k].1.len() { lcs[k].1[tk].0 += f_from_str::<A::F>(&args[2]); } else { skipped = true; } }
                    "const" => { let k: usize = args[0].parse().unwrap(); if k < lcs.len() { lcs[k].1.push((f_from_str(&args[1]), None)); } else { skipped = true; } }
                    "evals" => { // move delta between two transmitted evaluations (sum preserved)
                        match &mut lp.evals { Some(e) if e.len() >= 1 => { let a: usize = args[0].parse().unwrap(); let d: A::F = f_from_str(&args[1]);
                            if a < e.len() { e[a] += d; } else { skipped = true; } } _ => skipped = true } }
                    "comm_swap" => { let i: usize = args[0].parse().unwrap(); let j: usize = args[1].parse().unwrap(); swap(&mut cms, i, j); }
                    "proofs" => {
                        let mut pv: Vec<Pf<A>> = lp.proof.clone().into();
                        match args[0].as_str() {
                            "empty" => pv.clear(),
                            "trunc" => { let k: usize = args[1].parse().unwrap(); if k < pv.len() { pv.truncate(k) } else { skipped = true } }
                            "extend" => { if let Some(l) = pv.last().cloned() { pv.push(l); } else { skipped = true; } }
                            _ => skipped = true,
                        }
                        lp.proof = pv.into();
                    }
                    "sponge_pre" => {}
                    _ => skipped = true,
                }
                if skipped { out.obs1(&name, "S", "skipped".into()); continue; }
                let lcv = mk_lcs::<A>(&lcs, &labels);
                let mut qs = QuerySet::new();
                let mut evals: Evaluations<Pt<A>, A::F> = Evaluations::new();
                for (k, zl, pj) in &rec.lqs {
                    let (lab, terms) = &rec.lcs[*k];   // claimed values: true values of the ORIGINAL combinations
                    qs.insert((llabel(*lab), (zlabel(*zl), pts[*pj].clone())));
                    let mut v = A::F::zero();
                    for (coeff, tm) in terms {
                        v += match tm { None => *coeff, Some(i) => *coeff * polys[*i].evaluate(&pts[*pj]) };
                    }
                    evals.insert((llabel(*lab), pts[*pj].clone()), v);
                }
                let keys: Vec<(String, Pt<A>)> = evals.keys().cloned().collect();
                for (k, d) in &deltas {
                    if *k < keys.len() { *evals.get_mut(&keys[*k]).unwrap() += *d; } else { skipped = true; }
                }
                if skipped { out.obs1(&name, "S", "skipped".into()); continue; }
                let _ = A::take_hash_log();
                let d = guard_any(|| A::PC::check_combinations(&vk, lcv.iter(), rec.vperm.iter().map(|i| &cms[*i]), &qs, &evals, &lp, &mut vs2, &mut vrng));
                { let hl = A::take_hash_log(); if !hl.is_empty() { out.input(&format!("mhchal.{}", m), &hl); } }
                out.obs1(&name, "S", decision(&d));
                out.input(&format!("mchal.{}", m), &vs2.challenges(vs2_start));
                if A::wants_sq_events() { out.input(&format!("msq.{}", m), &vs2.sq_events(vs2_start)); }
            }
            _ => out.obs1(&name, "S", "skipped".into()),
        }
    }
    // ---- C19: serialized sizes of commitments and proofs, with the shape they depend on ----
    if c.has("c19") {
        use ark_serialize::Compress;
        for i in 0..n {
            for (tag, compress) in [("c", Compress::Yes), ("u", Compress::No)] {
                let cm = comms[i].commitment();
                let mut b = vec![]; cm.serialize_with_mode(&mut b, compress).unwrap();
                out.obs1(&format!("size.comm.{}.{}", i, tag), "N", cm.serialized_size(compress).to_string());
                out.obs1(&format!("bytes.comm.{}.{}", i, tag), "N", b.len().to_string());
            }
            let sh = A::size_shape_comm(comms[i].commitment());
            if !sh.is_empty() { out.obs(&format!("shape.comm.{}", i), "N", &sh); }
            if sh.len() == 4 && i == 0 { out.input("m_ext", &[sh[2].clone()]); }   // codeword length of the linear code (taken from the library for Brakedown)
        }
        for (t, rec) in recs.iter().enumerate() {
            if let Some(pf) = &rec.proof {
                for (tag, compress) in [("c", Compress::Yes), ("u", Compress::No)] {
                    let mut b = vec![]; pf.serialize_with_mode(&mut b, compress).unwrap();
                    out.obs1(&format!("size.proof.{}.{}", t, tag), "N", pf.serialized_size(compress).to_string());
                    out.obs1(&format!("bytes.proof.{}.{}", t, tag), "N", b.len().to_string());
                }
                let sh = A::size_shape_proof(pf);
                if !sh.is_empty() { out.obs(&format!("shape.proof.{}", t), "N", &sh); }
            }
        }
    }
    // ---- C12: canonical serialization of every artefact of this scenario ----
    if c.has("c12") {
        ser_obs("pp", &pp, out);
        ser_obs("ck", &ck, out);
        ser_obs("vk", &vk, out);
        A::extra_c12(&ck, &vk, out);
        for i in 0..n.min(2) {
            ser_obs(&format!("comm{}", i), comms[i].commitment(), out);
            ser_obs(&format!("state{}", i), &states[i], out);
        }
        for (t, rec) in recs.iter().enumerate().take(3) {
            if let Some(pf) = &rec.proof { ser_obs(&format!("proof{}", t), pf, out); }
            if let Some(bp) = &rec.bproof { ser_obs(&format!("bproof{}", t), bp, out); }
            if let Some(lp) = &rec.lcproof { ser_obs(&format!("lcproof{}", t), lp, out); }
        }
        // batch verification with a deserialized verifier key (prepared elements are rebuilt on load)
        if let Some(rec) = recs.iter().find(|r| r.kind == "batch" && r.bproof.is_some()) {
            use ark_serialize::{Compress, Validate};
            for (tag, compress) in [("c", Compress::Yes), ("u", Compress::No)] {
                let mut b = vec![]; vk.serialize_with_mode(&mut b, compress).unwrap();
                if let Ok(vk2) = VK::<A>::deserialize_with_mode(&b[..], compress, Validate::Yes) {
                    let qs = build_qs::<A>(&rec.qs, &labels, &pts);
                    let mut evals: Evaluations<Pt<A>, A::F> = Evaluations::new();
                    for (i, _zl, pj) in &rec.qs { evals.insert((plabel(labels[*i]), pts[*pj].clone()), polys[*i].evaluate(&pts[*pj])); }
                    let mut s1 = rec.vsponge_before.clone();
                    let mut r1 = CountingRng::new(rec.check_seed);
                    let bp = rec.bproof.as_ref().unwrap();
                    let d = guard_any(|| A::PC::batch_check(&vk2, rec.vperm.iter().map(|i| &comms[*i]), &qs, &evals, bp, &mut s1, &mut r1));
                    out.obs1(&format!("deser_batch_check.{}", tag), "S", decision(&d));
                } else { out.obs1(&format!("deser_batch_check.{}", tag), "S", "deserialization-failed".into()); }
            }
        }
        // verification with deserialized key, commitments and proof: same decisions
        if let Some(rec) = recs.iter().find(|r| r.kind == "single" && r.proof.is_some()) {
            use ark_serialize::{Compress, Validate};
            for (tag, compress) in [("c", Compress::Yes), ("u", Compress::No)] {
                let rt = |bytes: Vec<u8>| bytes;
                let mut b = vec![]; vk.serialize_with_mode(&mut b, compress).unwrap();
                let vk2 = VK::<A>::deserialize_with_mode(&rt(b)[..], compress, Validate::Yes);
                let mut b = vec![]; rec.proof.as_ref().unwrap().serialize_with_mode(&mut b, compress).unwrap();
                let pf2 = Pf::<A>::deserialize_with_mode(&b[..], compress, Validate::Yes);
                let cms2: Vec<Option<LabeledCommitment<Cm<A>>>> = rec.sel.iter().map(|i| {
                    let mut b = vec![]; comms[*i].commitment().serialize_with_mode(&mut b, compress).unwrap();
                    Cm::<A>::deserialize_with_mode(&b[..], compress, Validate::Yes).ok().map(|x| LabeledCommitment::new(comms[*i].label().clone(), x, comms[*i].degree_bound()))
                }).collect();
                if let (Ok(vk2), Ok(pf2), true) = (vk2, pf2, cms2.iter().all(|x| x.is_some())) {
                    let cms2: Vec<LabeledCommitment<Cm<A>>> = cms2.into_iter().map(|x| x.unwrap()).collect();
                    let mut s1 = rec.vsponge_before.clone();
                    let mut r1 = CountingRng::new(rec.check_seed);
                    let d = guard_any(|| A::PC::check(&vk2, cms2.iter(), &pts[rec.pt], rec.values.clone(), &pf2, &mut s1, Some(&mut r1)));
                    out.obs1(&format!("deser_check.{}", tag), "S", decision(&d));
                    let mut bad = rec.values.clone();
                    bad[0] += A::F::from(1u64);
                    let mut s2 = rec.vsponge_before.clone();
                    let mut r2 = CountingRng::new(rec.check_seed);
                    let d = guard_any(|| A::PC::check(&vk2, cms2.iter(), &pts[rec.pt], bad, &pf2, &mut s2, Some(&mut r2)));
                    out.obs1(&format!("deser_check_bad.{}", tag), "S", decision(&d));
                } else {
                    out.obs1(&format!("deser_check.{}", tag), "S", "deserialization-failed".into());
                }
            }
        }
    }
    let _ = <Cm<A> as PCCommitment>::empty;
    let _ = <St<A> as PCCommitmentState>::empty;
}

/// C12 observations of one artefact: bytes in both compression modes (handed to the model), reported size,
/// re-serialization after deserialization under both validation modes, and deserialization of proper prefixes
pub fn ser_obs<T: CanonicalSerialize + CanonicalDeserialize>(name: &str, x: &T, out: &mut Out) {
    use ark_serialize::{Compress, Validate};
    for (tag, compress) in [("c", Compress::Yes), ("u", Compress::No)] {
        let mut bytes = vec![];
        if x.serialize_with_mode(&mut bytes, compress).is_err() { out.obs1(&format!("rt.{}.{}", name, tag), "S", "serialize-error".into()); continue; }
        out.input(&format!("ser.{}.{}", name, tag), &[hex(&bytes)]);
        out.obs1(&format!("sz.{}.{}", name, tag), "N", x.serialized_size(compress).to_string());
        out.obs1(&format!("len.{}.{}", name, tag), "N", bytes.len().to_string());
        let mut rt = "ok".to_string();
        for validate in [Validate::Yes, Validate::No] {
            match catch(|| T::deserialize_with_mode(&bytes[..], compress, validate)) {
                Some(Ok(y)) => { let mut b2 = vec![]; y.serialize_with_mode(&mut b2, compress).unwrap(); if b2 != bytes { rt = "differs".into(); } }
                Some(Err(_)) => rt = "deserialize-error".into(),
                None => rt = "panic".into(),
            }
        }
        out.obs1(&format!("rt.{}.{}", name, tag), "S", rt);
        // proper prefixes: a deterministic spread of cut points
        let l = bytes.len();
        let mut cuts: Vec<usize> = vec![0, 1, 7, 8, 9, l / 4, l / 2, (3 * l) / 4, l.saturating_sub(33), l.saturating_sub(9), l.saturating_sub(2), l.saturating_sub(1)];
        cuts.retain(|k| *k < l);
        cuts.sort(); cuts.dedup();
        let res: Vec<String> = cuts.iter().map(|k| match catch(|| T::deserialize_with_mode(&bytes[..*k], compress, Validate::No)) {
            Some(Ok(_)) => "ok".to_string(), Some(Err(_)) => "err".to_string(), None => "err".to_string() }).collect();
        out.input(&format!("cuts.{}.{}", name, tag), &cuts.iter().map(|k| k.to_string()).collect::<Vec<_>>());
        out.obs(&format!("tr.{}.{}", name, tag), "S", &if res.is_empty() { vec!["-".into()] } else { res });
    }
}

fn catch<T>(f: impl FnOnce() -> T) -> Option<T> {
    std::panic::catch_unwind(std::panic::AssertUnwindSafe(f)).ok()
}


#[allow(dead_code)]
pub fn roundtrip<T: CanonicalSerialize + CanonicalDeserialize>(x: &T) -> bool {
    let b = ser(x);
    match T::deserialize_compressed(&b[..]) {
        Ok(y) => ser(&y) == b,
        Err(_) => false,
    }
}


/// C08 flow: p, q, a*p+b*q, a re-encoding of p, the zero polynomial - all committed without hiding under one bound
pub fn run_c08<A: Adapter>(c: &Case, out: &mut Out)
where
    Pt<A>: Clone + Ord + core::fmt::Debug,
{
    let pp = A::setup(c);
    out.obs1("setup", "S", pp.class());
    let pp = match pp.ok() { Some(p) => p, None => return };
    let bounds: Option<Vec<usize>> = match c.str1("bounds") { "none" => None, _ => Some(c.usizes("bounds")) };
    let tr = guard_any(|| A::PC::trim(&pp, c.usize1("supported_degree"), c.usize1("supported_hiding"), bounds.as_deref()));
    out.obs1("trim", "S", tr.class());
    let (ck, _vk) = match tr.ok() { Some(x) => x, None => return };
    let nv = opt_usize(c.str1("num_vars"));
    let bound = opt_usize(c.str1("bound"));
    let names = ["p", "q", "r", "pv", "zero"];
    let polys: Vec<LabeledPolynomial<A::F, A::P>> = (0..5)
        .map(|i| {
            let toks = c.get(&format!("poly.{}", i));
            // "pv" is p in another representation: keep that representation when the polynomial type can hold it
            let p = if i == 3 { A::make_poly_raw(toks, nv).unwrap_or_else(|| A::make_poly(toks, nv)) } else { A::make_poly(toks, nv) };
            LabeledPolynomial::new(names[i].to_string(), p, bound, None)
        })
        .collect();
    let mut rng = CountingRng::new(1);
    let cm = guard_any(|| A::PC::commit(&ck, polys.iter(), Some(&mut rng)));
    out.obs1("commit", "S", cm.class());
    let (comms, _states) = match cm.ok() { Some(x) => x, None => return };
    out.obs1("rng_bytes", "N", rng.bytes.to_string());
    let a: A::F = f_from_str(c.str1("a"));
    let b: A::F = f_from_str(c.str1("b"));
    let cs: Vec<&Cm<A>> = comms.iter().map(|x| x.commitment()).collect();
    for i in 0..5 { out.obs1(&format!("comm.{}", i), "H", sha_hex(&ser(cs[i]))); A::comm_obs(i, cs[i], &_states[i], out); }
    if let Some(l) = A::comm_lin(a, cs[0], b, cs[1]) {
        out.obs1("additive", "S", if ser(&l) == ser(cs[2]) { "holds".into() } else { "fails".into() });
        // the library's own operators must give the same element as the harness's group arithmetic
        if let Some(ls) = A::comm_lin_lib(a, cs[0], b, cs[1]) {
            out.obs1("additive_lib", "S", if ls.iter().all(|x| ser(x) == ser(&l)) { "holds".into() } else { "fails".into() });
        }
    }
    if let Some(z) = A::comm_is_identity(cs[4]) { out.obs1("zero_is_identity", "S", if z { "yes".into() } else { "no".into() }); }
    if !A::always_blinded() { out.obs1("repr_invariant", "S", if ser(cs[3]) == ser(cs[0]) { "holds".into() } else { "fails".into() }); }
    // determinism: a second commit gives the same bytes
    let mut rng2 = CountingRng::new(2);
    if let Some((c2, _)) = guard_any(|| A::PC::commit(&ck, polys.iter(), Some(&mut rng2))).ok() {
        if !A::always_blinded() { out.obs1("deterministic", "S", if (0..5).all(|i| ser(c2[i].commitment()) == ser(cs[i])) { "yes".into() } else { "no".into() }); }
    }
    // different polynomials -> different commitments (p vs q are different unless the generator says otherwise)
    out.obs1("p_q_equal", "S", if ser(cs[0]) == ser(cs[1]) { "equal".into() } else { "differ".into() });
    for i in 0..5 {
        if let Some(ok) = A::reference_commitment(&ck, polys[i].polynomial(), bound, cs[i], &_states[i]) {
            out.obs1(&format!("reference.{}", i), "S", if ok { "matches".into() } else { "differs".into() });
        }
    }
}
