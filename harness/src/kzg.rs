//! KZG10 flow: SRS built from known trapdoors, honest transcripts, mutated
//! single checks and batch checks.  Everything the model predicts is emitted.
use crate::proto::{Case, Out};
use crate::util::*;
use ark_bls12_381::{Bls12_381, Fr, G1Affine, G1Projective, G2Affine, G2Projective};
use ark_ec::{scalar_mul::ScalarMul, AffineRepr, CurveGroup, PrimeGroup};
use ark_ff::{Field, One, UniformRand, Zero};
use ark_poly::{univariate::DensePolynomial, DenseUVPolynomial, Polynomial};
use ark_poly_commit::kzg10::{Commitment, Powers, Proof, Randomness, UniversalParams, VerifierKey, KZG10};
use std::collections::BTreeMap;

type E = Bls12_381;
type P = DensePolynomial<Fr>;
type K = KZG10<E, P>;

pub fn build_params(d: usize, g2: bool, beta: Fr, g: Fr, gamma: Fr, h: Fr) -> UniversalParams<E> {
    let mut pb = vec![Fr::one()];
    for i in 0..=d {
        let nx = pb[i] * beta;
        pb.push(nx);
    }
    let gen1 = G1Projective::generator();
    let gen2 = G2Projective::generator();
    let sg: Vec<Fr> = pb[..=d].iter().map(|b| g * b).collect();
    let sgg: Vec<Fr> = pb.iter().map(|b| gamma * b).collect();
    let powers_of_g = gen1.batch_mul(&sg);
    let powers_of_gamma_g: BTreeMap<usize, G1Affine> = gen1.batch_mul(&sgg).into_iter().enumerate().collect();
    let hh: G2Affine = (gen2 * h).into_affine();
    let beta_h: G2Affine = (gen2 * (h * beta)).into_affine();
    let neg_powers_of_h: BTreeMap<usize, G2Affine> = if g2 {
        let binv = beta.inverse().unwrap_or(Fr::zero());
        let mut cur = Fr::one();
        let mut sc = vec![];
        for _ in 0..=d {
            sc.push(h * cur);
            cur *= binv;
        }
        gen2.batch_mul(&sc).into_iter().enumerate().collect()
    } else {
        BTreeMap::new()
    };
    UniversalParams {
        powers_of_g,
        powers_of_gamma_g,
        h: hh,
        beta_h,
        neg_powers_of_h,
        prepared_h: hh.into(),
        prepared_beta_h: beta_h.into(),
    }
}

pub fn powers_of<'a>(pp: &'a UniversalParams<E>, s: usize) -> Powers<'a, E> {
    let pg = pp.powers_of_g[..=s].to_vec();
    let pgg: Vec<G1Affine> = (0..=s).map(|i| pp.powers_of_gamma_g[&i]).collect();
    Powers {
        powers_of_g: ark_std::borrow::Cow::Owned(pg),
        powers_of_gamma_g: ark_std::borrow::Cow::Owned(pgg),
    }
}
pub fn vk_of(pp: &UniversalParams<E>) -> VerifierKey<E> {
    VerifierKey {
        g: pp.powers_of_g[0],
        gamma_g: pp.powers_of_gamma_g[&0],
        h: pp.h,
        beta_h: pp.beta_h,
        prepared_h: pp.prepared_h.clone(),
        prepared_beta_h: pp.prepared_beta_h.clone(),
    }
}

fn opt_usize(s: &str) -> Option<usize> {
    if s == "none" { None } else { Some(s.parse().unwrap()) }
}

pub fn run(c: &Case, out: &mut Out) {
    let d = c.usize1("D");
    let s = c.usize1("s");
    let g2 = c.usize1("g2") == 1;
    let beta: Fr = f_from_str(c.str1("beta"));
    let g: Fr = f_from_str(c.str1("g"));
    let gamma: Fr = f_from_str(c.str1("gamma"));
    let h: Fr = f_from_str(c.str1("h"));
    let pp = build_params(d, g2, beta, g, gamma, h);
    let powers = powers_of(&pp, s);
    let vk = vk_of(&pp);
    let n = c.usize1("n");

    let mut comms: Vec<Option<Commitment<E>>> = vec![];
    let mut rands: Vec<Option<Randomness<Fr, P>>> = vec![];
    let mut proofs: Vec<Option<Proof<E>>> = vec![];
    let mut points: Vec<Fr> = vec![];
    let mut values: Vec<Fr> = vec![];
    for i in 0..n {
        let coeffs: Vec<Fr> = fs_from_strs(c.get(&format!("poly.{}", i)));
        let p = P::from_coefficients_vec(coeffs);
        let hb = opt_usize(c.str1(&format!("hb.{}", i)));
        let seed = c.u64_1(&format!("seed.{}", i));
        let with_rng = c.str1(&format!("rng.{}", i)) == "some";
        let z: Fr = f_from_str(c.str1(&format!("z.{}", i)));
        // tape for the model
        let ndraw = hb.map(|x| x + 6).unwrap_or(4);
        let (tape, cum) = replay(seed, ndraw, |r| Fr::rand(r));
        out.input(&format!("tape.{}", i), &fs_to_strs(&tape));
        let mut rng = CountingRng::new(seed);
        let res = guard(|| {
            if with_rng {
                K::commit(&powers, &p, hb, Some(&mut rng))
            } else {
                K::commit(&powers, &p, hb, None)
            }
        });
        out.obs1(&format!("commit.{}", i), "S", res.class());
        out.obs1(&format!("draws.{}", i), "N", draws_of(&cum, rng.bytes).to_string());
        let (cm, rd) = match res.ok() {
            Some((cm, rd)) => (Some(cm), Some(rd)),
            None => (None, None),
        };
        if let (Some(cm), Some(rd)) = (&cm, &rd) {
            out.obs1(&format!("c.{}", i), "G1", ser_hex(&cm.0));
            out.obs(&format!("rand.{}", i), "F", &fs_to_strs(rd.blinding_polynomial.coeffs()));
        }
        let v = p.evaluate(&z);
        out.obs1(&format!("v.{}", i), "F", f_to_str(&v));
        let pf = if let Some(rd) = &rd {
            let r = guard(|| K::open(&powers, &p, z, rd));
            out.obs1(&format!("open.{}", i), "S", r.class());
            r.ok()
        } else {
            None
        };
        if let Some(pf) = &pf {
            out.obs1(&format!("w.{}", i), "G1", ser_hex(&pf.w));
            out.obs1(&format!("rv.{}", i), "F", pf.random_v.map(|x| f_to_str(&x)).unwrap_or("none".into()));
        }
        if let (Some(cm), Some(pf)) = (&cm, &pf) {
            let r = guard(|| K::check(&vk, cm, z, v, pf));
            out.obs1(&format!("check.{}", i), "S", decision(&r));
        }
        comms.push(cm);
        rands.push(rd);
        proofs.push(pf);
        points.push(z);
        values.push(v);
    }
    // mutated single checks
    for (j, m) in c.indexed("mut") {
        let i: usize = m[0].parse().unwrap();
        if comms[i].is_none() || proofs[i].is_none() {
            out.obs1(&format!("mut.{}", j), "S", "skipped".into());
            continue;
        }
        let mut cm = comms[i].clone().unwrap();
        let mut pf = proofs[i].clone().unwrap();
        let mut z = points[i];
        let mut v = values[i];
        let mut vk2 = vk.clone();
        let arg = |k: usize| -> Fr { f_from_str(&m[k]) };
        match m[1].as_str() {
            "value" => v += arg(2),
            "point" => z = arg(2),
            "comm_exp" => cm = Commitment(exp_g::<G1Affine>(arg(2))),
            "comm_of" => {
                let k: usize = m[2].parse().unwrap();
                match &comms[k] { Some(x) => cm = x.clone(), None => { out.obs1(&format!("mut.{}", j), "S", "skipped".into()); continue; } }
            }
            "w_exp" => pf.w = exp_g::<G1Affine>(arg(2)),
            "w_add" => pf.w = (pf.w.into_group() + exp_g::<G1Affine>(arg(2))).into_affine(),
            "proof_of" => {
                let k: usize = m[2].parse().unwrap();
                match &proofs[k] { Some(x) => pf = x.clone(), None => { out.obs1(&format!("mut.{}", j), "S", "skipped".into()); continue; } }
            }
            "rv" => pf.random_v = if m[2] == "none" { None } else { Some(arg(2)) },
            "vk_g" => vk2.g = exp_g::<G1Affine>(arg(2)),
            "vk_gamma" => vk2.gamma_g = exp_g::<G1Affine>(arg(2)),
            "vk_h" => { vk2.h = exp_g::<G2Affine>(arg(2)); vk2.prepared_h = vk2.h.into(); }
            "vk_beta_h" => { vk2.beta_h = exp_g::<G2Affine>(arg(2)); vk2.prepared_beta_h = vk2.beta_h.into(); }
            other => panic!("unknown mutation {}", other),
        }
        let r = guard(|| K::check(&vk2, &cm, z, v, &pf));
        out.obs1(&format!("mut.{}", j), "S", decision(&r));
    }
    // batch checks: "seed nitems (i delta)* proofs k*"
    for (j, b) in c.indexed("batch") {
        let seed: u64 = b[0].parse().unwrap();
        let nitems: usize = b[1].parse().unwrap();
        let mut cs = vec![];
        let mut zs = vec![];
        let mut vs = vec![];
        let mut ok = true;
        for t in 0..nitems {
            let i: usize = b[2 + 2 * t].parse().unwrap();
            let delta: Fr = f_from_str(&b[3 + 2 * t]);
            match &comms[i] { Some(x) => cs.push(x.clone()), None => ok = false }
            zs.push(points[i]);
            vs.push(values[i] + delta);
        }
        let pidx: Vec<usize> = b[2 + 2 * nitems + 1..].iter().map(|x| x.parse().unwrap()).collect();
        let mut pfs = vec![];
        for k in &pidx {
            match &proofs[*k] { Some(x) => pfs.push(x.clone()), None => ok = false }
        }
        if !ok {
            out.obs1(&format!("batch.{}", j), "S", "skipped".into());
            continue;
        }
        let nd = nitems + 3;
        let (tape, cum) = replay(seed, nd, |r| { let x: Fr = u128::rand(r).into(); x });
        out.input(&format!("btape.{}", j), &fs_to_strs(&tape));
        let mut rng = CountingRng::new(seed);
        let r = guard(|| K::batch_check(&vk, &cs, &zs, &vs, &pfs, &mut rng));
        out.obs1(&format!("batch.{}", j), "S", decision(&r));
        out.obs1(&format!("bdraws.{}", j), "N", draws_of(&cum, rng.bytes).to_string());
    }
}
