//! multilinear_pc (multilinear PST): setup with a seeded RNG (trapdoor point recovered by replaying the
//! RNG; elements relative to the published generators), trim, commit, open, check on true and false
//! claims, refusals, sizes.
use crate::proto::{Case, Out};
use crate::util::*;
use ark_bls12_381::{Bls12_381, Fr, G1Projective, G2Projective};
use ark_ff::UniformRand;
use ark_poly::{DenseMultilinearExtension, MultilinearExtension, Polynomial, SparseMultilinearExtension};
use ark_poly_commit::multilinear_pc::MultilinearPC;
use ark_serialize::{CanonicalSerialize, Compress};

type ML = MultilinearPC<Bls12_381>;
fn hx<T: CanonicalSerialize>(x: &T) -> String { ser_hex(x) }
fn yn(b: bool) -> String { if b { "accept".into() } else { "reject".into() } }

pub fn run(c: &Case, out: &mut Out) {
    let nv = c.usize1("num_vars");
    let snv = c.usize1("supported");
    let seed = c.u64_1("seed");
    // replay of the draws: g (G1), h (G2), then the trapdoor point
    let mut r0 = CountingRng::new(seed);
    let _g = G1Projective::rand(&mut r0);
    let _h = G2Projective::rand(&mut r0);
    let t: Vec<Fr> = (0..nv).map(|_| Fr::rand(&mut r0)).collect();
    let mut rng = CountingRng::new(seed);
    let su = guard_any(|| -> Result<_, ()> { Ok(ML::setup(nv, &mut rng)) });
    out.obs1("setup", "S", su.class());
    let pp = match su.ok() { Some(p) => p, None => return };
    out.input("t", &fs_to_strs(&t));
    out.input("base_g", &["G1".into(), hx(&pp.g)]);
    out.input("base_h", &["G2".into(), hx(&pp.h)]);
    out.obs("pp_shape", "N", &[pp.num_vars.to_string(), pp.powers_of_g.len().to_string(), pp.powers_of_h.len().to_string(), pp.g_mask.len().to_string()]);
    out.obs("pp_table_lens", "N", &pp.powers_of_g.iter().map(|v| v.len().to_string()).collect::<Vec<_>>());
    if nv <= 6 {
        out.obs("pp_g", "R:base_g", &pp.powers_of_g.iter().flat_map(|v| v.iter().map(hx)).collect::<Vec<_>>());
        out.obs("pp_h", "R:base_h", &pp.powers_of_h.iter().flat_map(|v| v.iter().map(hx)).collect::<Vec<_>>());
    } else {
        out.obs("pp_g0", "R:base_g", &pp.powers_of_g[0].iter().map(hx).collect::<Vec<_>>());
    }
    out.obs("pp_mask", "R:base_g", &pp.g_mask.iter().map(hx).collect::<Vec<_>>());
    let tr = guard_any(|| -> Result<_, ()> { Ok(ML::trim(&pp, snv)) });
    out.obs1("trim", "S", tr.class());
    let (ck, vk) = match tr.ok() { Some(x) => x, None => return };
    let d = nv - snv;
    let faithful = ck.nv == snv && vk.nv == snv && ck.g == pp.g && ck.h == pp.h && vk.g == pp.g && vk.h == pp.h
        && ck.powers_of_g[..] == pp.powers_of_g[d..] && ck.powers_of_h[..] == pp.powers_of_h[d..] && vk.g_mask_random[..] == pp.g_mask[d..];
    out.obs1("trim_faithful", "S", if faithful { "yes".into() } else { "no".into() });
    let c12 = c.has("c12");
    if c12 {
        crate::pc::ser_obs("pp", &pp, out);
        crate::pc::ser_obs("ck", &ck, out);
        crate::pc::ser_obs("vk", &vk, out);
    }
    let n = c.usize1("n");
    for i in 0..n {
        let k = |s: &str| format!("{}.{}", s, i);
        let pnv = c.usize1(&k("pnv"));
        let ev: Vec<Fr> = fs_from_strs(c.get(&k("poly")));
        let z: Vec<Fr> = fs_from_strs(c.fields.get(&k("z")).map(|v| &v[..]).unwrap_or(&[]));
        let delta: Fr = f_from_str(c.str1(&k("delta")));
        let sparse = c.str1(&k("repr")) == "sparse";
        let dense = DenseMultilinearExtension::from_evaluations_vec(pnv, ev.clone());
        let sp = SparseMultilinearExtension::from_evaluations(pnv, &ev.iter().cloned().enumerate().filter(|(_, v)| *v != Fr::from(0u64)).collect::<Vec<_>>());
        let cm = if sparse { guard_any(|| -> Result<_, ()> { Ok(ML::commit(&ck, &sp)) }) } else { guard_any(|| -> Result<_, ()> { Ok(ML::commit(&ck, &dense)) }) };
        out.obs1(&k("commit"), "S", cm.class());
        let cm = match cm.ok() { Some(x) => x, None => {
            // the prover must refuse as well
            let op = guard_any(|| -> Result<_, ()> { Ok(ML::open(&ck, &dense, &z)) });
            out.obs1(&k("open"), "S", op.class());
            continue } };
        out.obs1(&k("c"), "R:base_g", hx(&cm.g_product));
        if c12 && i < 2 { crate::pc::ser_obs(&format!("comm{}", i), &cm, out); }
        out.obs1(&k("c_nv"), "N", cm.nv.to_string());
        for (tag, m) in [("c", Compress::Yes), ("u", Compress::No)] {
            out.obs1(&format!("size.comm.{}.{}", i, tag), "N", cm.serialized_size(m).to_string());
            out.obs1(&format!("bytes.comm.{}.{}", i, tag), "N", ser_bytes(&cm, m == Compress::Yes).len().to_string());
        }
        let op = if sparse { guard_any(|| -> Result<_, ()> { Ok(ML::open(&ck, &sp, &z)) }) } else { guard_any(|| -> Result<_, ()> { Ok(ML::open(&ck, &dense, &z)) }) };
        out.obs1(&k("open"), "S", op.class());
        let pf = match op.ok() { Some(x) => x, None => continue };
        out.obs(&k("pi"), "R:base_h", &pf.proofs.iter().map(hx).collect::<Vec<_>>());
        if c12 && i < 2 { crate::pc::ser_obs(&format!("proof{}", i), &pf, out); }
        for (tag, m) in [("c", Compress::Yes), ("u", Compress::No)] {
            out.obs1(&format!("size.proof.{}.{}", i, tag), "N", pf.serialized_size(m).to_string());
            out.obs1(&format!("bytes.proof.{}.{}", i, tag), "N", ser_bytes(&pf, m == Compress::Yes).len().to_string());
        }
        if z.len() < snv { continue; }
        let v = dense.evaluate(&z[..pnv.min(z.len())].to_vec());
        out.obs1(&k("v"), "F", f_to_str(&v));
        let chk = |val: Fr, p: &ark_poly_commit::multilinear_pc::data_structures::Proof<Bls12_381>| guard_any(|| -> Result<bool, ()> { Ok(ML::check(&vk, &cm, &z, val, p)) });
        out.obs1(&k("check"), "S", match chk(v, &pf).ok() { Some(b) => yn(b), None => "refused".into() });
        out.obs1(&k("check_bad"), "S", match chk(v + delta, &pf).ok() { Some(b) => yn(b), None => "refused".into() });
        // proof mutations (C03): tampered element, swapped elements, truncated, extended
        let mut muts: Vec<(&str, ark_poly_commit::multilinear_pc::data_structures::Proof<Bls12_381>)> = vec![];
        let mut p2 = pf.clone(); if !p2.proofs.is_empty() { let j = i % p2.proofs.len(); p2.proofs[j] = (p2.proofs[j] + pp.h).into(); muts.push(("tamper", p2)); }
        let mut p3 = pf.clone(); if p3.proofs.len() >= 2 && p3.proofs[0] != p3.proofs[1] { p3.proofs.swap(0, 1); muts.push(("swap", p3)); }
        let mut p4 = pf.clone(); if let Some(last) = p4.proofs.pop() { use ark_ec::AffineRepr; if !last.is_zero() { muts.push(("truncate", p4)); } }
        for (name, p) in muts {
            out.obs1(&format!("mut.{}.{}", name, i), "S", match chk(v, &p).ok() { Some(b) => yn(b), None => "refused".into() });
        }
        // another point with the same proof
        if let Some(z2t) = c.fields.get(&k("z2")) {
            let z2: Vec<Fr> = fs_from_strs(z2t);
            let r = guard_any(|| -> Result<bool, ()> { Ok(ML::check(&vk, &cm, &z2, v, &pf)) });
            out.obs1(&k("check_other_point"), "S", match r.ok() { Some(b) => yn(b), None => "refused".into() });
        }
    }
}
