#!/bin/bash
cd /verif
python3 tools/seed_meta.py S37-C15-divide-zero-coordinate-fast-path C15 C15,C01 "C15 detected it at once (honest PST13 openings at points with a zero coordinate rejected); C01 missed it at first: its points rarely had zero coordinates; multivariate points now include hypercube-like coordinates, after which C01 reports it too" >/dev/null
python3 tools/seed_meta.py S38-C19-ipa-trim-includes-hiding-bound C19 C19 "missed at first: the size scenarios trimmed IPA keys to the whole parameters (no room to grow) and the IPA size oracle accepted 64 extra bytes as a hiding proof; scenarios now use supported degrees at 2^k - 1 under larger parameters and the oracle knows which proofs are hiding: first reported as a broken correspondence only, then with the oversized proof as failing input" >/dev/null
for w in J M; do git -C /repo worktree remove --force /tmp/wt-$w; done
git -C /repo status --short | head -3
git add -A; git commit -qm "seeds S37 S38 recorded; generator: hypercube-like multivariate points, IPA size scenarios under larger parameters; IPA size oracle distinguishes hiding proofs" ; echo committed
