#!/bin/bash
# usage: tools/soak_thorough.sh "<props>"  -- thorough tier once per property, with wall time
cd "$(dirname "$0")/.."
for p in $1; do
  t0=$(date +%s)
  out=$(VERIF_SEED=1 ./check $p --tier thorough 2>&1 | grep -E "^(OK|VIOLATION|KNOWN|  detail)" | head -4)
  t1=$(date +%s)
  case "$out" in OK*) echo "ok $p $((t1-t0))s";; *) echo "!! $p $((t1-t0))s: $out";; esac
done
