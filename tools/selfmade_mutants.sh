#!/bin/bash
# Self-made mutants (not written by sub-agents) of code paths that were modelled late: each is applied to /repo's
# working tree, the listed checks are run, the tree is restored.  Used as a regression of the checks themselves;
# never committed in /repo.  Usage: tools/selfmade_mutants.sh   (takes a few minutes; needs /repo unused meanwhile)
cd "$(dirname "$0")/.."
run() {  # name file old new checks...
  name=$1; file=$2; old=$3; new=$4; shift 4
  python3 - "$file" "$old" "$new" <<'PY'
import sys
f, old, new = sys.argv[1:4]
s = open(f).read()
assert s.count(old) >= 1, "pattern not found: " + old
s = s.replace(old, new, 1)
open(f, "w").write(s)
PY
  if [ $? -ne 0 ]; then echo "== $name: could not apply"; git -C /repo checkout -- . ; return; fi
  for p in "$@"; do
    out=$(./check $p --tier quick 2>&1 | grep -E "^(OK|VIOLATION|  detail)" | head -3 | cut -c1-200)
    echo "== $name / $p: $out"
  done
  git -C /repo checkout -- .
}
# the trait's default batch_check keeps only the last group's verdict
run M1-default-batch-last-verdict /repo/poly-commit/src/lib.rs 'result &= Self::check(vk, comms, &point, values, &proof, sponge, Some(rng))?;' 'result = Self::check(vk, comms, &point, values, &proof, sponge, Some(rng))?;' C05
# IPA batch_check never re-randomizes (randomizer stays 1)
run M2-ipa-batch-randomizer-one /repo/poly-commit/src/ipa_pc/mod.rs 'randomizer = u128::rand(rng).into();' 'randomizer = G::ScalarField::one();' C05
# PST13 batch_check forgets the randomizer on the value side
run M3-pst13-batch-g-multiplier /repo/poly-commit/src/marlin/marlin_pst13_pc/mod.rs 'g_multiplier += &(randomizer * &v);' 'g_multiplier += &v;' C05
# IPA check_combinations adds the constant of a combination to the claimed value instead of subtracting it
run M4-ipa-lc-constant-sign /repo/poly-commit/src/ipa_pc/mod.rs '**eval -= coeff;' '**eval += coeff;' C06
# the linear-code verifier reads the first proof of the array for every polynomial
run M8-lincode-first-proof /repo/poly-commit/src/linear_codes/mod.rs 'let proof = &proof_array[i];' 'let proof = &proof_array[i.min(0)];' C01 C10
git -C /repo status --short | head -3
echo ALLDONE
