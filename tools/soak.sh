#!/bin/bash
# usage: tools/soak.sh "<props>" "<seeds>" [tier]   -- runs checks on the current tree over several seeds, prints anything not OK
props=$1; seeds=$2; tier=${3:-quick}
cd "$(dirname "$0")/.."
for s in $seeds; do for p in $props; do
  out=$(VERIF_SEED=$s ./check $p --tier $tier 2>&1 | grep -E "^(OK|VIOLATION|KNOWN|  detail)" | head -4)
  case "$out" in OK*) echo "ok $p seed=$s";; *) echo "!! $p seed=$s: $out";; esac
done; done
