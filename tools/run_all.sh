#!/bin/bash
# runs every registered check once (quick, seed 1) on the current tree, then validates MANIFEST and evidence
cd "$(dirname "$0")/.."
for p in $(python3 -c "import json;print(' '.join(c['property_id'] for c in json.load(open('MANIFEST.json'))['checks']))"); do
  VERIF_SEED=1 ./check $p --tier quick 2>&1 | grep -E "^(OK|VIOLATION|KNOWN)" | head -3
done
python3-vt tools/validate.py | grep -v " valid$"
