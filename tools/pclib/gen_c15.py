"""C15 scenarios: the Combinations iterator, PST13 setup/trim on the (num_vars, max_degree) grid, divide_at_point."""
from .proto import Case
from .gen_common import rf_uniform, rf
from . import gen_pc

P = gen_pc.FIELD["pst13"]


def _setup_case(rng, cid, nv, D, tier, s=None):
    c = Case(cid, "c15")
    c.set("sub", "setup").set("num_vars", nv).set("D", D).set("seed", rng.randrange(2 ** 63))
    if s is None:
        s = rng.randint(1, D) if D >= 1 else 1
        if rng.random() < 0.1:
            s = D + rng.randint(1, 2)
    c.set("s", s)
    c.set("pairings", 24 if tier == "quick" else 120).set("stride", rng.randint(1, 7))
    c.meta["shapes"] = ["setup:%dx%d" % (nv, D)]
    c.meta["in_domain"] = nv >= 1 and D >= 1
    return c


def _comb_case(rng, cid, tier):
    c = Case(cid, "c15")
    k = rng.random()
    if k < 0.5:     # the shape setup uses
        nv, D = rng.randint(1, 4), rng.randint(1, 4)
        orig = [v for v in range(nv) for _ in range(D)]
        shape = "variable_set"
    elif k < 0.8:
        orig = [rng.randint(0, 4) for _ in range(rng.randint(2, 8))]
        shape = "random"
    else:
        orig = list(range(rng.randint(2, 7)))
        rng.shuffle(orig)
        shape = "distinct"
    n = len(orig)
    ln = rng.randint(1, max(1, n - 1))
    r = rng.random()
    if r < 0.06:
        ln, shape = 0, "len0"
    elif r < 0.12:
        ln, shape = n + rng.randint(0, 1), "len>=n"
    c.set("sub", "comb").set("orig", orig).set("len", ln)
    c.meta["shapes"] = ["comb:" + shape]
    c.meta["in_domain"] = 1 <= ln < n
    return c


def _divide_case(rng, cid, tier):
    c = Case(cid, "c15")
    nv = rng.randint(1, 6 if tier != "quick" else 4)
    deg = rng.randint(1, 6 if tier != "quick" else 4)
    toks, shape = gen_pc._poly_pst13(rng, P, nv, deg, dense_ok=(nv + deg <= 8))
    c.set("sub", "divide").set("num_vars", nv).set("poly", toks)
    c.set("z", [rf(rng, P) if rng.random() < 0.2 else rf_uniform(rng, P) for _ in range(nv)])
    c.set("x", [rf_uniform(rng, P) for _ in range(nv)])
    c.meta["shapes"] = ["divide:" + shape]
    c.meta["in_domain"] = True
    return c


def gen(rng, tier, profile, count):
    cases = []
    if tier != "quick":
        # the whole grid of the property, exhaustively, with s = D and one random s
        for nv in range(1, 7):
            for D in range(1, 7):
                cases.append(_setup_case(rng, "c15-grid-%d-%d" % (nv, D), nv, D, tier, s=rng.randint(1, D)))
    else:
        for (nv, D) in [(1, 1), (1, 4), (2, 2), (3, 1), (4, 1), (3, 3), (2, 4), (6, 2), (5, 3)]:
            cases.append(_setup_case(rng, "c15-grid-%d-%d" % (nv, D), nv, D, tier))
    for k in range(count):
        r = k % 5
        if r == 0:
            nv, D = rng.randint(1, 4), rng.randint(1, 4)
            q = rng.random()
            if q < 0.08:
                nv = 0
            elif q < 0.16:
                D = 0
            cases.append(_setup_case(rng, "c15-setup-%d" % k, nv, D, tier))
        elif r in (1, 2):
            cases.append(_comb_case(rng, "c15-comb-%d" % k, tier))
        else:
            cases.append(_divide_case(rng, "c15-div-%d" % k, tier))
    return cases


def gen_setup(rng, tier, profile, count):
    """PST13 setup/trim scenarios only (C09: forall scheme)"""
    cases = []
    for k in range(count):
        nv, D = rng.randint(1, 4 if tier == "quick" else 6), rng.randint(1, 4 if tier == "quick" else 5)
        q = rng.random()
        if q < 0.06:
            nv = 0
        elif q < 0.12:
            D = 0
        cases.append(_setup_case(rng, "c09-pst13-%d" % k, nv, D, tier))
    return cases
