"""Shared generator helpers.  Every random choice derives from one random.Random(seed)."""
R_BLS381 = 52435875175126190479447740508185965837690552500527637822603658699938581184513


def rf(rng, p=R_BLS381):
    """field element: mostly uniform, sometimes a small or special value"""
    k = rng.random()
    if k < 0.80:
        return rng.randrange(p)
    if k < 0.86:
        return 0
    if k < 0.92:
        return 1
    if k < 0.96:
        return p - 1
    return rng.randrange(1, 8)


def rf_nz(rng, p=R_BLS381):
    while True:
        x = rf(rng, p)
        if x % p != 0:
            return x


def rf_uniform(rng, p=R_BLS381):
    return rng.randrange(1, p)


_SWEEP = {}


def sweep_choice(rng, key, options):
    """like rng.choice(options) (duplicates are weights), but balanced within one run of a check: the option whose use
    count relative to its weight is smallest is taken, ties broken by rng - so every shape of input comes up within a few
    draws per key instead of being left to chance."""
    weights = {}
    for o in options:
        weights[o] = weights.get(o, 0) + 1
    used = _SWEEP.setdefault(key, {})
    best = min(used.get(o, 0) / weights[o] for o in weights)
    cands = [o for o in weights if used.get(o, 0) / weights[o] == best]
    o = rng.choice(cands)
    used[o] = used.get(o, 0) + 1
    return o


def rand_poly(rng, maxlen, p=R_BLS381, key="uni"):
    """coefficient list (low order first) with the shapes the suite never generates.
    Returns (coeffs, shape)."""
    shape = sweep_choice(rng, ("rand_poly", key),
                         ["dense", "dense", "dense", "zero", "const", "lowzeros", "highzeros", "sparse", "top", "short"])
    if maxlen <= 0:
        return [], "zero"
    if shape == "zero":
        return rng.choice([[], [0], [0, 0, 0]]), shape
    if shape == "const":
        return [rf_nz(rng, p)], shape
    if shape == "dense":
        n = rng.randint(1, maxlen)
        return [rf_uniform(rng, p) for _ in range(n)], shape
    if shape == "top":
        return [rf_uniform(rng, p) for _ in range(maxlen)], shape
    if shape == "short":
        n = rng.randint(1, min(3, maxlen))
        return [rf_uniform(rng, p) for _ in range(n)], shape
    if shape == "lowzeros":
        n = rng.randint(1, maxlen)
        k = rng.randint(1, n - 1) if n >= 2 else 0
        return [0] * k + [rf_uniform(rng, p) for _ in range(n - k)], shape
    if shape == "highzeros":
        n = rng.randint(1, maxlen)
        k = rng.randint(0, maxlen - n)
        # trailing (high-order) zeros beyond the true degree: from_coefficients_vec strips them
        return [rf_uniform(rng, p) for _ in range(n)] + [0] * rng.randint(0, 3), shape
    if shape == "sparse":
        n = rng.randint(1, maxlen)
        cs = [0] * n
        for _ in range(rng.randint(1, 3)):
            cs[rng.randrange(n)] = rf_uniform(rng, p)
        return cs, shape
    raise AssertionError(shape)
