"""C14 scenarios: streaming KZG (time vs space provers, verifier, folding iterators)."""
from .proto import Case
from .gen_common import rf_uniform, rf, rf_nz, sweep_choice, R_BLS381

P = R_BLS381


def _poly(rng, deg_max):
    shape = sweep_choice(rng, ("c14_poly",), ["dense", "dense", "dense", "short", "zero_top", "zero_low", "sparse", "empty", "const"])
    if shape == "empty":
        return [], shape
    if shape == "const":
        return [rf_uniform(rng, P)], shape
    n = rng.randint(1, deg_max + 1)
    if shape == "short":
        n = rng.randint(1, min(4, deg_max + 1))
    p = [rf_uniform(rng, P) for _ in range(n)]
    if shape == "zero_top":
        for i in range(rng.randint(1, min(3, n))):
            p[n - 1 - i] = 0
    if shape == "zero_low":
        for i in range(rng.randint(1, min(3, n))):
            p[i] = 0
    if shape == "sparse":
        p = [x if rng.random() < 0.3 else 0 for x in p]
    return p, shape


def _points(rng, k):
    pts = []
    while len(pts) < k:
        x = rf(rng, P) if rng.random() < 0.3 else rf_uniform(rng, P)
        if x % P not in [y % P for y in pts]:
            pts.append(x)
    return pts


def _stream_case(rng, cid, tier):
    big = tier != "quick"
    c = Case(cid, "c14")
    degmax = rng.choice([0, 1, 2, 3, 7, 8, 15, 16, rng.randint(0, 256 if big else 48), rng.randint(0, 256 if big else 48)])
    n = rng.randint(1, 8 if big else 4)
    k = rng.randint(1, 8 if big else 5)
    polys, shapes = [], []
    for i in range(n):
        p, sh = _poly(rng, degmax)
        polys.append(p)
        shapes.append(sh)
    need = max([len(p) - 1 for p in polys] + [k, 1])
    D = need + rng.choice([0, 0, 1, 2, rng.randint(0, 9)])
    me = rng.randint(k, min(D, 8)) if min(D, 8) >= k else k
    c.set("sub", "stream").set("D", D).set("max_eval_points", me).set("seed", rng.randrange(2 ** 63)).set("n", n)
    for i, p in enumerate(polys):
        if p:
            c.set("poly.%d" % i, p)
    c.set("alpha", rf(rng, P) if rng.random() < 0.2 else rf_uniform(rng, P)).set("delta", rng.choice([1, P - 1, rf_nz(rng, P)]))
    c.set("pts", _points(rng, k)).set("eta", rf_uniform(rng, P))
    c.set("buffers", sorted(set([rng.choice([1, 2, 3, 5, 8]), rng.choice([16, 64, 1 << 10]), 1 << 20])))
    c.set("bad_i", rng.randrange(n)).set("bad_j", rng.randrange(k))
    c.meta["shapes"] = ["stream:%s" % s for s in shapes] + ["points:%d" % k, "polys:%d" % n]
    c.meta["in_domain"] = True
    c.meta["k"] = k
    return c


def _fold_case(rng, cid, tier, n=None, depth=None, with_key=None):
    c = Case(cid, "c14")
    if n is None:
        n = rng.choice([rng.randint(1, 130), rng.randint(1, 20), rng.choice([1, 2, 3, 4, 7, 8, 9, 15, 16, 17, 31, 32, 33, 63, 64, 65, 127, 128, 129, 130])])
    if depth is None:
        depth = rng.randint(0, 7)
    coeffs = [rf_uniform(rng, P) if rng.random() < 0.9 else 0 for _ in range(n)]
    c.set("sub", "fold").set("coeffs", coeffs)
    if depth:
        c.set("chs", [rf_uniform(rng, P) if rng.random() < 0.9 else rng.choice([0, 1]) for _ in range(depth)])
    if with_key is None:
        with_key = rng.random() < 0.4
    if with_key and depth > 0:
        k = rng.randint(1, 4)
        c.set("D", n - 1 + rng.choice([0, 0, 1, 5]) if n > 1 else 1).set("max_eval_points", max(k, 1)).set("seed", rng.randrange(2 ** 63))
        if int(c.fields["D"][0]) < k:
            c.set("D", k)
        c.set("buffer", rng.choice([depth, depth * 2, depth * 7, 1 << 10, 1 << 20]))
        c.set("pts", _points(rng, k)).set("etas", [rf_uniform(rng, P) for _ in range(depth)])
    c.meta["shapes"] = ["fold:n%s:d%d%s" % ("pow2" if n & (n - 1) == 0 else "odd" if n % 2 else "even", depth, "+key" if (with_key and depth > 0) else "")]
    c.meta["in_domain"] = True
    return c


def gen(rng, tier, profile, count):
    cases = []
    for k in range(count):
        if k % 2 == 0:
            cases.append(_stream_case(rng, "c14-stream-%d" % k, tier))
        else:
            cases.append(_fold_case(rng, "c14-fold-%d" % k, tier))
    return cases


def gen_fold_grid(rng, tier, profile, count):
    """every (length, depth) of the property's range, exhaustively (thorough) or a slice of it (quick)"""
    cases = []
    grid = [(n, d) for n in range(1, 131) for d in range(0, 8)]
    if tier == "quick":
        grid = rng.sample(grid, count)
    for (n, d) in grid:
        cases.append(_fold_case(rng, "c14-grid-%d-%d" % (n, d), tier, n=n, depth=d, with_key=False))
    return cases
