"""C08 scenarios: commitments of p, q, a*p+b*q, a re-encoding of p and the zero polynomial."""
from .proto import Case
from .gen_common import rf, rf_nz, rf_uniform, rand_poly
from . import gen_pc
from .gen_pc import FIELD, UNIVARIATE, MULTILINEAR, HAS_BOUNDS


def _lin(a, p_, b, q_, mod):
    n = max(len(p_), len(q_))
    pp = list(p_) + [0] * (n - len(p_))
    qq = list(q_) + [0] * (n - len(q_))
    return [(a * x + b * y) % mod for x, y in zip(pp, qq)]


def _pst_terms(toks):
    out = []
    i = 0
    while i < len(toks):
        k = int(toks[i + 1])
        out.append((int(toks[i]), tuple((int(toks[i + 2 + 2 * j]), int(toks[i + 3 + 2 * j])) for j in range(k))))
        i += 2 + 2 * k
    return out


def _pst_toks(terms):
    toks = []
    for co, mon in terms:
        toks += [co, len(mon)]
        for v, e in mon:
            toks += [v, e]
    return toks


def gen(rng, tier, profile, count):
    cases = []
    schemes = gen_pc.ALL
    for k in range(count):
        scheme = schemes[k % len(schemes)]
        mod = FIELD[scheme]
        base = gen_pc.make_case(rng, "c08-%s-%d" % (scheme, k), scheme, tier, {"hiding": False, "n": 2})
        c = Case(base.id, "c08")
        for key in ("scheme", "modulus", "beta", "g", "gamma", "h", "max_degree", "num_vars", "setup_seed", "supported_degree",
                    "supported_hiding", "bounds"):
            if key in base.fields:
                c.fields[key] = base.fields[key]
        a = rng.choice([0, 1, mod - 1, rf_uniform(rng, mod), rf_uniform(rng, mod)])
        b = rng.choice([0, 1, mod - 1, rf_uniform(rng, mod), rf_uniform(rng, mod)])
        s = base.meta["eff_s"] if scheme == "ipa" else base.meta["s"]
        bound = "none"
        if scheme in UNIVARIATE:
            maxlen = s + 1
            if scheme in HAS_BOUNDS and rng.random() < 0.5:
                bl = base.meta["bounds_sorted"] if scheme != "ipa" else list(range(1, s + 1))
                if bl:
                    bound = rng.choice(bl)
                    maxlen = min(maxlen, bound + 1)
            if scheme == "ligero_uni":
                maxlen = rng.randint(1, 40)
            p_, sh1 = rand_poly(rng, maxlen, mod)
            q_, sh2 = rand_poly(rng, maxlen, mod)
            r_ = _lin(a, p_, b, q_, mod)
            pv = list(p_) + [0] * rng.randint(1, 3)            # high-order zero coefficients: same polynomial
            zero = rng.choice([[], [0], [0, 0]])
            polys = [p_, q_, r_, pv, zero]
            same = gen_pc._trim(p_, mod) == gen_pc._trim(q_, mod)
        elif scheme in MULTILINEAR:
            nv = int(base.fields["num_vars"][0])
            p_, sh1 = gen_pc._poly_ml(rng, mod, nv)
            q_, sh2 = gen_pc._poly_ml(rng, mod, nv)
            polys = [p_, q_, _lin(a, p_, b, q_, mod), list(p_), [0] * (1 << nv)]
            same = [x % mod for x in p_] == [x % mod for x in q_]
        else:
            nv = int(base.fields["num_vars"][0])
            pt, sh1 = gen_pc._poly_pst13(rng, mod, nv, s)
            qt, sh2 = gen_pc._poly_pst13(rng, mod, nv, s)
            P, Q = _pst_terms(pt), _pst_terms(qt)
            R = [((a * co) % mod, mon) for co, mon in P] + [((b * co) % mod, mon) for co, mon in Q]
            PV = list(P)
            rng.shuffle(PV)
            if PV:                                              # one coefficient split over two like terms
                co, mon = PV[0]
                x = rf_uniform(rng, mod)
                PV = [(x, mon), ((co - x) % mod, mon)] + PV[1:]
            polys = [pt, qt, _pst_toks(R), _pst_toks(PV), []]
            dp = {}
            for co, mon in P:
                dp[mon] = (dp.get(mon, 0) + co) % mod
            dq = {}
            for co, mon in Q:
                dq[mon] = (dq.get(mon, 0) + co) % mod
            same = {m: v for m, v in dp.items() if v} == {m: v for m, v in dq.items() if v}
        for i, pl in enumerate(polys):
            c.set("poly.%d" % i, pl)
        c.set("a", a).set("b", b).set("bound", bound)
        c.meta.update({"scheme": scheme, "shapes": ["%s:%s/%s%s" % (scheme, sh1, sh2, "+b" if bound != "none" else "")],
                       "in_domain": True, "p_eq_q": same})
        cases.append(c)
    return cases
