import argparse
import hashlib
import json
import os
import random
import sys
import time

from . import build, registry
from .engine import Engine
from .proto import Case

VERIF = build.VERIF
AXIOM_ALLOW = set()   # stdlib axioms a property theorem may depend on; named in DESIGN.md section 3

TRUSTED_BASE = [
    "Coq 8.16.1 kernel (coqc, full .vo build); vm_compute only where a theorem states a finite bound; no native_compute",
    "axioms: none (every Print Assumptions must answer 'Closed under the global context')",
    "extraction plugin with ExtrOcamlBasic + ExtrOcamlZBigInt (stdlib files only, no directive of our own); zarith; OCaml 4.13",
    "hand-written glue: OCaml driver (runner/driver.ml), Rust harness (harness/src), python orchestration (tools/pclib)",
    "modelled, not verified: prime-order groups and bilinear pairing as discrete logs (e(a,b)=a*b), ark-ff/ark-ec/ark-poly/ark-serialize primitives, hashes and sponges as oracles",
]


def load_known():
    p = os.path.join(VERIF, "known_findings.json")
    if not os.path.exists(p):
        return {"findings": [], "fixed": []}
    return json.load(open(p))


def load_corpus(pid):
    d = os.path.join(VERIF, "corpus", pid)
    out = []
    if os.path.isdir(d):
        for f in sorted(os.listdir(d)):
            if f.endswith(".json"):
                j = json.load(open(os.path.join(d, f)))
                c = Case.from_json(j["case"])
                c.id = "corpus-" + f[:-5]
                c.meta["corpus"] = f
                out.append(c)
    return out


def write_evidence(pid, ev):
    os.makedirs(os.path.join(VERIF, "evidence"), exist_ok=True)
    with open(os.path.join(VERIF, "evidence", pid + ".json"), "w") as f:
        json.dump(ev, f, indent=1, sort_keys=True)


def write_replay(pid, tag, payload):
    d = os.path.join(VERIF, "replays")
    os.makedirs(d, exist_ok=True)
    h = hashlib.sha256(json.dumps(payload, sort_keys=True, default=str).encode()).hexdigest()[:12]
    p = os.path.join(d, "%s-%s-%s.json" % (pid, tag, h))
    with open(p, "w") as f:
        json.dump(payload, f, indent=1, default=str)
    return p


def matches_known(pid, failure, known):
    for k in known.get("findings", []):
        if k["property"] != pid:
            continue
        if k.get("kind") and k["kind"] != failure.get("kind"):
            continue
        if all(s in failure["what"] for s in k.get("what_contains", [])):
            return k
    return None


def case_signature(case):
    """what makes a generated case 'distinct and non-trivial' for the evidence counts"""
    return hashlib.sha256(case.text().encode()).hexdigest()


def setup():
    t = {}
    t["coq_s"] = build.build_coq()
    t["runner_s"] = build.build_runner()
    t["harness_s"] = build.build_harness(True)
    return t


def run_property(pid, tier, seed):
    t0 = time.time()
    cfg = registry.PROPS[pid]
    known = load_known()
    violations = []     # (tag, payload, found_input: bool)
    known_lines = []
    notes = {}

    # ---- 1. builds -------------------------------------------------------
    try:
        notes["build"] = setup()
    except build.BuildError as e:
        payload = {"property": pid, "what": "build failed", "detail": str(e)}
        p = write_replay(pid, "build", payload)
        print(str(e)[-3000:])
        write_evidence(pid, {"property_id": pid, "tier": tier, "seed": seed, "level": "proof",
                             "coverage": {"obligations": 0, "discharged": 0, "checker_cmd": "coqc (build failed)",
                                          "trusted_base": TRUSTED_BASE, "evaluations": 0, "distinct_nontrivial": 0},
                             "wall_s": time.time() - t0, "violations": 1})
        print("VIOLATION property=%s replay=%s build-failed no-failing-input-found" % (pid, p))
        return 1

    # ---- 2. proof audit ---------------------------------------------------
    hits = build.grep_forbidden()
    theorems = []
    try:
        theorems, coq_out = build.print_assumptions(cfg["props_file"])
    except build.BuildError as e:
        violations.append(("proof", {"property": pid, "what": "theorem file no longer checks",
                                     "file": cfg["props_file"], "detail": str(e)[-3000:]}, False))
    bad_axioms = []
    for name, st in theorems:
        if st != "closed":
            extra = [a for a in st if a not in AXIOM_ALLOW]
            if extra:
                bad_axioms.append((name, extra))
    if hits:
        violations.append(("audit", {"property": pid, "what": "forbidden construct in the Coq development", "hits": hits}, False))
    if bad_axioms:
        violations.append(("axioms", {"property": pid, "what": "theorem depends on axioms outside the allow-list",
                                      "theorems": bad_axioms}, False))
    obligations = len(theorems)
    discharged = len([1 for n, st in theorems if st == "closed" or all(a in AXIOM_ALLOW for a in st)])

    # ---- 3. cases ---------------------------------------------------------
    rng = random.Random("%s/%s/%d" % (pid, tier, seed))
    cases = load_corpus(pid)
    ncorpus = len(cases)
    dist = {}
    for (gen, profile, nq, nt) in cfg["flows"]:
        got = gen(rng, tier, profile, nq if tier == "quick" else nt)
        cases.extend(got)
    for c in cases:
        for s in c.meta.get("shapes", []):
            dist[s] = dist.get(s, 0) + 1
        dist["kind:" + c.kind] = dist.get("kind:" + c.kind, 0) + 1

    # ---- 4. correspondence --------------------------------------------------
    eng = Engine(pid)
    try:
        lib, model, diffs, compared = eng.run_all(cases, cfg.get("filter"), cfg.get("comparators"))
    except build.BuildError as e:
        violations.append(("engine", {"property": pid, "what": "harness or runner crashed", "detail": str(e)[-3000:]}, False))
        lib, model, diffs, compared = {}, {}, [], 0
    by_id = {c.id: c for c in cases}

    # ---- 4b. the same scenarios under other schedules / feature sets (C18) -----------------
    schedule_failures = []
    digests = {}
    if cfg.get("configs"):
        import hashlib

        def canon(res):
            h = hashlib.sha256()
            for cid in sorted(res):
                h.update(cid.encode())
                for part in ("obs", "in"):
                    for name, v in res[cid].get(part, {}).items():
                        h.update(("%s %s %s\n" % (part, name, v)).encode())
            return h.hexdigest()
        digests["reference (parallel, default threads)"] = canon(lib)
        configs = cfg["configs"] if tier != "quick" else cfg["configs"][:cfg.get("configs_quick", len(cfg["configs"]))]
        for (label, par, threads) in configs:
            try:
                if not par:
                    build.build_harness(parallel=False)
                e2 = Engine(pid + "-cfg", parallel=par, threads=threads)
                other = e2.run_harness(cases)
                e2.cleanup()
            except build.BuildError as e:
                violations.append(("engine", {"property": pid, "what": "harness (%s) failed" % label, "detail": str(e)[-3000:]}, False))
                continue
            digests[label] = canon(other)
            for c in cases:
                a, b = lib.get(c.id, {}), other.get(c.id, {})
                for part in ("obs", "in"):
                    names = list(a.get(part, {}).keys()) + [k for k in b.get(part, {}) if k not in a.get(part, {})]
                    for name in names:
                        if a.get(part, {}).get(name) != b.get(part, {}).get(name):
                            schedule_failures.append({"case": c.id, "kind": c.kind, "config": label, "name": name,
                                                      "reference": a.get(part, {}).get(name), "other": b.get(part, {}).get(name),
                                                      "what": "%s: output '%s' differs between the reference run (parallel feature, default thread count) and %s"
                                                              % (c.meta.get("scheme", c.kind), name, label)})
                            break
                    else:
                        continue
                    break
    notes["digests"] = digests

    # ---- 5. oracle on the implementation (search for a concrete failing input) ----
    failures = []
    for c in cases:
        lo = lib.get(c.id, {}).get("obs", {})
        c.meta["_lib_in"] = lib.get(c.id, {}).get("in", {})
        for orc in cfg["oracles"]:
            for what in orc(c, lo):
                failures.append({"case": c.id, "kind": c.kind, "what": what})
    # a decision where the implementation accepts and the (proved) model does not is a concrete
    # failing input: the theorems state when the model accepts
    for d in diffs:
        if d["name"].startswith(tuple(cfg.get("accept_diffs", ()))) and cfg.get("accept_diffs") \
                and d["lib"] == "accept" and d["model"] in ("reject", "refused"):
            c = by_id[d["case"]]
            failures.append({"case": c.id, "kind": c.kind,
                             "what": "%s %s: implementation accepts where the proved model answers %s (%s)"
                                     % (c.meta.get("scheme", c.kind), d["name"], d["model"], " ".join(c.fields.get(d["name"], []))[:80])})
    failures.extend(schedule_failures)
    reported_cases = set()
    for f in failures:
        k = matches_known(pid, f, known)
        if k is not None:
            line = "KNOWN-FINDING: property=%s %s" % (pid, k["id"] + ": " + k["summary"])
            if line not in known_lines:
                known_lines.append(line)
            continue
        if f["case"] in reported_cases:
            continue
        reported_cases.add(f["case"])
        c = by_id[f["case"]]
        violations.append(("input", {"property": pid, "what": f["what"], "case": c.to_json(),
                                     "schedule": {k: f[k] for k in ("config", "name", "reference", "other") if k in f},
                                     "lib": lib.get(c.id), "model": model.get(c.id),
                                     "diffs": [d for d in diffs if d["case"] == c.id]}, True))
    # correspondences that broke without an oracle failure on that case
    diff_cases = []
    for d in diffs:
        if d["case"] not in reported_cases and d["case"] not in diff_cases:
            diff_cases.append(d["case"])
    if diff_cases:
        first = by_id[diff_cases[0]]
        violations.append(("corr", {"property": pid,
                                    "what": "correspondence model/implementation no longer checks and no property-level failing input was found",
                                    "correspondence": sorted(set("%s:%s" % (by_id[d["case"]].kind, d["name"].split(".")[0]) for d in diffs)),
                                    "n_diverging_cases": len(diff_cases),
                                    "case": first.to_json(), "lib": lib.get(first.id), "model": model.get(first.id),
                                    "diffs": [d for d in diffs if d["case"] == first.id]}, False))
    eng.cleanup()

    # ---- 6. evidence ---------------------------------------------------------
    sigs = set(case_signature(c) for c in cases)
    samples = [{"case": c.to_json()["fields"], "kind": c.kind,
                "library": {k: v[1] for k, v in list(lib.get(c.id, {}).get("obs", {}).items())[:12]}}
               for c in cases[ncorpus:ncorpus + 2]]
    ev = {
        "property_id": pid, "tier": tier, "seed": seed, "level": "proof",
        "coverage": {
            "obligations": max(obligations, 1) if theorems else 0,
            "discharged": discharged,
            "checker_cmd": "cd coq && coq_makefile -f _CoqProject -o Makefile && make -j16 && coqc %s (Print Assumptions parsed)" % cfg["props_file"],
            "trusted_base": TRUSTED_BASE,
            "theorems": [{"name": n, "assumptions": st} for n, st in theorems],
            "evaluations": len(cases),
            "distinct_nontrivial": len(sigs),
            "rule": "cases generated from one PRNG seeded by (property, tier, VERIF_SEED) plus the committed corpus; "
                    "distinct = distinct scenario text; every case runs the library and the extracted model and compares the listed observables",
            "observables_compared": compared,
            "traces_validated_against_impl": len(cases) - len(set(d["case"] for d in diffs)),
            "input_distribution": dist,
            "samples": samples,
            "corpus_cases": ncorpus,
            "correspondence_diffs": len(diffs),
            "oracle_failures": len(failures),
            "known_findings_hit": known_lines,
            "schedule_digests": notes.get("digests", {}),
            "timing": {"harness_s": round(eng.harness_s, 2), "runner_s": round(eng.runner_s, 2), **{k: round(v, 2) for k, v in notes.get("build", {}).items()}},
        },
        "assumptions": TRUSTED_BASE,
        "wall_s": round(time.time() - t0, 2),
        "violations": len(violations),
    }
    write_evidence(pid, ev)

    for l in known_lines:
        print(l)
    if not violations:
        print("OK property=%s tier=%s theorems=%d/%d cases=%d observables=%d wall=%.1fs"
              % (pid, tier, discharged, obligations, len(cases), compared, time.time() - t0))
        return 0
    for tag, payload, found in violations[:5]:
        p = write_replay(pid, tag, payload)
        print("  detail: %s" % payload.get("what"))
        print("VIOLATION property=%s replay=%s%s" % (pid, p, "" if found else " no-failing-input-found"))
    return 1


def replay(path):
    j = json.load(open(path))
    pid = j["property"]
    if "case" not in j:
        print(json.dumps(j, indent=1)[:4000])
        return 1
    setup()
    cfg = registry.PROPS[pid]
    c = Case.from_json(j["case"])
    eng = Engine("replay")
    lib, model, diffs, compared = eng.run_all([c], cfg.get("filter"), cfg.get("comparators"))
    eng.cleanup()
    lo = lib.get(c.id, {}).get("obs", {})
    c.meta["_lib_in"] = lib.get(c.id, {}).get("in", {})
    fails = []
    for orc in cfg["oracles"]:
        fails += orc(c, lo)
    print("case %s kind %s" % (c.id, c.kind))
    for k, v in lo.items():
        print("  lib   %s = %s" % (k, " ".join(v[1])[:200]))
    for d in diffs:
        print("  DIFF  %s lib=%s model=%s" % (d["name"], d["lib"][:120], d["model"][:120]))
    for f in fails:
        print("  FAIL  %s" % f)
    if fails or diffs:
        print("VIOLATION property=%s replay=%s%s" % (pid, path, "" if fails else " no-failing-input-found"))
        return 1
    print("replay: property holds on this input now")
    return 0


def main(argv):
    if not argv:
        print(__doc__)
        return 2
    if argv[0] == "setup":
        try:
            t = setup()
            build.build_harness(False) if os.environ.get("PC_BUILD_NOPAR") else None
        except build.BuildError as e:
            print(str(e))
            return 1
        print("setup ok", t)
        return 0
    if argv[0] == "replay":
        return replay(argv[1])
    ap = argparse.ArgumentParser()
    ap.add_argument("pid")
    ap.add_argument("--tier", default=os.environ.get("VERIF_TIER", "quick"))
    ap.add_argument("--seed", type=int, default=int(os.environ.get("VERIF_SEED", "1")))
    a = ap.parse_args(argv)
    if a.pid not in registry.PROPS:
        print("unknown property", a.pid)
        return 2
    return run_property(a.pid, a.tier, a.seed)
