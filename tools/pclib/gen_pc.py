"""Scenario generators for the generic `pc` flow (every scheme behind the PolynomialCommitment trait)."""
from .proto import Case
from .gen_common import rf, rf_nz, rf_uniform, rand_poly, sweep_choice, R_BLS381

R_JUBJUB = 6554484396890773809930967563523245729705921265872317281365359162392183254199

FIELD = {"marlin": R_BLS381, "sonic": R_BLS381, "pst13": R_BLS381, "ligero_uni": R_BLS381, "ligero_ml": R_BLS381,
         "brakedown_ml": R_BLS381, "ipa": R_JUBJUB, "hyrax": R_JUBJUB}
UNIVARIATE = ("marlin", "sonic", "ipa", "ligero_uni")
MULTILINEAR = ("hyrax", "ligero_ml", "brakedown_ml")
HAS_BOUNDS = ("marlin", "sonic", "ipa")
HIDING = ("marlin", "sonic", "ipa", "pst13", "hyrax")
ALL = ("marlin", "sonic", "ipa", "pst13", "hyrax", "ligero_uni", "ligero_ml", "brakedown_ml")


def _poly_uni(rng, p, maxlen, key="uni"):
    return rand_poly(rng, maxlen, p, key=key)


def _poly_ml(rng, p, nv, key="ml"):
    n = 1 << nv
    shape = sweep_choice(rng, ("poly_ml", key), ["dense", "dense", "zero", "const", "sparse", "one"])
    if shape == "zero":
        return [0] * n, shape
    if shape == "const":
        v = rf_uniform(rng, p)
        return [v] * n, shape
    if shape == "one":
        ev = [0] * n
        ev[rng.randrange(n)] = rf_uniform(rng, p)
        return ev, shape
    if shape == "sparse":
        ev = [0] * n
        for _ in range(rng.randint(1, max(1, n // 3))):
            ev[rng.randrange(n)] = rf_uniform(rng, p)
        return ev, shape
    return [rf_uniform(rng, p) for _ in range(n)], shape


def _all_monomials(nv, deg):
    out = []

    def rec(v, left, cur):
        if v == nv:
            out.append(tuple((i, e) for i, e in enumerate(cur) if e))
            return
        for e in range(left + 1):
            rec(v + 1, left - e, cur + [e])
    rec(0, deg, [])
    return out


def _poly_pst13(rng, p, nv, deg, dense_ok=False):
    """sparse multivariate: tokens (coeff k (var pow){k})*, total degree <= deg; mixed monomials"""
    opts = (["mixed", "mixed", "zero", "const", "univariate_sum", "single"] + (["dense", "dense", "mixed", "topdeg"] if dense_ok else [])
            + (["powmix", "powmix", "topdeg"] if nv >= 2 and deg >= 3 else []))
    shape = sweep_choice(rng, ("poly_pst13", tuple(opts)), opts)
    terms = {}
    if shape == "powmix":       # a repeated variable times a higher-indexed one (x_i^k * x_j ..., k >= 2, i < j), plus a few other terms
        for _ in range(rng.randint(1, 3)):
            i = rng.randrange(nv - 1)
            k = rng.randint(2, deg - 1)
            exps = {i: k}
            for _ in range(rng.randint(1, deg - k)):
                v = rng.randrange(i + 1, nv)
                exps[v] = exps.get(v, 0) + 1
            terms[tuple(sorted(exps.items()))] = rf_uniform(rng, p)
        if rng.random() < 0.5:
            terms[()] = rf_uniform(rng, p)
        if rng.random() < 0.5:
            terms[((rng.randrange(nv), 1),)] = rf_uniform(rng, p)
    if shape == "dense":
        for mon in _all_monomials(nv, deg):
            terms[mon] = rf_uniform(rng, p)
    if shape == "topdeg":       # mixed monomials of exactly the supported degree
        for _ in range(rng.randint(1, 5)):
            exps = {}
            for _ in range(deg):
                v = rng.randrange(nv)
                exps[v] = exps.get(v, 0) + 1
            terms[tuple(sorted(exps.items()))] = rf_uniform(rng, p)
    if shape == "zero":
        return [], shape
    if shape == "const":
        terms[()] = rf_uniform(rng, p)
    elif shape in ("dense", "topdeg", "powmix"):
        pass
    else:
        nt = 1 if shape == "single" else rng.randint(1, 6)
        for _ in range(nt):
            d = rng.randint(0, deg)
            exps = {}
            if shape == "univariate_sum":
                if d:
                    exps[rng.randrange(nv)] = d
            else:
                for _ in range(d):
                    v = rng.randrange(nv)
                    exps[v] = exps.get(v, 0) + 1
            terms[tuple(sorted(exps.items()))] = rf_uniform(rng, p)
    toks = []
    for mon, coeff in terms.items():
        toks += [coeff, len(mon)]
        for (v, e) in mon:
            toks += [v, e]
    return toks, shape


LINCODE_MUTS = ["col_tamper", "col_tamper", "col_swap", "path_swap", "both_swap", "dup_col", "path_index", "path_node", "trunc_cols",
                "trunc_paths", "extra_col", "v_tamper", "v_stretch", "v_shorten", "wf_tamper", "wf_drop", "wf_stretch", "list_drop", "list_extend"]
PROOF_MUTS = {
    "ipa": ["l_tamper", "r_tamper", "final_key", "c_tamper", "drop_round", "extra_round_identity", "extra_round_random", "unbalanced",
            "rand_tamper", "hiding_comm_tamper", "hiding_drop"],
    "pst13": ["w_tamper", "w_shorter", "w_longer", "w_swap", "rv", "rv_drop"],
    "hyrax": ["com_eval", "com_d", "com_b", "z_tamper", "z_stretch", "z_shorten", "z_d", "z_b", "r_eval", "list_drop", "list_extend"],
    "ligero_uni": LINCODE_MUTS, "ligero_ml": LINCODE_MUTS, "brakedown_ml": LINCODE_MUTS,
    "marlin": ["w_add", "rv"], "sonic": ["w_add", "rv"],
}
# surplus data the verifier never looks at: no expectation with the TRUE value (still "reject" with a false one)
BENIGN_WITH_TRUE_VALUE = {"extra_col", "list_extend", "w_longer", "w_shorter"}   # w_shorter: a dropped identity witness is the same relation


def proof_mut_args(rng, scheme, kind, p):
    if scheme in ("marlin", "sonic"):
        return [rf_nz(rng, p)] if kind == "w_add" else [rng.choice(["none", rf_uniform(rng, p)])]
    return [rng.randrange(64), rng.randrange(1, 1 << 30)]



def _fs_binds(c, scheme, idxs):
    """is a proof expected to be rejected under another transcript?  For the code-based schemes the number of queried
    columns is capped by the codeword length, so on toy codewords (a handful of columns) another transcript derives the
    same positions with noticeable probability and the proof verifies, by design: no expectation there."""
    if scheme not in ("ligero_uni", "ligero_ml", "brakedown_ml"):
        return True
    if scheme == "ligero_uni":
        return any((not c.meta["const"][i]) and len(c.fields["poly.%d" % i]) >= 17 for i in idxs)
    return int(c.fields["num_vars"][0]) >= 5 and any(not c.meta["const"][i] for i in idxs)


def make_case(rng, cid, scheme, tier, opts=None):
    """Builds an in-domain honest scenario; `opts` tune sizes and shapes."""
    opts = opts or {}
    p = FIELD[scheme]
    big = tier != "quick"
    c = Case(cid, "pc")
    c.set("scheme", scheme)
    c.set("modulus", p)
    num_vars = None
    bounds_list = None
    if scheme in ("marlin", "sonic"):
        D = opts.get("D") or rng.choice([1, 2, 3, rng.randint(2, 40 if big else 16), rng.randint(2, 40 if big else 16)])
        s = opts.get("s") or rng.randint(1, D)
        sh = rng.randint(0, min(D, opts.get("sh_max", 4))) if rng.random() < 0.8 else 0
        if opts.get("sh_max") and D >= 3:
            sh = max(sh, rng.randint(2, min(D, opts["sh_max"])))
        if opts.get("bounds", True) and rng.random() < opts.get("bounds_p", 0.7):
            k = rng.randint(1, 3)
            bounds_list = [rng.randint(1, s) for _ in range(k)]
            if rng.random() < 0.3:
                bounds_list.append(bounds_list[0])  # duplicate, unsorted on purpose
        if opts.get("known_srs", True):
            c.set("beta", rf_uniform(rng, p)).set("g", rf_uniform(rng, p)).set("gamma", rf_uniform(rng, p)).set("h", rf_uniform(rng, p))
    elif scheme == "ipa":
        D = opts.get("D") or rng.choice([1, 3, 7, 15, 31] if big else [1, 3, 7, 15])
        s = opts.get("s") or rng.choice([x for x in [1, 3, 7, 15, 31] if x <= D] + [rng.randint(1, D)])
        sh = 1
        if opts.get("bounds", True) and rng.random() < opts.get("bounds_p", 0.6):
            bounds_list = [rng.randint(1, s) for _ in range(rng.randint(1, 2))]
    elif scheme == "pst13":
        num_vars = rng.choice([1, 2, 2, 3, 3, 4] if big else [1, 2, 2, 3, 3])
        D = rng.choice([1, 2, 3, 3, 4, 4] if big else [1, 2, 3, 3, 4])
        if opts.get("pst_grid"):        # the grid of C15
            num_vars, D = opts["pst_grid"]
        s = rng.randint(1, D)
        if rng.random() < 0.5:
            s = D
        sh = rng.randint(1, 2)
    elif scheme == "hyrax":
        num_vars = opts.get("num_vars") or rng.choice([2, 4, 6] if big else [2, 4])
        D, s, sh = 1, 1, 1
    elif scheme in ("ligero_ml", "brakedown_ml"):
        num_vars = opts.get("num_vars") or (rng.randint(1, 7 if big else 5) if scheme == "ligero_ml" else rng.randint(2, 6 if big else 5))
        D, s, sh = 1, 1, 0
    else:  # ligero_uni
        D = 1 << 10
        s = opts.get("s") or rng.randint(1, 96 if big else 40)
        sh = 0
    if scheme in ("ligero_uni", "ligero_ml", "brakedown_ml") and rng.random() < 0.5:
        # parameters other than the hard-wired defaults: (security level, inverse rate, well-formedness check)
        c.set("lig", rng.choice([128, 128, 80, 100]), rng.choice([4, 2, 4, 8]), rng.choice([0, 0, 1]))
    c.set("max_degree", D).set("num_vars", num_vars if num_vars is not None else "none").set("setup_seed", rng.randrange(2 ** 63))
    c.set("supported_degree", s).set("supported_hiding", sh)
    c.set("bounds", bounds_list if bounds_list else "none")
    eff_s = s
    if scheme == "ipa":
        eff_s = (1 << (s + 1 - 1).bit_length()) - 1 if (s + 1) & s else s   # trim rounds supported_degree+1 up to a power of two
    n = opts.get("n") or rng.randint(1, 4)
    c.set("n", n)
    shapes = []
    label_pool = rng.sample(range(100), n)
    polys = []
    for i in range(n):
        bound = "none"
        hiding = "none"
        if scheme in UNIVARIATE:
            maxlen = s + 1
            if scheme in HAS_BOUNDS and bounds_list and rng.random() < opts.get("bound_p", 0.6):
                b = rng.choice(bounds_list)
                maxlen = min(maxlen, b + 1)
                bound = b
            coeffs, shape = _poly_uni(rng, p, maxlen, key=scheme)
        elif scheme in MULTILINEAR:
            coeffs, shape = _poly_ml(rng, p, num_vars, key=scheme)
        else:
            coeffs, shape = _poly_pst13(rng, p, num_vars, s, dense_ok=bool(opts.get("pst_grid")))
        if scheme == "hyrax":
            hiding = "none"
        elif scheme in HIDING and opts.get("hiding", True) and rng.random() < opts.get("hiding_p", 0.6):
            if scheme in ("marlin", "sonic"):
                hmax = sh if bound == "none" else min(sh, bound)
                hiding = rng.randint(1, hmax) if hmax >= 1 else "none"
            elif scheme == "ipa":
                hiding = rng.randint(1, 3)
            elif scheme == "pst13":
                hiding = rng.randint(1, s)
        c.set("poly.%d" % i, coeffs).set("label.%d" % i, label_pool[i]).set("bound.%d" % i, bound).set("hiding.%d" % i, hiding)
        shapes.append("%s:%s%s%s" % (scheme, shape, "+b" if bound != "none" else "", "+h" if hiding != "none" else ""))
        polys.append(coeffs)
    c.set("commit_seed", rng.randrange(2 ** 63)).set("commit_rng", "some")
    npts = opts.get("npts") or rng.randint(1, 3)
    c.set("npts", npts)
    dim = 1 if scheme in UNIVARIATE else num_vars
    for j in range(npts):
        if dim > 1 and rng.random() < 0.35:
            # hypercube-like points: coordinates 0 and 1 among random ones (fast paths of the multivariate provers)
            c.set("pt.%d" % j, [rng.choice([0, 0, 1]) if rng.random() < 0.45 else rf_uniform(rng, p) for _ in range(dim)])
        else:
            c.set("pt.%d" % j, [rf(rng, p) if rng.random() < 0.3 else rf_uniform(rng, p) for _ in range(dim)])
    c.set("sponge_pre", [rf_uniform(rng, p) for _ in range(rng.randint(0, 2))])
    c.meta.update({"scheme": scheme, "shapes": shapes, "in_domain": True, "n": n, "npts": npts, "polys_equal": _equal_pairs(polys, p),
                   "bounds_sorted": sorted(set(bounds_list)) if bounds_list else [], "eff_s": eff_s, "s": s, "D": D,
                   "const": [_is_const(scheme, q, p) for q in polys],
                   "zero": [_is_zero(scheme, q, p) for q in polys]})
    return c


def _trim(q, p):
    q = [x % p for x in q]
    while q and q[-1] == 0:
        q.pop()
    return q


def _equal_pairs(polys, p):
    out = []
    for i in range(len(polys)):
        for j in range(len(polys)):
            if i != j and _trim(polys[i], p) == _trim(polys[j], p):
                out.append((i, j))
    return out


def _is_zero(scheme, q, p):
    if scheme == "pst13":
        return len(q) == 0
    return all(x % p == 0 for x in q)


def _is_const(scheme, q, p):
    if scheme in UNIVARIATE:
        return len(_trim(q, p)) <= 1
    if scheme in MULTILINEAR:
        return len(set(x % p for x in q)) <= 1
    # pst13 token list: constant iff every term has k == 0
    i = 0
    while i < len(q):
        k = int(q[i + 1])
        if k:
            return False
        i += 2 + 2 * k
    return True


def add_history(rng, c, kinds=("single", "batch"), nops=None, perms=False, lc_opts=None):
    """appends a history of operations; returns description for the oracles"""
    n, npts = c.meta["n"], c.meta["npts"]
    scheme = c.meta["scheme"]
    p = FIELD[scheme]
    nops = nops or rng.randint(1, 3)
    ops = []
    nqs = 0
    nlcs = 0
    for t in range(nops):
        kind = rng.choice(kinds)
        c.set("open_seed.%d" % t, rng.randrange(2 ** 63)).set("check_seed.%d" % t, rng.randrange(2 ** 63))
        if kind == "single":
            sel = rng.sample(range(n), rng.randint(1, n))
            if rng.random() < 0.5:
                sel.sort()
            pt = rng.randrange(npts)
            c.set("op.%d" % t, "single", pt, sel)
            ops.append({"kind": "single", "pt": pt, "sel": sel})
        elif kind == "batch":
            # query set: several polynomials per point label, several labels sharing one point value,
            # one polynomial at many points; one point per point label (documented precondition)
            nlabels = rng.randint(1, 4)
            zl_to_pt = {zl: rng.randrange(npts) for zl in range(nlabels)}
            tr = set()
            for zl, pj in zl_to_pt.items():
                for i in rng.sample(range(n), rng.randint(1, n)):
                    tr.add((i, zl, pj))
            tr = sorted(tr)
            rng.shuffle(tr)
            c.set("qs.%d" % nqs, [x for t3 in tr for x in t3])
            c.set("op.%d" % t, "batch", nqs)
            op = {"kind": "batch", "qs": tr, "nlabels": len(set(z for _, z, _ in tr))}
            if perms:
                pp = list(range(n)); rng.shuffle(pp)
                vp = list(range(n)); rng.shuffle(vp)
                c.set("pperm.%d" % t, pp).set("vperm.%d" % t, vp)
                op["perm"] = True
            ops.append(op)
            nqs += 1
        else:  # lc
            lo = lc_opts or {}
            nl = rng.randint(1, 3)
            bounded = [i for i in range(n) if c.fields["bound.%d" % i][0] != "none"]
            unbounded = [i for i in range(n) if i not in bounded]
            lcs = []
            for k in range(nl):
                terms = []
                pool = unbounded if unbounded else None
                if pool is None or (bounded and lo.get("single_bounded", True) and rng.random() < 0.2):
                    # a degree-bounded polynomial may only appear alone with coefficient one
                    terms = [(1, rng.choice(bounded))]
                else:
                    for _ in range(rng.randint(1, 5)):
                        coeff = rng.choice([0, 1, p - 1, rf_uniform(rng, p), rf_uniform(rng, p)])
                        if lo.get("one", True) and rng.random() < 0.2:
                            terms.append((coeff, "one"))
                        else:
                            terms.append((coeff, rng.choice(pool)))
                    if all(tm == "one" for _, tm in terms):
                        terms.append((rf_uniform(rng, p), rng.choice(pool)))
                lcs.append((k, terms))
                toks = [k, len(terms)]
                for coeff, tm in terms:
                    toks += [coeff, tm]
                c.set("lcs.%d.%d" % (nlcs, k), toks)
            nlabels = rng.randint(1, 3)
            shared_values = lo.get("shared_values", True)
            zl_to_pt = {}
            for zl in range(nlabels):
                if shared_values:
                    zl_to_pt[zl] = rng.randrange(npts)
                else:
                    free = [j for j in range(npts) if j not in zl_to_pt.values()]
                    if not free:
                        break
                    zl_to_pt[zl] = rng.choice(free)
            tr = set()
            for zl, pj in zl_to_pt.items():
                for k in rng.sample(range(nl), rng.randint(1, nl)):
                    tr.add((k, zl, pj))
            tr = sorted(tr)
            c.set("lqs.%d" % nlcs, [x for t3 in tr for x in t3])
            c.set("op.%d" % t, "lc", nlcs, nlcs)
            ptvals = {}
            for zl, pj in zl_to_pt.items():
                ptvals.setdefault(tuple(c.fields["pt.%d" % pj]), set()).add(zl)
            ops.append({"kind": "lc", "lcs": lcs, "lqs": tr,
                        "shared_point_value": any(len(v) > 1 for v in ptvals.values())})
            nlcs += 1
    c.set("nops", nops)
    c.meta["ops"] = ops
    return c


def add_mutations(rng, c, profile):
    """profile selects the mutation catalogue; every mutation is annotated with the expectation
    'reject' (must not be accepted) or 'accept'."""
    scheme = c.meta["scheme"]
    p = FIELD[scheme]
    n, npts = c.meta["n"], c.meta["npts"]
    muts = []
    m = 0

    def put(t, kind, args, expect, note=""):
        nonlocal m
        c.set("mut.%d" % m, t, kind, args)
        muts.append({"m": m, "t": t, "kind": kind, "args": [str(a) for a in args], "expect": expect, "note": note})
        m += 1

    eq = set(c.meta["polys_equal"])
    for t, op in enumerate(c.meta["ops"]):
        if op["kind"] == "single":
            sel = op["sel"]
            if profile in ("c02", "c10"):
                put(t, "value", [rng.randrange(len(sel)), rng.choice([1, p - 1, rf_nz(rng, p)])], "reject")
                others = [j for j in range(npts) if c.fields["pt.%d" % j] != c.fields["pt.%d" % op["pt"]]]
                nonconst = any(not c.meta["const"][i] for i in sel)
                if others and nonconst:
                    put(t, "point", [rng.choice(others)], "reject?" , "point")
                k = rng.choice(sel)
                cand = [j for j in range(n) if j != k and (k, j) not in eq and c.fields["bound.%d" % j] == c.fields["bound.%d" % k]]
                if cand:
                    put(t, "comm_swap", [k, rng.choice(cand)], "reject")
            if profile in ("c03", "c10"):
                ot = [t2 for t2, o2 in enumerate(c.meta["ops"]) if t2 != t and o2["kind"] == "single"]
                if ot:
                    put(t, "proof_from", [rng.choice(ot)], "info")
                kinds = PROOF_MUTS.get(scheme, [])
                for kind in rng.sample(kinds, min(len(kinds), 7)):
                    args = [kind] + proof_mut_args(rng, scheme, kind, p)
                    if scheme in ("marlin", "sonic") and kind == "rv":
                        put(t, "proof_mut", args, "reject?", "rv")      # decided by the model (may be the identical value)
                        continue
                    if profile == "c10":
                        put(t, "proof_mut", args, "reject?" if kind in BENIGN_WITH_TRUE_VALUE else "reject")
                    else:
                        put(t, "proof_mut_v", args, "reject")
                if scheme == "ipa" and len(sel) == 1 and c.fields["bound.%d" % sel[0]][0] == "none":
                    put(t, "attack", ["padded_key"], "reject")
                if scheme in ("ligero_uni", "ligero_ml"):
                    # authentic columns and paths of the neighbouring leaves under a rotated row combination (cyclic code)
                    put(t, "attack", ["rs_transplant"], "reject")
            if profile in ("c11",):
                if any(not c.meta["const"][i] for i in sel):
                    put(t, "sponge_pre", [rf_uniform(rng, p)], "reject" if _fs_binds(c, scheme, sel) else "reject?", "tiny_code")
            if profile in ("c17", "c03", "c10") and scheme == "hyrax":
                # a commitment of another size than the point asks for (a surplus row / a missing row) is refused
                put(t, "comm_mut", [rng.choice(sel), rng.choice(["extra_row", "extra_row", "drop_row"])], "reject")
            if profile in ("c17", "c03", "c10") and scheme in ("ligero_uni", "ligero_ml", "brakedown_ml"):
                # commitment metadata that disagrees with the committed matrix: one more column is refused (the opened vector has
                # another length); one more row only matters when the well-formedness challenges depend on it (decided by the model)
                put(t, "comm_mut", [rng.choice(sel), "meta_cols"], "reject")
                put(t, "comm_mut", [rng.choice(sel), "meta_rows"], "reject?", "meta_rows")
            if profile in ("c04",) and scheme in ("marlin", "sonic", "ipa"):
                z = int(c.fields["pt.%d" % op["pt"]][0]) % p
                bl_all = c.meta.get("bounds_sorted") or []
                not_enforced = [b for b in range(1, c.meta["s"] + 1) if b not in bl_all]
                for k in sel:
                    bk = c.fields["bound.%d" % k][0]
                    if bk == "none":
                        # an unbounded commitment presented under a degree bound
                        nz = (not c.meta["zero"][k]) or c.fields["hiding.%d" % k][0] != "none"
                        if scheme == "ipa":
                            put(t, "comm_mut", [k, "add_bound", rng.randint(1, c.meta["eff_s"])], "reject")
                        else:
                            if not_enforced:
                                put(t, "comm_mut", [k, "add_bound", rng.choice(not_enforced)], "reject")
                            enf = [b for b in bl_all if b != c.meta["D"]]
                            if enf:
                                put(t, "comm_mut", [k, "add_bound", rng.choice(enf)], "reject" if nz and scheme == "sonic" else ("reject" if scheme == "marlin" else "reject?"), "add")
                        continue
                    if scheme != "ipa" and not_enforced:
                        # presented under a bound the keys were not trimmed for
                        put(t, "comm_mut", [k, "relabel_bound", rng.choice(not_enforced)], "reject")
                        # ... in particular the unenforced bounds next to the polynomial's own bound (a verifier key that
                        # rounds a bound to a neighbouring enforced one)
                        near = [b for b in not_enforced if abs(b - int(bk)) <= 2 or
                                not any(min(b, int(bk)) < e < max(b, int(bk)) for e in bl_all)]
                        for b in rng.sample(near, min(2, len(near))):
                            put(t, "comm_mut", [k, "relabel_bound", b], "reject")
                    coeffs = [int(x) for x in c.fields["poly.%d" % k]]
                    v = sum(co * pow(z, e, p) for e, co in enumerate(coeffs)) % p
                    hid = c.fields["hiding.%d" % k][0] != "none"
                    generic = (not c.meta["const"][k]) and v != 0 and z not in (0, 1, p - 1)
                    # a bound equal to the maximum (Sonic: shift by beta^0) / supported (IPA) degree shifts by nothing
                    top_bound = int(bk) == (c.meta["D"] if scheme != "ipa" else c.meta["eff_s"])
                    generic = generic and not top_bound
                    hid = hid and not top_bound
                    if scheme != "sonic":
                        # the degree-bound part is dropped (with / without keeping the label)
                        put(t, "comm_mut", [k, "drop_shifted"], "reject" if (generic or hid) and scheme != "marlin" else "reject?", "drop")
                        if scheme == "marlin":
                            put(t, "comm_mut", [k, "drop_shifted_keep_bound"], "reject")
                            put(t, "comm_mut", [k, "swap_parts"], "reject?", "swap")
                    else:
                        put(t, "comm_mut", [k, "drop_bound"], "reject" if generic or hid else "reject?", "drop")
                    # presented under another enforced bound
                    bl = c.meta.get("bounds_sorted") or []
                    others = [b for b in bl if b != int(bk)]
                    if scheme == "ipa":
                        others = [b for b in range(1, c.meta["eff_s"] + 1) if b != int(bk)][:]
                    if others:
                        b2 = rng.choice(others)
                        ok = generic and pow(z, abs(b2 - int(bk)), p) != 1
                        put(t, "comm_mut", [k, "relabel_bound", b2], "reject" if ok and scheme != "marlin" else "reject?", "relabel")
                    # the shifted part of another polynomial with the same bound
                    same = [j for j in range(n) if j != k and c.fields["bound.%d" % j][0] == bk and (k, j) not in eq]
                    if same:
                        put(t, "comm_swap", [k, rng.choice(same)], "reject")
        elif op["kind"] == "batch":
            nq = len(set((i, c.fields["pt.%d" % pj][0] if True else 0, tuple(c.fields["pt.%d" % pj])) for i, _, pj in op["qs"]))
            nkeys = len(set((i, tuple(c.fields["pt.%d" % pj])) for i, _, pj in op["qs"]))
            if profile in ("c02", "c05", "c10"):
                for kk in rng.sample(range(nkeys), min(nkeys, 6 if profile == "c02" else 2)):   # every position (capped)
                    put(t, "value", [kk, rng.choice([1, rf_nz(rng, p)])], "reject")
                if nkeys >= 2:
                    a, b = rng.sample(range(nkeys), 2)
                    put(t, "cancel", [a, b, rf_nz(rng, p)], "reject")
            if profile in ("c03", "c10", "c05"):
                kinds = PROOF_MUTS.get(scheme, [])
                for kind in rng.sample(kinds, min(len(kinds), 3)):
                    if kind in BENIGN_WITH_TRUE_VALUE or (scheme in ("marlin", "sonic") and kind == "rv"):
                        continue
                    put(t, "proof_mut", [rng.randrange(op["nlabels"]), kind] + proof_mut_args(rng, scheme, kind, p), "reject")
            if profile in ("c05", "c03"):
                nl = op["nlabels"]
                put(t, "proofs", ["empty"], "reject")
                if nl >= 2:
                    a, b = rng.sample(range(nl), 2)
                    put(t, "proofs", ["perm", a, b], "reject?", "perm")
                    put(t, "proofs", ["dup", a, b], "reject?", "dup")
                    put(t, "proofs", ["trunc", rng.randint(0, nl - 1)], "reject")
                put(t, "proofs", ["extend"], "reject")
            if profile in ("c01",):
                vp = list(range(n)); rng.shuffle(vp)
                put(t, "vperm", vp, "accept")
            if profile in ("c17",):
                # a query for a polynomial whose commitment is not supplied / whose evaluation is missing
                put(t, "drop_eval", [rng.randrange(nkeys)], "reject")
                used = sorted(set(i for i, _, _ in op["qs"]))
                put(t, "drop_comm", [rng.choice(used)], "reject")
            if profile in ("c11",):
                if any(not c.meta["const"][i] for i, _, _ in op["qs"]):
                    put(t, "sponge_pre", [rf_uniform(rng, p)],
                        "reject" if _fs_binds(c, scheme, [i for i, _, _ in op["qs"]]) else "reject?", "tiny_code")
        else:
            nkeys = len(set((k, tuple(c.fields["pt.%d" % pj])) for k, _, pj in op["lqs"]))
            if profile in ("c02",):
                # a changed claim at every (combination, point) position (capped): the same combination queried at several
                # points must be compared at each of them
                for kk in rng.sample(range(nkeys), min(nkeys, 6)):
                    put(t, "value", [kk, rng.choice([1, rf_nz(rng, p)])], "reject")
            if profile in ("c06",):
                put(t, "value", [rng.randrange(nkeys), rf_nz(rng, p)], "reject")
                k = rng.choice(sorted(set(k for k, _, _ in op["lqs"])))
                put(t, "const", [k, rf_nz(rng, p)], "reject")
                terms = op["lcs"][k][1]
                tk = rng.randrange(len(terms))
                if terms[tk][1] != "one" and not c.meta["zero"][terms[tk][1]]:
                    put(t, "coeff", [k, tk, rf_nz(rng, p)], "reject?", "coeff")
                put(t, "evals", [0, rf_nz(rng, p)], "reject")
    c.meta["muts"] = muts
    return c


_INJ_COUNT = {}
_INJ_TURN = {}


def inject_bound_violation(rng, c):
    """turns one polynomial of an honest marlin/sonic/ipa scenario into a request the committer must
    refuse (C04 / C17).  Returns the description or None."""
    scheme = c.meta["scheme"]
    p = FIELD[scheme]
    n = c.meta["n"]
    s, eff_s, D = c.meta["s"], c.meta["eff_s"], c.meta["D"]
    bl = c.meta["bounds_sorted"]
    i = rng.randrange(n)
    kinds = []
    if scheme in ("marlin", "sonic"):
        if bl:
            if any(b + 1 <= s for b in bl):
                kinds.append("deg_gt_bound")
            if [b for b in range(1, s + 1) if b not in bl]:
                kinds.append("bound_not_enforced")
        else:
            kinds.append("no_bounds_in_key")
        kinds.append("deg_gt_supported")
    else:
        kinds += ["deg_gt_bound_ipa", "bound_gt_supported_ipa", "deg_gt_supported"]
    # the kinds of refusal are swept per scheme, not left to chance: every kind comes up within len(kinds) injections
    # (the feasible kind used least so far in this run of the generator)
    if scheme == "ipa" and eff_s < 2:
        kinds.remove("deg_gt_bound_ipa")
    kind = min(kinds, key=lambda k: (_INJ_COUNT.get((scheme, k), 0), kinds.index(k)))
    _INJ_COUNT[(scheme, kind)] = _INJ_COUNT.get((scheme, kind), 0) + 1
    top = lambda length: [rf_uniform(rng, p) for _ in range(length - 1)] + [rf_nz(rng, p)]
    if kind == "deg_gt_bound":
        b = rng.choice([b for b in bl if b + 1 <= s])
        c.set("poly.%d" % i, top(b + 2)).set("bound.%d" % i, b)
    elif kind == "bound_not_enforced":
        b = rng.choice([b for b in range(1, s + 1) if b not in bl])
        c.set("poly.%d" % i, top(rng.randint(1, b + 1))).set("bound.%d" % i, b)
    elif kind == "no_bounds_in_key":
        b = rng.randint(1, s)
        c.set("poly.%d" % i, top(rng.randint(1, b + 1))).set("bound.%d" % i, b)
    elif kind == "deg_gt_supported":
        c.set("poly.%d" % i, top(eff_s + 1 + rng.randint(1, 2))).set("bound.%d" % i, "none").set("hiding.%d" % i, "none")
    elif kind == "deg_gt_bound_ipa":
        if eff_s < 2:
            return None
        b = rng.randint(1, eff_s - 1)
        c.set("poly.%d" % i, top(b + 2)).set("bound.%d" % i, b)
    elif kind == "bound_gt_supported_ipa":
        b = eff_s + rng.randint(1, 3)
        c.set("poly.%d" % i, top(rng.randint(1, eff_s + 1))).set("bound.%d" % i, b)
    c.meta["in_domain"] = False
    c.meta["refuse"] = {"poly": i, "why": kind}
    c.meta["shapes"].append("%s:refuse:%s" % (scheme, kind))
    return kind


def make_domain_case(rng, cid, scheme, tier):
    """a request outside the scheme's domain at setup or trim (C17)"""
    c = make_case(rng, cid, scheme, tier, {"known_srs": False})
    D = int(c.fields["max_degree"][0])
    kinds = {"marlin": ["setup_degree_zero", "trim_degree_gt_max", "trim_bound_gt_supported", "trim_hiding_gt_max"],
             "sonic": ["setup_degree_zero", "trim_degree_gt_max", "trim_bound_gt_supported"],
             "pst13": ["setup_degree_zero", "setup_no_vars", "setup_zero_vars", "trim_degree_gt_max"],
             "ipa": ["trim_degree_gt_max"],
             "hyrax": ["setup_odd_vars", "setup_no_vars"]}[scheme]
    kind = rng.choice(kinds)
    stage = "setup" if kind.startswith("setup") else "trim"
    if kind == "setup_degree_zero":
        c.set("max_degree", 0).set("supported_degree", 0)
    elif kind == "setup_no_vars":
        c.set("num_vars", "none")
    elif kind == "setup_zero_vars":
        c.set("num_vars", 0)
    elif kind == "setup_odd_vars":
        c.set("num_vars", rng.choice([1, 3, 5]))
    elif kind == "trim_degree_gt_max":
        if scheme == "ipa":
            Deff = (1 << D.bit_length()) - 1 if (D + 1) & D else D
            c.set("supported_degree", Deff + 1 + rng.randint(0, 3))
        else:
            c.set("supported_degree", D + rng.randint(1, 3))
    elif kind == "trim_bound_gt_supported":
        s = int(c.fields["supported_degree"][0])
        if s >= D and D >= 2 and rng.random() < 0.7:      # leave room between the supported and the maximum degree
            s = rng.randint(1, D - 1)
            c.set("supported_degree", s)
        # mostly a bound the parameters could serve (supported < bound <= max), sometimes one beyond them
        hi = rng.randint(s + 1, D) if s < D and rng.random() < 0.75 else s + rng.randint(1, 3)
        c.set("bounds", [hi] + ([rng.randint(1, s)] if rng.random() < 0.5 else []))
    elif kind == "trim_hiding_gt_max":
        c.set("supported_hiding", D + rng.randint(1, 3))
    c.meta["in_domain"] = False
    c.meta["refuse_stage"] = stage
    c.meta["refuse_kind"] = kind
    c.meta["shapes"] = ["%s:domain:%s" % (scheme, kind)]
    c.set("nops", 0)
    c.meta["ops"] = []
    c.meta["muts"] = []
    return c


_C19_COUNT = {}


def make_c19_case(rng, cid, scheme, tier, rung):
    """one rung of the size ladder: univariate degree 2^rung (rung 1..8), 2..12 variables for the multivariate schemes"""
    p = FIELD[scheme]
    opts = {"n": rng.randint(1, 3), "npts": rng.randint(1, 2)}
    # the option tags a size depends on (degree bound, hiding) are swept, not left to chance: every combination comes up
    # within five scenarios of a scheme (the fifth is the free mix)
    k = _C19_COUNT.get(scheme, 0)
    _C19_COUNT[scheme] = k + 1
    combo = [(1.0, 0.0), (0.0, 0.0), (1.0, 1.0), (0.0, 1.0), None][k % 5]
    if combo is not None and scheme in HIDING:
        opts["hiding_p"] = combo[1]
        if scheme in HAS_BOUNDS:
            opts["bound_p"] = combo[0]
            opts["bounds_p"] = 1.0 if combo[0] else 0.0
    if scheme in UNIVARIATE:
        deg = 1 << rung
        opts["s"] = deg + rng.choice([0, 0, 1, 3])
        opts["D"] = opts["s"] + rng.choice([0, 2, 5])
        if scheme == "ipa":
            # supported degrees at and around 2^k - 1, parameters equal to or larger than the trimmed key
            opts["s"] = rng.choice([deg - 1, deg - 1, deg, deg + 1, deg + 3])
            rounded = (1 << (opts["s"]).bit_length()) - 1 if (opts["s"] + 1) & opts["s"] else opts["s"]
            opts["D"] = rng.choice([rounded, 2 * rounded + 1, 2 * rounded + 1, 4 * rounded + 3])
    elif scheme == "pst13":
        nv = rung
        opts["pst_grid"] = (nv, 2 if nv > 6 else rng.randint(1, 3))
    else:
        nv = rung
        if scheme == "hyrax" and nv % 2:
            nv += 1
        opts["num_vars"] = nv
    if scheme == "ligero_uni" and rung > 8:
        opts["n"] = 1
    c = make_case(rng, cid, scheme, tier, opts)
    if scheme == "ligero_uni" and rung > 8:
        c.set("lig", 128, 4, rng.choice([0, 1]))
    n = c.meta["n"]
    if scheme in UNIVARIATE:
        for i in range(n):
            b = c.fields["bound.%d" % i][0]
            d = min(deg, int(c.fields["supported_degree"][0])) if b == "none" else min(deg, int(b))
            if scheme == "ligero_uni" and i > 0 and rng.random() < 0.5:
                d = rng.randint(1, deg)           # polynomials of different sizes in one scenario
            c.set("poly.%d" % i, [rf_uniform(rng, p) for _ in range(d)] + [rf_nz(rng, p)])
        c.meta["polys_equal"] = []
        c.meta["const"] = [False] * n
        c.meta["zero"] = [False] * n
    c.set("c19", 1)
    c.meta["shapes"] = ["%s:rung%d" % (scheme, rung)] + [x.split(":")[1] if ":" in x else x for x in c.meta["shapes"]]
    c.meta["model_silent_ok"] = False
    add_history(rng, c, kinds=("single",), nops=rng.randint(1, 3))
    c.meta["muts"] = []
    return c


def gen(rng, tier, profile, count, schemes=ALL):
    cases = []
    if profile == "c19":
        _C19_COUNT.clear()
        k = 0
        while len(cases) < count:
            scheme = schemes[k % len(schemes)]
            if scheme == "ligero_uni" and tier != "quick" and rng.random() < 0.4:
                rung = rng.randint(9, 14)            # beyond the ladder: where an unbalanced matrix becomes a linear-size proof
            elif scheme in UNIVARIATE:
                rung = rng.randint(1, 8 if tier != "quick" else 6)
            elif scheme == "pst13":
                rung = rng.randint(2, 12 if tier != "quick" else 6)
            else:
                rung = rng.randint(2, 12 if tier != "quick" else 8)
            cases.append(make_c19_case(rng, "c19-%s-%d" % (scheme, k), scheme, tier, rung))
            k += 1
        return cases
    if profile == "c18big":
        # sizes at which data-parallel code starts to split its work (chunks of 128 and more elements, several blocks per
        # thread): every scheme once per round, at the top of the size ladder
        _C19_COUNT.clear()
        for k in range(count):
            scheme = schemes[k % len(schemes)]
            if scheme in UNIVARIATE:
                rung = 8 if scheme != "ligero_uni" else 10
            elif scheme == "pst13":
                rung = 6
            else:
                rung = 10
            c = make_c19_case(rng, "c18big-%s-%d" % (scheme, k), scheme, tier, rung)
            c.fields.pop("c19", None)
            cases.append(c)
        return cases
    if profile == "c17domain":
        for k in range(count):
            scheme = ("marlin", "sonic", "pst13", "ipa", "hyrax")[k % 5]
            cases.append(make_domain_case(rng, "c17d-%s-%d" % (scheme, k), scheme, tier))
        return cases
    if profile == "c04domain":     # keys must not be trimmed for bounds above the supported degree
        for k in range(count):
            scheme = ("marlin", "sonic")[k % 2]
            while True:
                c = make_domain_case(rng, "c04d-%s-%d" % (scheme, k), scheme, tier)
                if c.meta["refuse_kind"] == "trim_bound_gt_supported":
                    break
            cases.append(c)
        return cases
    _INJ_COUNT.clear()
    _INJ_TURN.clear()
    if profile == "c04":
        schemes = ("marlin", "sonic", "ipa")
    if profile == "c07":
        schemes = HIDING
    if profile == "c15":
        schemes = ("pst13",)
    for k in range(count):
        scheme = schemes[k % len(schemes)]
        cid = "%s-%s-%d" % (profile, scheme, k)
        opts = {"hiding_p": 0.85, "bound_p": 0.8, "sh_max": 6} if profile == "c07" else None
        if profile == "c15":
            gmax = 6 if tier != "quick" else 4
            grid = [(a, b) for a in range(1, gmax + 1) for b in range(1, gmax + 1)]
            opts = {"pst_grid": grid[k % len(grid)] if tier != "quick" else rng.choice(grid), "hiding_p": 0.5, "n": rng.randint(1, 2)}
        c = make_case(rng, cid, scheme, tier, opts)
        if profile in ("c04", "c17") and scheme in ("marlin", "sonic", "ipa"):
            # every third (C04) / every second (C17) scenario of a scheme carries a request the committer must refuse
            turn = _INJ_TURN.get(scheme, 0)
            _INJ_TURN[scheme] = turn + 1
            if turn % (3 if profile == "c04" else 2) == 1:
                inject_bound_violation(rng, c)
        if profile == "c07":
            c.set("c07", 1)
        if profile == "c12":
            c.set("c12", 1)
            c.meta["model_silent_ok"] = False
        if profile == "c06":
            add_history(rng, c, kinds=("lc",), nops=rng.randint(1, 2))
        elif profile == "c11":
            add_history(rng, c, kinds=("single", "batch", "lc"), nops=rng.randint(2, 6 if tier != "quick" else 4),
                        lc_opts={"shared_values": False})
        elif profile == "c01":
            add_history(rng, c, kinds=("single", "batch", "batch"), perms=True)
        elif profile == "c05":
            # batches over commitment / polynomial lists in arbitrary order (the verifier must pair by label)
            add_history(rng, c, kinds=("batch", "batch", "single"), perms=True)
        elif profile == "c12":
            add_history(rng, c, kinds=("single", "batch", "lc"), nops=3, lc_opts={"shared_values": False})
        elif profile == "c02":
            # single check, batch_check and check_combinations (the property names all three)
            add_history(rng, c, kinds=("single", "batch", "lc"), nops=rng.randint(2, 3))
        else:
            add_history(rng, c, kinds=("single", "batch"))
        add_mutations(rng, c, "c02" if profile == "c15" else profile)
        cases.append(c)
    return cases
