"""C09 scenarios: KZG10 setup, Sonic trim against the parameters, transparent generators, Marlin trim (pc flow)."""
from .proto import Case
from . import gen_pc


def _bounds(rng, s):
    k = rng.random()
    if k < 0.2:
        return "none"
    if k < 0.3:
        return "empty"
    bl = [rng.randint(1, s) for _ in range(rng.randint(1, 4))]
    if rng.random() < 0.4:
        bl.append(bl[0])          # duplicated, unsorted
    return bl


def gen(rng, tier, profile, count):
    cases = []
    big = tier != "quick"
    for k in range(count):
        r = k % 6
        if r in (0, 1):
            c = Case("c09-kzg-%d" % k, "c09")
            D = rng.choice([1, 2, 3, rng.randint(1, 64 if big else 24)])
            if rng.random() < 0.08:
                D = 0
            c.set("sub", "kzg_setup").set("D", D).set("g2", rng.choice([0, 1])).set("seed", rng.randrange(2 ** 63))
            c.meta["shapes"] = ["kzg_setup:D%d" % D]
        elif r == 2:
            c = Case("c09-sonic-%d" % k, "c09")
            D = rng.randint(1, 40 if big else 16)
            s = rng.randint(1, D)
            c.set("sub", "sonic_trim").set("D", D).set("s", s).set("sh", rng.randint(0, min(D, 4))).set("seed", rng.randrange(2 ** 63))
            c.set("bounds", _bounds(rng, s))
            c.meta["shapes"] = ["sonic_trim"]
            c.meta["model_silent_ok"] = True
        elif r == 3:
            c = Case("c09-transparent-%d" % k, "c09")
            sch = rng.choice(["ipa", "hyrax"])
            D = rng.randint(1, 64 if big else 20)
            c.set("sub", "transparent").set("scheme", sch).set("D", D).set("s", rng.randint(1, D)).set("num_vars", rng.choice([2, 4, 6, 8] if big else [2, 4, 6]))
            c.set("seed", rng.randrange(2 ** 63))
            c.meta["shapes"] = ["transparent:" + sch]
            c.meta["model_silent_ok"] = True
        else:
            c = gen_pc.make_case(rng, "c09-marlintrim-%d" % k, "marlin", tier, {"n": 1, "npts": 1})
            s = int(c.fields["supported_degree"][0])
            b = _bounds(rng, s)
            c.set("bounds", b)
            if b not in ("none", "empty"):
                pass
            c.set("bound.0", "none").set("hiding.0", "none")
            c.set("poly.0", [1])
            c.set("nops", 0)
            c.meta["ops"] = []
            c.meta["muts"] = []
            c.meta["shapes"] = ["marlin_trim:%s" % ("none" if b == "none" else "empty" if b == "empty" else "bounds%d" % len(b))]
        c.meta["in_domain"] = True
        cases.append(c)
    return cases
