"""Correspondence engine: run the same cases through the library (harness) and the
model (extracted runner), convert model exponents to group elements, diff."""
import json
import os
import subprocess
import tempfile
import time

from . import build
from .proto import Case, parse_output

WORK = os.path.join(build.VERIF, ".work")
MODELLED_KINDS = {"kzg10", "c16", "c13", "c14", "c15", "mlpc"}
MODELLED_SUBS = {("c09", "kzg_setup")}   # case kinds for which the extracted model must answer
MODELLED_PC_SCHEMES = {"marlin", "sonic"}


def is_modelled(c):
    if c.kind in MODELLED_KINDS:
        return True
    if (c.kind, c.fields.get("sub", [""])[0]) in MODELLED_SUBS:
        return True
    if c.kind == "pc" and "c12" in c.fields:
        return True
    if c.kind == "c08":
        return c.fields.get("scheme", [""])[0] == "marlin" and "beta" in c.fields
    if c.kind == "pc":
        sch = c.fields.get("scheme", [""])[0]
        return (sch in MODELLED_PC_SCHEMES and "beta" in c.fields) or (sch in ("hyrax", "ipa", "pst13", "ligero_uni", "ligero_ml", "brakedown_ml") and "refuse_kind" not in c.meta)
    return False


def _run_to_text(cmd, timeout, env=None, input=None):
    p = subprocess.run(cmd, stdout=subprocess.PIPE, stderr=subprocess.PIPE, timeout=timeout, text=True,
                       env=env or build.ENV, input=input)
    return p.returncode, p.stdout, p.stderr


def _big_stack():
    """the extracted list functions are not tail recursive: give the runner the largest stack the sandbox allows"""
    import resource
    soft, hard = resource.getrlimit(resource.RLIMIT_STACK)
    for want in (resource.RLIM_INFINITY, hard, 4 << 30, 1 << 30):
        try:
            if want == resource.RLIM_INFINITY or hard == resource.RLIM_INFINITY or want <= hard:
                resource.setrlimit(resource.RLIMIT_STACK, (want, hard))
                return
        except (ValueError, OSError):
            continue


class Engine:
    def __init__(self, tag, parallel=True, threads=None):
        self.tag = tag
        self.parallel = parallel
        self.threads = threads
        os.makedirs(WORK, exist_ok=True)
        self.dir = tempfile.mkdtemp(prefix=tag + "-", dir=WORK)
        self.harness_s = 0.0
        self.runner_s = 0.0

    def cleanup(self):
        import shutil
        shutil.rmtree(self.dir, ignore_errors=True)

    def run_harness(self, cases, shards=8):
        """cases -> {id: {"obs":..., "in":...}}"""
        env = dict(build.ENV)
        if self.threads is not None:
            env["RAYON_NUM_THREADS"] = str(self.threads)
        t0 = time.time()
        res = {}
        n = max(1, min(shards, len(cases)))
        procs = []
        for k in range(n):
            part = cases[k::n]
            f = os.path.join(self.dir, "h-%d.cases" % k)
            with open(f, "w") as fh:
                for c in part:
                    fh.write(c.text())
            procs.append(subprocess.Popen([build.harness_bin(self.parallel), "run", f], stdout=subprocess.PIPE,
                                          stderr=subprocess.PIPE, text=True, env=env))
        for p in procs:
            out, err = p.communicate(timeout=7200)
            if p.returncode != 0:
                raise build.BuildError("harness crashed: rc=%s\n%s" % (p.returncode, err[-3000:]))
            res.update(parse_output(out))
        self.harness_s += time.time() - t0
        return res

    def run_runner(self, cases, lib, shards=8):
        t0 = time.time()
        res = {}
        n = max(1, min(shards, len(cases)))
        procs = []
        for k in range(n):
            part = cases[k::n]
            f = os.path.join(self.dir, "r-%d.cases" % k)
            with open(f, "w") as fh:
                for c in part:
                    fh.write(c.text(extra=lib.get(c.id, {}).get("in", {})))
            procs.append(subprocess.Popen([os.path.join(build.RUNNER, "runner"), f], stdout=subprocess.PIPE,
                                          stderr=subprocess.PIPE, text=True, preexec_fn=_big_stack))
        for p in procs:
            out, err = p.communicate(timeout=7200)
            if p.returncode != 0:
                raise build.BuildError("runner crashed: rc=%s\n%s" % (p.returncode, err[-3000:]))
            res.update(parse_output(out))
        self.runner_s += time.time() - t0
        return res

    def conv(self, requests):
        """requests: list of (type, [exp...]) -> list of [hex...]"""
        if not requests:
            return []
        text = "".join("%s %s\n" % (ty, " ".join(toks)) for ty, toks in requests)
        rc, out, err = _run_to_text([build.harness_bin(True), "conv"], 3600, input=text)
        if rc != 0:
            raise build.BuildError("harness conv failed\n" + err[-2000:])
        lines = out.split("\n")
        return [lines[i].split() for i in range(len(requests))]

    def compare(self, cases, lib, model, obs_filter=None, comparators=None):
        """-> list of diffs: dict(case, name, lib, model)"""
        diffs = []
        reqs = []
        where = []
        compared = 0
        for c in cases:
            lo = lib.get(c.id, {}).get("obs", {})
            mo = model.get(c.id, {}).get("obs", {})
            if "harness_panic" in lo:
                diffs.append({"case": c.id, "name": "harness_panic", "lib": "yes", "model": ""})
            if "runner_exception" in mo:
                diffs.append({"case": c.id, "name": "runner_exception", "lib": "", "model": " ".join(mo["runner_exception"][1])})
            names = list(mo.keys())   # the model decides what is compared; it emits every observable it predicts
            if not names and is_modelled(c) and not c.meta.get("model_silent_ok"):
                diffs.append({"case": c.id, "name": "model_silent", "lib": "", "model": "<the extracted model emitted nothing for a modelled kind>"})
            for name in names:
                if name in ("harness_panic", "runner_exception"):
                    continue
                if obs_filter is not None and not obs_filter(name):
                    continue
                compared += 1
                if name not in lo or name not in mo:
                    diffs.append({"case": c.id, "name": name,
                                  "lib": " ".join(lo[name][1]) if name in lo else "<absent>",
                                  "model": " ".join(mo[name][1]) if name in mo else "<absent>"})
                    continue
                ty, mt = mo[name]
                lty, lt = lo[name]
                if ty in ("G1", "G2") or ty.startswith("V:"):
                    reqs.append((ty, mt))
                    where.append((c.id, name, lt))
                elif ty.startswith("R:"):
                    # exponents relative to a base element the library itself published
                    base = lib.get(c.id, {}).get("in", {}).get(ty[2:])
                    if not base:
                        diffs.append({"case": c.id, "name": name, "lib": "<no base %s>" % ty[2:], "model": " ".join(mt)[:80]})
                    else:
                        reqs.append(("%s@%s" % (base[0], base[1]), mt))
                        where.append((c.id, name, lt))
                elif ty.startswith("L:"):
                    # formal combinations over a list of elements the library itself published (one token per element)
                    base = lib.get(c.id, {}).get("in", {}).get(ty[2:])
                    if not base:
                        diffs.append({"case": c.id, "name": name, "lib": "<no basis %s>" % ty[2:], "model": " ".join(mt)[:80]})
                    elif mt == ["-"] or lt == ["-"]:
                        if mt != lt:
                            diffs.append({"case": c.id, "name": name, "lib": " ".join(lt)[:80], "model": " ".join(mt)[:80]})
                    else:
                        reqs.append(("%sL@%s" % (base[0], ",".join(base[1:])), mt))
                        where.append((c.id, name, lt))
                elif comparators and name.split(".")[0] in comparators:
                    if not comparators[name.split(".")[0]](lt, mt):
                        diffs.append({"case": c.id, "name": name, "lib": " ".join(lt), "model": " ".join(mt)})
                elif mt != lt:
                    diffs.append({"case": c.id, "name": name, "lib": " ".join(lt), "model": " ".join(mt)})
        conv = self.conv(reqs)
        for (cid, name, lt), hexes in zip(where, conv):
            if hexes != lt:
                diffs.append({"case": cid, "name": name, "lib": " ".join(lt), "model": " ".join(hexes)})
        return diffs, compared

    def run_all(self, cases, obs_filter=None, comparators=None):
        lib = self.run_harness(cases)
        model = self.run_runner(cases, lib)
        diffs, compared = self.compare(cases, lib, model, obs_filter, comparators)
        return lib, model, diffs, compared
