"""C13 scenarios: calculate_t grid, index derivation, row encodings."""
from .proto import Case
from .gen_common import rf, rf_uniform, R_BLS381

BITS = {"bls381": 255, "ed": 252, "bn254": 254}


def _distance(rng):
    k = rng.random()
    if k < 0.45:
        rho = rng.randint(2, 16)
        return rho - 1, rho, "rs"
    if k < 0.60:
        return 61000, 1521000, "brakedown"
    if k < 0.95:
        d1 = rng.randint(2, 64)
        d0 = rng.randint(max(1, d1 // 30), d1 - 1)
        return d0, d1, "random"
    return rng.choice([(0, 5), (10, 5), (11, 5), (3, 0)]) + ("bad",)


def _n(rng):
    k = rng.randint(0, 40)
    return max(1, rng.choice([1 << k, (1 << k) + 1, (1 << k) - 1, rng.randrange(1, 1 << 40), rng.randrange(1, 1 << 16)]))


def gen(rng, tier, profile, count):
    cases = []
    big = tier != "quick"
    for k in range(count):
        r = k % 10
        if r < 7:
            c = Case("c13-calct-%d" % k, "c13")
            field = rng.choice(list(BITS))
            d0, d1, dk = _distance(rng)
            n = _n(rng)
            lam = rng.choice([128, 128, 80, 100, 1, 2, 256, rng.randint(1, 256), rng.randint(1, 256)])
            if rng.random() < 0.08:   # around the infeasibility boundary n * 2^lam ~ |F|
                lam = max(1, BITS[field] - n.bit_length() + rng.randint(-3, 2))
            c.set("sub", "calct").set("field", field).set("lam", lam).set("d0", d0).set("d1", d1).set("n", n)
            c.meta["shapes"] = ["calct:" + dk, "calct:" + field]
        elif r < 9:
            c = Case("c13-indices-%d" % k, "c13")
            n = rng.choice([1, 2, 3, 255, 256, 257, 65535, 65536, 65537, rng.randrange(1, 1 << 20), rng.randrange(1, 1 << 33), (1 << 40) + 7])
            t = rng.randint(0, 12)
            c.set("sub", "indices").set("n", n).set("t", t).set("pre", [rf_uniform(rng) for _ in range(rng.randint(0, 2))])
            c.meta["shapes"] = ["indices:%dB" % ((n.bit_length() + 7) // 8)]
        elif k % 20 == 9:
            scheme = rng.choice(["ligero_uni", "ligero_ml", "brakedown_ml"])
            c = Case("c13-proofshape-%d" % k, "c13")
            c.set("sub", "proofshape").set("scheme", scheme).set("seed", rng.randrange(2 ** 63))
            if scheme == "ligero_uni":
                deg = rng.choice([0, 1, 2, 7, rng.randint(1, 300 if big else 80)])
                c.set("max_degree", max(deg, 1) + rng.randint(0, 5)).set("num_vars", "none")
                c.set("poly", [rf_uniform(rng) for _ in range(deg + 1)]).set("pt", rf(rng))
            else:
                nv = rng.randint(2 if scheme == "brakedown_ml" else 1, 9 if big else 6)
                c.set("max_degree", 1).set("num_vars", nv)
                c.set("poly", [rf(rng) for _ in range(1 << nv)]).set("pt", [rf(rng) for _ in range(nv)])
            if scheme != "brakedown_ml" and rng.random() < 0.7:
                # explicit parameters: security level, inverse rate (powers of two and not), well-formedness check
                c.set("lig", rng.choice([80, 100, 128]), rng.choice([2, 3, 4, 5, 6, 7, 8]), rng.choice([0, 1]))
            c.meta["shapes"] = ["proofshape:" + scheme + (":rho%s" % c.fields["lig"][1] if "lig" in c.fields else "")]
        else:
            which = rng.choice(["rs", "rs", "encode"])
            c = Case("c13-%s-%d" % (which, k), "c13")
            if which == "rs":
                m = rng.choice([1, 2, 3, 4, 5, 8, rng.randint(1, 24)])
                c.set("sub", "rs").set("x", [rf(rng) for _ in range(m)]).set("rho_inv", rng.choice([1, 2, 3, 4, 4, 8]))
                c.meta["shapes"] = ["rs:m%d" % m]
            else:
                scheme = rng.choice(["ligero_uni", "ligero_ml", "brakedown_ml"])
                m = rng.randint(1, 16)
                c.set("sub", "encode").set("scheme", scheme).set("seed", rng.randrange(2 ** 63))
                c.set("max_degree", rng.randint(1, 200)).set("num_vars", rng.randint(2, 8 if big else 6))
                c.set("x", [rf(rng) for _ in range(m)]).set("y", [rf(rng) for _ in range(m)]).set("a", rf(rng)).set("b", rf(rng))
                c.meta["shapes"] = ["encode:" + scheme]
                c.meta["model_silent_ok"] = True     # judged by the implementation-level oracle (linearity, length)
        c.meta["in_domain"] = True
        cases.append(c)
    return cases
