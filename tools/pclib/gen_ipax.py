"""IPA check_combinations against a commitment that carries a shifted part without a degree bound (kind ipax): the honest
opening of (p1, q) presented for the claim p2(z) = q(z)."""
from .proto import Case
from .gen_common import rf_uniform, rf_nz

P_ED = 6554484396890773809930967563523245729705921265872317281365359162392183254199


def gen(rng, tier, profile, count):
    cases = []
    for k in range(count):
        c = Case("ipax-%d" % k, "ipax")
        d = rng.choice([1, 3, 7, 15] if tier == "quick" else [1, 3, 7, 15, 31])
        c.set("degree", d).set("seed", rng.randrange(2 ** 63))
        for name in ("p1", "p2", "q"):
            n = rng.randint(1, d + 1)
            c.set(name, [rf_uniform(rng, P_ED) for _ in range(n - 1)] + [rf_nz(rng, P_ED)])
        c.set("z", rf_uniform(rng, P_ED))
        c.meta["shapes"] = ["ipax:d%d" % d]
        c.meta["in_domain"] = True
        c.meta["model_silent_ok"] = True      # judged on the implementation; the modelled statement is C03_ipa_check_combinations_aligned
        cases.append(c)
    return cases
