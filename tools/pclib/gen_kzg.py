"""Scenario generators for the kzg10 flow."""
from .proto import Case
from .gen_common import rf, rf_nz, rf_uniform, rand_poly, R_BLS381


def base_case(rng, cid, tier, dmax=None, in_domain=True):
    dmax = dmax or (24 if tier == "quick" else 96)
    D = rng.choice([1, 2, 3, rng.randint(1, dmax), rng.randint(1, dmax)])
    s = rng.choice([D, rng.randint(0, D), rng.randint(0, D)])
    if s == 0 and rng.random() < 0.7:
        s = min(D, 1)
    c = Case(cid, "kzg10")
    c.set("D", D).set("s", s).set("g2", rng.choice([0, 1]))
    c.set("beta", rf_uniform(rng)).set("g", rf_uniform(rng)).set("gamma", rf_uniform(rng)).set("h", rf_uniform(rng))
    c.meta.update({"D": D, "s": s})
    return c, D, s


def add_polys(rng, c, s, n, hiding="mixed", in_domain=True):
    c.set("n", n)
    shapes = []
    for i in range(n):
        if in_domain:
            coeffs, shape = rand_poly(rng, s + 1)
        else:
            k = rng.choice(["toolong", "ok"])
            if k == "toolong":
                coeffs, shape = [rf_uniform(rng) for _ in range(s + 1 + rng.randint(1, 3))], "toolong"
            else:
                coeffs, shape = rand_poly(rng, s + 1)
        hb = "none"
        rngopt = "some"
        if hiding != "never" and s >= 1 and rng.random() < (0.6 if hiding == "mixed" else 0.9):
            # in-domain hiding bounds: blinding degree hb+1 must be < s+1
            hb = rng.choice([0, s - 1, rng.randint(0, s - 1)])
            if not in_domain:
                hb = rng.choice([s, s + 1, hb, hb])
                if rng.random() < 0.3:
                    rngopt = "none"
        elif not in_domain and rng.random() < 0.2:
            rngopt = "none"
        c.set("poly.%d" % i, coeffs)
        c.set("hb.%d" % i, hb).set("seed.%d" % i, rng.randrange(2 ** 63)).set("rng.%d" % i, rngopt)
        c.set("z.%d" % i, rf(rng))
        shapes.append(shape + ("+h" if hb != "none" else ""))
    c.meta["shapes"] = shapes
    c.meta["in_domain"] = in_domain
    return c


MUT_STATEMENT = ["value", "point", "comm_exp", "comm_of"]
MUT_PROOF = ["w_exp", "w_add", "proof_of", "rv"]
MUT_KEY = ["vk_g", "vk_gamma", "vk_h", "vk_beta_h"]


def add_mutations(rng, c, n, kinds, per_poly=3):
    j = 0
    muts = []
    for i in range(n):
        for kind in rng.sample(kinds, min(per_poly, len(kinds))):
            if kind == "value":
                arg = rng.choice([1, R_BLS381 - 1, rf_nz(rng)])
            elif kind in ("comm_of", "proof_of"):
                if n < 2:
                    continue
                arg = rng.choice([k for k in range(n) if k != i])
            elif kind == "rv":
                arg = rng.choice(["none", rf(rng), rf_uniform(rng)])
            else:
                arg = rf(rng)
            c.set("mut.%d" % j, i, kind, arg)
            muts.append((j, i, kind, str(arg)))
            j += 1
    c.meta["muts"] = muts
    return c


def add_batches(rng, c, n, nb=3):
    """batch.j: seed nitems (i delta)* proofs k*"""
    batches = []
    for j in range(nb):
        m = rng.randint(1, min(n, 4)) if n > 0 else 0
        idx = [rng.randrange(n) for _ in range(m)] if rng.random() < 0.3 else rng.sample(range(n), m)
        mode = rng.choice(["true", "true", "onefalse", "cancel", "short", "long", "perm", "empty", "dup"])
        deltas = [0] * m
        pidx = list(idx)
        if mode == "onefalse" and m:
            deltas[rng.randrange(m)] = rf_nz(rng)
        elif mode == "cancel" and m >= 2:
            d = rf_nz(rng)
            a, b = rng.sample(range(m), 2)
            deltas[a] = d
            deltas[b] = (R_BLS381 - d) % R_BLS381
        elif mode == "short" and m:
            pidx = pidx[:rng.randint(0, m - 1)]
            if rng.random() < 0.5:
                deltas[m - 1] = rf_nz(rng)
        elif mode == "long":
            pidx = pidx + [rng.randrange(n)]
        elif mode == "perm" and m >= 2:
            rng.shuffle(pidx)
        elif mode == "empty":
            pidx = []
            if m and rng.random() < 0.7:
                deltas[rng.randrange(m)] = rf_nz(rng)
        elif mode == "dup" and m >= 2:
            pidx[1] = pidx[0]
        toks = [rng.randrange(2 ** 63), m]
        for i, d in zip(idx, deltas):
            toks += [i, d]
        toks += ["proofs"] + pidx
        c.set("batch.%d" % j, *toks)
        batches.append({"j": j, "mode": mode, "idx": idx, "deltas": [str(d) for d in deltas], "pidx": pidx})
    c.meta["batches"] = batches
    return c


def gen(rng, tier, profile, count):
    cases = []
    for k in range(count):
        cid = "%s-kzg10-%d" % (profile, k)
        if profile == "c17":
            c, D, s = base_case(rng, cid, tier, dmax=12)
            n = rng.randint(1, 3)
            add_polys(rng, c, s, n, in_domain=False)
        else:
            c, D, s = base_case(rng, cid, tier)
            n = rng.randint(1, 4)
            add_polys(rng, c, s, n)
            if profile == "c02":
                add_mutations(rng, c, n, MUT_STATEMENT, 4)
                add_batches(rng, c, n, 3)
            elif profile == "c03":
                add_mutations(rng, c, n, MUT_PROOF, 4)
            elif profile == "c10":
                add_mutations(rng, c, n, MUT_STATEMENT + MUT_PROOF + MUT_KEY, 12)
            elif profile == "c05":
                add_batches(rng, c, n, 4)
        cases.append(c)
    return cases
