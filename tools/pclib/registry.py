"""Per-property configuration: theorem file, scenario flows, compared observables, and the
implementation-level oracle used to search for a concrete failing input."""
import re

from . import gen_kzg, gen_pc, gen_c16, gen_c13, gen_c08, gen_c09, gen_c14, gen_c15, gen_mlpc, gen_lig, gen_ipax
from .gen_common import R_BLS381
from .oracles import pc_honest, pc_mutations, pc_refusals, pc_hiding, pc_domain, pc_serialization


def _names(*prefixes):
    pre = tuple(prefixes)

    def f(name):
        return name.split(".")[0] in pre
    return f


def lib_s(lo, name):
    v = lo.get(name)
    return v[1][0] if v and v[1] else None


# ---------------- oracles (evaluated on library observations only) ----------------
def oracle_c17_kzg(case, lo):
    """KZG10: out-of-domain requests (too many coefficients, hiding bound beyond the key, hiding without RNG)
    must not produce a commitment"""
    fails = []
    if case.kind != "kzg10" or case.meta.get("in_domain", True):
        return fails
    s = int(case.fields["s"][0])
    n = int(case.fields["n"][0])
    for i in range(n):
        coeffs = [int(x) % R_BLS381 for x in case.fields["poly.%d" % i]]
        while coeffs and coeffs[-1] == 0:
            coeffs.pop()
        deg = max(len(coeffs) - 1, 0)
        hb = case.fields["hb.%d" % i][0]
        norng = case.fields["rng.%d" % i][0] == "none"
        bad = []
        if deg > s:
            bad.append("degree %d > supported %d" % (deg, s))
        if hb != "none" and norng:
            bad.append("hiding bound without RNG")
        if hb != "none" and int(hb) + 1 > s + 0 and not norng:
            bad.append("hiding bound %s beyond the %d gamma powers" % (hb, s + 1))
        if bad and lib_s(lo, "commit.%d" % i) == "ok":
            fails.append("kzg10 commit served an out-of-domain request: " + "; ".join(bad))
    return fails


def oracle_c01_kzg(case, lo):
    """honest in-domain transcript must be accepted, and nothing may abort"""
    fails = []
    if case.kind != "kzg10" or not case.meta.get("in_domain", False):
        return fails
    n = int(case.fields["n"][0])
    for i in range(n):
        for step in ("commit", "open"):
            r = lib_s(lo, "%s.%d" % (step, i))
            if r != "ok":
                fails.append("kzg10 %s of in-domain polynomial %d (%s) -> %s" % (step, i, case.meta["shapes"][i], r))
                break
        else:
            r = lib_s(lo, "check.%d" % i)
            if r != "accept":
                fails.append("kzg10 honest proof for polynomial %d (%s) -> %s" % (i, case.meta["shapes"][i], r))
    return fails


def oracle_kzg_muts(case, lo):
    """KZG10 single-check mutations whose rejection is unconditional (theorems C02_kzg10_value,
    C02_kzg10_commitment): a changed value or a different commitment element must not be accepted"""
    fails = []
    if case.kind != "kzg10":
        return fails
    for (j, i, kind, arg) in case.meta.get("muts", []):
        if lib_s(lo, "check.%d" % i) != "accept":
            continue
        r = lib_s(lo, "mut.%d" % j)
        if kind == "value" and r == "accept":
            fails.append("kzg10 check accepts value + %s for polynomial %d (%s)" % (arg, i, case.meta["shapes"][i]))
    return fails


def oracle_kzg_batches(case, lo):
    """KZG10::batch_check against the AND of the individual decisions (C05)"""
    fails = []
    if case.kind != "kzg10":
        return fails
    for b in case.meta.get("batches", []):
        r = lib_s(lo, "batch.%d" % b["j"])
        if r is None or r == "skipped":
            continue
        if any(lib_s(lo, "check.%d" % i) != "accept" for i in set(b["idx"]) | set(b["pidx"])):
            continue
        false_claims = [d for d in b["deltas"] if d != "0"]
        aligned = b["pidx"] == b["idx"]
        if aligned and not false_claims and r != "accept":
            fails.append("kzg10 batch_check does not accept an all-true batch of %d claims -> %s" % (len(b["idx"]), r))
        if aligned and len(false_claims) == 1 and r == "accept":
            fails.append("kzg10 batch_check accepts a batch with one false claim (mode %s)" % b["mode"])
        if aligned and b["mode"] == "cancel" and false_claims and r == "accept":
            fails.append("kzg10 batch_check accepts cancelling errors +d/-d across two claims")
        if len(b["pidx"]) != len(b["idx"]) and r == "accept":
            fails.append("kzg10 batch_check accepts %d proofs for %d claims (mode %s)" % (len(b["pidx"]), len(b["idx"]), b["mode"]))
    return fails


def oracle_c13(case, lo):
    fails = []
    if case.kind != "c13":
        return fails
    sub = case.fields["sub"][0]
    if sub == "indices":
        n = int(case.fields["n"][0])
        t = int(case.fields["t"][0])
        ix = lib_toks(lo, "indices") or []
        ix = [] if ix == ["-"] else ix
        if lib_s(lo, "indices_res") == "ok":
            if len(ix) != t:
                fails.append("get_indices_from_sponge returned %d positions for t=%d" % (len(ix), t))
            if any(int(i) >= n for i in ix):
                fails.append("get_indices_from_sponge returned a position outside the codeword (n=%d)" % n)
            # the positions must be the squeezed bytes (big-endian) reduced mod n: recomputed here, independently
            # of the extracted model, from the bytes the library's own sponge handed out
            sq = case.meta.get("_lib_in", {})
            want = []
            k = 0
            while ("sq.%d" % k) in sq:
                want.append(str(int.from_bytes(bytes(int(b) for b in sq["sq.%d" % k]), "big") % n))
                k += 1
            # ... and enough bytes are squeezed to reach every position: with k bytes only positions below 256^k come up
            k = 0
            while ("sq.%d" % k) in sq:
                width = len(sq["sq.%d" % k])
                if 256 ** width < n:
                    fails.append("get_indices_from_sponge(n=%d, t=%d): position %d is derived from %d transcript byte(s); positions "
                                 "from %d on can never be opened" % (n, t, k, width, 256 ** width))
                    break
                k += 1
            if want and len(want) == len(ix) and want != ix:
                j = [a != b for a, b in zip(want, ix)].index(True)
                fails.append("get_indices_from_sponge(n=%d): position %s is not the transcript bytes reduced mod n (%s): "
                             "the spot checks are no longer uniform over the codeword" % (n, ix[j], want[j]))
    elif sub == "proofshape":
        sh = lib_toks(lo, "shape")
        dims = lib_toks(lo, "dims")
        if sh and dims:
            if sh[0] != sh[1]:
                fails.append("%s honest proof: %s authentication paths for %s columns" % (case.fields["scheme"][0], sh[0], sh[1]))
            if sh[2] != dims[1]:
                fails.append("%s honest proof: opened combination of length %s for rows of length %s" % (case.fields["scheme"][0], sh[2], dims[1]))
            if (lib_toks(lo, "col_lens") or ["-"]) not in (["-"], [dims[0]]):
                fails.append("%s honest proof: opened columns do not have n_rows=%s entries" % (case.fields["scheme"][0], dims[0]))
            if any(int(i) >= int(dims[2]) for i in (lib_toks(lo, "leaf_idx") or []) if i != "-"):
                fails.append("%s honest proof opens a position outside the codeword" % case.fields["scheme"][0])
        if lib_s(lo, "check") not in (None, "accept"):
            fails.append("%s honest single opening not accepted" % case.fields["scheme"][0])
        if sh and dims:
            # the number of openings against the soundness bound 2 (1 - d/2)^t + n/|F| <= 2^-lambda, evaluated exactly with the
            # scenario's security level and the code's relative distance (1 - 1/rho_inv for Reed-Solomon, Brakedown's constants)
            sch = case.fields["scheme"][0]
            if "lig" in case.fields:
                lam, rho = int(case.fields["lig"][0]), int(case.fields["lig"][1])
                d0, d1 = rho - 1, rho
            else:
                lam, (d0, d1) = 128, {"ligero_uni": (3, 4), "ligero_ml": (1, 2)}.get(sch, (61000, 1521000))
            t, n_ext = int(sh[0]), int(dims[2])
            a, b, L = 2 * d1 - d0, 2 * d1, 1 << lam
            if t < n_ext and not any(2 * a ** t * L * Fs + n_ext * b ** t * L <= b ** t * Fs for Fs in (R_BLS381, 1 << 255)):
                fails.append("%s (security %d, relative distance %d/%d, codeword length %d): an honest proof opens %d columns, too few "
                             "for 2(1-d/2)^t + n/|F| <= 2^-%d" % (sch, lam, d0, d1, n_ext, t, lam))
        if dims:
            sq = case.meta.get("_lib_in", {})
            n_ext = int(dims[2])
            want = []
            k = 0
            narrow = None
            while ("sq.%d" % k) in sq:
                want.append(str(int.from_bytes(bytes(int(b) for b in sq["sq.%d" % k]), "big") % n_ext))
                if narrow is None and 256 ** len(sq["sq.%d" % k]) < n_ext:
                    narrow = (k, len(sq["sq.%d" % k]))
                k += 1
            got = [i for i in (lib_toks(lo, "leaf_idx") or []) if i != "-"]
            if narrow is not None and len(want) == len(got):
                fails.append("%s honest proof: position %d is derived from %d transcript byte(s) for a codeword of %d columns; the columns "
                             "from %d on can never be opened" % (case.fields["scheme"][0], narrow[0], narrow[1], n_ext, 256 ** narrow[1]))
            if want and len(want) == len(got) and want != got:
                bad = sum(1 for a, b in zip(want, got) if a != b)
                fails.append("%s honest proof: %d of %d opened positions are not the transcript bytes reduced mod n (n=%d)"
                             % (case.fields["scheme"][0], bad, len(got), n_ext))
    elif sub == "calct":
        # the count the library computes against the bound itself, in exact integer arithmetic (independent of the extracted model):
        # a count below the codeword length must satisfy 2 (1 - d/2)^t + n/|F| <= 2^-lambda for the field size or for 2^bits
        tt = lib_s(lo, "t")
        if tt is not None and tt.isdigit():
            t, n = int(tt), int(case.fields["n"][0])
            lam, d0, d1 = int(case.fields["lam"][0]), int(case.fields["d0"][0]), int(case.fields["d1"][0])
            fld = case.fields["field"][0]
            mod = {"bls381": R_BLS381,
                   "ed": 6554484396890773809930967563523245729705921265872317281365359162392183254199,
                   "bn254": 21888242871839275222246405745257275088548364400416034343698204186575808495617}[fld]
            bits = {"bls381": 255, "ed": 252, "bn254": 254}[fld]
            a, b, L = 2 * d1 - d0, 2 * d1, 1 << lam
            if 0 < d0 <= d1 and d1 > 0 and t < n and not any(2 * a ** t * L * Fs + n * b ** t * L <= b ** t * Fs for Fs in (mod, 1 << bits)):
                fails.append("calculate_t(lambda=%d, distance %d/%d, n=%d, %s) = %d: too few columns for 2(1-d/2)^t + n/|F| <= 2^-%d"
                             % (lam, d0, d1, n, fld, t, lam))
            if t > n:
                fails.append("calculate_t(lambda=%d, distance %d/%d, n=%d, %s) = %d exceeds the codeword length" % (lam, d0, d1, n, fld, t))
    elif sub == "encode":
        if lib_s(lo, "encode") == "ok" and lib_s(lo, "linear") != "holds":
            fails.append("%s row encoding is not linear: E(a*x+b*y) != a*E(x)+b*E(y)" % case.fields["scheme"][0])
    return fails


def cmp_size(lib_toks_, model_toks):
    """C19: exact, or within the [max, min] band the model gives when a size depends on which columns the transcript opens"""
    if len(model_toks) == 2 and len(lib_toks_) == 1 and model_toks[0].isdigit():
        return int(model_toks[1]) <= int(lib_toks_[0]) <= int(model_toks[0])
    return lib_toks_ == model_toks


def cmp_c13_t(lib_toks_, model_toks):
    """calculate_t: accept the exact minimum for |F| or for 2^bits (see DESIGN.md, C13)"""
    return len(lib_toks_) == 1 and lib_toks_[0] in model_toks


def oracle_c08(case, lo):
    fails = []
    if case.kind != "c08":
        return fails
    sch = case.meta["scheme"]
    for step in ("setup", "trim", "commit"):
        if lib_s(lo, step) != "ok":
            fails.append("%s %s of an in-domain request -> %s (%s)" % (sch, step, lib_s(lo, step), case.meta["shapes"][0]))
            return fails
    if lib_s(lo, "additive") == "fails":
        fails.append("%s commit(a*p+b*q) != a*commit(p)+b*commit(q) (%s)" % (sch, case.meta["shapes"][0]))
    if lib_s(lo, "additive_lib") == "fails":
        fails.append("%s: a*commit(p)+b*commit(q) formed with the library's own `+= (scalar, &commitment)` is not the group element a*commit(p)+b*commit(q) (%s)"
                     % (sch, case.meta["shapes"][0]))
    if lib_s(lo, "zero_is_identity") == "no":
        fails.append("%s commitment of the zero polynomial is not the identity" % sch)
    if lib_s(lo, "repr_invariant") == "fails":
        fails.append("%s commitment depends on the representation (high-order zeros / term order) (%s)" % (sch, case.meta["shapes"][0]))
    if lib_s(lo, "deterministic") == "no":
        fails.append("%s non-hiding commitment is not a function of (key, polynomial)" % sch)
    if lib_s(lo, "rng_bytes") not in (None, "0") and sch != "hyrax":
        fails.append("%s non-hiding commit consumed randomness" % sch)
    if lib_s(lo, "p_q_equal") == "equal" and not case.meta["p_eq_q"]:
        fails.append("%s different polynomials have the same commitment" % sch)
    if lib_s(lo, "p_q_equal") == "differ" and case.meta["p_eq_q"] and sch != "hyrax":
        fails.append("%s equal polynomials have different commitments" % sch)
    for i in range(5):
        if lib_s(lo, "reference.%d" % i) == "differs":
            fails.append("%s commitment %d differs from the independent recomputation (%s)"
                         % (sch, i, "Merkle root over column hashes of the encoded coefficient matrix" if sch in ("ligero_uni", "ligero_ml", "brakedown_ml")
                            else "naive multi-scalar sum over the published key elements"))
    return fails


def oracle_c09(case, lo):
    fails = []
    if case.kind != "c09":
        return fails
    sub = case.fields["sub"][0]
    if sub == "kzg_setup":
        if int(case.fields["D"][0]) >= 1:
            if lib_s(lo, "setup") != "ok":
                fails.append("KZG10::setup refused max_degree %s" % case.fields["D"][0])
            if lib_s(lo, "generators_ok") == "no":
                fails.append("KZG10::setup published an identity or coinciding generator")
            if lib_s(lo, "deterministic") == "no":
                fails.append("KZG10::setup is not a function of the RNG stream")
        elif lib_s(lo, "setup") == "ok":
            fails.append("KZG10::setup served max_degree 0")
    elif sub == "sonic_trim":
        for k, v in lo.items():
            if k.startswith("sub.") and v[1][0] != "faithful":
                fails.append("SonicKZG10::trim: %s of the trimmed keys is not the corresponding part of the parameters (bounds %s)"
                             % (k[4:], " ".join(case.fields["bounds"])))
    elif sub == "transparent":
        sch = case.fields["scheme"][0]
        if lib_s(lo, "count") != lib_s(lo, "expected_count"):
            fails.append("%s setup published %s generators, expected %s" % (sch, lib_s(lo, "count"), lib_s(lo, "expected_count")))
        for k, what in (("distinct", "coinciding generators"), ("non_identity", "an identity / invalid generator"),
                        ("rng_independent", "generators that depend on the caller's RNG"), ("trim_faithful", "trimmed keys that are not sub-keys")):
            if lib_s(lo, k) == "no":
                fails.append("%s setup/trim: %s" % (sch, what))
    return fails


def _binom(n, k):
    import math
    return math.comb(n, k)


def _vectors(nv, D):
    out = []

    def rec(v, left, cur):
        if v == nv:
            out.append(tuple(cur))
            return
        for e in range(left + 1):
            rec(v + 1, left - e, cur + [e])
    rec(0, D, [])
    return sorted(out)


def oracle_c15(case, lo):
    """the statement of C15 evaluated on library outputs only (independent enumeration in python)"""
    fails = []
    if case.kind != "c15":
        return fails
    sub = case.fields["sub"][0]
    if sub == "setup":
        nv, D, s = int(case.fields["num_vars"][0]), int(case.fields["D"][0]), int(case.fields["s"][0])
        tag = "MarlinPST13::setup(num_vars=%d, max_degree=%d)" % (nv, D)
        if nv < 1 or D < 1:
            if lib_s(lo, "setup") == "ok":
                fails.append("%s served an out-of-domain request" % tag)
            return fails
        if lib_s(lo, "setup") != "ok":
            fails.append("%s refused: %s" % (tag, lib_s(lo, "setup")))
            return fails
        if lib_s(lo, "constant_term") != "present":
            fails.append("%s published no element for the constant monomial" % tag)
            return fails
        want = _vectors(nv, D)
        got = [tuple(int(x) for x in t.split(".")) for t in (lib_toks(lo, "terms") or [])]
        if sorted(got) != want:
            miss = [w for w in want if w not in set(got)]
            extra = [g for g in got if g not in set(want)]
            fails.append("%s: key set differs from the monomials of total degree <= %d: %d missing (e.g. %s), %d unexpected (e.g. %s)"
                         % (tag, D, len(miss), miss[:2], len(extra), extra[:2]))
        if len(got) != len(set(got)) or lib_s(lo, "nkeys") != str(_binom(nv + D, D)):
            fails.append("%s published %s elements, expected C(%d,%d) = %d" % (tag, lib_s(lo, "nkeys"), nv + D, D, _binom(nv + D, D)))
        if lib_s(lo, "values_match_trapdoor") != "yes":
            fails.append("%s: a published element is not g scaled by its monomial at the trapdoor" % tag)
        if lib_s(lo, "pairing_consistent") != "yes":
            fails.append("%s: e(G[m*x_i], H) != e(G[m], beta_i H) for some monomial" % tag)
        if lib_s(lo, "pairing_missing") not in ("0", None):
            fails.append("%s: %s monomials m*x_i of degree <= D have no element" % (tag, lib_s(lo, "pairing_missing")))
        if s <= D:
            if lib_s(lo, "trim") != "ok":
                fails.append("%s: trim to supported degree %d refused: %s" % (tag, s, lib_s(lo, "trim")))
            else:
                tgot = sorted(tuple(int(x) for x in t.split(".")) for t in (lib_toks(lo, "trim_terms") or []))
                if tgot != [w for w in want if sum(w) <= s]:
                    fails.append("%s: trim(%d) keeps %d monomials, expected exactly those of degree <= %d (%d)"
                                 % (tag, s, len(tgot), s, len([w for w in want if sum(w) <= s])))
                for k, what in (("trim_values_same", "changes the element of a monomial"), ("trim_gamma_same", "changes the hiding powers")):
                    if lib_s(lo, k) != "yes":
                        fails.append("%s: trim(%d) %s" % (tag, s, what))
                if lib_s(lo, "trim_vk") != "faithful":
                    fails.append("%s: trim(%d) verifier key or degree reports differ from the parameters" % (tag, s))
                if lib_toks(lo, "trim_gamma_lens") != [str(s + 1)] * nv:
                    fails.append("%s: trim(%d) hiding powers per variable %s, expected %d each" % (tag, s, lib_toks(lo, "trim_gamma_lens"), s + 1))
        elif lib_s(lo, "trim") == "ok":
            fails.append("%s: trim served supported degree %d > max degree" % (tag, s))
    elif sub == "comb":
        import itertools
        orig = [int(x) for x in case.fields["orig"]]
        ln = int(case.fields["len"][0])
        if 1 <= ln < len(orig):
            if lib_s(lo, "comb") != "ok":
                fails.append("Combinations::new(%s, %d) aborted: %s" % (orig, ln, lib_s(lo, "comb")))
            else:
                want = sorted(set(itertools.combinations(sorted(orig), ln)))
                got = [tuple(int(x) for x in t.split(",")) for t in (lib_toks(lo, "combos") or [])]
                if got != want:
                    fails.append("Combinations(%s, %d) yields %d multisets (%d distinct), expected the %d distinct sorted sub-multisets"
                                 % (orig, ln, len(got), len(set(got)), len(want)))
    elif sub == "divide":
        if lib_s(lo, "divide") != "ok":
            fails.append("divide_at_point aborted: %s (num_vars %s, poly %s)" % (lib_s(lo, "divide"), case.fields["num_vars"][0], " ".join(case.fields.get("poly", []))))
        elif lib_s(lo, "identity") != "holds":
            fails.append("divide_at_point: p(x) - p(z) != sum (x_i - z_i) w_i(x) (num_vars %s, poly %s, z %s)"
                         % (case.fields["num_vars"][0], " ".join(case.fields.get("poly", [])), " ".join(case.fields["z"])))
        elif lib_s(lo, "quot_degree_ok") != "yes":
            fails.append("divide_at_point: a quotient has degree >= deg p, so it cannot be committed under the same key")
    return fails


def oracle_c14(case, lo):
    """C14 on library outputs only: time == space, verifier decisions, iterators == naive folding"""
    fails = []
    if case.kind != "c14":
        return fails
    sub = case.fields["sub"][0]
    if sub == "stream":
        D = case.fields["D"][0]
        for name, v in lo.items():
            val = v[1][0] if v[1] else ""
            base = name.split(".")[0]
            idx = name.split(".")[1:] 
            poly = " ".join(case.fields.get("poly.%s" % idx[0], [])) if idx else ""
            ctx = "(key max_degree %s, polynomial [%s], %d points%s)" % (D, poly[:200], len(case.fields["pts"]), (", buffer " + idx[1]) if len(idx) > 1 else "")
            if base in ("tcommit", "scommit", "topen", "sopen", "tmopen", "smopen", "bopen") and val != "ok":
                fails.append("streaming_kzg %s aborted on an in-domain request: %s %s" % (base, val, ctx))
            elif base in ("commit_same", "open_same", "mopen_same") and val != "yes":
                fails.append("space-efficient %s differs from the time-efficient one %s" % ({"commit_same": "commitment", "open_same": "evaluation/proof", "mopen_same": "multi-point proof"}[base], ctx))
            elif base == "tv_is_eval" and val != "yes":
                fails.append("time open returned a value that is not the evaluation %s" % ctx)
            elif base == "smrem_evals" and val != "yes":
                fails.append("space open_multi_points: remainder does not take the polynomial's values at the points %s" % ctx)
            elif base in ("verify", "verify_svk", "vmp1", "vmp1_svk", "vmp", "vmp_svk") and val != "accept":
                fails.append("verifier%s rejected the true evaluations: %s=%s %s" % (" (key derived from the stream key)" if base.endswith("svk") else "", base, val, ctx))
            elif base in ("verify_bad", "verify_bad_svk", "vmp1_bad", "vmp_bad") and val != "reject":
                fails.append("verifier accepted value+delta: %s=%s %s" % (base, val, ctx))
            elif base == "svk_g0_same" and val != "yes":
                fails.append("VerifierKey::from(&CommitterKeyStream) differs from the key's own generators")
    else:
        chs = case.fields.get("chs", [])
        depth = len(chs)
        n = len(case.fields["coeffs"])
        tag = "(stream length %d, %d challenges)" % (n, depth)
        if lib_s(lo, "tree") != "ok" or lib_s(lo, "stream") != "ok":
            fails.append("folding iterator aborted %s: tree=%s stream=%s" % (tag, lib_s(lo, "tree"), lib_s(lo, "stream")))
            return fails
        levels = [int(x) for x in (lib_toks(lo, "tree_levels") or [])]
        coeffs = lib_toks(lo, "tree_coeffs") or []
        for i in range(1, depth + 1):
            got = [c for (l, c) in zip(levels, coeffs) if l == i]
            naive = lib_toks(lo, "naive.%d" % i) or []
            m = -(-n // (1 << i))       # ceil(n / 2^i) coefficients; the all-padding blocks in front are zero and not enumerated
            if got != naive[len(naive) - m:] or any(x != "0" for x in naive[:len(naive) - m]):
                fails.append("FoldedPolynomialTree level %d differs from the naive folding %s" % (i, tag))
        if any(l < 1 or l > depth for l in levels):
            fails.append("FoldedPolynomialTree yields a level outside 1..depth %s" % tag)
        want = (lib_toks(lo, "naive.%d" % depth) or []) if depth else case.fields["coeffs"]
        if [str(int(x) % R_BLS381) for x in want] != (lib_toks(lo, "stream_coeffs") or []):
            fails.append("FoldedPolynomialStream differs from the last naive folding %s" % tag)
        if lib_s(lo, "stream_len_reported") != str(len(want)):
            fails.append("FoldedPolynomialStream::len reports %s, the stream has %d elements %s" % (lib_s(lo, "stream_len_reported"), len(want), tag))
        for k, what in (("commit_folding", "commit_folding aborted"), ("open_folding", "open_folding aborted")):
            if k in lo and lib_s(lo, k) != "ok":
                fails.append("%s %s: %s" % (what, tag, lib_s(lo, k)))
        for k, what in (("cf_matches_time", "commit_folding differs from the time committer on the explicitly folded polynomials"),
                        ("of_rem_evals", "open_folding remainders do not evaluate like the folded polynomials"),
                        ("of_matches_time", "open_folding proof differs from the combination of time multi-point proofs")):
            if k in lo and lib_s(lo, k) != "yes":
                fails.append("%s %s" % (what, tag))
    return fails


def oracle_c19(case, lo):
    """sizes on library outputs only: serialized_size == bytes written; size laws per scheme as functions of N"""
    import math
    fails = []
    if case.kind != "pc" or "c19" not in case.fields:
        return fails
    sch = case.fields["scheme"][0]
    n = int(case.fields["n"][0])
    for name, v in lo.items():
        if name.startswith("size."):
            b = lo.get("bytes." + name[5:])
            if b and b[1] != v[1]:
                fails.append("%s: serialized_size reports %s but %s bytes are written (%s)" % (sch, v[1][0], b[1][0], name[5:]))
    pair = sch in ("marlin", "sonic", "pst13")
    g1c = 48 if pair else 32
    for name, v in lo.items():
        parts = name.split(".")
        if parts[0] != "size" or parts[-1] != "c":
            continue
        size = int(v[1][0])
        if parts[1] == "comm":
            if sch in ("marlin", "sonic", "ipa", "pst13") and size > 2 * g1c + 1:
                fails.append("%s commitment of %d bytes: not constant-size (at most two group elements and a tag)" % (sch, size))
            if sch in ("ligero_uni", "ligero_ml", "brakedown_ml") and size > 24 + 8 + 64:
                fails.append("%s commitment of %d bytes: more than the three counters and a digest" % (sch, size))
            if sch == "hyrax":
                nv = int(case.fields["num_vars"][0])
                if size != 8 + (1 << (nv // 2)) * 32:
                    fails.append("hyrax commitment of %d bytes for %d variables, expected 2^(n/2) = %d row commitments" % (size, nv, 1 << (nv // 2)))
        elif parts[1] == "proof":
            t = int(parts[2])
            sel = case.meta["ops"][t]["sel"]
            if sch in ("marlin", "sonic") and size > g1c + 1 + 32:
                fails.append("%s proof of %d bytes for %d polynomials: not one group element and an optional scalar" % (sch, size, len(sel)))
            elif sch in ("marlin", "sonic"):
                # the blinding evaluation is part of the proof exactly when an opened polynomial is hiding
                hid = any(case.fields["hiding.%d" % i][0] != "none" for i in sel)
                if size != g1c + 1 + (32 if hid else 0):
                    fails.append("%s proof of %d bytes for %d polynomials (%s): expected %d bytes (one group element%s)"
                                 % (sch, size, len(sel), "hiding" if hid else "not hiding", g1c + 1 + (32 if hid else 0),
                                    " and the blinding evaluation" if hid else ", no blinding evaluation"))
            if sch == "pst13":
                nv = int(case.fields["num_vars"][0])
                if size not in (8 + nv * 48 + 1, 8 + nv * 48 + 1 + 32):
                    fails.append("pst13 proof of %d bytes for %d variables: not one group element per variable" % (size, nv))
            if sch == "ipa":
                s_ = int(case.fields["supported_degree"][0])
                r = max(0, (s_).bit_length()) if (s_ + 1) & s_ else (s_ + 1).bit_length() - 1
                base = 2 * (8 + r * 32) + 32 + 32 + 2
                # the hiding commitment and its randomness are present exactly when an opened polynomial is hiding
                hid = any(case.fields["hiding.%d" % i][0] != "none" for i in sel)
                if size != base + (64 if hid else 0):
                    fails.append("ipa proof of %d bytes for supported degree %d (%s): not two group elements per halving round (%d rounds, expected %d bytes)"
                                 % (size, s_, "hiding" if hid else "not hiding", r, base + (64 if hid else 0)))
            if sch == "hyrax":
                nv = int(case.fields["num_vars"][0])
                one = 3 * 32 + 8 + (1 << (nv // 2)) * 32 + 3 * 32
                if size != 8 + len(sel) * one:
                    fails.append("hyrax proof of %d bytes for %d polynomials in %d variables: not 2^(n/2)-size" % (size, len(sel), nv))
    # code-based schemes: the field elements shipped at the chosen matrix are within 4x of the best power-of-two row count
    # (openings capped at the codeword length; t from the library's own formula for the scheme's distance)
    if sch in ("ligero_uni", "ligero_ml", "brakedown_ml"):
        import math
        lig = [int(x) for x in case.fields.get("lig", [])]
        sec = lig[0] if lig and sch != "brakedown_ml" else 128
        rho = lig[1] if lig and sch != "brakedown_ml" else (2 if sch == "ligero_ml" else 4)
        dist = (61000.0 / 1521000.0) if sch == "brakedown_ml" else (rho - 1.0) / rho
        expand = 1.72 if sch == "brakedown_ml" else rho      # codeword length / message length (Brakedown: about 1.72)

        def t_of(cw):
            rhs = math.log2(2.0 ** (-sec) - cw / 2.0 ** 255)
            t = int(math.ceil((rhs - 1.0) / math.log2(1.0 - 0.5 * dist)))
            return min(t, cw)
        for name, v in lo.items():
            if not name.startswith("shape.proof."):
                continue
            toks = [int(x) for x in v[1]]
            cnt, rest = toks[0], toks[1:]
            for k in range(cnt):
                (tt, depth, lsb, idb, ncols, ncol2, nrows, wfp, wfl, same) = rest[10 * k:10 * k + 10]
                if not same or ncol2 != tt:
                    fails.append("%s proof: ragged columns/paths (%d paths, %d columns)" % (sch, tt, ncol2))
                N = nrows * ncols
                rows_w = 2 if wfp else 1
                shipped = ncols * rows_w + tt * nrows          # field elements in the proof
                best = None
                for e in range(0, 25):
                    r = 1 << e
                    if r > 2 * N:
                        break
                    m = max(1, -(-N // r))
                    cw = int(math.ceil(m * expand))
                    if sch != "brakedown_ml":
                        cw = 1 << max(0, (m * rho - 1).bit_length())
                    cand = m * rows_w + t_of(cw) * r
                    best = cand if best is None else min(best, cand)
                if best is not None and shipped > 4 * best:
                    fails.append("%s proof ships %d field elements for a %d-coefficient polynomial (matrix %d x %d, %d openings); "
                                 "the best power-of-two row count needs %d: beyond the 4x allowance" % (sch, shipped, N, nrows, ncols, tt, best))
    return fails


def oracle_lig(case, lo):
    """univariate Ligero end to end, on library outputs only: the honest proof is accepted for p(z), refused or rejected
    for p(z) + delta; a mutated proof that the verifier accepts must be one whose checked part is unchanged"""
    fails = []
    if case.kind != "c13" or case.fields["sub"][0] not in ("ligflow", "ligmulti"):
        return fails
    lig = case.fields["lig"]
    sizes = [len(v) for k, v in sorted(case.fields.items()) if k == "poly" or k.startswith("poly.")]
    who = "%s(sec=%s, rho_inv=%s, wf=%s), polynomial(s) of %s coefficients/evaluations" % (case.fields["scheme"][0], lig[0], lig[1], lig[2], "/".join(map(str, sizes)))
    for step in ("commit", "open"):
        if lib_s(lo, step) != "ok":
            fails.append("%s: %s aborted: %s" % (who, step, lib_s(lo, step)))
            return fails
    if lib_s(lo, "check") != "accept":
        fails.append("%s: honest opening -> %s" % (who, lib_s(lo, "check")))
    if lib_s(lo, "check_bad") == "accept":
        fails.append("%s: p(z) + delta accepted with the honest proof" % who)
    benign = ("extra_col", "list_extend")       # zip with the queried indices / the claims ignores a trailing column, path or proof
    for i, kd in enumerate(case.meta.get("mut_kinds", [])):
        d = lib_s(lo, "mut.%d" % i)
        if d == "accept" and kd not in benign:
            fails.append("%s: proof mutation %s (%s) accepted" % (who, kd, " ".join(case.fields["mut.%d" % i][1:])))
    return fails


def oracle_ipax(case, lo):
    """IPA check_combinations: a commitment with a shifted part but no degree bound must not make the verifier check the NEXT
    combination against that stray element"""
    fails = []
    if case.kind != "ipax":
        return fails
    who = "IPA (degree %s), combinations lc1 = p1, lc2 = p2" % case.fields["degree"][0]
    if lib_s(lo, "honest") != "accept":
        fails.append("%s: honest open_combinations/check_combinations of (p1, q) -> %s" % (who, lib_s(lo, "honest")))
    if lib_s(lo, "claim_is_false") == "yes" and lib_s(lo, "stray_shifted") == "accept":
        fails.append("%s: with q's commitment as a stray shifted part of p1's commitment (no degree bound), the opening of (p1, q) is "
                     "accepted for the false claim p2(z) = q(z): the flat element list of construct_labeled_commitments is read back shifted by one" % who)
    if lib_s(lo, "plain_check_with_stray_shifted") == "accept":
        fails.append("%s: plain check accepts a commitment with a shifted part and no degree bound" % who)
    return fails


def oracle_mlpc(case, lo):
    """multilinear PST on library outputs only"""
    fails = []
    if case.kind != "mlpc":
        return fails
    nv, snv = int(case.fields["num_vars"][0]), int(case.fields["supported"][0])
    tag = "MultilinearPC(num_vars=%d, supported=%d)" % (nv, snv)
    if nv < 1:
        if lib_s(lo, "setup") == "ok":
            fails.append("%s: setup served zero variables" % tag)
        return fails
    if lib_s(lo, "setup") != "ok":
        fails.append("%s: setup aborted: %s" % (tag, lib_s(lo, "setup")))
        return fails
    if lib_toks(lo, "pp_shape") != [str(nv)] * 4 or lib_toks(lo, "pp_table_lens") != [str(1 << (nv - i)) for i in range(nv)]:
        fails.append("%s: parameters do not have one table of 2^(n-i) elements per variable (%s / %s)" % (tag, lib_toks(lo, "pp_shape"), lib_toks(lo, "pp_table_lens")))
    if snv > nv:
        if lib_s(lo, "trim") == "ok":
            fails.append("%s: trim served more variables than the parameters have" % tag)
        return fails
    if snv < 1:
        return fails
    if lib_s(lo, "trim") != "ok":
        fails.append("%s: trim aborted: %s" % (tag, lib_s(lo, "trim")))
        return fails
    if lib_s(lo, "trim_faithful") != "yes":
        fails.append("%s: trimmed keys are not the corresponding parts of the parameters" % tag)
    for i in range(int(case.fields["n"][0])):
        pnv = int(case.fields["pnv.%d" % i][0])
        zl = len(case.fields.get("z.%d" % i, []))
        who = "%s polynomial %d (%d variables, point of %d coordinates)" % (tag, i, pnv, zl)
        if pnv != snv:
            for step in ("commit", "open"):
                if lib_s(lo, "%s.%d" % (step, i)) == "ok":
                    fails.append("%s: %s served a polynomial with another number of variables than the key" % (who, step))
            continue
        if lib_s(lo, "commit.%d" % i) != "ok":
            fails.append("%s: commit aborted: %s" % (who, lib_s(lo, "commit.%d" % i)))
            continue
        for tg in ("c", "u"):
            a, b = lib_s(lo, "size.comm.%d.%s" % (i, tg)), lib_s(lo, "bytes.comm.%d.%s" % (i, tg))
            if a != b:
                fails.append("%s: serialized_size of the commitment %s != bytes written %s" % (who, a, b))
        if lib_s(lo, "size.comm.%d.c" % i) != str(8 + 48):
            fails.append("%s: commitment of %s bytes, expected a counter and one G1 element" % (who, lib_s(lo, "size.comm.%d.c" % i)))
        if zl < snv:
            continue
        if lib_s(lo, "open.%d" % i) != "ok":
            fails.append("%s: open aborted: %s" % (who, lib_s(lo, "open.%d" % i)))
            continue
        if lib_s(lo, "size.proof.%d.c" % i) != str(8 + snv * 96):
            fails.append("%s: proof of %s bytes, expected one G2 element per variable" % (who, lib_s(lo, "size.proof.%d.c" % i)))
        if lib_s(lo, "check.%d" % i) != "accept":
            fails.append("%s: honest proof for the true value -> %s" % (who, lib_s(lo, "check.%d" % i)))
        if lib_s(lo, "check_bad.%d" % i) == "accept":
            fails.append("%s: value + delta accepted with the honest proof" % who)
    return fails


def lib_toks(lo, name):
    v = lo.get(name)
    return v[1] if v else None


def oracle_c16(case, lo):
    """the identities of the property evaluated on library outputs only"""
    fails = []
    if case.kind != "c16":
        return fails
    sub = case.fields["sub"][0]
    if sub == "lcop":
        if lib_toks(lo, "value") != lib_toks(lo, "value_by_ops"):
            fails.append("LinearCombination operators: value of the result %s differs from the same arithmetic on values %s (ops %s)"
                         % (lib_toks(lo, "value"), lib_toks(lo, "value_by_ops"), ",".join(case.meta.get("shapes", []))))
    elif sub == "eqs":
        if lib_s(lo, "eqs") == "ok" and lib_s(lo, "eq_spec") != "holds":
            fails.append("evaluate_query_set: a queried (label, point) is missing or mapped to a wrong value")
        if lib_s(lo, "eqs") != "ok":
            fails.append("evaluate_query_set aborted on a query set over known labels: %s" % lib_s(lo, "eqs"))
    elif sub == "scp":
        k = len(case.fields["chs"])
        if lib_s(lo, "ncoeffs") != str(2 ** k):
            fails.append("SuccinctCheckPolynomial::compute_coeffs returned %s coefficients for %d challenges" % (lib_s(lo, "ncoeffs"), k))
        if lib_toks(lo, "evalz") != lib_toks(lo, "horner"):
            fails.append("SuccinctCheckPolynomial::evaluate differs from Horner evaluation of compute_coeffs (k=%d)" % k)
    return fails


PROPS = {
    "C01": {
        "props_file": "props/C01.v",
        "flows": [(gen_kzg.gen, "c01", 60, 600), (gen_pc.gen, "c01", 96, 960), (gen_mlpc.gen, "c01", 16, 160), (gen_lig.gen, "c01", 12, 120), (gen_lig.gen_multi, "c01", 8, 80),
                  (gen_c14.gen, "c14", 16, 160)],
        "filter": None,
        "oracles": [oracle_c01_kzg, pc_honest, oracle_mlpc, oracle_lig, oracle_c14, lambda c, lo: pc_mutations(c, lo, ("vperm",))],
        "title": "Completeness",
    },
    "C16": {
        "props_file": "props/C16.v",
        "flows": [(gen_c16.gen, "c16", 300, 6000)],
        "filter": None,
        "oracles": [oracle_c16],
        "title": "Public algebraic helpers",
    },
    "C02": {
        "props_file": "props/C02.v",
        "flows": [(gen_kzg.gen, "c02", 60, 600), (gen_pc.gen, "c02", 160, 1600), (gen_mlpc.gen, "c02", 16, 160), (gen_lig.gen, "c02", 12, 120), (gen_lig.gen_multi, "c02", 8, 80)],
        "oracles": [oracle_kzg_muts, oracle_kzg_batches, oracle_mlpc, oracle_lig, lambda c, lo: pc_mutations(c, lo, ("value", "comm_swap", "cancel"))],
        "accept_diffs": ("mut.", "batch."),
        "title": "Evaluation binding (honest proof, false claim)",
    },
    "C03": {
        "props_file": "props/C03.v",
        "flows": [(gen_kzg.gen, "c03", 40, 400), (gen_pc.gen, "c03", 160, 1600), (gen_mlpc.gen, "c03", 16, 160), (gen_lig.gen, "c03", 16, 160), (gen_lig.gen_multi, "c03", 8, 80), (gen_ipax.gen, "c03", 6, 60)],
        "oracles": [oracle_mlpc, oracle_lig, oracle_ipax, lambda c, lo: pc_mutations(c, lo, ("proofs", "proof_mut", "proof_mut_v", "attack", "comm_mut"))],
        "accept_diffs": ("mut.",),
        "title": "Evaluation binding (crafted proofs)",
    },
    "C05": {
        "props_file": "props/C05.v",
        "flows": [(gen_kzg.gen, "c05", 60, 600), (gen_pc.gen, "c05", 96, 960)],
        "oracles": [oracle_kzg_batches, pc_honest, lambda c, lo: pc_mutations(c, lo, ("value", "cancel", "proofs"))],
        "accept_diffs": ("mut.", "batch."),
        "title": "Batch verification",
    },
    "C10": {
        "props_file": "props/C10.v",
        "flows": [(gen_kzg.gen, "c10", 40, 400), (gen_pc.gen, "c10", 160, 1600), (gen_lig.gen, "c10", 16, 160), (gen_lig.gen_multi, "c10", 8, 80), (gen_ipax.gen, "c10", 6, 60)],
        "oracles": [oracle_kzg_muts, pc_honest, oracle_lig, oracle_ipax, lambda c, lo: pc_mutations(c, lo, ("value", "comm_swap", "cancel", "proof_mut", "comm_mut"))],
        "accept_diffs": ("mut.", "batch."),
        "title": "Verifiers decide the published relation",
    },
    "C13": {
        "props_file": "props/C13.v",
        "flows": [(gen_c13.gen, "c13", 1500, 30000)],
        "oracles": [oracle_c13],
        "comparators": {"t": cmp_c13_t, "npaths": cmp_c13_t, "ncols": cmp_c13_t},
        "title": "Column openings match the security level",
    },
    "C04": {
        "props_file": "props/C04.v",
        "flows": [(gen_pc.gen, "c04", 150, 1500), (gen_pc.gen, "c04domain", 16, 160)],
        "oracles": [pc_honest, pc_refusals, pc_domain, lambda c, lo: pc_mutations(c, lo, ("comm_mut", "comm_swap"))],
        "accept_diffs": ("mut.",),
        "title": "Degree bounds",
    },
    "C06": {
        "props_file": "props/C06.v",
        "flows": [(gen_pc.gen, "c06", 160, 1600)],
        "oracles": [pc_honest, lambda c, lo: pc_mutations(c, lo, ("value", "const", "evals"))],
        "accept_diffs": ("mut.",),
        "title": "Linear-combination openings",
    },
    "C11": {
        "props_file": "props/C11.v",
        "flows": [(gen_pc.gen, "c11", 120, 1200)],
        "oracles": [pc_honest, lambda c, lo: pc_mutations(c, lo, ("sponge_pre",))],
        "accept_diffs": ("mut.",),
        "title": "Transcript lock-step",
    },
    "C07": {
        "props_file": "props/C07.v",
        "flows": [(gen_kzg.gen, "c07", 60, 600), (gen_pc.gen, "c07", 150, 1500)],
        "oracles": [oracle_c01_kzg, pc_honest, pc_hiding],
        "title": "Hiding",
    },
    "C08": {
        "props_file": "props/C08.v",
        "flows": [(gen_c08.gen, "c08", 160, 1600), (gen_kzg.gen, "c08", 30, 300)],
        "oracles": [oracle_c08, oracle_c01_kzg],
        "title": "Commitments are the key-defined linear map",
    },
    "C17": {
        "props_file": "props/C17.v",
        "flows": [(gen_kzg.gen, "c17", 60, 600), (gen_pc.gen, "c17", 120, 1200), (gen_pc.gen, "c17domain", 60, 600), (gen_pc.gen, "c01", 40, 400),
                  (gen_mlpc.gen, "c17", 24, 240)],
        "oracles": [oracle_c17_kzg, oracle_c01_kzg, pc_honest, pc_refusals, pc_domain, oracle_mlpc, lambda c, lo: pc_mutations(c, lo, ("drop_eval", "drop_comm", "comm_mut"))],
        "accept_diffs": ("mut.",),
        "title": "Out-of-domain requests are refused",
    },
    "C09": {
        "props_file": "props/C09.v",
        "flows": [(gen_c09.gen, "c09", 90, 900), (gen_pc.gen, "c17domain", 30, 300), (gen_c15.gen_setup, "c09", 16, 200), (gen_mlpc.gen, "c09", 12, 120)],
        "oracles": [oracle_c09, oracle_c15, oracle_mlpc, pc_honest, pc_domain],
        "title": "Setup and trim",
    },
    "C18": {
        "props_file": "props/C18.v",
        "flows": [(gen_pc.gen, "c01", 40, 400), (gen_pc.gen, "c19", 24, 240), (gen_c15.gen_setup, "c09", 8, 60), (gen_c14.gen, "c14", 8, 80),
                  (gen_c08.gen, "c08", 16, 160), (gen_pc.gen, "c18big", 8, 24)],
        "oracles": [pc_honest],
        "configs": [("RAYON_NUM_THREADS=1", True, 1), ("RAYON_NUM_THREADS=2", True, 2), ("RAYON_NUM_THREADS=3", True, 3),
                    ("RAYON_NUM_THREADS=8", True, 8), ("RAYON_NUM_THREADS=16", True, 16), ("build without the parallel feature", False, None),
                    ("RAYON_NUM_THREADS=16 (run 2)", True, 16), ("RAYON_NUM_THREADS=16 (run 3)", True, 16),
                    ("RAYON_NUM_THREADS=16 (run 4)", True, 16), ("RAYON_NUM_THREADS=16 (run 5)", True, 16)],
        "configs_quick": 6,
        "comparators": {"size": cmp_size, "bytes": cmp_size},
        "title": "Thread count and parallel feature",
    },
    "C19": {
        "props_file": "props/C19.v",
        "flows": [(gen_pc.gen, "c19", 48, 480), (gen_mlpc.gen, "c19", 10, 100)],
        "oracles": [pc_honest, oracle_c19, oracle_mlpc],
        "filter": _names("size", "bytes", "shape"),
        "comparators": {"size": cmp_size, "bytes": cmp_size},
        "title": "Succinctness",
    },
    "C14": {
        "props_file": "props/C14.v",
        "flows": [(gen_c14.gen, "c14", 60, 600), (gen_c14.gen_fold_grid, "c14", 60, 1040)],
        "oracles": [oracle_c14],
        "title": "Streaming KZG",
    },
    "C15": {
        "props_file": "props/C15.v",
        "flows": [(gen_c15.gen, "c15", 60, 600), (gen_pc.gen, "c15", 24, 360)],
        "oracles": [oracle_c15, pc_honest, lambda c, lo: pc_mutations(c, lo, ("value", "comm_swap", "cancel"))],
        "accept_diffs": ("mut.",),
        "title": "PST13 parameters and division",
    },
    "C12": {
        "props_file": "props/C12.v",
        "flows": [(gen_pc.gen, "c12", 64, 640), (gen_mlpc.gen, "c12", 10, 100)],
        "oracles": [pc_honest, pc_serialization],
        "filter": _names("rt", "sz", "len", "tr"),
        "title": "Canonical serialization",
    },
}
