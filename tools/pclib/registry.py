"""Per-property configuration: theorem file, scenario flows, compared observables, and the
implementation-level oracle used to search for a concrete failing input."""
import re

from . import gen_kzg, gen_pc
from .oracles import pc_honest, pc_mutations


def _names(*prefixes):
    pre = tuple(prefixes)

    def f(name):
        return name.split(".")[0] in pre
    return f


def lib_s(lo, name):
    v = lo.get(name)
    return v[1][0] if v and v[1] else None


# ---------------- oracles (evaluated on library observations only) ----------------
def oracle_c01_kzg(case, lo):
    """honest in-domain transcript must be accepted, and nothing may abort"""
    fails = []
    if case.kind != "kzg10" or not case.meta.get("in_domain", False):
        return fails
    n = int(case.fields["n"][0])
    for i in range(n):
        for step in ("commit", "open"):
            r = lib_s(lo, "%s.%d" % (step, i))
            if r != "ok":
                fails.append("kzg10 %s of in-domain polynomial %d (%s) -> %s" % (step, i, case.meta["shapes"][i], r))
                break
        else:
            r = lib_s(lo, "check.%d" % i)
            if r != "accept":
                fails.append("kzg10 honest proof for polynomial %d (%s) -> %s" % (i, case.meta["shapes"][i], r))
    return fails


PROPS = {
    "C01": {
        "props_file": "props/C01.v",
        "flows": [(gen_kzg.gen, "c01", 60, 600), (gen_pc.gen, "c01", 96, 960)],
        "filter": None,
        "oracles": [oracle_c01_kzg, pc_honest, lambda c, lo: pc_mutations(c, lo, ("vperm",))],
        "title": "Completeness",
    },
}
