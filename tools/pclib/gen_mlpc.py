"""multilinear_pc (multilinear PST) scenarios: setup/trim, commit/open/check, refusals, proof mutations, sizes."""
from .proto import Case
from .gen_common import rf_uniform, rf, rf_nz, R_BLS381

P = R_BLS381


def _evals(rng, nv):
    n = 1 << nv
    shape = rng.choice(["dense", "dense", "dense", "sparse", "zero", "const", "single"])
    if shape == "zero":
        return [0] * n, shape
    if shape == "const":
        v = rf_uniform(rng, P)
        return [v] * n, shape
    if shape == "single":
        ev = [0] * n
        ev[rng.randrange(n)] = rf_uniform(rng, P)
        return ev, shape
    if shape == "sparse":
        return [rf_uniform(rng, P) if rng.random() < 0.25 else 0 for _ in range(n)], shape
    return [rf_uniform(rng, P) for _ in range(n)], shape


def gen(rng, tier, profile, count):
    cases = []
    big = tier != "quick"
    for k in range(count):
        c = Case("mlpc-%d" % k, "mlpc")
        nv = rng.randint(1, 9 if big else 6)
        if profile == "c19":
            nv = rng.randint(2, 12 if big else 8)
        snv = nv if rng.random() < 0.6 else rng.randint(1, nv)
        q = rng.random()
        if profile in ("c17", "c09") and q < 0.08:
            nv, snv = 0, 0
        elif profile in ("c17", "c09") and q < 0.16:
            snv = nv + 1
        c.set("num_vars", nv).set("supported", snv).set("seed", rng.randrange(2 ** 63))
        if profile == "c12":
            c.set("c12", 1)
            c.meta["scheme"] = "mlpc"
        n = rng.randint(1, 3) if nv <= 8 else 1
        c.set("n", n)
        shapes = []
        for i in range(n):
            pnv = snv
            kind = "in"
            if profile in ("c17",) and rng.random() < 0.35 and snv >= 1:
                pnv = rng.choice([x for x in range(1, nv + 2) if x != snv] or [snv + 1])
                kind = "wrong_nv"
            ev, shape = _evals(rng, max(pnv, 0))
            c.set("pnv.%d" % i, pnv).set("poly.%d" % i, ev).set("repr.%d" % i, rng.choice(["dense", "sparse"]))
            zl = snv
            if profile == "c17" and rng.random() < 0.15 and snv >= 1:
                zl = rng.choice([snv - 1, snv + 1])
                kind += "+point%+d" % (zl - snv)
            if zl > 0:
                c.set("z.%d" % i, [rf(rng, P) if rng.random() < 0.25 else rf_uniform(rng, P) for _ in range(zl)])
            if rng.random() < 0.5 and snv >= 1:
                c.set("z2.%d" % i, [rf_uniform(rng, P) for _ in range(snv)])
            c.set("delta.%d" % i, rng.choice([1, P - 1, rf_nz(rng, P)]))
            shapes.append("mlpc:%s:%s" % (shape, kind))
        c.meta["shapes"] = shapes + ["mlpc:nv%d:snv%d" % (nv, snv)]
        c.meta["in_domain"] = nv >= 1 and 1 <= snv <= nv
        cases.append(c)
    return cases
