"""Line protocol shared by the harness (Rust), the runner (OCaml) and this orchestrator."""
from collections import OrderedDict


class Case:
    def __init__(self, cid, kind, fields=None, meta=None):
        self.id = str(cid)
        self.kind = kind
        self.fields = OrderedDict(fields or {})
        self.meta = meta or {}   # generator annotations (never sent to either side)

    def set(self, key, *toks):
        out = []
        for t in toks:
            if isinstance(t, (list, tuple)):
                out.extend(str(x) for x in t)
            else:
                out.append(str(t))
        self.fields[key] = out
        return self

    def text(self, extra=None):
        lines = ["case %s %s" % (self.id, self.kind)]
        for k, v in self.fields.items():
            lines.append("%s %s" % (k, " ".join(v)))
        for k, v in (extra or {}).items():
            lines.append("%s %s" % (k, " ".join(v)))
        lines.append("end")
        return "\n".join(lines) + "\n"

    def to_json(self):
        return {"id": self.id, "kind": self.kind, "fields": self.fields, "meta": self.meta}

    @staticmethod
    def from_json(j):
        return Case(j["id"], j["kind"], j["fields"], j.get("meta"))


def parse_output(text):
    """-> {case_id: {"obs": {name: (type, [toks])}, "in": {name: [toks]}}}"""
    res = OrderedDict()
    cur = None
    for line in text.splitlines():
        line = line.strip()
        if not line:
            continue
        parts = line.split()
        if parts[0] == "case":
            cur = {"obs": OrderedDict(), "in": OrderedDict()}
            res[parts[1]] = cur
        elif parts[0] == "end":
            cur = None
        elif cur is not None and parts[0] == "obs":
            cur["obs"][parts[1]] = (parts[2], parts[3:])
        elif cur is not None and parts[0] == "in":
            cur["in"][parts[1]] = parts[2:]
    return res
