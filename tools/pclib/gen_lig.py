"""Univariate Ligero end to end against the algebraic model (coq/theories/Schemes/Ligero.v): honest opening, false value,
mutated proofs.  Kind c13, sub ligflow."""
from .proto import Case
from .gen_common import rf, rf_uniform, rf_nz, R_BLS381

P = R_BLS381
MUTS = ["v_tamper", "v_stretch", "v_shorten", "col_tamper", "col_swap", "path_swap", "both_swap", "dup_col", "path_index",
        "path_node", "trunc_cols", "trunc_paths", "extra_col", "wf_tamper", "wf_drop", "wf_stretch"]


def _poly(rng, big):
    shape = rng.choice(["dense", "dense", "dense", "zero", "const", "sparse", "topzero", "single"])
    deg = rng.choice([0, 1, 2, 3, 7, 15, 16, 17, rng.randint(1, 400 if big else 90)])
    if shape == "zero":
        return [0], shape
    if shape == "const":
        return [rf_uniform(rng, P)], shape
    if shape == "sparse":
        return [rf_uniform(rng, P) if rng.random() < 0.2 else 0 for _ in range(deg + 1)], shape
    if shape == "topzero":
        return [rf_uniform(rng, P) for _ in range(deg + 1)] + [0] * rng.randint(1, 3), shape
    if shape == "single":
        co = [0] * (deg + 1)
        co[rng.randrange(deg + 1)] = rf_nz(rng, P)
        return co, shape
    return [rf_uniform(rng, P) for _ in range(deg + 1)], shape


def gen(rng, tier, profile, count):
    cases = []
    big = tier != "quick"
    for k in range(count):
        c = Case("lig-%d" % k, "c13")
        ml = rng.random() < 0.5
        bd = ml and rng.random() < 0.4
        co, shape = _poly(rng, big)
        if ml:
            nv = rng.randint(2 if bd else 1, 8 if big else 6)
            shape = rng.choice(["dense", "dense", "sparse", "zero", "const", "single"])
            n = 1 << nv
            if shape == "zero":
                co = [0] * n
            elif shape == "const":
                co = [rf_uniform(rng, P)] * n
            elif shape == "sparse":
                co = [rf_uniform(rng, P) if rng.random() < 0.25 else 0 for _ in range(n)]
            elif shape == "single":
                co = [0] * n
                co[rng.randrange(n)] = rf_nz(rng, P)
            else:
                co = [rf_uniform(rng, P) for _ in range(n)]
        wf = rng.choice([0, 1, 1])
        rho = rng.choice([2, 2, 3, 4, 4, 5, 8])
        sec = rng.choice([20, 40, 80, 128]) if not big else rng.choice([40, 80, 100, 128])
        c.set("sub", "ligflow").set("lig", sec, rho, wf).set("poly", co)
        if ml:
            c.set("scheme", "brakedown_ml" if bd else "ligero_ml").set("num_vars", nv).set("seed", rng.randrange(2 ** 63))
            c.set("pt", [rng.choice([0, 1]) if rng.random() < 0.15 else rf_uniform(rng, P) for _ in range(nv)])
        else:
            c.set("scheme", "ligero_uni")
            c.set("pt", rng.choice([0, 1, P - 1]) if rng.random() < 0.1 else rf_uniform(rng, P))
        c.set("delta", rng.choice([1, P - 1, rf_nz(rng, P)]))
        nm = 0 if profile == "c01" else (3 if profile == "c02" else 8)
        kinds = rng.sample(MUTS, min(nm, len(MUTS)))
        for i, kd in enumerate(kinds):
            c.set("mut.%d" % i, kd, rng.randrange(64), rng.randrange(64))
        c.meta["shapes"] = ["lig:%s:%s" % ("bd" if (ml and bd) else "ml" if ml else "uni", shape), "lig:rho%d" % rho, "lig:wf%d" % wf] + ["lig:mut:%s" % kd for kd in kinds]
        c.meta["in_domain"] = True
        c.meta["mut_kinds"] = kinds
        cases.append(c)
    return cases


def gen_multi(rng, tier, profile, count):
    """several polynomials in one Ligero opening (kind c13, sub ligmulti)"""
    cases = []
    big = tier != "quick"
    for k in range(count):
        c = Case("ligm-%d" % k, "c13")
        ml = rng.random() < 0.4
        n = rng.randint(2, 4 if big else 3)
        wf = rng.choice([0, 1, 1])
        rho = rng.choice([2, 2, 3, 4, 4, 5, 8])
        sec = rng.choice([20, 40, 80, 128]) if not big else rng.choice([40, 80, 100, 128])
        c.set("sub", "ligmulti").set("lig", sec, rho, wf).set("n", n)
        shapes = []
        if ml:
            nv = rng.randint(1, 7 if big else 5)
            c.set("scheme", "ligero_ml").set("num_vars", nv)
            for i in range(n):
                shape = rng.choice(["dense", "dense", "sparse", "zero", "const"])
                m = 1 << nv
                co = ([0] * m if shape == "zero" else [rf_uniform(rng, P)] * m if shape == "const" else
                      [rf_uniform(rng, P) if rng.random() < 0.3 else 0 for _ in range(m)] if shape == "sparse" else [rf_uniform(rng, P) for _ in range(m)])
                c.set("poly.%d" % i, co)
                shapes.append(shape)
            c.set("pt", [rng.choice([0, 1]) if rng.random() < 0.15 else rf_uniform(rng, P) for _ in range(nv)])
        else:
            c.set("scheme", "ligero_uni")
            for i in range(n):
                co, shape = _poly(rng, big)
                c.set("poly.%d" % i, co)
                shapes.append(shape)
            c.set("pt", rf_uniform(rng, P))
        c.set("bad_pos", rng.randrange(n)).set("delta", rng.choice([1, P - 1, rf_nz(rng, P)]))
        nm = 0 if profile == "c01" else (3 if profile == "c02" else 8)
        kinds = rng.sample(MUTS + ["list_drop", "list_extend"], nm)
        for i, kd in enumerate(kinds):
            c.set("mut.%d" % i, kd, rng.randrange(64), rng.randrange(64))
        c.meta["shapes"] = ["ligm:%s:n%d" % ("ml" if ml else "uni", n), "ligm:wf%d" % wf] + ["ligm:%s" % x for x in shapes] + ["ligm:mut:%s" % kd for kd in kinds]
        c.meta["in_domain"] = True
        c.meta["mut_kinds"] = kinds
        cases.append(c)
    return cases
