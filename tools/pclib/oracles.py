"""Implementation-level oracles: evaluated on library observations only; they decide whether a
generated input is a concrete failing input for the property (the 'search' half of a check)."""


def lib_s(lo, name):
    v = lo.get(name)
    return v[1][0] if v and v[1] else None


def describe_op(case, t):
    op = case.meta["ops"][t]
    if op["kind"] == "single":
        return "open/check of %d polynomial(s) at one point" % len(op["sel"])
    if op["kind"] == "batch":
        return "batch_open/batch_check (%d queries, %d point labels%s)" % (len(op["qs"]), op["nlabels"], ", permuted inputs" if op.get("perm") else "")
    return "open_combinations/check_combinations (%d combinations%s)" % (
        len(op["lcs"]), ", two point labels share a point value" if op.get("shared_point_value") else "")


def pc_honest(case, lo, sync=True):
    """honest in-domain history: nothing refuses, every check accepts, sponges stay in lock-step"""
    fails = []
    if case.kind != "pc" or not case.meta.get("in_domain"):
        return fails
    sch = case.meta["scheme"]
    for step in ("setup", "trim", "commit"):
        r = lib_s(lo, step)
        if r != "ok":
            fails.append("%s %s of in-domain request -> %s [shapes %s]" % (sch, step, r, ",".join(case.meta["shapes"])))
            return fails
    for t, op in enumerate(case.meta["ops"]):
        r = lib_s(lo, "open.%d" % t)
        if r != "ok":
            fails.append("%s honest %s: prover -> %s" % (sch, describe_op(case, t), r))
            break
        r = lib_s(lo, "check.%d" % t)
        if r != "accept":
            fails.append("%s honest %s: verifier -> %s" % (sch, describe_op(case, t), r))
            break
        if sync and lib_s(lo, "sync.%d" % t) != "equal":
            fails.append("%s %s: prover and verifier sponges differ afterwards" % (sch, describe_op(case, t)))
            break
    return fails


def honest_ok(case, lo):
    if any(lib_s(lo, s) != "ok" for s in ("setup", "trim", "commit")):
        return False
    for t, _ in enumerate(case.meta.get("ops", [])):
        if lib_s(lo, "open.%d" % t) != "ok" or lib_s(lo, "check.%d" % t) != "accept":
            return False
    return True


def pc_mutations(case, lo, kinds=None):
    """mutated verifier runs: 'reject' expectations must not be accepted, 'accept' ones must be"""
    fails = []
    if case.kind != "pc":
        return fails
    sch = case.meta["scheme"]
    for m in case.meta.get("muts", []):
        if kinds is not None and m["kind"] not in kinds:
            continue
        t = m["t"]
        # judged only when the honest run of that operation was accepted
        if lib_s(lo, "check.%d" % t) != "accept":
            continue
        r = lib_s(lo, "mut.%d" % m["m"])
        if r is None or r == "skipped":
            continue
        opk = case.meta["ops"][t]["kind"]
        if m["expect"] == "reject" and r == "accept":
            fails.append("%s %s verifier accepts mutated input: %s %s" % (sch, opk, m["kind"], " ".join(m["args"][:2] if m["kind"] in ("proofs", "comm_mut", "proof_mut", "proof_mut_v", "attack") else [])))
        elif m["expect"] == "accept" and r != "accept":
            fails.append("%s %s verifier does not accept harmless variation: %s -> %s" % (sch, opk, m["kind"], r))
        # the same altered commitments with a cooperating prover (a fresh opening made against them)
        r2 = lib_s(lo, "mut.%d.reopen" % m["m"])
        if m["expect"] == "reject" and r2 == "accept":
            fails.append("%s %s verifier accepts altered commitments when the proof is made against them: %s %s"
                         % (sch, opk, m["kind"], " ".join(m["args"][:2])))
    return fails


def pc_refusals(case, lo):
    """requests built to violate a degree/bound admission rule must not be served"""
    fails = []
    if case.kind != "pc" or "refuse" not in case.meta:
        return fails
    if lib_s(lo, "setup") == "ok" and lib_s(lo, "trim") == "ok" and lib_s(lo, "commit") == "ok":
        r = case.meta["refuse"]
        fails.append("%s commit served an out-of-domain request (%s, polynomial %d: degree %d, bound %s)"
                     % (case.meta["scheme"], r["why"], r["poly"], len(case.fields["poly.%d" % r["poly"]]) - 1,
                        case.fields["bound.%d" % r["poly"]][0]))
    return fails


def pc_hiding(case, lo):
    """C07 on the implementation: equal streams -> equal commitments, independent streams -> different
    commitments and proofs for hiding polynomials, no blinding and no draws without a hiding bound,
    refusal when hiding is requested without an RNG"""
    fails = []
    if case.kind != "pc" or "c07" not in case.fields or lib_s(lo, "commit") != "ok":
        return fails
    sch = case.meta["scheme"]
    n = case.meta["n"]
    hid = [sch == "hyrax" or case.fields["hiding.%d" % i][0] != "none" for i in range(n)]
    for i in range(n):
        tag = "%s polynomial %d (%s)" % (sch, i, case.meta["shapes"][i])
        if lib_s(lo, "same_seed.%d" % i) not in (None, "equal"):
            fails.append("%s: the same RNG stream gives a different commitment" % tag)
        if hid[i]:
            if lib_s(lo, "diff_seed.%d" % i) == "equal":
                fails.append("%s: hiding commitment does not depend on the RNG stream" % tag)
            if lib_s(lo, "repeat_distinct.%d" % i) == "no":
                fails.append("%s: repeated hiding commitments under different streams collide" % tag)
            if lib_s(lo, "proof_diff.%d" % i) == "equal":
                fails.append("%s: opening proofs of differently blinded commitments are identical" % tag)
        elif lib_s(lo, "diff_seed.%d" % i) == "differ":
            fails.append("%s: commitment without hiding bound depends on the RNG" % tag)
    # Hyrax: every opened polynomial gets its own masks (dim + 3 fresh draws each)
    if sch == "hyrax":
        nv = int(case.fields["num_vars"][0])
        for t, op in enumerate(case.meta["ops"]):
            if op["kind"] != "single":
                continue
            if lib_s(lo, "pf.%d.fresh_masks" % t) == "no":
                fails.append("hyrax open of %d polynomials at one point: the masking commitments com_d / com_b repeat across the proofs "
                             "(responses differ by an unmasked combination of the witnesses)" % len(op["sel"]))
            d = lib_s(lo, "open_draws.%d" % t)
            if d is not None and d.lstrip("-").isdigit() and 0 <= int(d) < len(op["sel"]) * ((1 << (nv // 2)) + 3):
                fails.append("hyrax open of %d polynomials draws %s scalars from the caller's RNG, fewer than the %d its masks need"
                             % (len(op["sel"]), d, len(op["sel"]) * ((1 << (nv // 2)) + 3)))
    # blinding polynomials: h+2 independent coefficients per blinded commitment (plain and shifted part)
    if sch in ("marlin", "sonic"):
        for i in range(n):
            h = case.fields["hiding.%d" % i][0]
            if h == "none":
                continue
            for part in ("rand", "srand"):
                v = lo.get("%s.%d" % (part, i))
                if v is None:
                    continue
                k = 0 if v[1] == ["-"] else len(v[1])
                if k < int(h) + 2:
                    fails.append("%s polynomial %d (%s): %s blinding polynomial has %d coefficients for hiding bound %s (needs %d)"
                                 % (sch, i, case.meta["shapes"][i], "shifted" if part == "srand" else "unshifted", k, h, int(h) + 2))
    # IPA: one fresh blinding scalar per blinded group element - the plain and the shifted commitment of a degree-bounded hiding
    # polynomial each get their own, and no scalar serves two commitments of one call (independent uniform scalars coincide with
    # negligible probability; a repeat means comm - shifted_comm, or the difference of two commitments, is independent of the RNG)
    if sch == "ipa":
        seen = {}
        for i in range(n):
            if case.fields["hiding.%d" % i][0] == "none":
                continue
            v = lo.get("rand.%d" % i)
            if v is None:
                continue
            toks = list(v[1])
            if case.fields["bound.%d" % i][0] != "none" and len(toks) < 2:
                fails.append("ipa polynomial %d (%s): hiding and degree-bounded, but the commitment state has no blinding scalar for the shifted commitment"
                             % (i, case.meta["shapes"][i]))
            for k, tkn in enumerate(toks):
                if tkn in seen:
                    j, kj = seen[tkn]
                    fails.append("ipa polynomial %d (%s): the %s commitment is blinded with the same scalar as the %s commitment of polynomial %d "
                                 "(their difference does not depend on the RNG)"
                                 % (i, case.meta["shapes"][i], "shifted" if k else "plain", "shifted" if kj else "plain", j))
                else:
                    seen[tkn] = (i, k)
    # PST13: the blinding polynomial (from the commitment state) has at least h+2 coefficients, univariate monomials only,
    # none when the polynomial is not hiding
    if sch == "pst13":
        for i in range(n):
            v = lo.get("blind.%d" % i)
            if v is None:
                continue
            h = case.fields["hiding.%d" % i][0]
            toks = [] if v[1] == ["zero"] else v[1]
            if h == "none":
                if toks:
                    fails.append("pst13 polynomial %d (%s): a commitment without hiding bound carries a blinding polynomial of %d terms"
                                 % (i, case.meta["shapes"][i], len(toks)))
                continue
            if len(toks) < int(h) + 2:
                fails.append("pst13 polynomial %d (%s, %s variables): blinding polynomial has %d coefficients for hiding bound %s (needs %d)"
                             % (i, case.meta["shapes"][i], case.fields["num_vars"][0], len(toks), h, int(h) + 2))
            if any("*" in t.split(":", 1)[1] for t in toks):
                fails.append("pst13 polynomial %d: blinding polynomial has a mixed monomial (the committer key only blinds univariate powers)" % i)
    r = lib_s(lo, "commit_without_rng")
    if any(hid) and r == "ok":
        fails.append("%s commit with a hiding bound and no RNG returned commitments" % sch)
    if not any(hid):
        if r is not None and r != "ok":
            fails.append("%s commit without hiding bounds needs an RNG (%s)" % (sch, r))
        if lib_s(lo, "commit_rng_bytes") not in (None, "0"):
            fails.append("%s commit without hiding bounds consumed %s bytes of the caller's RNG" % (sch, lib_s(lo, "commit_rng_bytes")))
    return fails


def pc_domain(case, lo):
    """requests outside the domain at setup / trim must end in an error or abort"""
    fails = []
    if case.kind != "pc" or "refuse_stage" not in case.meta:
        return fails
    st = case.meta["refuse_stage"]
    if st == "setup" and lib_s(lo, "setup") == "ok":
        fails.append("%s setup served an out-of-domain request (%s)" % (case.meta["scheme"], case.meta["refuse_kind"]))
    if st == "trim" and lib_s(lo, "setup") == "ok" and lib_s(lo, "trim") == "ok":
        fails.append("%s trim served an out-of-domain request (%s: supported_degree %s, hiding %s, bounds %s, max_degree %s)"
                     % (case.meta["scheme"], case.meta["refuse_kind"], case.fields["supported_degree"][0], case.fields["supported_hiding"][0],
                        " ".join(case.fields["bounds"]), case.fields["max_degree"][0]))
    return fails


def pc_serialization(case, lo):
    """C12 on the implementation: re-serialization identical, reported size = bytes written, every proper prefix
    is an error, decisions with deserialized key / commitments / proof unchanged"""
    fails = []
    if case.kind not in ("pc", "mlpc") or "c12" not in case.fields:
        return fails
    sch = case.meta["scheme"]
    for k, v in lo.items():
        parts = k.split(".")
        if parts[0] == "rt" and v[1][0] != "ok":
            fails.append("%s %s (%s): serialize/deserialize/serialize -> %s" % (sch, parts[1], "compressed" if parts[2] == "c" else "uncompressed", v[1][0]))
        if parts[0] == "sz":
            ln = lo.get("len." + ".".join(parts[1:]))
            if ln and ln[1] != v[1]:
                fails.append("%s %s (%s): serialized_size %s but %s bytes written" % (sch, parts[1], parts[2], v[1][0], ln[1][0]))
        if parts[0] == "tr" and any(x == "ok" for x in v[1]):
            fails.append("%s %s (%s): a truncated serialization deserializes successfully" % (sch, parts[1], parts[2]))
    for tag in ("c", "u"):
        if lib_s(lo, "deser_check." + tag) not in (None, "accept"):
            fails.append("%s: verification with deserialized key, commitments and proof (%s) -> %s" % (sch, tag, lib_s(lo, "deser_check." + tag)))
        if lib_s(lo, "deser_batch_check." + tag) not in (None, "accept"):
            fails.append("%s: batch verification with a deserialized verifier key (%s) -> %s" % (sch, tag, lib_s(lo, "deser_batch_check." + tag)))
        if lib_s(lo, "deser_check_bad." + tag) == "accept":
            fails.append("%s: verification with deserialized inputs accepts a false value" % sch)
    return fails
