"""C16 scenarios: LinearCombination operator sequences, evaluate_query_set, SuccinctCheckPolynomial."""
from .proto import Case
from .gen_common import rf, rf_nz, rf_uniform, rand_poly, R_BLS381


def _terms(rng, nmax, labels):
    out = []
    for _ in range(rng.randint(0, nmax)):
        co = rng.choice([0, 1, R_BLS381 - 1, rf_uniform(rng), rf_uniform(rng)])
        t = "one" if rng.random() < 0.25 else rng.choice(labels)
        out += [co, t]
    return out


def gen(rng, tier, profile, count):
    cases = []
    big = tier != "quick"
    for k in range(count):
        sub = ("lcop", "eqs", "scp")[k % 3]
        c = Case("c16-%s-%d" % (sub, k), "c16")
        c.set("sub", sub)
        if sub == "lcop":
            labels = rng.sample(range(50), rng.randint(1, 5))
            c.set("lc0", _terms(rng, 4, labels))
            nops = rng.randint(0, 12)
            kinds = []
            for i in range(nops):
                kind = rng.choice(["addscaled", "subscaled", "add", "sub", "addc", "subc", "mul"])
                kinds.append(kind)
                if kind in ("addscaled", "subscaled"):
                    c.set("op.%d" % i, kind, rf(rng), _terms(rng, 3, labels))
                elif kind in ("add", "sub"):
                    c.set("op.%d" % i, kind, _terms(rng, 3, labels))
                else:
                    c.set("op.%d" % i, kind, rf(rng))
            ev = []
            for l in labels:
                ev += [l, rf(rng)]
            c.set("ev", ev)
            c.meta["shapes"] = ["lcop:" + kk for kk in kinds] or ["lcop:none"]
        elif sub == "eqs":
            npoly = rng.randint(1, 5)
            labels = rng.sample(range(50), npoly)
            if rng.random() < 0.2 and npoly >= 2:
                labels[1] = labels[0]      # duplicate label: the later polynomial wins in the map
            for i, l in enumerate(labels):
                coeffs, _ = rand_poly(rng, 8)
                c.set("poly.%d" % i, l, coeffs)
            npts = rng.randint(1, 3)
            pts = [rf(rng) for _ in range(npts)]
            qs = set()
            free_points = rng.random() < 0.4    # a point label is only a name: the same name may go with several points
            for _ in range(rng.randint(0, 8)):
                zl = rng.randrange(4)
                z = rng.choice(pts) if free_points else pts[zl % npts]
                qs.add((rng.choice(labels), zl, z))   # labels may share a point value
            toks = []
            for (l, zl, z) in sorted(qs):
                toks += [l, zl, z]
            c.set("qs", toks)
            multi = len(set((l, zl) for (l, zl, z) in qs)) < len(qs)
            c.meta["shapes"] = ["eqs:q%d" % len(qs), "eqs:dup" if len(set(labels)) < npoly else "eqs:nodup",
                                "eqs:label-with-several-points" if multi else "eqs:one-point-per-label"]
        else:
            kmax = 10 if big else 8
            n = rng.choice([0, 1, 2, rng.randint(0, kmax), rng.randint(0, kmax)])
            c.set("chs", [rf(rng) for _ in range(n)])
            c.set("z", rf(rng))
            c.meta["shapes"] = ["scp:k%d" % n]
        c.meta["in_domain"] = True
        cases.append(c)
    return cases
