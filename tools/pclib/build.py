"""Builds: Coq development (full .vo), extracted runner, Rust harness against /repo's working tree."""
import fcntl
import hashlib
import os
import re
import subprocess
import time

VERIF = os.path.dirname(os.path.dirname(os.path.dirname(os.path.abspath(__file__))))
COQ = os.path.join(VERIF, "coq")
RUNNER = os.path.join(VERIF, "runner")
HARNESS = os.path.join(VERIF, "harness")
REPO = "/repo"
GUARD = "arkworks_rs_poly_commit_verif"

ENV = dict(os.environ)
ENV.update({"CARGO_NET_OFFLINE": "true", "LC_ALL": "C"})


class BuildError(Exception):
    pass


class Lock:
    def __init__(self, name):
        self.path = os.path.join(VERIF, ".lock-" + name)

    def __enter__(self):
        self.f = open(self.path, "w")
        fcntl.flock(self.f, fcntl.LOCK_EX)
        return self

    def __exit__(self, *a):
        fcntl.flock(self.f, fcntl.LOCK_UN)
        self.f.close()


def run(cmd, cwd=None, timeout=3600, env=None, input=None):
    p = subprocess.run(cmd, cwd=cwd, env=env or ENV, stdout=subprocess.PIPE, stderr=subprocess.STDOUT,
                       timeout=timeout, input=input, text=True)
    return p.returncode, p.stdout


def tree_hash(paths, exts):
    h = hashlib.sha256()
    for root in paths:
        if os.path.isfile(root):
            files = [root]
        else:
            files = []
            for d, _, fs in os.walk(root):
                if "/gen" in d or "/target" in d:
                    continue
                for f in fs:
                    if f.endswith(exts):
                        files.append(os.path.join(d, f))
        for f in sorted(files):
            h.update(f.encode())
            with open(f, "rb") as fh:
                h.update(fh.read())
    return h.hexdigest()


def coq_sources():
    out = []
    for sub in ("theories", "props"):
        for d, _, fs in os.walk(os.path.join(COQ, sub)):
            for f in sorted(fs):
                if f.endswith(".v"):
                    out.append(os.path.join(d, f))
    return sorted(out)


FORBIDDEN = re.compile(r"\b(Admitted|admit|Axiom|Axioms|Parameter|Parameters|Conjecture|Admit Obligations|"
                       r"bypass_check|Unset Guard Checking|Unset Positivity Checking|Unset Universe Checking|"
                       r"type-in-type|impredicative-set|Abort All)\b")


def strip_comments(src):
    out = []
    depth = 0
    i = 0
    while i < len(src):
        if src.startswith("(*", i):
            depth += 1
            i += 2
        elif src.startswith("*)", i) and depth > 0:
            depth -= 1
            i += 2
        else:
            if depth == 0:
                out.append(src[i])
            i += 1
    return "".join(out)


def grep_forbidden():
    hits = []
    files = coq_sources() + [os.path.join(COQ, "extract", "Extract.v")]
    for f in files:
        src = strip_comments(open(f).read())
        for ln, line in enumerate(src.splitlines(), 1):
            if FORBIDDEN.search(line):
                hits.append("%s:%d: %s" % (os.path.relpath(f, VERIF), ln, line.strip()))
        # a Variable/Hypothesis/Context outside a section declares an axiom
        depth = 0
        for ln, line in enumerate(src.splitlines(), 1):
            s = line.strip()
            if re.match(r"^(Section|Module Type)\b", s):
                depth += 1
            elif re.match(r"^End\b", s) and depth > 0:
                depth -= 1
            elif depth == 0 and re.match(r"^(Variable|Variables|Hypothesis|Hypotheses|Context)\b", s):
                hits.append("%s:%d: %s (outside a section)" % (os.path.relpath(f, VERIF), ln, s))
    return hits


def build_coq():
    """Full .vo build through coq_makefile (never -vos)."""
    with Lock("coq"):
        t0 = time.time()
        rc, out = run(["coq_makefile", "-f", "_CoqProject", "-o", "Makefile"], cwd=COQ)
        if rc != 0:
            raise BuildError("coq_makefile failed:\n" + out)
        rc, out = run(["timeout", "3000", "make", "-j16"], cwd=COQ, timeout=3100)
        if rc != 0:
            raise BuildError("Coq build failed:\n" + out[-4000:])
        return time.time() - t0


def build_runner():
    with Lock("runner"):
        stamp = os.path.join(RUNNER, ".stamp")
        h = tree_hash([os.path.join(COQ, "theories"), os.path.join(COQ, "extract", "Extract.v"),
                       os.path.join(RUNNER, "proto.ml"), os.path.join(RUNNER, "driver.ml"),
                       os.path.join(RUNNER, "build.sh")], (".v", ".ml", ".sh"))
        if os.path.exists(stamp) and open(stamp).read() == h and os.path.exists(os.path.join(RUNNER, "runner")):
            return 0.0
        t0 = time.time()
        rc, out = run(["timeout", "1200", "bash", "build.sh"], cwd=RUNNER, timeout=1300)
        if rc != 0:
            raise BuildError("runner build failed:\n" + out[-4000:])
        open(stamp, "w").write(h)
        return time.time() - t0


def harness_bin(parallel=True):
    return os.path.join(HARNESS, "target" if parallel else "target-nopar", "release", "pc-harness")


def build_harness(parallel=True):
    """Always asks cargo: it rebuilds ark-poly-commit whenever /repo's working tree changed."""
    with Lock("harness" if parallel else "harness-nopar"):
        t0 = time.time()
        lock = os.path.join(HARNESS, "Cargo.lock")
        if not os.path.exists(lock):
            import shutil
            shutil.copy(os.path.join(REPO, "Cargo.lock"), lock)
        cmd = ["timeout", "3000", "cargo", "build", "--release", "--offline"]
        env = dict(ENV)
        if not parallel:
            cmd += ["--no-default-features", "--target-dir", os.path.join(HARNESS, "target-nopar")]
        rc, out = run(cmd, cwd=HARNESS, timeout=3100, env=env)
        if rc != 0:
            raise BuildError("harness build failed (does /repo still compile?):\n" + out[-6000:])
        return time.time() - t0


def print_assumptions(prop_file):
    """Re-compile one props file into a scratch dir and parse every Print Assumptions block.
    Returns list of (theorem, 'closed' | [axioms])."""
    import tempfile
    with Lock("coq"):
        with tempfile.TemporaryDirectory(prefix="pcprops") as td:
            outvo = os.path.join(td, os.path.basename(prop_file) + "o")
            rc, out = run(["timeout", "900", "coqc", "-noglob", "-Q", "theories", "PC", "-Q", "props", "PCProps",
                           prop_file, "-o", outvo], cwd=COQ, timeout=1000)
    if rc != 0:
        raise BuildError("props file does not check: %s\n%s" % (prop_file, out[-4000:]))
    src = strip_comments(open(os.path.join(COQ, prop_file)).read())
    names = re.findall(r"Print Assumptions\s+([A-Za-z0-9_.']+)\s*\.", src)
    blocks = []
    cur = None
    for line in out.splitlines():
        if line.startswith("Closed under the global context"):
            blocks.append("closed")
            cur = None
        elif line.startswith("Axioms:"):
            cur = []
            blocks.append(cur)
        elif cur is not None and line.strip():
            m = re.match(r"^([A-Za-z0-9_.']+)\s*:", line)
            if m:
                cur.append(m.group(1))
    if len(blocks) != len(names):
        raise BuildError("could not match Print Assumptions output for %s (%d blocks, %d names)\n%s"
                         % (prop_file, len(blocks), len(names), out[-2000:]))
    return list(zip(names, blocks)), out
