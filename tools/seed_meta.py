#!/usr/bin/env python3
"""usage: seed_meta.py <seed-id> <property> <detected_by csv or -> <note>"""
import json, os, sys
sid, prop, det, note = sys.argv[1:5]
d = "/verif/seeded/" + sid
a = json.load(open(d + "/meta.agent.json")) if os.path.exists(d + "/meta.agent.json") else {}
conf = open(d + "/confirm.log").read() if os.path.exists(d + "/confirm.log") else ""
m = {"id": sid, "breaks_property": prop,
     "summary": a.get("summary") or a.get("what") or a.get("title"),
     "needs_to_manifest": a.get("needs_to_manifest") or a.get("manifests_when"),
     "origin": "written by a fresh sub-agent that saw only the property text and a scratch worktree",
     "confirmed_by_me": {"what_i_ran": ["cargo test -p ark-poly-commit --offline --lib (with change)",
                                        "cargo test -p ark-poly-commit --offline --test seed_demo (with change: must fail)",
                                        "git stash the src change; same demo (must pass)",
                                        "tools/try_seed.sh patch.diff <checks> (git apply in /repo, run checks, git checkout -- .)"],
                         "log": conf.strip().splitlines()},
     "detected_by": [] if det == "-" else det.split(","),
     "note": note}
json.dump(m, open(d + "/meta.json", "w"), indent=1)
if os.path.exists(d + "/meta.agent.json"):
    os.remove(d + "/meta.agent.json")
print("wrote", d + "/meta.json")
