HOOK_COMMITS = []
COMMON_NOTE = ("Trusted: Coq 8.16.1 kernel, extraction (ExtrOcamlBasic, ExtrOcamlZBigInt), zarith, the OCaml driver, the Rust harness and the "
               "python orchestration; groups/pairing modelled as discrete logs over an abstract field; ark-* primitives, hashes and sponges are oracles. "
               "Theorems are about the model; the model is tied to /repo by the correspondence run of this check.")
CHECKS = [
    {"property_id": "C01",
     "text": "Completeness of the modelled schemes is a Coq theorem for every field, trapdoor, degree, polynomial, point, hiding bound and RNG tape; "
             "the model is compared with the library on generated honest transcripts (commitments, randomness, proofs, decisions, RNG draws).",
     "note": COMMON_NOTE + " Currently modelled for C01: KZG10 (commit/open/check); other schemes are being added."},
    {"property_id": "C16",
     "text": "Coq theorems (unbounded): every LinearCombination operator and every operator sequence acts on values as the corresponding arithmetic; "
             "evaluate_query_set maps exactly the queried (label, point) keys to the polynomial's value; SuccinctCheckPolynomial::evaluate equals Horner "
             "evaluation of compute_coeffs for every challenge list and point, with 2^k coefficients and challenge j at position 2^(k-j). "
             "The extracted model is compared term by term with the library's operators, evaluate_query_set and SuccinctCheckPolynomial.",
     "note": COMMON_NOTE + " Modelled: data_structures.rs LinearCombination operators (terms as ordered list), lib.rs evaluate_query_set (BTreeMap as ordered "
             "association list), ipa_pc SuccinctCheckPolynomial::{evaluate,compute_coeffs}. Not modelled: string labels (numeric labels printed fixed-width)."},
]
_PENDING = "check not built yet in this round (model and correspondence under construction; see DESIGN.md section 7)"
_CLAIMED = {c["property_id"] for c in CHECKS}
NOT_APPLICABLE = [{"property_id": "C%02d" % i, "reason": _PENDING} for i in range(1, 20) if "C%02d" % i not in _CLAIMED]
