HOOK_COMMITS = ["725ea72", "a9505d1", "a2ed081"]
COMMON_NOTE = ("Trusted: Coq 8.16.1 kernel, extraction (ExtrOcamlBasic, ExtrOcamlZBigInt), zarith, the OCaml driver, the Rust harness and the "
               "python orchestration; groups/pairing modelled as discrete logs over an abstract field; ark-* primitives, hashes and sponges are oracles. "
               "Theorems are about the model; the model is tied to /repo by the correspondence run of this check.")
CHECKS = [
    {"property_id": "C01",
     "text": "Completeness of the modelled schemes is a Coq theorem for every field, trapdoor, degree, polynomial, point, hiding bound and RNG tape; "
             "the model is compared with the library on generated honest transcripts (commitments, randomness, proofs, decisions, RNG draws).",
     "note": COMMON_NOTE + " Modelled for C01: KZG10, MarlinKZG10 (trim/commit/open/check/batch_open/batch_check with degree bounds and hiding), SonicKZG10 "
             "(trim/commit/open/check with degree bounds and hiding; end-to-end completeness theorem), the multilinear PST of multilinear_pc "
             "(setup/trim/commit/open/check; completeness under every trimmed key), PST13's division and streaming KZG (see C15, C14), Hyrax "
             "(commit/open/check of one polynomial; completeness of the dot-product argument for every matrix, point, tape and challenge) and "
             "the inner-product argument (trim/commit/open/succinct_check/check of any list of polynomials at one point, degree bounds and hiding "
             "included; end-to-end completeness for all sponge challenges and all nonzero round challenges). Hyrax and IPA group elements are "
             "modelled as coefficient vectors over the published key (generic-group view). The linear codes (Ligero univariate / multilinear, Brakedown) are modelled at the trait "
             "level: open / check over a list of polynomials on the threaded transcript, the default batch and combination functions instantiated "
             "with them; theorems C01_lincode_list_complete, C01_lincode_batch_complete and, for ANY scheme, C01_default_batch_complete; all their "
             "single / batch / combination flows are compared with the library. Hyrax, IPA and PST13 batch and combination flows are modelled and "
             "compared as well (C05, C06); end-to-end batch and combination completeness theorems exist for Marlin, Sonic, IPA, PST13, Hyrax and the linear "
             "codes. The streaming-KZG scenarios of C14 (time and space provers, multi-point batches of polynomials of different lengths) are part of "
             "this check's run too."},
    {"property_id": "C16",
     "text": "Coq theorems (unbounded): every LinearCombination operator and every operator sequence acts on values as the corresponding arithmetic; "
             "evaluate_query_set maps exactly the queried (label, point) keys to the polynomial's value; SuccinctCheckPolynomial::evaluate equals Horner "
             "evaluation of compute_coeffs for every challenge list and point, with 2^k coefficients and challenge j at position 2^(k-j). "
             "The extracted model is compared term by term with the library's operators, evaluate_query_set and SuccinctCheckPolynomial.",
     "note": COMMON_NOTE + " Modelled: data_structures.rs LinearCombination operators (terms as ordered list), lib.rs evaluate_query_set (BTreeMap as ordered "
             "association list), ipa_pc SuccinctCheckPolynomial::{evaluate,compute_coeffs}. Not modelled: string labels (numeric labels printed fixed-width)."},
]
GENERIC = (" Sonic's single-point flow (keys, commitments, proofs, decisions and mutated verifier runs) is compared with its extracted model as Marlin's is; "
           "so are Hyrax's and IPA's single-point flows (free-module view over the published key; sponge and hash challenges from recorded tapes). "
           "PST13's trait-level single-point flows (hiding, several polynomials) are compared with their model (free module over g, gamma_g and the standard generator; trapdoors replayed from the setup RNG). "
           "Univariate and multilinear Ligero's and Brakedown's single-polynomial flow (opened vectors, queried columns, indices, value, decisions on the honest proof, a false value and "
           "mutated proofs) is compared with its model, in which column hash and Merkle tree are an ideal vector commitment and Brakedown's encoder is its generator matrix as observed from the library. "
           "The other paths behind the PolynomialCommitment trait (multi-polynomial linear-code openings, IPA/Hyrax/PST13 batches and combinations) are "
           "exercised by the same generated histories and judged by implementation-level oracles (supporting search, not proof).")
CHECKS += [
    {"property_id": "C02",
     "text": "Coq theorems: KZG10 check rejects value+d for every d<>0 (unconditional), accepts another point iff W*h*(z'-z)=0, another commitment "
             "iff it is equal; Marlin (any list of polynomials, with/without degree bounds): at every position j the claim v_j+d is accepted iff "
             "(g*xi_j + shift_j*xi'_j)*h*d = 0. The extracted KZG10 and Marlin models are run on the same honest transcripts and on every generated "
             "statement mutation (value, point, commitment swap, cancelling deltas) and their decisions are compared with the library's.",
     "note": COMMON_NOTE + " Modelled: kzg10::{setup,commit,open,check,batch_check}, marlin_pc::{trim,commit,open,check,batch_open,batch_check}, "
             "Marlin::{accumulate_commitments_and_values,combine_and_normalize} incl. query grouping." + GENERIC},
    {"property_id": "C03",
     "text": "Partial. Coq theorems: KZG10 binding against algebraic provers (acceptance of a false value forces the trapdoors onto the zero set of an "
             "explicit non-zero polynomial; root-count bound), exact characterisation of a replaced witness / blinding value, refusal of batches with "
             "missing or surplus proofs. Correspondence: extracted KZG10/Marlin models vs library on crafted proofs (replaced/added witness elements, "
             "proofs of other polynomials/points, empty / truncated / extended / permuted / duplicated proof lists).",
     "note": COMMON_NOTE + " No general knowledge-soundness proof (IPA rewinding, Ligero/Brakedown proximity): see DESIGN.md section 6." + GENERIC},
    {"property_id": "C05",
     "text": "Coq theorems: KZG10::batch_check (the engine of the Marlin batch verifier) decides 'sum_i rho_i * E_i = 0' where E_i is exactly the residual "
             "of the i-th individual check, rho_1 = 1 and rho_(i+1) is the i-th verifier draw (one draw per claim); all-true batches accept for every "
             "randomness; one false claim with non-zero randomizer rejects; length mismatches are refused. Correspondence: model vs library on true, "
             "one-false, cancelling, short, long, permuted, duplicated and empty batches, with the verifier's RNG replayed as the model's tape.",
     "note": COMMON_NOTE + " Modelled batch verifiers: KZG10::batch_check, MarlinKZG10::batch_check (grouping + accumulate + KZG10 batch); the trait's default "
             "batch_open/batch_check as a generic Coq function of the scheme's own open/check (theorem: verdict = conjunction of the group verdicts in "
             "order on the shared transcript; wrong proof count aborts), instantiated with Hyrax; IPA's own batch_check (theorem: accepts for any "
             "randomizers when every group passes, for proofs whose final key matches their check polynomial) and PST13's own batch_check "
             "(theorem: residual = randomizer-weighted sum of the single-point residuals), both with the default batch_open. Sonic's own batch_check "
             "(theorems: the value compared with zero is the randomizer-weighted sum of the single-check residuals of the groups; all-true accepts; "
             "one false group with a non-zero randomizer rejects). The default functor is also instantiated with the linear-code model (Ligero, "
             "Brakedown). All their batch flows and batch mutations are compared with the library." + GENERIC},
    {"property_id": "C10",
     "text": "Coq theorems: the KZG10 check as coded accepts iff e(C - vG - rv*gammaG, H) = e(W, betaH - zH); honest proofs satisfy it; every "
             "component (value, point, commitment, witness, blinding value, vk.g, vk.beta_h) moves the residual by an explicit term; the Marlin check "
             "is an explicit affine function of the claimed values with coefficients from the transcript challenges. The extracted model is the "
             "independent implementation of the relation: its decisions are compared with the library's over the single-fault neighbourhood of "
             "honest transcripts (statement, proof and key components replaced).",
     "note": COMMON_NOTE + GENERIC},
]
CHECKS += [
    {"property_id": "C13",
     "text": "Coq theorems (exact integer arithmetic, all arguments): calculate_t's model returns min(t, n) with t THE least count satisfying "
             "2*(1-d/2)^t + n/|F| <= 2^-lambda (holds at t, fails below, monotone above), errors exactly when no t exists or the distance is "
             "degenerate; derived column positions are < n, one per squeeze, and the byte fold cannot overflow; Reed-Solomon encoding is linear of "
             "the declared length. Correspondence: the library's f64 calculate_t (hook) against the exact model on a grid of (lambda, distance, n, "
             "field); get_indices_from_sponge against the model on the squeezed bytes; reed_solomon against evaluation on the domain; honest "
             "Ligero/Brakedown proofs open exactly t columns at the transcript-derived positions. The width of the squeezed blocks is covered too: "
             "256^(get_num_bytes n) >= n, and a block of k bytes with 256^k < n never yields a position from 256^k on (theorems), with an oracle "
             "that every squeezed block is wide enough for the codeword length.",
     "note": COMMON_NOTE + " f64 log2/powi/ceil are not modelled: the exact function is the model and the correspondence decides whether the code "
             "computes it; the comparator accepts the exact minimum for |F| or for 2^bits (the code divides by 2^MODULUS_BIT_SIZE; they differ only in a "
             "thin band next to infeasibility). Brakedown's sparse encoder is checked for linearity and length on the implementation only."},
]
CHECKS += [
    {"property_id": "C04",
     "text": "Coq theorems (Marlin model; Sonic and IPA: see the note): committer and prover refuse a polynomial whose degree exceeds its declared bound, a bound the key was not "
             "trimmed for, a bound above the maximum degree, and a degree above the supported degree; trim publishes shift elements g*beta^(D-d) for "
             "exactly the sorted de-duplicated enforced bounds; a commitment made under d' and presented under d is accepted exactly when "
             "(g*beta^(D-d) - g*beta^(D-d'))*v*xi'*h = 0; a bound label without its shifted part aborts, an unknown bound is an error; with the right "
             "label the honest proof is accepted (C01_marlin_complete). Correspondence: extracted Marlin model vs library on honest bounded/hiding "
             "transcripts, out-of-domain commits (error class compared), relabelled / dropped / swapped degree-bound parts (decision compared).",
     "note": COMMON_NOTE + " Sonic and IPA are modelled too (trim / commit / open / check with bounds; every relabel / drop / swap / out-of-domain "
             "scenario is compared with the library) and have their own theorems: C04_sonic_relabelled_bound(s) (the same commitment, value and "
             "proof under two bounds force c*c0*(sp-sp') = 0), C04_sonic_unsupported_bound_refused, C04_ipa_relabelled_bound(s_tie_values) (the "
             "verifier's combined commitment depends on the presence, not the value, of a claimed bound; b vs b' forces nxt*(z^(d-b)-z^(d-b'))*v = 0), "
             "C04_ipa_bound_presence_mismatch_aborts, C04_ipa_bound_above_key_aborts, C04_ipa_commit_refuses_bad_bound; implementation-level "
             "oracles with explicit side conditions support the search. The 'accepted only if degree <= d' direction is the AGM statement of "
             "C03 for the shifted commitment and is not proved in general (DESIGN.md section 6)."},
]
CHECKS += [
    {"property_id": "C06",
     "text": "Coq theorems: (homomorphic path, Marlin::open_combinations/check_combinations) the combined polynomial, randomness and commitment of any "
             "combination of polynomials without degree bounds form an honest commitment triple of exactly the stated combination (value + constant "
             "terms = combination value), a single degree-bounded term with coefficient one keeps its bound and shifted part, a degree-bounded "
             "polynomial mixed with other terms is refused with EquationHasDegreeBounds by prover and verifier, constant terms move into the claimed "
             "values of that combination only; (trait-default path) the value recomputed from the transmitted evaluations is the combination value, "
             "a differing claim is rejected whatever the proof, and otherwise the decision is the inner batch verification. Correspondence: extracted "
             "Marlin LC model vs library on random combinations (zero/negative coefficients, repeated labels, constant terms, several combinations "
             "per point, shared point values) and on perturbed claims / coefficients / constants (decisions compared).",
     "note": COMMON_NOTE + " Completeness of the combination flows is a theorem end to end: C06_marlin_combinations_complete and "
             "C06_sonic_combinations_complete (polynomials without degree bounds, distinct combination labels; built on the batch completeness "
             "theorems C01_marlin_batch_complete / C01_sonic_batch_complete), C06_default_combinations_complete for ANY scheme on the default "
             "path (one point per point label) with its linear-code instance; IPA and PST13: the combination is the honest commitment of the "
             "stated combination (C06_ipa_*, C06_pst13_*). The trait's default open_combinations/check_combinations is modelled once, generically in the scheme "
             "(theorem C06_default_check_combinations_every_claim: every equation at every one of its points is checked against the transmitted "
             "evaluations and the default batch check runs on exactly those), and instantiated with Hyrax, whose combination flows are compared. "
             "Sonic's own open_combinations / check_combinations are modelled and compared (theorems C06_sonic_*: honest commitment triple of "
             "the combination, bounded single term, policy, constants, combined commitment = weighted sum), as are IPA's and PST13's (C03 / C05), "
             "and the default path is instantiated with the linear-code model, so the combination flows and mutations of Ligero and Brakedown are "
             "compared too; implementation-level oracles support the search."},
    {"property_id": "C11",
     "text": "Coq theorems (sponge modelled as the tape of its outputs): for histories of any length of multi-polynomial openings the verifier accepts "
             "every proof and ends on exactly the prover's tape position; one operation with degree bounds and hiding consumes the same challenges on "
             "both sides; a proof checked under another challenge is accepted exactly when (xi'-xi)*(C-v*G)*h = 0. Correspondence: histories of 2-6 "
             "open/batch_open/open_combinations operations on one recording sponge per side: challenge counts predicted by the model, squeeze/absorb "
             "logs of prover and verifier compared event by event, a final squeeze on both sides compared, and checks under a perturbed sponge pre-state.",
     "note": COMMON_NOTE + " The history theorem covers single-point openings without shifted blinding (the unconditional completeness case); batch and "
             "combination operations in histories are covered by the correspondence (model-predicted challenge counts) and the implementation-level "
             "lock-step oracle (all schemes)."},
]
CHECKS += [
    {"property_id": "C07",
     "text": "Partial (structural hiding). Coq theorems: a hiding KZG10 commitment is the non-hiding commitment plus a blinding term under the gamma "
             "powers whose polynomial is exactly the first h+2 draws of the caller's RNG (degree h+1), for every key window; without a hiding bound "
             "no draw, empty state, commitment independent of the RNG; hiding without RNG is refused (KZG10 error, Marlin abort); the proof's blinding "
             "field is the blinding polynomial's value at the point; two streams give equal commitments iff beta is a root of the difference; a single "
             "commitment is perfectly hiding (bijection on blinding polynomials); Marlin draws 2*(h+2) elements for a degree-bounded polynomial. "
             "Correspondence: replayed RNG tapes - blinding polynomials, draw counts, commitments and proof blinding values of KZG10 and Marlin "
             "compared with the model; implementation-level: equal/different seeds, 7 repeated commitments pairwise distinct, proofs under "
             "different streams differ, zero bytes consumed without hiding, refusal without RNG, for Marlin, Sonic, IPA, PST13, Hyrax.",
     "note": COMMON_NOTE + " Not attempted: statistical hiding against h evaluation queries (probabilistic statement, DESIGN.md section 6). Sonic, "
             "IPA, PST13 and Hyrax blinding shapes are observed on the implementation (supporting search), not yet modelled."},
]
CHECKS += [
    {"property_id": "C08",
     "text": "Coq theorems: the commitment the code computes (skip low-order zeros, MSM over the rest of the key) is the naive multi-scalar sum over the "
             "key for every list of key elements; MSM is additive and scales; commit(a*p+a'*q) = a*commit(p)+a'*commit(q) under any window of the "
             "published powers, for Marlin's plain and shifted (degree-bound) parts alike; the zero polynomial maps to the identity; high-order zero "
             "coefficients are invisible. Correspondence: Marlin/KZG10 commitments against [model exponent]*generator; implementation-level for "
             "Sonic, IPA, PST13: additivity, zero, representation independence (permuted / split terms), determinism; Hyrax: every row commitment "
             "recomputed as a naive Pedersen sum with the layout M[row][col] = evals[col*dim+row]; Ligero (uni/multilinear) and Brakedown: Merkle "
             "root and metadata recomputed independently (row-major matrix, public encoder, Blake2s column hashes, default-leaf padding, "
             "ark-crypto-primitives MerkleTree), equal/different polynomials give equal/different roots.",
     "note": COMMON_NOTE + " The hash-based half and the Sonic/IPA/PST13/Hyrax halves are implementation-level recomputations (supporting search, not "
             "proof) until those schemes are modelled; 'different polynomials give different roots' rests on hash collision resistance and code "
             "distance, which are not proved."},
]
CHECKS += [
    {"property_id": "C17",
     "text": "Coq theorems: KZG10 setup refuses degree zero and serves every degree >= 1; commit and open refuse more coefficients than the key "
             "supports, a hiding bound beyond the gamma powers, hiding without RNG; Marlin trim refuses a supported degree above the maximum (error), "
             "a hiding bound beyond the parameters (abort), an enforced bound above the supported degree (error); commit refuses inadmissible degree "
             "bounds; batch verification reports unknown polynomials and missing evaluations as errors; in-domain KZG10 and Marlin commits/opens are "
             "served without error or abort. Correspondence: extracted KZG10/Marlin models vs library on out-of-domain requests (result class "
             "compared) and boundary requests at setup/trim for Marlin, Sonic, PST13, IPA, Hyrax, dropped commitments/evaluations in batch checks; "
             "the honest C01 scenarios double as the 'in-domain requests never abort' half for all schemes.",
     "note": COMMON_NOTE + " Which side of a boundary is in the domain follows the code's documented contract (e.g. IPA ignores enforced bounds; KZG10 "
             "accepts hiding bound 0). multilinear_pc::MultilinearPC and streaming_kzg are not yet exercised by this check."},
]
CHECKS += [
    {"property_id": "C09",
     "text": "Partial (transparent generator sampling observed, not modelled). Coq theorems: every element KZG10::setup publishes is the stated power of "
             "one trapdoor (G1 powers, gamma powers up to D+1, negative G2 powers, beta*h), equivalently the pairing identities hold at every index; "
             "Marlin trim returns faithful sub-keys (prefixes of the parameters, same generators, truthful supported/maximum degree) with shift "
             "elements g*beta^(D-d) for exactly the sorted de-duplicated enforced bounds, and refuses requests beyond the parameters; prepared "
             "tables are successive doublings. Correspondence: the library's KZG10::setup under a seeded RNG against the model on the replayed "
             "trapdoor - every published element compared as [model exponent]*(the library's own base element), prepared tables, sizes; Marlin "
             "trim keys element by element under unsorted / duplicated / empty / absent bound lists; Sonic trim against the parameters; IPA and "
             "Hyrax generators: count, validity, non-identity, pairwise distinctness, independence of the caller's RNG, trim slicing.",
     "note": COMMON_NOTE + " Hash-to-curve sampling of the IPA/Hyrax generators is outside the model: its structural properties are observed on the "
             "implementation and reported as supporting exploration. PST13 parameters are the subject of C15; multilinear_pc and streaming keys "
             "are not yet covered."},
]
CHECKS += [
    {"property_id": "C12",
     "text": "Coq theorems about the schema-directed model of the canonical format (fixed-size primitives, u64-LE lengths, option tags, vectors, byte "
             "strings, tuples in field order): deserializing a serialization returns the value and leaves the rest of the input untouched, "
             "ser(deser(ser x)) = ser x, reported size = bytes written, every proper prefix is an error - for every well-formed schema; all 45 "
             "artefact schemas of the crate (hand-written and derived (de)serializers of KZG10, Marlin, Sonic, IPA, PST13, Hyrax, Ligero/Brakedown, "
             "BatchLCProof, multilinear PC) are well-formed in both compression modes on both curves; the decoder that is extracted and run equals the "
             "specified one. Correspondence: every key, commitment, state, single/batch/combination proof produced along honest transcripts of all 8 "
             "trait schemes is serialized by the library in both modes; the model parses the bytes with the artefact's schema (must consume them "
             "exactly), re-encodes them (byte equality), reports the size, and rejects the same truncations the library rejects.",
     "note": COMMON_NOTE + " Primitive leaves (field elements, curve points, digests) are fixed-length blobs: their internal encoding and validity "
             "checks belong to ark-serialize/ark-ec and are not modelled. Fields of equal type swapped consistently in serializer and deserializer "
             "are invisible to parsing; they are covered by the implementation-level half (decisions with deserialized key/commitments/proof on an "
             "honest and a tampered claim, both validation modes)."},
]
CHECKS += [
    {"property_id": "C15",
     "text": "Coq model of marlin_pst13_pc: the Combinations iterator (positions, bump search), setup's multiset enumeration per degree and the "
             "value attached to each multiset, trim's degree filter, divide_at_point, and commit/open/check in the discrete-log view. Theorems: on "
             "the whole (num_vars, max_degree) grid [1,6]^2 the enumeration terminates without panic and yields exactly the exponent vectors of "
             "total degree <= D, none duplicated, C(n+D, D) many (finite domain, vm_compute lifted by forallb_forall; the specification list is "
             "characterised for all n, D); for every n, D each published element is g scaled by its own monomial at the trapdoor, hence "
             "e(G[m x_i], H) = e(G[m], beta_i H); trim keeps exactly degree <= supported; the division is exact for every sparse polynomial with "
             "arbitrary mixed monomials, p(X) - p(z) = sum (X_i - z_i) w_i(X), so open/check accept the true value and no other. Correspondence: "
             "the crate's Combinations and divide_at_point (verif hooks) and setup/trim with a replayed RNG against the extracted model "
             "(term sets, every group element relative to the library's own generators, quotient polynomials term by term), plus honest and "
             "mutated PST13 transcripts on the grid with dense, top-degree and mixed polynomials, with and without hiding.",
     "note": COMMON_NOTE + " The monomial-set theorem is exhaustive on the grid the property names, not beyond it (the iterator is modelled "
             "step by step; its general correctness for arbitrary multisets is only tested). The hiding part of PST13 commit/open is exercised "
             "by the correspondence and the implementation-level oracles, not by a theorem."},
]
CHECKS += [
    {"property_id": "C14",
     "text": "Coq model of streaming_kzg: key generation, time-efficient commit/open/open_multi_points/batch_open_multi_points, the "
             "space-efficient commit/open/open_multi_points over reversed streams (sliding-window division), both verifier keys, verify and "
             "verify_multi_points (Lagrange interpolation as coded), the stack machines of FoldedPolynomialTree/Stream with init_stack, "
             "commit_folding and open_folding. Theorems (unbounded): space open = time open and space commit = time commit for every "
             "polynomial, point and key with enough powers; verify accepts the prover's output and no other value; the long division by the "
             "vanishing polynomial is exact with a remainder of length k; the streaming open_multi_points returns exactly that remainder and "
             "the commitment to that quotient (polynomials shorter than the point set included) and the remainder takes the polynomial's "
             "values at the points; one folding step halves the length and satisfies fold(x^2) = p(x). Correspondence: library time and "
             "space provers and the extracted model on the same keys (trapdoor replayed from the seeded RNG), polynomials of degree 0..256, "
             "1..8 points, 1..8 polynomials, MSM buffers 1..2^20, verifier decisions on true and shifted values under both verifier keys; "
             "the iterators against the model and the naive folding for every (length 1..130, depth 0..7) in the thorough tier; "
             "commit_folding/open_folding against the time prover on explicitly folded polynomials.",
     "note": COMMON_NOTE + " verify_multi_points is proved complete for the time key's verifier key (Lagrange interpolation as coded = remainder modulo the "
             "vanishing polynomial, distinct points); the tree iterator's stack machine is proved equal to the naive foldings for every stream length: complete blocks (length a "
             "multiple of 2^depth) and, with init_stack, every other length (the foldings of the zero-padded stream minus the padding's own items, all zero); "
             "the stream iterator is proved to yield the last naive folding of the zero-padded stream for every length (every depth >= 1); the rejection of false multi-point evaluations is established by "
             "the correspondence and the implementation-level oracle on the property's whole (length, depth) range, not by a theorem; MSM buffer sizes only schedule a commutative sum and are not modelled."},
]
CHECKS += [
    {"property_id": "C19",
     "text": "Coq theorems: the number of bytes the canonical format writes depends only on the shape of the value (vector lengths, option "
             "tags), for every schema; for each scheme's commitment and opening proof the size is the closed form of Schemes/Sizes.v - constant "
             "for KZG10/Marlin/Sonic/streaming, one group element per variable for PST13 and the multilinear PST, two per halving round for "
             "IPA, 2^(n/2) row commitments and one row of scalars for Hyrax, three counters and a digest for the code-based commitments and "
             "t Merkle paths + t columns + one or two rows for their proofs; compute_dimensions (integer ceil-sqrt model) with the exact "
             "calculate_t: on the property's ladder (degrees 2..256 at rate 1/4, 2..12 variables at rate 1/2, with and without the "
             "well-formedness row) the Ligero proof size at the chosen dimensions is within 4x of the best power-of-two row count (finite "
             "domain, vm_compute, bounds in the statement). Correspondence: serialized_size and bytes written of every commitment and "
             "single-point proof of the 8 trait schemes along the ladder, all bound/hiding settings, 1..3 polynomials, both compression "
             "modes, against the closed forms evaluated by the extracted model from the scenario parameters alone (matrix dimensions, number "
             "of openings, path depth included); implementation-level oracle: serialized_size = bytes written, the per-scheme law, and the 4x "
             "allowance on the shipped field elements for Ligero and Brakedown.",
     "note": COMMON_NOTE + " Brakedown's codeword length comes from the library's parameters (its expander dimensions are not modelled) and "
             "its 4x bound is checked at run time by the oracle, not by a theorem; a Brakedown path whose sibling is a padding leaf is shorter, "
             "so its proof size is compared within the band the model derives. Batch and combination proofs are vectors of these proofs "
             "(C12 covers their encoding); streaming and multilinear-PST sizes are theorems only (no trait-level flow)."},
]
CHECKS += [
    {"property_id": "C18",
     "text": "Partial by nature: a theorem cannot exhibit a scheduler. Proved (Coq): every data-parallel combinator behind cfg_iter!/cfg_into_iter!/"
             "cfg_iter_mut! - order-preserving map/collect, enumerate-map over disjoint slots, reduce/sum with an associative operation and "
             "identity - returns the value of the sequential loop for every split plan (the build without the parallel feature is the plan "
             "Seq); instantiated for multi-scalar sums (exact field arithmetic: re-association cannot change the result), PST13's per-monomial "
             "setup map and the per-row work of the matrix schemes. Checked at run time: the scenarios of C01 (all 8 schemes, honest transcripts "
             "with seeded commit/check RNGs), the size ladder of C19 (up to 2^12 coefficients) and, at both tiers, every scheme once per round at "
             "the top of that ladder (256 and more coefficients, where chunked loops split their work), PST13 setup, streaming KZG and the C08 flows "
             "run in the harness under RAYON_NUM_THREADS = 1, 2, 3, 8, 16 (16 repeated five times in the thorough tier) and in a harness built "
             "with --no-default-features (no rayon); every observable and every byte the harness prints (keys, commitments, states, proofs, "
             "decisions, sizes) must equal the reference run, which itself is compared with the deterministic extracted model; SHA-256 digests "
             "of the canonical output of each configuration are recorded in the evidence.",
     "note": COMMON_NOTE + " Not covered: an actual data race inside a dependency (the crate forbids unsafe code), schedules rayon never "
             "produced during the runs, and thread counts other than the listed ones."},
]
_PENDING = "check not built yet in this round (model and correspondence under construction; see DESIGN.md section 7)"
_CLAIMED = {c["property_id"] for c in CHECKS}
NOT_APPLICABLE = [{"property_id": "C%02d" % i, "reason": _PENDING} for i in range(1, 20) if "C%02d" % i not in _CLAIMED]
