HOOK_COMMITS = []
COMMON_NOTE = ("Trusted: Coq 8.16.1 kernel, extraction (ExtrOcamlBasic, ExtrOcamlZBigInt), zarith, the OCaml driver, the Rust harness and the "
               "python orchestration; groups/pairing modelled as discrete logs over an abstract field; ark-* primitives, hashes and sponges are oracles. "
               "Theorems are about the model; the model is tied to /repo by the correspondence run of this check.")
CHECKS = [
    {"property_id": "C01",
     "text": "Completeness of the modelled schemes is a Coq theorem for every field, trapdoor, degree, polynomial, point, hiding bound and RNG tape; "
             "the model is compared with the library on generated honest transcripts (commitments, randomness, proofs, decisions, RNG draws).",
     "note": COMMON_NOTE + " Currently modelled for C01: KZG10 (commit/open/check); other schemes are being added."},
]
_PENDING = "check not built yet in this round (model and correspondence under construction; see DESIGN.md section 7)"
NOT_APPLICABLE = [{"property_id": "C%02d" % i, "reason": _PENDING} for i in range(2, 20)]
