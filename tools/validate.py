#!/usr/bin/env python3
import json, sys, glob, jsonschema
jsonschema.validate(json.load(open('/verif/MANIFEST.json')), json.load(open('/root/.vp/MANIFEST.schema.json')))
print('manifest valid')
for f in sorted(glob.glob('/verif/evidence/*.json')):
    jsonschema.validate(json.load(open(f)), json.load(open('/root/.vp/EVIDENCE.schema.json')))
    print(f, 'valid')
