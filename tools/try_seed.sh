#!/bin/bash
# usage: tools/try_seed.sh <patch.diff> <Cxx> [Cyy ...]   -- applies the patch to /repo, runs the checks, reverts
set -u
patch=$1; shift
cd /repo && git apply "$patch" || { echo "patch does not apply"; exit 2; }
cd /verif
for p in "$@"; do
  out=$(./check $p --tier quick 2>&1 | grep -E "^(OK|VIOLATION|KNOWN|  detail)" | head -6)
  echo "== $p: $out"
done
cd /repo && git checkout -- . && git status --short | head -3
