#!/usr/bin/env python3
"""Regenerates MANIFEST.json from tools/manifest_data.py (kept valid at all times)."""
import json, os, sys
sys.path.insert(0, os.path.dirname(os.path.abspath(__file__)))
from manifest_data import CHECKS, NOT_APPLICABLE, HOOK_COMMITS
VERIF = os.path.dirname(os.path.dirname(os.path.abspath(__file__)))
BASE = "cd /repo/poly-commit/.. && cargo test --workspace --no-fail-fast --offline"
m = {
    "version": 1,
    "setup_cmd": "./check setup",
    "hooks": {
        "guard": "arkworks_rs_poly_commit_verif",
        "enable": "RUSTFLAGS=\"--cfg arkworks_rs_poly_commit_verif\" (set in /verif/harness/.cargo/config.toml; a --cfg flag, not a cargo feature, so /repo's Cargo.toml and Cargo.lock stay untouched)",
        "baseline_off_cmd": "cd /repo && cargo test --workspace --no-fail-fast --offline",
        "source_commits": HOOK_COMMITS,
        "add_only": True,
    },
    "engines": [
        {"name": "coq-model", "path": "coq/", "serves_properties": [c["property_id"] for c in CHECKS],
         "kind_free_text": "hand-written Gallina models of the schemes over an abstract field; property theorems in coq/props/Cxx.v (Print Assumptions audited every run)"},
        {"name": "correspondence", "path": "harness/ runner/ tools/pclib/", "serves_properties": [c["property_id"] for c in CHECKS],
         "kind_free_text": "Rust harness on /repo's working tree vs the model extracted to OCaml, same generated inputs, every observable compared"},
    ],
    "checks": [],
    "not_applicable": NOT_APPLICABLE,
    "notes": "See DESIGN.md. Every check: full Coq build + theorem audit, then correspondence of the extracted model with the library built from /repo's working tree, then an implementation-level search for a failing input.",
}
for c in CHECKS:
    pid = c["property_id"]
    m["checks"].append({
        "property_id": pid,
        "quick_cmd": "./check %s --tier quick" % pid,
        "thorough_cmd": "./check %s --tier thorough" % pid,
        "evidence_file": "/verif/evidence/%s.json" % pid,
        "replay_cmd_template": "./check replay {path}",
        "engine": "coq-model+correspondence",
        "level_claimed": {"category": "proof", "text": c["text"], "design_ref": c.get("design_ref", "DESIGN.md section 4, " + pid)},
        "level_note": c["note"],
        "technique": c.get("technique", "Coq theorems about a hand-written Gallina model + per-run correspondence of the extracted model with the library"),
    })
json.dump(m, open(os.path.join(VERIF, "MANIFEST.json"), "w"), indent=1)
print("MANIFEST.json written:", len(m["checks"]), "checks,", len(NOT_APPLICABLE), "not_applicable")
