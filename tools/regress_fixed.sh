#!/bin/bash
# Re-introduces each repaired defect (reverse of its fix: commit) and runs the checks of the properties it broke.
cd /repo
while read sha props; do
  git show $sha -- poly-commit/src > /tmp/rev_$sha.diff
  if ! git apply -R /tmp/rev_$sha.diff 2>/dev/null; then echo "$sha: reverse patch does not apply"; continue; fi
  for p in $props; do
    out=$(cd /verif && ./check $p --tier quick 2>&1 | grep -E "^(OK|VIOLATION)" | head -1)
    echo "$sha $p -> $out"
  done
  git checkout -- . 
done <<LIST
292b622 C01 C17
4ed3aab C03 C10
f09ee62 C03
2036a3f C03
d63271c C02 C10
7217c22 C07
eb7c2c5 C03
ac98dfc C05
3f1133d C05
2857c7e C06
5abfb23 C04 C17
a7c7271 C17
9ee7485 C14
790a4df C14
f3ea7d2 C03 C10
LIST
git status --short | head -3
