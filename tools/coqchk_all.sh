#!/bin/bash
# Independent re-check of the compiled development with coqchk (slow: the checker has no VM, so the three
# finite-domain theorems proved by vm_compute dominate).  Usage: tools/coqchk_all.sh [outdir]
# One log per group under <outdir> (default /verif/coqchk_logs): rc=0 and "Modules were successfully checked".
cd "$(dirname "$0")/../coq" || exit 2
out=${1:-/verif/coqchk_logs}
mkdir -p "$out"
run() { name=$1; shift
  mods=""; for p in "$@"; do mods="$mods PCProps.$p"; done
  ( /usr/bin/time -f "wall=%es maxrss=%MkB" timeout ${COQCHK_TIMEOUT:-20000} coqchk -silent -o -Q theories PC -Q props PCProps $mods; echo "rc=$?" ) > "$out/$name.log" 2>&1
  tail -3 "$out/$name.log" | tr '\n' ' '; echo " [$name]"
}
run light C01 C02 C03 C04 C05 C06 C07 C08 C09 C10 C11 C14 C16 C17 C18
run C13 C13
run C12 C12
run C19 C19
run C15 C15
echo COQCHK-DONE
