#!/bin/bash
# Independent re-check of the compiled development with coqchk (slow: the checker has no VM, so the three
# finite-domain theorems proved by vm_compute dominate).  Usage: tools/coqchk_all.sh [outdir]
# One log per group under <outdir> (default /verif/coqchk_logs): rc=0 and "Modules were successfully checked".
# The groups run side by side (one coqchk process each); COQCHK_GROUPS="light C12" selects some of them.
cd "$(dirname "$0")/../coq" || exit 2
out=${1:-/verif/coqchk_logs}
mkdir -p "$out"
groups=${COQCHK_GROUPS:-light C13 C12 C19 C15 examples}
run() { name=$1; shift
  case " $groups " in *" $name "*) ;; *) return 0;; esac
  ( /usr/bin/time -f "wall=%es maxrss=%MkB" timeout ${COQCHK_TIMEOUT:-20000} coqchk -silent -o -Q theories PC -Q props PCProps "$@"; echo "rc=$?" ) > "$out/$name.log" 2>&1
  tail -3 "$out/$name.log" | tr '\n' ' '; echo " [$name]"
}
props() { for p in "$@"; do printf 'PCProps.%s ' "$p"; done; }
run light $(props C01 C02 C03 C04 C05 C06 C07 C08 C09 C10 C11 C14 C16 C17 C18) &
run C13 $(props C13) &
run C12 $(props C12) &
run C19 $(props C19) &
run C15 $(props C15) &
run examples PC.Examples.NonVacuity &
wait
echo COQCHK-DONE
