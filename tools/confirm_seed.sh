#!/bin/bash
# usage: confirm_seed.sh <worktree> <seed-id>   (run in a scratch worktree that has the change applied + tests/seed_demo.rs)
# confirms: suite passes with the change; demo fails with the change; demo passes without it.  Then stores the seed.
wt=$1; id=$2
log=/tmp/confirm-$id.log
cd $wt || exit 2
export CARGO_NET_OFFLINE=true
{
echo "== suite with change"; cargo test -p ark-poly-commit --offline --lib 2>&1 | grep -E "^test result|FAILED|panicked" | head -5
echo "== demo with change"; cargo test -p ark-poly-commit --offline --test seed_demo 2>&1 | grep -E "^test result|^test .*FAILED|^error" | head -8
git apply -R _seed/patch.diff    # (not git stash: the stash is shared between worktrees)
echo "== demo without change"; cargo test -p ark-poly-commit --offline --test seed_demo 2>&1 | grep -E "^test result|^test .*FAILED|^error" | head -8
git apply _seed/patch.diff
} > $log 2>&1
mkdir -p /verif/seeded/$id
cp $wt/_seed/patch.diff /verif/seeded/$id/patch.diff
cp $wt/_seed/seed_demo.rs /verif/seeded/$id/seed_demo.rs
cp $wt/_seed/meta.json /verif/seeded/$id/meta.agent.json
cp $log /verif/seeded/$id/confirm.log
echo done >> $log
