(* C07: hiding commitments and proofs - blinding shape, number of draws, determinism without
   hiding, refusal without RNG, the proof's blinding value, and perfect hiding of a single
   commitment. *)
From Coq Require Import List Arith NArith Bool Lia Field Ring.
From PC Require Import Base.Field Base.Result Base.Poly Base.OrdMap Proofs.PolyFacts
     Schemes.KZG10 Schemes.LC Schemes.Marlin Proofs.KZG10Facts Proofs.KZG10Binding Proofs.MarlinComplete.
Import ListNotations.
Open Scope F_scope.

Section Hiding.
  Context {FO : FieldOps} {FL : FieldLaws FO}.
  Add Field Ffield12 : FL_field.

  (* number of field elements drawn and the returned state, for every key *)
  Lemma commit_draws pw p hb rng c r d :
    commit pw p hb rng = Ok (c, r, d) ->
    match hb with
    | Some h => d = (h + 2)%nat /\ exists tape, rng = Some tape /\ r = trim (firstn (h + 2) tape) /\ (h + 2 <= length tape)%nat
    | None => d = O /\ r = []
    end.
  Proof.
    unfold commit. destruct (check_degree_is_too_large _ _) as [[]| |]; cbn [bind]; try discriminate.
    destruct hb as [h|].
    - destruct rng as [tape|]; [|discriminate]. unfold take_tape, rand_draws.
      destruct (Nat.ltb_spec (length tape) (h + 2)); [discriminate|]. cbn [bind].
      destruct (check_hiding_bound _ _) as [[]| |]; cbn [bind]; try discriminate.
      intros E. inversion E; subst. split; [reflexivity|]. exists tape. repeat split; auto.
    - cbn [bind]. intros E. inversion E; subst. split; reflexivity.
  Qed.

  (* hiding commitment = non-hiding commitment + blinding term under the gamma powers, with the
     blinding polynomial made of the first h+2 draws of the caller's RNG *)
  Theorem hiding_commitment_shape g c gam b n m pw p h rng cm r d :
    pw_g pw = gpowers g c b n -> pw_gamma_g pw = gpowers gam 1 b m ->
    commit pw p (Some h) rng = Ok (cm, r, d) ->
    exists tape, rng = Some tape /\
      r = trim (firstn (h + 2) tape) /\ d = (h + 2)%nat /\ (h + 2 <= length tape)%nat /\
      cm = g * c * eval p b + gam * eval r b /\
      commit pw p None None = Ok (g * c * eval p b, [], O).
  Proof.
    intros Hg Hgg H. pose proof (commit_draws _ _ _ _ _ _ _ H) as (Hd & tape & -> & Hr & Hl).
    destruct (commit_window _ _ _ _ _ _ _ _ _ _ _ _ _ Hg Hgg H) as (Ec & Hp & _).
    exists tape. repeat split; auto.
    unfold commit in *. destruct (check_degree_is_too_large _ _) as [[]| |]; cbn [bind] in *; try discriminate.
    rewrite Hg, commit_coeffs_window by exact Hp. rewrite msm_nil_r. f_equal. f_equal. f_equal. ring.
  Qed.

  (* without a hiding bound: no draws, empty state, and the commitment does not depend on the RNG *)
  Theorem nonhiding_deterministic pw p rng rng' cm r d :
    commit pw p None rng = Ok (cm, r, d) -> r = [] /\ d = O /\ commit pw p None rng' = Ok (cm, [], O).
  Proof.
    intros H. pose proof (commit_draws _ _ _ _ _ _ _ H) as (-> & ->). repeat split.
    unfold commit in *. destruct (check_degree_is_too_large _ _) as [[]| |]; cbn [bind] in *; try discriminate. exact H.
  Qed.

  (* hiding requested without an RNG: an error (KZG10) / an abort (wrappers), never a commitment *)
  Theorem hiding_without_rng_kzg pw p h : refused (commit pw p (Some h) None).
  Proof. unfold commit. destruct (check_degree_is_too_large _ _) as [[]| |]; cbn; exact I. Qed.

  Theorem hiding_without_rng_marlin ck lp h : lp_hiding lp = Some h -> refused (commit1 ck lp None).
  Proof.
    intros Hh. unfold commit1. destruct (check_degrees_and_bounds _ _ _ _) as [[]| |]; cbn [bind refused]; try exact I.
    unfold kzg_commit_opt. rewrite Hh. destruct (check_degree_is_too_large _ _) as [[]| |]; cbn; exact I.
  Qed.

  (* the proof's blinding field is the blinding polynomial's value at the point *)
  Theorem proof_blinding_value g c gam b n m pw p z r pf :
    pw_g pw = gpowers g c b n -> pw_gamma_g pw = gpowers gam 1 b m ->
    trim r = r -> (length r <= m)%nat ->
    KZG10.open pw p z r = Ok pf ->
    pf_random_v pf = (if is_hiding r then Some (eval r z) else None) /\
    pf_w pf = g * c * eval (quot_lin (trim p) z) b + gam * eval (quot_lin r z) b.
  Proof. intros. destruct (open_window _ _ _ _ _ _ _ _ _ _ _ H H0 H1 H2 H3). split; assumption. Qed.

  (* two RNG streams give the same commitment exactly when beta is a root of the difference of the
     blinding polynomials (times gamma) *)
  Theorem streams_differ g c gam b p r r' :
    g * c * eval p b + gam * eval r b = g * c * eval p b + gam * eval r' b <-> gam * eval (psub r r') b = 0.
  Proof.
    rewrite eval_psub. split; intros H.
    - transitivity ((g * c * eval p b + gam * eval r b) - (g * c * eval p b + gam * eval r' b)); [ring|rewrite H; ring].
    - apply fsub_eq_0. rewrite <- H. ring.
  Qed.

  (* a single hiding commitment carries no information about the polynomial: every commitment to
     p is also a commitment to any p', under a shifted blinding polynomial (a bijection on tapes) *)
  Theorem perfect_hiding_single g c gam b p p' r :
    gam <> 0 ->
    exists r', g * c * eval p b + gam * eval r b = g * c * eval p' b + gam * eval r' b /\
               r' = padd r [g * c * (eval p b - eval p' b) / gam].
  Proof.
    intros Hg. eexists. split; [|reflexivity]. rewrite eval_padd. cbn [eval]. field. exact Hg.
  Qed.

  (* Marlin: a degree-bounded hiding polynomial draws two independent blinding polynomials, from
     consecutive segments of the caller's RNG: 2*(h+2) field elements *)
  Theorem marlin_hiding_draws ck lp rng mc mr nd :
    commit1 ck lp rng = Ok (mc, mr, nd) ->
    nd = (match lp_hiding lp with Some h => h + 2 | None => 0 end *
          match lp_bound lp with Some _ => 2 | None => 1 end)%nat /\
    (lp_hiding lp = None -> mr_rand mr = [] /\ (mr_shifted mr = None \/ mr_shifted mr = Some [])).
  Proof.
    unfold commit1. destruct (check_degrees_and_bounds _ _ _ _) as [[]| |]; cbn [bind]; try discriminate.
    destruct (kzg_commit_opt (ck_pw ck) _ _ _) as [[[c r] n1]| |] eqn:E1; cbn [bind]; try discriminate.
    apply kzg_commit_opt_ok in E1. pose proof (commit_draws _ _ _ _ _ _ _ E1) as D1.
    destruct (lp_bound lp) as [d|].
    - destruct (shifted_pw ck (Some d)) as [[spw| |]|]; cbn [bind]; try discriminate.
      destruct (kzg_commit_opt spw _ _ _) as [[[sc sr] n2]| |] eqn:E2; cbn [bind]; try discriminate.
      apply kzg_commit_opt_ok in E2. pose proof (commit_draws _ _ _ _ _ _ _ E2) as D2.
      intros H. inversion H; subst. cbn [mr_rand mr_shifted].
      destruct (lp_hiding lp) as [h|].
      + destruct D1 as (-> & _). destruct D2 as (-> & _). split; [lia|discriminate].
      + destruct D1 as (-> & ->). destruct D2 as (-> & ->). split; [reflexivity|]. intros _. split; [reflexivity|right; reflexivity].
    - intros H. inversion H; subst. cbn [mr_rand mr_shifted].
      destruct (lp_hiding lp) as [h|].
      + destruct D1 as (-> & _). split; [lia|discriminate].
      + destruct D1 as (-> & ->). split; [reflexivity|]. intros _. split; [reflexivity|left; reflexivity].
  Qed.
End Hiding.
