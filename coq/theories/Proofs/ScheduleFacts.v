(* C18: the data-parallel combinators behind cfg_iter! / cfg_into_iter! / cfg_iter_mut!
   (rayon's divide-and-conquer map, collect, sum/reduce, enumerate, for_each over disjoint slots)
   return the same value for every split plan; the sequential build is the plan `Seq`.
   Arithmetic in a field is exact, so - unlike floating point - re-association cannot change a sum. *)
From Coq Require Import List Arith Bool Lia Field Ring.
From PC Require Import Base.Field Base.Result Base.Poly Proofs.PolyFacts Schemes.PST13 Schemes.StreamKZG.
Import ListNotations.

(* a schedule: how the input is recursively split among workers; leaves run sequentially *)
Inductive plan := Seq | Split (k : nat) (l r : plan).

Lemma combine_app' {X Y} : forall (a1 a2 : list X) (b1 b2 : list Y), length a1 = length b1 ->
  combine (a1 ++ a2) (b1 ++ b2) = combine a1 b1 ++ combine a2 b2.
Proof.
  induction a1 as [|x a1 IH]; intros a2 [|y b1] b2 H; cbn in H; try lia; [reflexivity|].
  cbn [app combine]. rewrite IH by lia. reflexivity.
Qed.

Section Combinators.
  Context {A B : Type}.

  (* map + collect (order-preserving, as rayon's indexed collect) *)
  Fixpoint par_map (f : A -> B) (p : plan) (xs : list A) : list B :=
    match p with
    | Seq => map f xs
    | Split k l r => par_map f l (firstn k xs) ++ par_map f r (skipn k xs)
    end.

  Theorem par_map_any_plan (f : A -> B) : forall p xs, par_map f p xs = map f xs.
  Proof.
    induction p as [|k l IHl r IHr]; intros xs; cbn [par_map]; [reflexivity|].
    rewrite IHl, IHr, <- map_app, firstn_skipn. reflexivity.
  Qed.

  (* enumerate().map(): the index travels with the element *)
  Fixpoint par_mapi (f : nat -> A -> B) (p : plan) (off : nat) (xs : list A) : list B :=
    match p with
    | Seq => map (fun ix => f (fst ix) (snd ix)) (combine (seq off (length xs)) xs)
    | Split k l r => par_mapi f l off (firstn k xs) ++ par_mapi f r (off + length (firstn k xs)) (skipn k xs)
    end.

  Theorem par_mapi_any_plan (f : nat -> A -> B) : forall p off xs,
    par_mapi f p off xs = map (fun ix => f (fst ix) (snd ix)) (combine (seq off (length xs)) xs).
  Proof.
    induction p as [|k l IHl r IHr]; intros off xs; cbn [par_mapi]; [reflexivity|].
    rewrite IHl, IHr, <- map_app. f_equal.
    assert (E : combine (seq off (length xs)) xs =
                combine (seq off (length (firstn k xs)) ++ seq (off + length (firstn k xs)) (length (skipn k xs))) (firstn k xs ++ skipn k xs)).
    { rewrite <- seq_app, <- app_length, firstn_skipn. reflexivity. }
    rewrite E, combine_app' by (rewrite seq_length; reflexivity). reflexivity.
  Qed.

  (* reduce / sum with an associative operation and identity: leaves fold sequentially, inner nodes combine *)
  Variables (op : B -> B -> B) (e : B).
  Hypothesis op_assoc : forall a b c, op (op a b) c = op a (op b c).
  Hypothesis op_e_l : forall a, op e a = a.
  Hypothesis op_e_r : forall a, op a e = a.

  Fixpoint par_reduce (f : A -> B) (p : plan) (xs : list A) : B :=
    match p with
    | Seq => fold_left (fun acc x => op acc (f x)) xs e
    | Split k l r => op (par_reduce f l (firstn k xs)) (par_reduce f r (skipn k xs))
    end.

  Lemma fold_left_op_acc (f : A -> B) : forall xs a, fold_left (fun acc x => op acc (f x)) xs a = op a (fold_left (fun acc x => op acc (f x)) xs e).
  Proof.
    induction xs as [|x xs IH]; intros a; cbn [fold_left]; [rewrite op_e_r; reflexivity|].
    rewrite IH, (IH (op e (f x))), op_e_l, op_assoc. reflexivity.
  Qed.

  Theorem par_reduce_any_plan (f : A -> B) : forall p xs,
    par_reduce f p xs = fold_left (fun acc x => op acc (f x)) xs e.
  Proof.
    induction p as [|k l IHl r IHr]; intros xs; cbn [par_reduce]; [reflexivity|].
    rewrite IHl, IHr. rewrite <- (firstn_skipn k xs) at 3. rewrite fold_left_app, <- fold_left_op_acc. reflexivity.
  Qed.
End Combinators.


Section Instances.
  Context {FO : FieldOps} {FL : FieldLaws FO}.
  Add Field Ffield18 : FL_field.
  Open Scope F_scope.

  (* sums of field / group elements (inner_product, msm, row combinations): any schedule *)
  Lemma msm_as_fold : forall bs ss acc,
    fold_left (fun a bs => a + fst bs * snd bs) (combine bs ss) acc = acc + msm bs ss.
  Proof.
    induction bs as [|b bs IH]; intros ss acc; [cbn; ring|]. destruct ss as [|s ss]; [cbn; ring|].
    cbn [combine fold_left msm fst snd]. rewrite IH. ring.
  Qed.

  Theorem msm_any_plan p bases scalars :
    par_reduce fadd 0 (fun bs => fst bs * snd bs) p (combine bases scalars) = msm bases scalars.
  Proof.
    rewrite par_reduce_any_plan; [|intros; ring|intros; ring|intros; ring].
    rewrite msm_as_fold. ring.
  Qed.

  (* MarlinPST13::setup: the per-monomial values are a parallel map over the enumerated multisets *)
  Theorem pst13_setup_values_any_plan p betas nv (mss : list (list nat)) :
    par_map (fun ms => (ms_value betas ms, exps_of nv ms)) p mss = map (fun ms => (ms_value betas ms, exps_of nv ms)) mss.
  Proof. apply par_map_any_plan. Qed.

  (* per-row / per-column work of the matrix-based schemes (Hyrax row commitments, linear-code row
     encodings and column hashes, IPA generator folding): an indexed map *)
  Theorem rows_any_plan {R C} (work : nat -> R -> C) p rows :
    par_mapi work p 0 rows = map (fun ix => work (fst ix) (snd ix)) (combine (seq 0 (length rows)) rows).
  Proof. apply par_mapi_any_plan. Qed.
End Instances.
