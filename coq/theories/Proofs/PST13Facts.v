(* C15: the PST13 monomial set (exhaustive on the property's grid), and exactness of the
   multivariate division used by the prover (unbounded). *)
From Coq Require Import List Arith NArith Bool Lia Field Ring.
From PC Require Import Base.Field Base.Result Base.Poly Proofs.PolyFacts Schemes.PST13.
Import ListNotations.
Local Open Scope nat_scope.

(* ---------------- parameters: the grid of the property, exhaustively ---------------- *)
Definition grid : list (nat * nat) := flat_map (fun n => map (fun d => (n, d)) (seq 1 6)) (seq 1 6).

(* for every (num_vars, max_degree) in [1,6]^2 the multiset enumeration behind setup yields exactly
   the exponent vectors of total degree <= max_degree: none missing, none duplicated, C(n+d, d) many *)
Theorem combos_enumerate_grid :
  forallb (fun nd => setup_keys_ok 3000 (fst nd) (snd nd)) grid = true.
Proof. vm_compute. reflexivity. Qed.

Theorem combos_enumerate_grid_pointwise nv D :
  In (nv, D) grid -> setup_keys_ok 3000 nv D = true.
Proof. intros H. pose proof combos_enumerate_grid as G. rewrite forallb_forall in G. exact (G _ H). Qed.

(* the specification side, unbounded: membership in the list of exponent vectors *)
Lemma vectors_spec : forall nv D v,
    In v (vectors_with_sum_le nv D) <-> (length v = nv /\ fold_right Nat.add 0 v <= D).
Proof.
  induction nv as [|k IH]; intros D v; cbn [vectors_with_sum_le].
  - split.
    + intros [<-|[]]. cbn. split; [reflexivity|lia].
    + intros [Hl _]. destruct v; [left; reflexivity|discriminate].
  - rewrite in_flat_map. split.
    + intros (e & He & Hv). apply in_seq in He. apply in_map_iff in Hv. destruct Hv as (w & <- & Hw).
      apply IH in Hw. destruct Hw as [Hl Hs]. cbn [length fold_right]. split; [lia|lia].
    + intros [Hl Hs]. destruct v as [|e w]; [discriminate|]. cbn [length fold_right] in *.
      exists e. split; [apply in_seq; lia|]. apply in_map. apply IH. split; [lia|lia].
Qed.

(* trim keeps exactly the monomials up to the supported degree *)
Theorem trim_keys_spec supported keys v :
  In v (trim_keys supported keys) <-> (In v keys /\ fold_right Nat.add 0 v <= supported).
Proof. unfold trim_keys. rewrite filter_In, Nat.leb_le. reflexivity. Qed.

(* ---------------- divide_at_point is exact ---------------- *)
Section DivideFacts.
  Context {FO : FieldOps} {FL : FieldLaws FO}.
  Add Field Ffield16 : FL_field.
  Open Scope F_scope.

  Definition xi (x : list F) (i : nat) : F := nth i x 0.

  (* sum_{j<k} z^j x^(k-1-j) *)
  Fixpoint geom (x z : F) (k : nat) : F := match k with O => 0 | S k' => fpow x k' + z * geom x z k' end.
  Lemma geom_spec x z k : (x - z) * geom x z k = fpow x k - fpow z k.
  Proof. induction k as [|k IH]; cbn [geom fpow]; [ring|]. transitivity ((x - z) * fpow x k + z * ((x - z) * geom x z k)); [ring|rewrite IH; ring]. Qed.

  Definition wf_term (t : term) : Prop := NoDup (map fst t) /\ Forall (fun vp => (1 <= snd vp)%nat) t.

  Lemma eval_term_cons x v p r : eval_term x ((v, p) :: r) = fpow (xi x v) p * eval_term x r.
  Proof. reflexivity. Qed.

  Lemma lookup_remove x i : forall t k, lookup_var i t = Some k ->
      eval_term x t = fpow (xi x i) k * eval_term x (remove_var i t).
  Proof.
    induction t as [|[v p] r IH]; intros k H; cbn [lookup_var remove_var] in *; [discriminate|].
    destruct (Nat.eqb_spec v i) as [->|Hne].
    - inversion H; subst. apply eval_term_cons.
    - rewrite !eval_term_cons, (IH _ H). ring.
  Qed.

  Lemma lookup_set_pow x i k' : forall t k, lookup_var i t = Some k ->
      eval_term x (set_pow i k' t) = fpow (xi x i) k' * eval_term x (remove_var i t).
  Proof.
    induction t as [|[v p] r IH]; intros k H; cbn [lookup_var remove_var set_pow] in *; [discriminate|].
    destruct (Nat.eqb_spec v i) as [->|Hne].
    - apply eval_term_cons.
    - rewrite !eval_term_cons, (IH _ H). ring.
  Qed.

  Lemma eval_mpoly_cons x c t p : eval_mpoly x ((c, t) :: p) = c * eval_term x t + eval_mpoly x p.
  Proof. reflexivity. Qed.

  Lemma eval_mpoly_app x p q : eval_mpoly x (p ++ q) = eval_mpoly x p + eval_mpoly x q.
  Proof.
    induction p as [|[c t] p IH].
    - change (eval_mpoly x ([] ++ q)) with (eval_mpoly x q). change (eval_mpoly x []) with 0. ring.
    - change (((c, t) :: p) ++ q) with ((c, t) :: (p ++ q)). rewrite !eval_mpoly_cons, IH. ring.
  Qed.

  (* quotient terms of one monomial *)
  Lemma quot_terms_spec x z i t k0 : lookup_var i t = Some k0 ->
    forall k coeff qs last, (1 <= k)%nat -> quot_terms coeff z i k t = (qs, last) ->
      last = coeff * fpow z (k - 1) /\
      eval_mpoly x qs = coeff * eval_term x (remove_var i t) * geom (xi x i) z k.
  Proof.
    intros Hl. induction k as [|k IH]; intros coeff qs last Hk H; [lia|].
    destruct k as [|k'].
    - cbn [quot_terms] in H. inversion H; subst. cbn [Nat.sub fpow geom]. split; [ring|].
      rewrite eval_mpoly_cons. cbn [eval_mpoly fold_right geom fpow]. ring.
    - change (quot_terms coeff z i (S (S k')) t) with
          (let '(rest, last) := quot_terms (coeff * z) z i (S k') t in ((coeff, set_pow i (S k') t) :: rest, last)) in H.
      destruct (quot_terms (coeff * z) z i (S k') t) as [rest l'] eqn:E. inversion H; subst qs last; clear H.
      destruct (IH _ _ _ ltac:(lia) E) as [Hlast Hq]. split.
      + rewrite Hlast. replace (S (S k') - 1)%nat with (S (S k' - 1)) by lia. cbn [fpow]. ring.
      + rewrite eval_mpoly_cons, Hq, (lookup_set_pow x i (S k') t k0 Hl).
        change (geom (xi x i) z (S (S k'))) with (fpow (xi x i) (S k') + z * geom (xi x i) z (S k')). ring.
  Qed.

  Definition consts (p : mpoly) : F :=
    fold_right (fun ct acc => match snd ct with [] => fst ct + acc | _ => acc end) 0 p.

  Definition wf_poly (p : mpoly) : Prop := Forall (fun ct => wf_term (snd ct)) p.

  Lemma wf_lookup_pos t i k : wf_term t -> lookup_var i t = Some k -> (1 <= k)%nat.
  Proof.
    intros [_ Hp]. induction t as [|[v p] r IH]; cbn [lookup_var]; [discriminate|].
    inversion Hp; subst. destruct (v =? i); [intros E; inversion E; subst; assumption|apply IH; assumption].
  Qed.

  (* one pass: cur = (X_i - z) * quotient + remainder + dropped constants *)
  Lemma div_pass_spec x i z : forall cur q r, wf_poly cur -> div_pass i z cur = (q, r) ->
      eval_mpoly x cur = (xi x i - z) * eval_mpoly x q + eval_mpoly x r + consts cur.
  Proof.
    induction cur as [|[coeff t] rest IH]; intros q r Hw H; cbn [div_pass] in H.
    - inversion H; subst. cbn. ring.
    - inversion Hw as [|? ? Hwt Hwr]; subst. cbn [snd] in Hwt.
      destruct (div_pass i z rest) as [q0 r0] eqn:E. specialize (IH _ _ Hwr eq_refl).
      rewrite eval_mpoly_cons. destruct t as [|vp t'].
      + inversion H; subst. cbn [consts fold_right snd fst]. fold (consts rest). rewrite IH. cbn [eval_term fold_right]. ring.
      + cbv iota in H. remember (vp :: t') as t eqn:Et.
        destruct (lookup_var i t) as [k|] eqn:El.
        * destruct (quot_terms coeff z i k t) as [qt last] eqn:Eq. inversion H; subst q r; clear H.
          destruct (quot_terms_spec x z i _ _ El _ _ _ _ (wf_lookup_pos _ _ _ Hwt El) Eq) as [Hlast Hq].
          rewrite eval_mpoly_app, !eval_mpoly_cons, Hq, Hlast, IH, (lookup_remove x i _ _ El).
          match goal with |- _ = _ + ?c => assert (Hc : c = consts rest) by (subst t; reflexivity); rewrite Hc end.
          pose proof (geom_spec (xi x i) z k) as G.
          assert (Hz : z * (coeff * fpow z (k - 1)) = coeff * fpow z k).
          { pose proof (wf_lookup_pos _ _ _ Hwt El). replace k with (S (k - 1)) at 2 by lia. cbn [fpow]. ring. }
          rewrite Hz.
          transitivity (coeff * eval_term x (remove_var i t) * ((xi x i - z) * geom (xi x i) z k + fpow z k)
                        + ((xi x i - z) * eval_mpoly x q0 + eval_mpoly x r0 + consts rest)); [rewrite G; ring|ring].
        * inversion H; subst q r; clear H. rewrite !eval_mpoly_cons, IH.
          match goal with |- _ = _ + ?c => assert (Hc : c = consts rest) by (subst t; reflexivity); rewrite Hc end. ring.
  Qed.

  (* variables of the terms *)
  Definition term_vars_in (vs : list nat) (t : term) : Prop := forall v, In v (map fst t) -> In v vs.
  Definition poly_vars_in (vs : list nat) (p : mpoly) : Prop := Forall (fun ct => term_vars_in vs (snd ct)) p.

  Lemma remove_var_in i w : forall t, In w (map fst (remove_var i t)) -> In w (map fst t).
  Proof.
    induction t as [|[v' p'] r IHr]; [intros H; exact H|].
    change (remove_var i ((v', p') :: r)) with (if v' =? i then r else (v', p') :: remove_var i r).
    change (map fst ((v', p') :: r)) with (v' :: map fst r).
    destruct (v' =? i); intros Hin; [right; exact Hin|].
    change (In w (v' :: map fst (remove_var i r))) in Hin.
    destruct Hin as [->|Hin]; [left; reflexivity|right; apply IHr; exact Hin].
  Qed.

  Lemma remove_var_wf i t : wf_term t -> wf_term (remove_var i t).
  Proof.
    intros [Hn Hp]. induction t as [|[v p] r IH]; [split; constructor|].
    change (remove_var i ((v, p) :: r)) with (if v =? i then r else (v, p) :: remove_var i r).
    change (map fst ((v, p) :: r)) with (v :: map fst r) in Hn. inversion Hn as [|? ? Hni Hnr]; subst.
    inversion Hp as [|? ? Hpv Hpr]; subst.
    destruct (v =? i); [split; assumption|].
    destruct (IH Hnr Hpr) as [Hn' Hp']. split.
    - change (NoDup (v :: map fst (remove_var i r))). constructor; [|exact Hn'].
      intros Hin. apply Hni. eapply remove_var_in; exact Hin.
    - constructor; assumption.
  Qed.

  Lemma remove_var_notin i : forall t, NoDup (map fst t) -> ~ In i (map fst (remove_var i t)).
  Proof.
    induction t as [|[v p] r IH]; [intros _ []|].
    change (remove_var i ((v, p) :: r)) with (if v =? i then r else (v, p) :: remove_var i r).
    change (map fst ((v, p) :: r)) with (v :: map fst r). intros Hn. inversion Hn as [|? ? Hni Hnr]; subst.
    destruct (Nat.eqb_spec v i) as [->|Hne]; [exact Hni|].
    change (~ In i (v :: map fst (remove_var i r))). intros [E|Hin]; [congruence|exact (IH Hnr Hin)].
  Qed.

  Lemma remove_var_vars i vs t : wf_term t -> term_vars_in (i :: vs) t -> term_vars_in vs (remove_var i t).
  Proof.
    intros [Hn _] Hv w Hw. destruct (Hv w (remove_var_in _ _ _ Hw)) as [<-|Hin]; [|exact Hin].
    exfalso. exact (remove_var_notin _ _ Hn Hw).
  Qed.

  Lemma lookup_none_notin i : forall t, lookup_var i t = None -> ~ In i (map fst t).
  Proof.
    induction t as [|[v p] r IH]; [intros _ []|].
    change (lookup_var i ((v, p) :: r)) with (if v =? i then Some p else lookup_var i r).
    change (map fst ((v, p) :: r)) with (v :: map fst r).
    destruct (Nat.eqb_spec v i) as [->|Hne]; [discriminate|].
    intros Hl [E|Hin]; [congruence|exact (IH Hl Hin)].
  Qed.

  Lemma lookup_none_vars i vs t : lookup_var i t = None -> term_vars_in (i :: vs) t -> term_vars_in vs t.
  Proof.
    intros Hl Hv w Hw. destruct (Hv w Hw) as [<-|Hin]; [|exact Hin]. exfalso. exact (lookup_none_notin _ _ Hl Hw).
  Qed.

  Lemma div_pass_remainder i z vs : forall cur q r, wf_poly cur -> poly_vars_in (i :: vs) cur -> div_pass i z cur = (q, r) ->
      wf_poly r /\ poly_vars_in vs r.
  Proof.
    induction cur as [|[coeff t] rest IH]; intros q r Hw Hv H; cbn [div_pass] in H.
    - injection H as <- <-. split; constructor.
    - inversion Hw as [|? ? Hwt Hwr]; subst. inversion Hv as [|? ? Hvt Hvr]; subst. cbn [snd] in *.
      destruct (div_pass i z rest) as [q0 r0] eqn:E. destruct (IH _ _ Hwr Hvr eq_refl) as [W V].
      destruct t as [|vp t'].
      + injection H as <- <-. split; assumption.
      + cbv iota in H. remember (vp :: t') as t eqn:Et.
        destruct (lookup_var i t) as [k|] eqn:El.
        * destruct (quot_terms coeff z i k t) as [qt last]. injection H as <- <-.
          split; (constructor; [cbn [snd]|assumption]); [apply remove_var_wf; exact Hwt|apply remove_var_vars; assumption].
        * injection H as <- <-. split; (constructor; [cbn [snd]|assumption]); [exact Hwt|]. eapply lookup_none_vars; eassumption.
  Qed.

  Lemma eval_mpoly_no_vars x p : poly_vars_in [] p -> eval_mpoly x p = consts p.
  Proof.
    induction 1 as [|[c t] p Ht HF IH]; [reflexivity|]. cbn [snd] in Ht.
    rewrite eval_mpoly_cons. cbn [consts fold_right snd fst]. fold (consts p). rewrite IH.
    destruct t as [|[v pw] t']; [cbn; ring|]. exfalso. apply (Ht v). left. reflexivity.
  Qed.

  Fixpoint wsum_q (x z : list F) (vars : list nat) (qs : list mpoly) : F :=
    match vars, qs with
    | i :: vs, q :: qs' => (xi x i - xi z i) * eval_mpoly x q + wsum_q x z vs qs'
    | _, _ => 0
    end.

  (* the remainder constant is the same for every x: it is built from coefficients and z only *)
  Fixpoint rem_const (vars : list nat) (z : list F) (cur : mpoly) : F :=
    match vars with
    | [] => consts cur
    | i :: rest => let '(q, r) := div_pass i (nth i z 0) cur in consts cur + rem_const rest z r
    end.

  Lemma divide_loop_exact x z : forall vars cur, wf_poly cur -> poly_vars_in vars cur ->
      eval_mpoly x cur = wsum_q x z vars (divide_loop vars z cur) + rem_const vars z cur.
  Proof.
    induction vars as [|i vs IH]; intros cur Hw Hv; cbn [divide_loop wsum_q rem_const].
    - rewrite (eval_mpoly_no_vars x cur Hv). ring.
    - destruct (div_pass i (nth i z 0) cur) as [q r] eqn:E.
      destruct (div_pass_remainder _ _ _ _ _ _ Hw Hv E) as [Wr Vr].
      rewrite (div_pass_spec x i _ _ _ _ Hw E), (IH _ Wr Vr). unfold xi. ring.
  Qed.

  Lemma wsum_q_at_z z : forall vars qs, wsum_q z z vars qs = 0.
  Proof. induction vars as [|i vs IH]; intros [|q qs]; cbn [wsum_q]; try reflexivity. rewrite IH. ring. Qed.

  (* C15: p(X) - p(z) = sum_i (X_i - z_i) * w_i(X), for every sparse polynomial (arbitrary mixed
     monomials) whose variables are below num_vars, every point z and every x *)
  Theorem divide_at_point_exact nv p z x :
    wf_poly p -> poly_vars_in (seq 0 nv) p ->
    eval_mpoly x p - eval_mpoly z p = wsum_q x z (seq 0 nv) (divide_at_point nv p z).
  Proof.
    intros Hw Hv. unfold divide_at_point.
    rewrite (divide_loop_exact x z _ _ Hw Hv), (divide_loop_exact z z _ _ Hw Hv), wsum_q_at_z. ring.
  Qed.
  (* ---------------- the published elements: value = generator scaled by the monomial at the trapdoor ---------------- *)
  Fixpoint incr_at (j : nat) (v : list nat) : list nat :=
    match v, j with
    | [], _ => []
    | e :: t, O => S e :: t
    | e :: t, S j' => e :: incr_at j' t
    end.

  Lemma eval_exps_incr x : forall v k j, (j < length v)%nat ->
    eval_exps_from x k (incr_at j v) = xi x (k + j) * eval_exps_from x k v.
  Proof.
    induction v as [|e t IH]; intros k j Hj; [cbn in Hj; lia|].
    destruct j as [|j'].
    - cbn [incr_at eval_exps_from fpow]. rewrite Nat.add_0_r. unfold xi. ring.
    - cbn [incr_at eval_exps_from]. rewrite IH by (cbn in Hj; lia).
      replace (S k + j')%nat with (k + S j')%nat by lia. ring.
  Qed.

  Definition cnt (ms : list nat) (v : nat) : nat := length (filter (Nat.eqb v) ms).

  Lemma cnt_cons_eq e ms : cnt (e :: ms) e = S (cnt ms e).
  Proof. unfold cnt. cbn [filter]. rewrite Nat.eqb_refl. reflexivity. Qed.
  Lemma cnt_cons_ne e ms v : v <> e -> cnt (e :: ms) v = cnt ms v.
  Proof. intros H. unfold cnt. cbn [filter]. destruct (Nat.eqb_spec v e); [contradiction|reflexivity]. Qed.

  Lemma exps_of_cnt nv ms : exps_of nv ms = map (cnt ms) (seq 0 nv).
  Proof. reflexivity. Qed.

  Lemma cnt_cons_from e ms : forall n s, (s <= e < s + n)%nat ->
     map (cnt (e :: ms)) (seq s n) = incr_at (e - s) (map (cnt ms) (seq s n)).
  Proof.
    induction n as [|n IH]; intros s H; [lia|].
    change (seq s (S n)) with (s :: seq (S s) n). rewrite !map_cons.
    destruct (Nat.eq_dec s e) as [->|Hne].
    - rewrite Nat.sub_diag, cnt_cons_eq. change (incr_at 0 (cnt ms e :: map (cnt ms) (seq (S e) n))) with (S (cnt ms e) :: map (cnt ms) (seq (S e) n)).
      f_equal. apply map_ext_in. intros v Hv. apply in_seq in Hv. apply cnt_cons_ne. lia.
    - replace (e - s)%nat with (S (e - S s)) by lia. rewrite cnt_cons_ne by exact Hne.
      change (incr_at (S (e - S s)) (cnt ms s :: map (cnt ms) (seq (S s) n))) with (cnt ms s :: incr_at (e - S s) (map (cnt ms) (seq (S s) n))).
      f_equal. apply IH. lia.
  Qed.

  Lemma eval_exps_zero x : forall n s k, eval_exps_from x k (map (cnt []) (seq s n)) = 1.
  Proof.
    induction n as [|n IH]; intros s k; [reflexivity|].
    change (seq s (S n)) with (s :: seq (S s) n). rewrite map_cons.
    change (cnt [] s) with 0%nat. cbn [eval_exps_from fpow]. rewrite IH. ring.
  Qed.

  (* the product over the multiset is the monomial of its exponent vector *)
  Lemma ms_value_exps betas nv : forall ms, Forall (fun e => (e < nv)%nat) ms ->
     eval_exps betas (exps_of nv ms) = ms_value betas ms.
  Proof.
    induction ms as [|e ms IH]; intros H.
    - rewrite exps_of_cnt. unfold eval_exps. apply eval_exps_zero.
    - inversion H as [|? ? He Hms]; subst. specialize (IH Hms).
      rewrite exps_of_cnt, cnt_cons_from by lia. unfold eval_exps.
      rewrite eval_exps_incr by (rewrite map_length, seq_length; lia).
      rewrite Nat.sub_0_r. change (ms_value betas (e :: ms)) with (xi betas e * ms_value betas ms).
      rewrite <- IH, exps_of_cnt. reflexivity.
  Qed.

  (* e(G[m * x_i], H) = e(G[m], beta_i H) in the discrete-log view *)
  Theorem key_pairing_consistency g h betas m i : (i < length m)%nat ->
    (g * eval_exps betas (incr_at i m)) * h = (g * eval_exps betas m) * (xi betas i * h).
  Proof. intros H. unfold eval_exps. rewrite eval_exps_incr by exact H. cbn [Nat.add]. ring. Qed.

  (* ---------------- commit / open / check ---------------- *)
  Lemma divide_loop_length z : forall vars cur, length (divide_loop vars z cur) = length vars.
  Proof.
    induction vars as [|i vs IH]; intros cur; [reflexivity|]. cbn [divide_loop].
    destruct (div_pass i (nth i z 0) cur) as [q r]. cbn [length]. rewrite IH. reflexivity.
  Qed.

  Lemma pst_rhs_spec g h betas z : forall qs k,
    pst_rhs h betas z k (map (fun q => g * eval_mpoly betas q) qs) = g * h * wsum_q betas z (seq k (length qs)) qs.
  Proof.
    induction qs as [|q qs IH]; intros k; [cbn; ring|].
    cbn [map pst_rhs length seq wsum_q]. rewrite IH. unfold xi. ring.
  Qed.

  (* any polynomial (arbitrary mixed monomials) opens at any point and the check accepts the true value *)
  Theorem pst_check_complete g h betas nv p z :
    wf_poly p -> poly_vars_in (seq 0 nv) p ->
    pst_check g h betas z (pst_commit g betas p) (eval_mpoly z p) (pst_open g betas nv p z) = true.
  Proof.
    intros Hw Hv. unfold pst_check, pst_commit, pst_open. apply FL_eqb.
    pose proof (divide_at_point_exact nv p z betas Hw Hv) as Ex. unfold divide_at_point in *.
    rewrite pst_rhs_spec, divide_loop_length, seq_length, <- Ex. ring.
  Qed.

  (* one proof never supports two values *)
  Theorem pst_check_one_value g h betas z c ws v1 v2 :
    g <> 0 -> h <> 0 ->
    pst_check g h betas z c v1 ws = true -> pst_check g h betas z c v2 ws = true -> v1 = v2.
  Proof.
    intros Hg Hh H1 H2. unfold pst_check in *. apply FL_eqb in H1. apply FL_eqb in H2.
    assert (E : g * h * (v1 - v2) = 0).
    { transitivity ((c - g * v2) * h - (c - g * v1) * h); [ring|rewrite H1, H2; ring]. }
    destruct (f_integral _ _ E) as [E1|E1].
    - destruct (f_integral _ _ E1); contradiction.
    - transitivity (v1 - v2 + v2); [ring|rewrite E1; ring].
  Qed.

  (* the honest proof of p does not support any other value *)
  Theorem pst_check_rejects_other_value g h betas nv p z v' :
    g <> 0 -> h <> 0 -> wf_poly p -> poly_vars_in (seq 0 nv) p -> v' <> eval_mpoly z p ->
    pst_check g h betas z (pst_commit g betas p) v' (pst_open g betas nv p z) = false.
  Proof.
    intros Hg Hh Hw Hv Hne. destruct (pst_check g h betas z (pst_commit g betas p) v' (pst_open g betas nv p z)) eqn:E; [|reflexivity].
    exfalso. apply Hne. eapply pst_check_one_value; [exact Hg|exact Hh|exact E|apply pst_check_complete; assumption].
  Qed.
  (* ---- every element setup publishes is g scaled by its own monomial at the trapdoor (unbounded) ---- *)
  Lemma comb_next_orig st st' out : comb_next st = Some (st', out) -> c_orig st' = c_orig st /\ out = comb_output st'.
  Proof.
    unfold comb_next. destruct (negb (c_started st)).
    - intros H. injection H as <- <-. split; reflexivity.
    - destruct (nth (nth (c_len st - 1) (c_pos st) 0%nat) (c_orig st) 0%nat =? nth (length (c_orig st) - 1) (c_orig st) 0%nat).
      + destruct (bump_search _ _ _ _ _ _); [|discriminate]. intros H. injection H as <- <-. split; reflexivity.
      + destruct (find_from _ _ _); [|discriminate]. intros H. injection H as <- <-. split; reflexivity.
  Qed.

  Lemma comb_output_bound nv st : (1 <= nv)%nat -> Forall (fun e => (e < nv)%nat) (c_orig st) ->
    Forall (fun e => (e < nv)%nat) (comb_output st).
  Proof.
    intros Hnv Ho. unfold comb_output. apply Forall_forall. intros e He. apply in_map_iff in He.
    destruct He as (n & <- & _). destruct (nth_in_or_default n (c_orig st) 0%nat) as [Hin|Hd]; [|rewrite Hd; lia].
    rewrite Forall_forall in Ho. exact (Ho _ Hin).
  Qed.

  Lemma comb_all_bound nv : (1 <= nv)%nat -> forall fuel st, Forall (fun e => (e < nv)%nat) (c_orig st) ->
    Forall (fun ms => Forall (fun e => (e < nv)%nat) ms) (comb_all fuel st).
  Proof.
    intros Hnv. induction fuel as [|f IH]; intros st Ho; cbn [comb_all]; [constructor|].
    destruct (comb_next st) as [[st' out]|] eqn:E; [|constructor].
    destruct (comb_next_orig _ _ _ E) as [Eo ->]. constructor.
    - apply comb_output_bound; [exact Hnv|rewrite Eo; exact Ho].
    - apply IH. rewrite Eo. exact Ho.
  Qed.

  Lemma ins_sorted_forall (P : nat -> Prop) x : forall l, P x -> Forall P l -> Forall P (ins_sorted x l).
  Proof.
    induction l as [|y t IH]; intros Hx Hl; cbn [ins_sorted]; [constructor; [exact Hx|constructor]|].
    inversion Hl; subst. destruct (x <=? y); constructor; auto.
  Qed.
  Lemma sort_nat_forall (P : nat -> Prop) : forall l, Forall P l -> Forall P (sort_nat l).
  Proof.
    induction l as [|x t IH]; intros H; [constructor|]. inversion H; subst.
    change (sort_nat (x :: t)) with (ins_sorted x (sort_nat t)). apply ins_sorted_forall; auto.
  Qed.

  Lemma variable_set_bound nv D : Forall (fun e => (e < nv)%nat) (variable_set nv D).
  Proof.
    unfold variable_set. apply Forall_forall. intros e He. apply in_flat_map in He.
    destruct He as (v & Hv & Hr). apply in_seq in Hv. apply repeat_spec in Hr. lia.
  Qed.

  Lemma setup_terms_bound fuel nv D d l : (1 <= nv)%nat -> setup_terms_of_degree fuel nv D d = Ok l ->
    Forall (fun ms => Forall (fun e => (e < nv)%nat) ms) l.
  Proof.
    intros Hnv. unfold setup_terms_of_degree. destruct (length (variable_set nv D) =? d).
    - intros H. injection H as <-. constructor; [apply variable_set_bound|constructor].
    - unfold comb_new. destruct ((d <? length (variable_set nv D)) && (1 <=? d)); [|discriminate].
      intros H. injection H as <-. apply comb_all_bound; [exact Hnv|]. cbn [c_orig].
      apply sort_nat_forall, variable_set_bound.
  Qed.

  Lemma mapM_forall {A B} (f : A -> res B) (P : B -> Prop) : forall l r,
    (forall a b, f a = Ok b -> P b) -> mapM f l = Ok r -> Forall P r.
  Proof.
    induction l as [|a t IH]; intros r Hf H; cbn [mapM] in H.
    - injection H as <-. constructor.
    - destruct (f a) as [b| |] eqn:Ea; cbn [bind] in H; try discriminate.
      destruct (mapM f t) as [bs| |] eqn:Et; cbn [bind] in H; try discriminate.
      injection H as <-. constructor; [exact (Hf _ _ Ea)|apply IH; [exact Hf|reflexivity]].
  Qed.

  Lemma eval_exps_repeat0 x : forall n k, eval_exps_from x k (repeat 0%nat n) = 1.
  Proof. induction n as [|n IH]; intros k; [reflexivity|]. cbn [repeat eval_exps_from fpow]. rewrite IH. ring. Qed.

  Theorem setup_pairs_values fuel nv D betas l : (1 <= nv)%nat -> setup_pairs fuel nv D betas = Ok l ->
    Forall (fun ve => fst ve = eval_exps betas (snd ve) /\ length (snd ve) = nv) l.
  Proof.
    intros Hnv. unfold setup_pairs.
    destruct (mapM (fun d => setup_terms_of_degree fuel nv D d) (seq 1 D)) as [ll| |] eqn:E; cbn [bind]; try discriminate.
    intros H. injection H as <-.
    assert (Hb : Forall (fun ms => Forall (fun e => (e < nv)%nat) ms) (concat ll)).
    { apply Forall_concat. eapply mapM_forall; [|exact E]. intros d b Hd. cbv beta in Hd.
      exact (setup_terms_bound _ _ _ _ _ Hnv Hd). }
    apply Forall_app. split.
    - apply Forall_forall. intros ve Hve. apply in_map_iff in Hve. destruct Hve as (ms & <- & Hms).
      rewrite Forall_forall in Hb. cbn [fst snd]. split; [symmetry; apply ms_value_exps; exact (Hb _ Hms)|].
      unfold exps_of. rewrite map_length, seq_length. reflexivity.
    - constructor; [|constructor]. cbn [fst snd]. split; [|apply repeat_length].
      unfold eval_exps. symmetry. apply eval_exps_repeat0.
  Qed.
End DivideFacts.
