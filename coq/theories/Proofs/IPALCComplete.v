(* IPA open_combinations -> check_combinations: complete end to end (free-module view), for EVERY set of combinations under distinct
   labels on which the prover succeeds: combinations of polynomials without degree bounds, and a degree-bounded polynomial alone
   with coefficient one (the bound policy refuses everything else, prover_cases).  The prover's combined (polynomial, randomness, commitment) triples are commitments in the sense the
   opening needs (sem_honest), the verifier's loop follows the prover's and builds the same flat commitment list, the constants
   it moves out of the claims leave the evaluations of the combined polynomials, and the batch completeness theorem concludes. *)
From Coq Require Import List Arith NArith Bool Lia Field Ring.
From PC Require Import Base.Field Base.Result Base.Poly Base.OrdMap Proofs.PolyFacts Proofs.OrdMapFacts Schemes.LC Schemes.Marlin Schemes.MarlinLC
     Schemes.IPA Proofs.LCFacts Proofs.IPAFacts Proofs.IPAComplete Schemes.DefaultBatch Schemes.IPABatch Proofs.IPABatchFacts
     Proofs.MarlinLCFacts Proofs.IPALCFacts Proofs.DefaultBatchComplete Proofs.IPABatchComplete Proofs.PST13LCComplete.
Import ListNotations.
Open Scope F_scope.

Section IPALCComplete.
  Context {FO : FieldOps} {FL : FieldLaws FO}.
  Add Field Ffield52 : FL_field.
  Variable d : nat.
  Hypothesis Hd : (d + 1 = 2 ^ Nat.log2_up (d + 1))%nat.

  Notation LM := (list (N * (LPoly * IRand * (IComm * option nat)))).

  Definition il_honest (lm : LM) : Prop :=
    forall l lp st c, lookup N.compare l lm = Some (lp, st, c) -> sem_honest d (lp, snd c, fst c, st).
  Definition il_agree (lm : LM) (cm : list (N * (IComm * option nat))) : Prop :=
    forall l lp st c, lookup N.compare l lm = Some (lp, st, c) -> lookup N.compare l cm = Some c.
  Definition unbounded (lm : LM) (terms : lc) : Prop :=
    forall co0 l lp st c, In (co0, TPoly l) terms -> lookup N.compare l lm = Some (lp, st, c) -> lp_bound lp = None.

  Lemma sem_ir_shifted_none lp cb cm st : sem_honest d (lp, cb, cm, st) -> lp_bound lp = None -> ic_shifted cm = None /\ ir_shifted st = None.
  Proof.
    intros (_ & _ & _ & Hs & Hnh & Hhs) Hb. rewrite Hb in Hs, Hhs. split; [exact Hs|].
    destruct (lp_hiding lp) as [h|]; [|exact (proj2 (Hnh eq_refl))].
    specialize (Hhs eq_refl). destruct (ir_shifted st); [discriminate|reflexivity].
  Qed.

  Lemma il_honest_i (lm : LM) : il_honest lm -> i_lm_honest d lm.
  Proof.
    intros H l [[lp st] c] El. pose proof (H l lp st c El) as Hs. unfold i_honest. split.
    - destruct Hs as (_ & _ & Hc & _). exact Hc.
    - intros Hb. exact (sem_ir_shifted_none _ _ _ _ Hs Hb).
  Qed.

  Lemma opt_max_none a b : opt_max a b = None -> a = None /\ b = None.
  Proof. destruct a, b; cbn; intros H; try discriminate; split; reflexivity. Qed.

  Lemma i_prover_loop_extra (lm : LM) num : il_honest lm -> forall terms a a',
    unbounded lm terms -> hz (d + 1) (ia_poly a) -> (ia_hiding a = None -> ia_rand a = 0) ->
    ilc_prover_loop lm num terms a = Ok a' ->
    hz (d + 1) (ia_poly a') /\ (ia_hiding a' = None -> ia_rand a' = 0).
  Proof.
    intros Hh. induction terms as [|[c0 [|l]] t IH]; intros a a' Hu Hz Hr H; cbn [ilc_prover_loop] in H.
    - injection H as <-. split; assumption.
    - apply (IH a a'); try assumption. intros co0 l0 lp st c Hin. apply (Hu co0 l0 lp st c). right. exact Hin.
    - destruct (lookup N.compare l lm) as [[[lp st] cm]|] eqn:El; [|discriminate].
      assert (Hb : lp_bound lp = None) by (eapply Hu; [left; reflexivity|exact El]).
      rewrite Hb in H. cbn [bound_policy bind] in H.
      destruct (Hh l lp st cm El) as (_ & Hdab & _ & _ & Hnh & _).
      destruct (check_dab_inv _ _ _ Hdab) as (Hdeg & _).
      apply (IH _ a') in H; [exact H| | |].
      + intros co0 l0 lp0 st0 c Hin. apply (Hu co0 l0 lp0 st0 c). right. exact Hin.
      + cbn [ia_poly]. apply hz_padd_scaled; [exact Hz|apply hz_of_degree; exact Hdeg].
      + cbn [ia_hiding ia_rand]. intros Hm. destruct (opt_max_none _ _ Hm) as [H1 H2].
        rewrite (Hr H1), (proj1 (Hnh H2)). ring.
  Qed.

  Lemma i_verifier_follows (lm : LM) cm lab num : il_honest lm -> il_agree lm cm -> forall terms a a' ev,
    unbounded lm terms ->
    ilc_prover_loop lm num terms a = Ok a' ->
    ilc_verifier_loop cm lab num terms ev (ia_bound a) (ia_cc a) (ia_cs a) = Ok (ev_sub3 lab terms ev, ia_bound a', ia_cc a', ia_cs a').
  Proof.
    intros Hh Ha. induction terms as [|[c0 [|l]] t IH]; intros a a' ev Hu H; cbn [ilc_prover_loop] in H; cbn [ilc_verifier_loop ev_sub3].
    - injection H as <-. reflexivity.
    - apply IH; [|exact H]. intros co0 l0 lp st c Hin. apply (Hu co0 l0 lp st c). right. exact Hin.
    - destruct (lookup N.compare l lm) as [[[lp st] c]|] eqn:El; [|discriminate].
      assert (Hb : lp_bound lp = None) by (eapply Hu; [left; reflexivity|exact El]).
      rewrite Hb in H. cbn [bound_policy bind] in H.
      rewrite (Ha l lp st c El).
      pose proof (Hh l lp st c El) as Hs.
      destruct (sem_ir_shifted_none _ _ _ _ Hs Hb) as [Hsc _].
      destruct Hs as (Ecb & _). rewrite Hb in Ecb. rewrite Ecb, Hsc. cbn [Bool.eqb negb bound_policy bind].
      assert (Hu' : unbounded lm t) by (intros co0 l0 lp0 st0 c1 Hin; apply (Hu co0 l0 lp0 st0 c1); right; exact Hin).
      pose proof (IH _ a' ev Hu' H) as E. cbn [ia_bound ia_cc ia_cs] in E. rewrite Hsc in E. exact E.
  Qed.

  Definition item_of (pc : (LPoly * IRand) * (N * (IComm * option nat))) : IItem :=
    (fst (fst pc), snd (snd (snd pc)), fst (snd (snd pc)), snd (fst pc)).
  Definition irelated (lm : LM) (l : N * lc) (pc : (LPoly * IRand) * (N * (IComm * option nat))) : Prop :=
    lp_label (fst (fst pc)) = fst l /\ fst (snd pc) = fst l /\ sem_honest d (item_of pc) /\
    forall x, eval (lp_poly (fst (fst pc))) x + lc_const (snd l) = lc_value (i_poly_of lm x) (snd l).

  (* ---- which combinations the prover accepts: polynomials without degree bounds, or one degree-bounded polynomial alone with
     coefficient one (the bound policy refuses everything else) ---- *)
  Lemma loop_num_ne1 (lm : LM) num : num <> 1%nat -> forall terms a a', ilc_prover_loop lm num terms a = Ok a' -> unbounded lm terms.
  Proof.
    intros Hn. induction terms as [|[c0 [|l]] t IH]; intros a a' H; cbn [ilc_prover_loop] in H.
    - intros ? ? ? ? ? [].
    - intros co0 l0 lp st c [E|Hin]; [discriminate E|]. exact (IH _ _ H co0 l0 lp st c Hin).
    - destruct (lookup N.compare l lm) as [[[lp st] cm]|] eqn:El; [|discriminate].
      destruct (lp_bound lp) as [b|] eqn:Eb.
      + cbn [bound_policy] in H. destruct (Nat.eqb_spec num 1); [contradiction|]. cbn [bind] in H. discriminate.
      + cbn [bound_policy bind] in H. intros co0 l0 lp0 st0 c [E|Hin] Hl0.
        * injection E as _ <-. rewrite El in Hl0. injection Hl0 as <- _ _. exact Eb.
        * exact (IH _ _ H co0 l0 lp0 st0 c Hin Hl0).
  Qed.

  Lemma prover_cases (lm : LM) terms a0 a : ilc_prover_loop lm (length terms) terms a0 = Ok a ->
    unbounded lm terms \/
    exists c0 l lp st c b, terms = [(c0, TPoly l)] /\ feqb c0 f1 = true /\ lookup N.compare l lm = Some (lp, st, c) /\ lp_bound lp = Some b.
  Proof.
    intros H. destruct terms as [|t1 [|t2 rest]].
    - left. intros ? ? ? ? ? [].
    - destruct t1 as [c0 [|l]].
      + left. intros co0 l0 lp st c [E|[]]. discriminate E.
      + cbn [length ilc_prover_loop] in H.
        destruct (lookup N.compare l lm) as [[[lp st] c]|] eqn:El; [|discriminate].
        destruct (lp_bound lp) as [b|] eqn:Eb.
        * right. cbn [bound_policy Nat.eqb] in H. destruct (feqb c0 f1) eqn:Ec; [|discriminate].
          exists c0, l, lp, st, c, b. repeat split; assumption.
        * left. intros co0 l0 lp0 st0 c1 [E|[]] Hl0. injection E as _ <-. rewrite El in Hl0. injection Hl0 as <- _ _. exact Eb.
    - left. apply (loop_num_ne1 lm (length (t1 :: t2 :: rest))) with (a := a0) (a' := a); [cbn [length]; lia|exact H].
  Qed.

  Lemma pscale_one (p : poly) : pscale 1 p = p.
  Proof. unfold pscale. induction p as [|x p IH]; [reflexivity|]. cbn [map]. rewrite IH. f_equal. ring. Qed.

  (* one combination: the verifier's loop follows the prover's, the combined triple is a commitment in the sense the opening needs,
     the shifted part is present exactly with a degree bound, the combined polynomial evaluates to the combination minus its constants *)
  Lemma i_one (lm : LM) cm lab terms a ev : il_honest lm -> il_agree lm cm ->
    ilc_prover_loop lm (length terms) terms
      {| ia_poly := []; ia_bound := None; ia_hiding := None; ia_rand := 0; ia_srand := None; ia_cc := []; ia_cs := None |} = Ok a ->
    ilc_verifier_loop cm lab (length terms) terms ev None [] None = Ok (ev_sub3 lab terms ev, ia_bound a, ia_cc a, ia_cs a) /\
    match ia_bound a with Some _ => exists x, ia_cs a = Some x | None => ia_cs a = None end /\
    sem_honest d ({| lp_label := lab; lp_poly := ia_poly a; lp_bound := ia_bound a; lp_hiding := ia_hiding a |}, ia_bound a,
                  {| ic_comm := ia_cc a; ic_shifted := ia_cs a |}, {| ir_rand := ia_rand a; ir_shifted := ia_srand a |}) /\
    forall x, eval (ia_poly a) x + lc_const terms = lc_value (i_poly_of lm x) terms.
  Proof.
    intros Hh Ha El.
    set (a0 := {| ia_poly := []; ia_bound := None; ia_hiding := None; ia_rand := 0; ia_srand := None; ia_cc := []; ia_cs := None |}) in *.
    destruct (prover_cases lm terms a0 a El) as [Hu0|(c0 & l & lp & st & c & b & -> & Hc & Elk & Eb)].
    - (* polynomials without degree bounds *)
      destruct (ilc_prover_one_unbounded d lm lab terms a (il_honest_i lm Hh) Hu0 El) as (Hih & Hb & _ & Hval).
      destruct Hih as [Hco Hsh]. cbn [fst lp_poly lp_bound ir_rand ir_shifted ic_comm ic_shifted] in Hco, Hsh.
      destruct (Hsh Hb) as [Hcs Hsr].
      assert (Hz0 : hz (d + 1) (ia_poly a0)) by (apply hz_length; cbn; lia).
      destruct (i_prover_loop_extra lm (length terms) Hh terms a0 a Hu0 Hz0 (fun _ => eq_refl) El) as [Hz Hr].
      pose proof (i_verifier_follows lm cm lab (length terms) Hh Ha terms a0 a ev Hu0 El) as Ev0. cbn [a0 ia_bound ia_cc ia_cs] in Ev0.
      split; [exact Ev0|]. split; [rewrite Hb; exact Hcs|]. split; [|exact Hval].
      unfold sem_honest. cbn [lp_bound lp_poly lp_hiding ic_comm ic_shifted ir_rand ir_shifted].
      split; [reflexivity|]. split.
      { rewrite Hb. unfold i_check_dab. pose proof (hz_trim_length _ _ Hz) as Lt. unfold degree.
        destruct (Nat.ltb_spec d (pred (length (trim (ia_poly a))))); [lia|reflexivity]. }
      split; [exact Hco|]. rewrite Hb. split; [exact Hcs|]. split.
      { intros Hn. split; [exact (Hr Hn)|exact Hsr]. }
      intros _. rewrite Hsr. reflexivity.
    - (* one degree-bounded polynomial, alone, coefficient one *)
      apply FL_eqb in Hc. subst c0.
      pose proof (Hh l lp st c Elk) as (Ecb & Hdab & Hco & Hsh & Hnh & Hhs). rewrite Eb in Ecb, Hsh, Hhs, Hdab.
      destruct Hsh as (sc & Esc & Hscc).
      cbn [length ilc_prover_loop] in El. unfold a0 in El. rewrite Elk, Eb in El. cbn [bound_policy Nat.eqb] in El.
      rewrite feqb_refl in El. cbn [bind ilc_prover_loop ia_poly ia_bound ia_hiding ia_rand ia_srand ia_cc ia_cs] in El.
      injection El as <-. cbn [ia_poly ia_bound ia_hiding ia_rand ia_srand ia_cc ia_cs].
      rewrite Esc. cbn [comb_opt_g].
      assert (Ep : padd_scaled [] 1 (lp_poly lp) = lp_poly lp) by (unfold padd_scaled; cbn [padd]; apply pscale_one).
      rewrite Ep.
      split.
      { cbn [length ilc_verifier_loop]. rewrite (Ha l lp st c Elk). rewrite Ecb, Esc. cbn [Bool.eqb negb bound_policy Nat.eqb].
        rewrite feqb_refl. cbn [bind ilc_verifier_loop ev_sub3 comb_opt_g]. reflexivity. }
      split; [eexists; reflexivity|]. split.
      { unfold sem_honest. cbn [lp_bound lp_poly lp_hiding ic_comm ic_shifted ir_rand ir_shifted].
        split; [reflexivity|]. split; [exact Hdab|]. split.
        { intros i. rewrite ?co_gvadd, ?co_nil, ?co_gvscale, Hco. ring. }
        split.
        { eexists. split; [reflexivity|]. intros i. rewrite co_gvscale, Hscc.
          destruct (ir_shifted st) as [x|]; cbn [comb_opt_f]; ring. }
        split.
        { intros Hn. assert (Hn' : lp_hiding lp = None) by (destruct (lp_hiding lp); [discriminate Hn|reflexivity]).
          destruct (Hnh Hn') as [E1 E2]. rewrite E1, E2. cbn [comb_opt_f]. split; [ring|reflexivity]. }
        intros Hs. assert (Hs' : is_some (lp_hiding lp) = true) by (destruct (lp_hiding lp); [reflexivity|discriminate Hs]).
        rewrite <- (Hhs Hs'). destruct (ir_shifted st); reflexivity. }
      intros x. cbn [lc_const lc_value term_value]. unfold i_poly_of. rewrite Elk. ring.
  Qed.

  Lemma i_all_follow (lm : LM) cm : il_honest lm -> il_agree lm cm -> forall lcs ps info flat ev,
    ilc_prover_all lm lcs = Ok (ps, info, flat) ->
    exists lcm, ilc_verifier_all cm lcs ev = Ok (info, flat, ev_sub3_all lcs ev) /\
                construct_lcomms info flat = Ok lcm /\
                length ps = length lcs /\ length lcm = length lcs /\
                Forall2 (irelated lm) lcs (combine ps lcm).
  Proof.
    intros Hh Ha. induction lcs as [|[lab terms] t IH]; intros ps info flat ev H; cbn [ilc_prover_all] in H.
    - injection H as <- <- <-. exists []. cbn [ilc_verifier_all ev_sub3_all construct_lcomms combine length]. repeat split; constructor.
    - destruct (ilc_prover_loop lm (length terms) terms _) as [a| |] eqn:El; cbn [bind] in H; try discriminate.
      destruct (ilc_prover_all lm t) as [[[ps1 info1] flat1]| |] eqn:Er; cbn [bind] in H; try discriminate.
      injection H as <- <- <-.
      destruct (IH ps1 info1 flat1 (ev_sub3 lab terms ev) eq_refl) as (lcm1 & Ev & Ec & L1 & L2 & HF).
      destruct (i_one lm cm lab terms a ev Hh Ha El) as (Ev0 & Hshape & Hsem & Hval).
      exists ((lab, ({| ic_comm := ia_cc a; ic_shifted := ia_cs a |}, ia_bound a)) :: lcm1).
      cbn [ilc_verifier_all]. rewrite Ev0. cbn [bind]. rewrite Ev. cbn [bind ev_sub3_all fst snd].
      split; [reflexivity|].
      split.
      { destruct (ia_bound a) as [b|].
        - destruct Hshape as (x & ->). cbn [flat_of app construct_lcomms]. rewrite Ec. reflexivity.
        - rewrite Hshape. cbn [flat_of app construct_lcomms]. rewrite Ec. reflexivity. }
      cbn [length combine]. split; [lia|]. split; [lia|].
      constructor; [|exact HF].
      unfold irelated, item_of. cbn [fst snd lp_label lp_poly]. split; [reflexivity|]. split; [reflexivity|]. split; [exact Hsem|exact Hval].
  Qed.

  Theorem ipa_lc_complete lcs items cs qs ev chal hchal rng vtape pfs rest hrest rng' :
    il_honest (of_list N.compare (map (fun it => (lp_label (fst (fst it)), it)) items)) ->
    il_agree (of_list N.compare (map (fun it => (lp_label (fst (fst it)), it)) items)) (of_list N.compare cs) ->
    NoDup (map fst lcs) ->
    Forall (fun rc => rc <> 0) hchal ->
    (forall pl pt labels lab terms, In (pl, (pt, labels)) (groups qs) -> In lab labels -> In (lab, terms) lcs ->
        lookup_eval lab pt ev
        = Some (lc_value (i_poly_of (of_list N.compare (map (fun it => (lp_label (fst (fst it)), it)) items)) (hd 0 pt)) terms)) ->
    (length (groups qs) <= length vtape)%nat ->
    i_open_combinations d lcs items qs (chal, hchal, rng) = Ok (pfs, (rest, hrest, rng')) ->
    i_check_combinations d lcs cs qs ev pfs chal hchal vtape = Ok (true, rest, hrest, length (groups qs)).
  Proof.
    intros Hh Ha Hnd Hnz Hcl Lt H. unfold i_open_combinations in H. cbv zeta in H.
    set (lm := of_list N.compare (map (fun it => (lp_label (fst (fst it)), it)) items)) in *.
    destruct (ilc_prover_all lm lcs) as [[[ps info] flat]| |] eqn:Ep; cbn [bind] in H; try discriminate.
    unfold i_check_combinations.
    destruct (i_all_follow lm (of_list N.compare cs) Hh Ha lcs ps info flat ev Ep) as (lcm & Ev & Ec & L1 & L2 & HF).
    rewrite Ev. cbn [bind]. rewrite Ec in H |- *. cbn [bind] in H |- *.
    set (bitems := map (fun pc : LPoly * IRand * (N * (IComm * option nat)) =>
                          (lp_label (fst (fst pc)), (fst (fst pc), snd (snd (snd pc)), fst (snd (snd pc)), snd (fst pc)))) (combine ps lcm)) in *.
    assert (Hrel : forall pc, In pc (combine ps lcm) -> exists l, In l lcs /\ irelated lm l pc).
    { clear - HF. induction HF as [|l pc lcs0 pcs R _ IH]; intros pc0 Hin; [destruct Hin|].
      destruct Hin as [<-|Hin]; [exists l; split; [left; reflexivity|exact R]|].
      destruct (IH pc0 Hin) as (l0 & H1 & H2). exists l0. split; [right; exact H1|exact H2]. }
    assert (Kc : map fst lcm = map fst lcs).
    { clear - HF L1 L2. revert ps lcm L1 L2 HF. induction lcs as [|l t IH]; intros [|p ps] [|c lcm] L1 L2 HF; cbn in L1, L2; try lia; [reflexivity|].
      cbn [combine] in HF.
      assert (HP : irelated lm l (p, c) /\ Forall2 (irelated lm) t (combine ps lcm)) by (inversion HF; split; assumption).
      destruct HP as [(_ & R2 & _) HF']. cbn [fst snd] in R2.
      cbn [map]. rewrite R2, (IH ps lcm ltac:(lia) ltac:(lia) HF'). reflexivity. }
    assert (Hbi : forall l it, lookup_lab l (label_map bitems) = Some it ->
              exists pc, In pc (combine ps lcm) /\ l = lp_label (fst (fst pc)) /\ it = item_of pc).
    { intros l it Hl. apply lookup_lab_some_in in Hl. unfold label_map in Hl. apply in_rev in Hl.
      unfold bitems in Hl. apply in_map_iff in Hl. destruct Hl as (pc & E & Hin). injection E as <- <-.
      exists pc. repeat split. exact Hin. }
    apply (ipa_batch_complete_e2e d Hd bitems lcm qs (ev_sub3_all lcs ev) chal hchal rng vtape pfs rest hrest rng'); [| exact Hnz | | exact Lt | exact H].
    - intros l it Hl. destruct (Hbi l it Hl) as (pc & Hin & -> & ->).
      destruct (Hrel _ Hin) as (l0 & Hl0 & (R1 & R2 & R3 & _)).
      destruct pc as [[lp0 st0] [lab0 [cm0 b0]]]. cbn [fst snd] in R1, R2.
      exists (cm0, b0). split; [|split; [exact R3|reflexivity]].
      apply lookup_lab_in_nodup; [apply NoDup_map_rev; rewrite Kc; exact Hnd|].
      unfold label_map. apply in_rev. rewrite rev_involutive. cbn [fst snd]. rewrite R1, <- R2.
      eapply in_combine_r. exact Hin.
    - intros pl pt labels Hg l it Hl Hit. destruct (Hbi l it Hit) as (pc & Hin & -> & ->).
      destruct (Hrel _ Hin) as (l0 & Hl0 & (R1 & _ & _ & R4)).
      assert (El0 : l0 = (lp_label (fst (fst pc)), snd l0)) by (destruct l0 as [a0 b0]; cbn [fst snd] in *; congruence).
      rewrite El0 in Hl0.
      rewrite (ev_sub3_all_lookup lcs ev _ (snd l0) pt Hnd Hl0), (Hcl pl pt labels _ (snd l0) Hg Hl Hl0). cbn [option_map]. f_equal.
      unfold ivalue, item_of. cbn [fst snd].
      match goal with |- ?a - ?b0 = ?c0 => assert (E : a = c0 + b0) by (symmetry; exact (R4 (hd 0 pt))); rewrite E; ring end.
  Qed.
End IPALCComplete.
