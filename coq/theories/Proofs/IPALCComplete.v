(* IPA open_combinations -> check_combinations: complete end to end (free-module view), for combinations of polynomials without
   degree bounds under distinct labels (a degree-bounded polynomial may only stand alone with coefficient one; that case is the
   plain batch flow).  The prover's combined (polynomial, randomness, commitment) triples are commitments in the sense the
   opening needs (sem_honest), the verifier's loop follows the prover's and builds the same flat commitment list, the constants
   it moves out of the claims leave the evaluations of the combined polynomials, and the batch completeness theorem concludes. *)
From Coq Require Import List Arith NArith Bool Lia Field Ring.
From PC Require Import Base.Field Base.Result Base.Poly Base.OrdMap Proofs.PolyFacts Proofs.OrdMapFacts Schemes.LC Schemes.Marlin Schemes.MarlinLC
     Schemes.IPA Proofs.LCFacts Proofs.IPAFacts Proofs.IPAComplete Schemes.DefaultBatch Schemes.IPABatch Proofs.IPABatchFacts
     Proofs.MarlinLCFacts Proofs.IPALCFacts Proofs.DefaultBatchComplete Proofs.IPABatchComplete Proofs.PST13LCComplete.
Import ListNotations.
Open Scope F_scope.

Section IPALCComplete.
  Context {FO : FieldOps} {FL : FieldLaws FO}.
  Add Field Ffield52 : FL_field.
  Variable d : nat.
  Hypothesis Hd : (d + 1 = 2 ^ Nat.log2_up (d + 1))%nat.

  Notation LM := (list (N * (LPoly * IRand * (IComm * option nat)))).

  Definition il_honest (lm : LM) : Prop :=
    forall l lp st c, lookup N.compare l lm = Some (lp, st, c) -> sem_honest d (lp, snd c, fst c, st).
  Definition il_agree (lm : LM) (cm : list (N * (IComm * option nat))) : Prop :=
    forall l lp st c, lookup N.compare l lm = Some (lp, st, c) -> lookup N.compare l cm = Some c.
  Definition unbounded (lm : LM) (terms : lc) : Prop :=
    forall co0 l lp st c, In (co0, TPoly l) terms -> lookup N.compare l lm = Some (lp, st, c) -> lp_bound lp = None.

  Lemma sem_ir_shifted_none lp cb cm st : sem_honest d (lp, cb, cm, st) -> lp_bound lp = None -> ic_shifted cm = None /\ ir_shifted st = None.
  Proof.
    intros (_ & _ & _ & Hs & Hnh & Hhs) Hb. rewrite Hb in Hs, Hhs. split; [exact Hs|].
    destruct (lp_hiding lp) as [h|]; [|exact (proj2 (Hnh eq_refl))].
    specialize (Hhs eq_refl). destruct (ir_shifted st); [discriminate|reflexivity].
  Qed.

  Lemma il_honest_i (lm : LM) : il_honest lm -> i_lm_honest d lm.
  Proof.
    intros H l [[lp st] c] El. pose proof (H l lp st c El) as Hs. unfold i_honest. split.
    - destruct Hs as (_ & _ & Hc & _). exact Hc.
    - intros Hb. exact (sem_ir_shifted_none _ _ _ _ Hs Hb).
  Qed.

  Lemma opt_max_none a b : opt_max a b = None -> a = None /\ b = None.
  Proof. destruct a, b; cbn; intros H; try discriminate; split; reflexivity. Qed.

  Lemma i_prover_loop_extra (lm : LM) num : il_honest lm -> forall terms a a',
    unbounded lm terms -> hz (d + 1) (ia_poly a) -> (ia_hiding a = None -> ia_rand a = 0) ->
    ilc_prover_loop lm num terms a = Ok a' ->
    hz (d + 1) (ia_poly a') /\ (ia_hiding a' = None -> ia_rand a' = 0).
  Proof.
    intros Hh. induction terms as [|[c0 [|l]] t IH]; intros a a' Hu Hz Hr H; cbn [ilc_prover_loop] in H.
    - injection H as <-. split; assumption.
    - apply (IH a a'); try assumption. intros co0 l0 lp st c Hin. apply (Hu co0 l0 lp st c). right. exact Hin.
    - destruct (lookup N.compare l lm) as [[[lp st] cm]|] eqn:El; [|discriminate].
      assert (Hb : lp_bound lp = None) by (eapply Hu; [left; reflexivity|exact El]).
      rewrite Hb in H. cbn [bound_policy bind] in H.
      destruct (Hh l lp st cm El) as (_ & Hdab & _ & _ & Hnh & _).
      destruct (check_dab_inv _ _ _ Hdab) as (Hdeg & _).
      apply (IH _ a') in H; [exact H| | |].
      + intros co0 l0 lp0 st0 c Hin. apply (Hu co0 l0 lp0 st0 c). right. exact Hin.
      + cbn [ia_poly]. apply hz_padd_scaled; [exact Hz|apply hz_of_degree; exact Hdeg].
      + cbn [ia_hiding ia_rand]. intros Hm. destruct (opt_max_none _ _ Hm) as [H1 H2].
        rewrite (Hr H1), (proj1 (Hnh H2)). ring.
  Qed.

  Lemma i_verifier_follows (lm : LM) cm lab num : il_honest lm -> il_agree lm cm -> forall terms a a' ev,
    unbounded lm terms ->
    ilc_prover_loop lm num terms a = Ok a' ->
    ilc_verifier_loop cm lab num terms ev (ia_bound a) (ia_cc a) (ia_cs a) = Ok (ev_sub3 lab terms ev, ia_bound a', ia_cc a', ia_cs a').
  Proof.
    intros Hh Ha. induction terms as [|[c0 [|l]] t IH]; intros a a' ev Hu H; cbn [ilc_prover_loop] in H; cbn [ilc_verifier_loop ev_sub3].
    - injection H as <-. reflexivity.
    - apply IH; [|exact H]. intros co0 l0 lp st c Hin. apply (Hu co0 l0 lp st c). right. exact Hin.
    - destruct (lookup N.compare l lm) as [[[lp st] c]|] eqn:El; [|discriminate].
      assert (Hb : lp_bound lp = None) by (eapply Hu; [left; reflexivity|exact El]).
      rewrite Hb in H. cbn [bound_policy bind] in H.
      rewrite (Ha l lp st c El).
      pose proof (Hh l lp st c El) as Hs.
      destruct (sem_ir_shifted_none _ _ _ _ Hs Hb) as [Hsc _].
      destruct Hs as (Ecb & _). rewrite Hb in Ecb. rewrite Ecb, Hsc. cbn [Bool.eqb negb bound_policy bind].
      assert (Hu' : unbounded lm t) by (intros co0 l0 lp0 st0 c1 Hin; apply (Hu co0 l0 lp0 st0 c1); right; exact Hin).
      pose proof (IH _ a' ev Hu' H) as E. cbn [ia_bound ia_cc ia_cs] in E. rewrite Hsc in E. exact E.
  Qed.

  Definition item_of (pc : (LPoly * IRand) * (N * (IComm * option nat))) : IItem :=
    (fst (fst pc), snd (snd (snd pc)), fst (snd (snd pc)), snd (fst pc)).
  Definition irelated (lm : LM) (l : N * lc) (pc : (LPoly * IRand) * (N * (IComm * option nat))) : Prop :=
    lp_label (fst (fst pc)) = fst l /\ fst (snd pc) = fst l /\ sem_honest d (item_of pc) /\
    forall x, eval (lp_poly (fst (fst pc))) x + lc_const (snd l) = lc_value (i_poly_of lm x) (snd l).

  Lemma i_all_follow (lm : LM) cm : il_honest lm -> il_agree lm cm -> forall lcs ps info flat ev,
    (forall lab terms, In (lab, terms) lcs -> unbounded lm terms) ->
    ilc_prover_all lm lcs = Ok (ps, info, flat) ->
    exists lcm, ilc_verifier_all cm lcs ev = Ok (info, flat, ev_sub3_all lcs ev) /\
                construct_lcomms info flat = Ok lcm /\
                length ps = length lcs /\ length lcm = length lcs /\
                Forall2 (irelated lm) lcs (combine ps lcm).
  Proof.
    intros Hh Ha. induction lcs as [|[lab terms] t IH]; intros ps info flat ev Hu H; cbn [ilc_prover_all] in H.
    - injection H as <- <- <-. exists []. cbn [ilc_verifier_all ev_sub3_all construct_lcomms combine length]. repeat split; constructor.
    - set (a0 := {| ia_poly := []; ia_bound := None; ia_hiding := None; ia_rand := 0; ia_srand := None; ia_cc := []; ia_cs := None |}) in *.
      destruct (ilc_prover_loop lm (length terms) terms a0) as [a| |] eqn:El; cbn [bind] in H; try discriminate.
      destruct (ilc_prover_all lm t) as [[[ps1 info1] flat1]| |] eqn:Er; cbn [bind] in H; try discriminate.
      injection H as <- <- <-.
      assert (Hu0 : unbounded lm terms) by (apply (Hu lab); left; reflexivity).
      destruct (IH ps1 info1 flat1 (ev_sub3 lab terms ev) (fun l0 t0 Hin => Hu l0 t0 (or_intror Hin)) eq_refl) as (lcm1 & Ev & Ec & L1 & L2 & HF).
      destruct (ilc_prover_one_unbounded d lm lab terms a (il_honest_i lm Hh) Hu0 El) as (Hih & Hb & _ & Hval).
      destruct Hih as [Hco Hsh]. cbn [fst lp_poly lp_bound ir_rand ir_shifted ic_comm ic_shifted] in Hco, Hsh.
      destruct (Hsh Hb) as [Hcs Hsr].
      assert (Hz0 : hz (d + 1) (ia_poly a0)) by (apply hz_length; cbn; lia).
      destruct (i_prover_loop_extra lm (length terms) Hh terms a0 a Hu0 Hz0 (fun _ => eq_refl) El) as [Hz Hr].
      pose proof (i_verifier_follows lm cm lab (length terms) Hh Ha terms a0 a ev Hu0 El) as Ev0. cbn [a0 ia_bound ia_cc ia_cs] in Ev0.
      exists ((lab, ({| ic_comm := ia_cc a; ic_shifted := None |}, None)) :: lcm1).
      cbn [ilc_verifier_all]. rewrite Ev0. cbn [bind]. rewrite Ev. cbn [bind ev_sub3_all fst snd].
      split; [reflexivity|].
      split; [rewrite Hb, Hcs; cbn [flat_of app construct_lcomms]; rewrite Ec; reflexivity|].
      cbn [length combine]. split; [lia|]. split; [lia|].
      constructor; [|exact HF].
      unfold irelated, item_of. cbn [fst snd lp_label lp_poly]. split; [reflexivity|]. split; [reflexivity|]. split; [|exact Hval].
      unfold sem_honest. cbn [lp_bound lp_poly lp_hiding ic_comm ic_shifted ir_rand ir_shifted].
      split; [symmetry; exact Hb|]. split.
      { rewrite Hb. unfold i_check_dab. pose proof (hz_trim_length _ _ Hz) as Lt. unfold degree.
        destruct (Nat.ltb_spec d (pred (length (trim (ia_poly a))))); [lia|reflexivity]. }
      split; [exact Hco|]. rewrite Hb. split; [reflexivity|]. split.
      { intros Hn. split; [exact (Hr Hn)|exact Hsr]. }
      intros _. rewrite Hsr. reflexivity.
  Qed.

  Theorem ipa_lc_complete lcs items cs qs ev chal hchal rng vtape pfs rest hrest rng' :
    il_honest (of_list N.compare (map (fun it => (lp_label (fst (fst it)), it)) items)) ->
    il_agree (of_list N.compare (map (fun it => (lp_label (fst (fst it)), it)) items)) (of_list N.compare cs) ->
    NoDup (map fst lcs) ->
    (forall lab terms, In (lab, terms) lcs -> unbounded (of_list N.compare (map (fun it => (lp_label (fst (fst it)), it)) items)) terms) ->
    Forall (fun rc => rc <> 0) hchal ->
    (forall pl pt labels lab terms, In (pl, (pt, labels)) (groups qs) -> In lab labels -> In (lab, terms) lcs ->
        lookup_eval lab pt ev
        = Some (lc_value (i_poly_of (of_list N.compare (map (fun it => (lp_label (fst (fst it)), it)) items)) (hd 0 pt)) terms)) ->
    (length (groups qs) <= length vtape)%nat ->
    i_open_combinations d lcs items qs (chal, hchal, rng) = Ok (pfs, (rest, hrest, rng')) ->
    i_check_combinations d lcs cs qs ev pfs chal hchal vtape = Ok (true, rest, hrest, length (groups qs)).
  Proof.
    intros Hh Ha Hnd Hu Hnz Hcl Lt H. unfold i_open_combinations in H. cbv zeta in H.
    set (lm := of_list N.compare (map (fun it => (lp_label (fst (fst it)), it)) items)) in *.
    destruct (ilc_prover_all lm lcs) as [[[ps info] flat]| |] eqn:Ep; cbn [bind] in H; try discriminate.
    unfold i_check_combinations.
    destruct (i_all_follow lm (of_list N.compare cs) Hh Ha lcs ps info flat ev Hu Ep) as (lcm & Ev & Ec & L1 & L2 & HF).
    rewrite Ev. cbn [bind]. rewrite Ec in H |- *. cbn [bind] in H |- *.
    set (bitems := map (fun pc : LPoly * IRand * (N * (IComm * option nat)) =>
                          (lp_label (fst (fst pc)), (fst (fst pc), snd (snd (snd pc)), fst (snd (snd pc)), snd (fst pc)))) (combine ps lcm)) in *.
    assert (Hrel : forall pc, In pc (combine ps lcm) -> exists l, In l lcs /\ irelated lm l pc).
    { clear - HF. induction HF as [|l pc lcs0 pcs R _ IH]; intros pc0 Hin; [destruct Hin|].
      destruct Hin as [<-|Hin]; [exists l; split; [left; reflexivity|exact R]|].
      destruct (IH pc0 Hin) as (l0 & H1 & H2). exists l0. split; [right; exact H1|exact H2]. }
    assert (Kc : map fst lcm = map fst lcs).
    { clear - HF L1 L2. revert ps lcm L1 L2 HF. induction lcs as [|l t IH]; intros [|p ps] [|c lcm] L1 L2 HF; cbn in L1, L2; try lia; [reflexivity|].
      cbn [combine] in HF.
      assert (HP : irelated lm l (p, c) /\ Forall2 (irelated lm) t (combine ps lcm)) by (inversion HF; split; assumption).
      destruct HP as [(_ & R2 & _) HF']. cbn [fst snd] in R2.
      cbn [map]. rewrite R2, (IH ps lcm ltac:(lia) ltac:(lia) HF'). reflexivity. }
    assert (Hbi : forall l it, lookup_lab l (label_map bitems) = Some it ->
              exists pc, In pc (combine ps lcm) /\ l = lp_label (fst (fst pc)) /\ it = item_of pc).
    { intros l it Hl. apply lookup_lab_some_in in Hl. unfold label_map in Hl. apply in_rev in Hl.
      unfold bitems in Hl. apply in_map_iff in Hl. destruct Hl as (pc & E & Hin). injection E as <- <-.
      exists pc. repeat split. exact Hin. }
    apply (ipa_batch_complete_e2e d Hd bitems lcm qs (ev_sub3_all lcs ev) chal hchal rng vtape pfs rest hrest rng'); [| exact Hnz | | exact Lt | exact H].
    - intros l it Hl. destruct (Hbi l it Hl) as (pc & Hin & -> & ->).
      destruct (Hrel _ Hin) as (l0 & Hl0 & (R1 & R2 & R3 & _)).
      destruct pc as [[lp0 st0] [lab0 [cm0 b0]]]. cbn [fst snd] in R1, R2.
      exists (cm0, b0). split; [|split; [exact R3|reflexivity]].
      apply lookup_lab_in_nodup; [apply NoDup_map_rev; rewrite Kc; exact Hnd|].
      unfold label_map. apply in_rev. rewrite rev_involutive. cbn [fst snd]. rewrite R1, <- R2.
      eapply in_combine_r. exact Hin.
    - intros pl pt labels Hg l it Hl Hit. destruct (Hbi l it Hit) as (pc & Hin & -> & ->).
      destruct (Hrel _ Hin) as (l0 & Hl0 & (R1 & _ & _ & R4)).
      assert (El0 : l0 = (lp_label (fst (fst pc)), snd l0)) by (destruct l0 as [a0 b0]; cbn [fst snd] in *; congruence).
      rewrite El0 in Hl0.
      rewrite (ev_sub3_all_lookup lcs ev _ (snd l0) pt Hnd Hl0), (Hcl pl pt labels _ (snd l0) Hg Hl Hl0). cbn [option_map]. f_equal.
      unfold ivalue, item_of. cbn [fst snd].
      match goal with |- ?a - ?b0 = ?c0 => assert (E : a = c0 + b0) by (symmetry; exact (R4 (hd 0 pt))); rewrite E; ring end.
  Qed.
End IPALCComplete.
