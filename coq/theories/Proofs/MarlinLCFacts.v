(* C06: linear-combination openings.  Homomorphic path (Marlin): the combined commitment,
   polynomial and randomness are an honest commitment triple of exactly the stated
   combination; the degree-bound policy; constant terms.  Trait-default path: the claimed
   combination values are recomputed from the transmitted evaluations. *)
From Coq Require Import List Arith NArith Bool Lia Field Ring.
From PC Require Import Base.Field Base.Result Base.Poly Base.OrdMap Proofs.PolyFacts
     Schemes.KZG10 Schemes.LC Schemes.Marlin Schemes.MarlinLC Proofs.KZG10Facts Proofs.LCFacts Proofs.MarlinComplete.
Import ListNotations.
Open Scope F_scope.

Section MarlinLCFacts.
  Context {FO : FieldOps} {FL : FieldLaws FO}.
  Add Field Ffield10 : FL_field.

  (* ---------------- degree-bound policy ---------------- *)
  Theorem policy_bounded_in_mix num coeff d cur :
    num <> 1%nat -> bound_policy num coeff (Some d) cur = Err EEquationHasDegreeBounds.
  Proof. intros H. unfold bound_policy. destruct (Nat.eqb_spec num 1); [contradiction|reflexivity]. Qed.

  Theorem policy_bounded_alone_coeff_one d cur : bound_policy 1 1 (Some d) cur = Ok (Some d).
  Proof. unfold bound_policy. cbn [Nat.eqb]. rewrite feqb_refl. reflexivity. Qed.

  Theorem policy_bounded_alone_other_coeff coeff d cur : coeff <> 1 -> bound_policy 1 coeff (Some d) cur = Panic.
  Proof. intros H. unfold bound_policy. cbn [Nat.eqb]. apply feqb_false in H. rewrite H. reflexivity. Qed.

  Theorem prover_refuses_bounded_mix lm num coeff l t a lp st c d :
    lookup N.compare l lm = Some (lp, st, c) -> lp_bound lp = Some d -> num <> 1%nat ->
    lc_prover_loop lm num ((coeff, TPoly l) :: t) a = Err EEquationHasDegreeBounds.
  Proof. intros Hl Hb Hn. cbn [lc_prover_loop]. rewrite Hl, Hb, policy_bounded_in_mix by exact Hn. reflexivity. Qed.

  Theorem verifier_refuses_bounded_mix cm lab num coeff l t ev b ccs c d :
    lookup N.compare l cm = Some c -> lc_bound c = Some d -> num <> 1%nat ->
    lc_verifier_loop cm lab num ((coeff, TPoly l) :: t) ev b ccs = Err EEquationHasDegreeBounds.
  Proof. intros Hl Hb Hn. cbn [lc_verifier_loop]. rewrite Hl, Hb, policy_bounded_in_mix by exact Hn. reflexivity. Qed.

  (* ---------------- constant terms ---------------- *)
  Theorem constant_term_moves_to_claim cm lab num coeff t ev b ccs :
    lc_verifier_loop cm lab num ((coeff, TOne) :: t) ev b ccs =
    lc_verifier_loop cm lab num t
      (map (fun kv => if N.eqb (fst (fst kv)) lab then (fst kv, snd kv - coeff) else kv) ev) b ccs.
  Proof. reflexivity. Qed.

  (* ---------------- homomorphism ---------------- *)
  Lemma combine_commitments_app l1 l2 cc cs :
    combine_commitments (l1 ++ l2) cc cs =
    let '(cc1, cs1) := combine_commitments l1 cc cs in combine_commitments l2 cc1 cs1.
  Proof.
    revert cc cs; induction l1 as [|[co c] l1 IH]; intros cc cs; cbn [app combine_commitments]; [reflexivity|].
    apply IH.
  Qed.

  Section WithKey.
    Variables (ck : CKey) (g gam b : F) (D m : nat).
    Notation honest := (honest ck g gam b D m).

    (* value of the polynomial part of a combination *)
    Fixpoint lc_poly_value (ev : N -> F) (terms : lc) : F :=
      match terms with
      | [] => 0
      | (_, TOne) :: t => lc_poly_value ev t
      | (c, TPoly l) :: t => c * ev l + lc_poly_value ev t
      end.
    Fixpoint lc_const (terms : lc) : F :=
      match terms with [] => 0 | (c, TOne) :: t => c + lc_const t | (_, TPoly _) :: t => lc_const t end.

    Lemma lc_value_split ev terms : lc_value ev terms = lc_poly_value ev terms + lc_const terms.
    Proof.
      induction terms as [|[c [|l]] t IH]; cbn [lc_value lc_poly_value lc_const term_value]; [ring| |]; rewrite IH; ring.
    Qed.

    Definition poly_of (lm : list (N * (LPoly * MRand * LComm))) (x : F) (l : N) : F :=
      match lookup N.compare l lm with Some (lp, _, _) => eval (lp_poly lp) x | None => 0 end.

    Definition lm_honest (lm : list (N * (LPoly * MRand * LComm))) : Prop :=
      forall l lp st c, lookup N.compare l lm = Some (lp, st, c) -> honest (lp, st) c.

    (* accumulator invariant of the prover loop, unbounded-case (no degree bound met so far) *)
    Definition PInv (lm : list (N * (LPoly * MRand * LComm))) (done : lc) (a : plc_acc) : Prop :=
      (forall x, eval (pa_poly a) x = lc_poly_value (poly_of lm x) done) /\
      (length (mr_rand (pa_rand a)) <= m)%nat /\
      pa_bound a = None /\ mr_shifted (pa_rand a) = None /\
      combine_commitments (pa_cc a) 0 None =
        (g * eval (pa_poly a) b + gam * eval (mr_rand (pa_rand a)) b, None).

    Lemma lc_poly_value_app ev t1 t2 : lc_poly_value ev (t1 ++ t2) = lc_poly_value ev t1 + lc_poly_value ev t2.
    Proof. induction t1 as [|[c [|l]] t1 IH]; cbn [app lc_poly_value]; [ring|exact IH|rewrite IH; ring]. Qed.

    (* combinations of polynomials without degree bounds *)
    Lemma prover_loop_unbounded lm num : forall terms done a a',
        lm_honest lm ->
        (forall co l lp st c, In (co, TPoly l) terms -> lookup N.compare l lm = Some (lp, st, c) -> lp_bound lp = None) ->
        PInv lm done a ->
        lc_prover_loop lm num terms a = Ok a' -> PInv lm (done ++ terms) a'.
    Proof.
      induction terms as [|[co [|l]] t IH]; intros done a a' Hlm Hnb HI H; cbn [lc_prover_loop] in H.
      - inversion H; subst. rewrite app_nil_r. exact HI.
      - replace (done ++ (co, TOne) :: t) with ((done ++ [(co, TOne)]) ++ t) by (rewrite <- app_assoc; reflexivity).
        apply (IH (done ++ [(co, TOne)]) a a' Hlm); [intros; eapply Hnb; [right; eassumption|eassumption]| |exact H].
        destruct HI as (I1 & I2 & I3 & I4 & I5). repeat split; auto.
        intros x. rewrite lc_poly_value_app, I1. cbn [lc_poly_value]. ring.
      - destruct (lookup N.compare l lm) as [[[lp st] c]|] eqn:El; [|discriminate].
        assert (Hb : lp_bound lp = None) by (eapply Hnb; [left; reflexivity|exact El]).
        rewrite Hb in H. cbn [bound_policy bind] in H.
        replace (done ++ (co, TPoly l) :: t) with ((done ++ [(co, TPoly l)]) ++ t) by (rewrite <- app_assoc; reflexivity).
        eapply (IH (done ++ [(co, TPoly l)]) _ a' Hlm); cycle 2; [exact H|intros; eapply Hnb; [right; eassumption|eassumption]|].
        destruct HI as (I1 & I2 & I3 & I4 & I5).
        pose proof (Hlm _ _ _ _ El) as Hh. destruct Hh as (Hbc & Hlr & Hc & Hs). rewrite Hb in Hs. destruct Hs as (Hsn & Hrn).
        unfold PInv. cbn [pa_poly pa_bound pa_rand pa_cc mrand_add_scaled mr_rand mr_shifted].
        rewrite I4, Hrn. cbn [option_map]. repeat split; auto.
        + intros x. rewrite eval_padd_scaled, lc_poly_value_app, I1. cbn [lc_poly_value]. unfold poly_of at 3. rewrite El. ring.
        + rewrite length_padd_scaled. lia.
        + rewrite combine_commitments_app, I5. cbn [combine_commitments]. rewrite Hsn, Hc, !eval_padd_scaled.
          f_equal. ring.
    Qed.

    (* Theorem: the homomorphic combination of honest commitments to polynomials without degree
       bounds is an honest commitment triple for exactly the stated combination *)
    Theorem lc_prover_one_unbounded lm (l : lcomb) lp st c :
      lm_honest lm ->
      (forall co lab lp' st' c', In (co, TPoly lab) (snd l) -> lookup N.compare lab lm = Some (lp', st', c') -> lp_bound lp' = None) ->
      lc_prover_one lm l = Ok (lp, st, c) ->
      honest (lp, st) c /\ lp_label lp = fst l /\ lc_label c = fst l /\
      forall x, eval (lp_poly lp) x + lc_const (snd l) = lc_value (poly_of lm x) (snd l).
    Proof.
      intros Hlm Hnb H. unfold lc_prover_one in H.
      set (a0 := {| pa_poly := []; pa_bound := None; pa_hiding := None; pa_rand := {| mr_rand := []; mr_shifted := None |}; pa_cc := [] |}) in *.
      destruct (lc_prover_loop lm (length (snd l)) (snd l) a0) as [a| |] eqn:EL; try rewrite EL in H; cbn [bind] in H; try discriminate.
      assert (HI : PInv lm [] a0).
      { unfold PInv. cbn. repeat split; auto; try lia. f_equal. ring. }
      pose proof (prover_loop_unbounded lm (length (snd l)) (snd l) [] a0 a Hlm Hnb HI EL) as (I1 & I2 & I3 & I4 & I5). cbn [app] in I1.
      rewrite I5 in H. inversion H; subst lp st c; clear H.
      unfold MarlinComplete.honest. cbn [lc_bound lp_bound lc_comm mc_comm mc_shifted lp_poly lp_label lc_label].
      rewrite I3. repeat split; auto.
      intros x. rewrite lc_value_split, I1. reflexivity.
    Qed.

    (* a single degree-bounded polynomial with coefficient one keeps its bound and its shifted part *)
    Theorem lc_prover_one_bounded_single lm lab l lp0 st0 c0 d lp st c :
      lm_honest lm -> lookup N.compare l lm = Some (lp0, st0, c0) -> lp_bound lp0 = Some d ->
      lc_prover_one lm (lab, [(1, TPoly l)]) = Ok (lp, st, c) ->
      honest (lp, st) c /\ lp_bound lp = Some d /\ forall x, eval (lp_poly lp) x = eval (lp_poly lp0) x.
    Proof.
      intros Hlm El Hb H. unfold lc_prover_one in H. cbn [snd length lc_prover_loop] in H. rewrite El, Hb in H.
      rewrite policy_bounded_alone_coeff_one in H. cbn [bind lc_prover_loop pa_cc app combine_commitments pa_poly pa_bound pa_rand] in H.
      pose proof (Hlm _ _ _ _ El) as (Hbc & Hlr & Hc & Hs). rewrite Hb in Hs.
      destruct Hs as (rs & Ers & Hlrs & Hmem & Hsc). rewrite Hsc in H.
      inversion H; subst lp st c; clear H.
      unfold MarlinComplete.honest. cbn [lc_bound lp_bound lc_comm mc_comm mc_shifted lp_poly mrand_add_scaled mr_rand mr_shifted].
      rewrite Ers. cbn [option_map]. repeat split; auto.
      - rewrite length_padd_scaled. cbn [length]. lia.
      - rewrite Hc, !eval_padd_scaled. cbn [eval]. ring.
      - exists (padd_scaled [] 1 rs). repeat split; auto.
        + rewrite length_padd_scaled. cbn [length]. lia.
        + f_equal. rewrite !eval_padd_scaled. cbn [eval]. ring.
      - intros x. rewrite eval_padd_scaled. cbn [eval]. ring.
    Qed.
  End WithKey.

  (* ---------------- trait-default path ---------------- *)
  Lemma lc_rhs_value pev point (ev : N -> F) : forall terms acc,
      (forall l, In l (poly_labels terms) -> lookup qkey_cmp (l, point) pev = Some (ev l)) ->
      fold_left (fun acc ct =>
                   do a <- acc;
                   match snd ct with
                   | TOne => Ok (a + fst ct * 1)
                   | TPoly l => match lookup qkey_cmp (l, point) pev with
                                | None => Err EMissingEvaluation
                                | Some e => Ok (a + fst ct * e)
                                end
                   end) terms (Ok acc) = Ok (acc + lc_value ev terms).
  Proof.
    induction terms as [|[c [|l]] t IH]; intros acc H; cbn [fold_left lc_value term_value snd fst bind].
    - f_equal. ring.
    - rewrite IH by (intros l Hl; apply H; exact Hl). f_equal. ring.
    - rewrite (H l) by (left; reflexivity). rewrite IH by (intros l' Hl; apply H; right; exact Hl). f_equal. ring.
  Qed.

  Theorem lc_rhs_is_lc_value pev point ev terms :
    (forall l, In l (poly_labels terms) -> lookup qkey_cmp (l, point) pev = Some (ev l)) ->
    lc_rhs pev point terms = Ok (lc_value ev terms).
  Proof. intros H. unfold lc_rhs. rewrite (lc_rhs_value pev point ev terms 0 H). f_equal. ring. Qed.

  (* a claimed combination value that differs from the combination of the transmitted
     evaluations is rejected, whatever the proof *)
  Theorem default_claim_mismatch_rejects lm pev eqn_ev lab pl point terms claimed actual t :
    lookup N.compare lab lm = Some terms ->
    lookup qkey_cmp (lab, point) eqn_ev = Some claimed ->
    lc_rhs pev point terms = Ok actual -> claimed <> actual ->
    default_lc_values lm pev eqn_ev ((lab, (pl, point)) :: t) = Some (Ok false).
  Proof.
    intros H1 H2 H3 Hne. cbn [default_lc_values]. rewrite H1, H2, H3.
    apply feqb_false in Hne. rewrite Hne. reflexivity.
  Qed.

  Theorem default_claim_match_continues lm pev eqn_ev lab pl point terms claimed t :
    lookup N.compare lab lm = Some terms ->
    lookup qkey_cmp (lab, point) eqn_ev = Some claimed ->
    lc_rhs pev point terms = Ok claimed ->
    default_lc_values lm pev eqn_ev ((lab, (pl, point)) :: t) = default_lc_values lm pev eqn_ev t.
  Proof. intros H1 H2 H3. cbn [default_lc_values]. rewrite H1, H2, H3, feqb_refl. reflexivity. Qed.

  (* ... and when every claim matches, the decision is exactly the inner batch verification of
     the transmitted evaluations *)
  Theorem default_decision_is_inner_batch_check bc lcs eqn_qs eqn_ev tv :
    default_lc_values (lcs_map lcs)
      (of_list qkey_cmp (combine (poly_point_keys (lc_query_set_to_poly_query_set lcs eqn_qs)) tv))
      (evals_map eqn_ev) (set_of_list query_cmp eqn_qs) = None ->
    default_check_combinations bc lcs eqn_qs eqn_ev (Some tv) =
    (do b <- bc (lc_query_set_to_poly_query_set lcs eqn_qs)
                (of_list qkey_cmp (combine (poly_point_keys (lc_query_set_to_poly_query_set lcs eqn_qs)) tv)); Ok b).
  Proof. intros H. unfold default_check_combinations. rewrite H. reflexivity. Qed.
End MarlinLCFacts.
