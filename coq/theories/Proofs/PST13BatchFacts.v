(* PST13 batch_check: the randomizer-weighted pairing product.  If the single-point relation holds for every group
   (combined commitment, point, combined value, proof) then the batch equation holds for ANY randomizers: the batch
   residual is the randomizer-weighted sum of the single residuals. *)
From Coq Require Import List Arith NArith Bool Lia Field Ring.
From PC Require Import Base.Field Base.Result Base.Poly Proofs.PolyFacts Schemes.PST13 Proofs.PST13Facts Schemes.LC Schemes.Marlin
     Schemes.IPA Proofs.LCFacts Proofs.IPAFacts Schemes.PST13H Proofs.PST13HFacts Schemes.DefaultBatch Schemes.PST13Batch.
Import ListNotations.
Open Scope F_scope.

Section PST13BatchFacts.
  Context {FO : FieldOps} {FL : FieldLaws FO}.
  Add Field Ffield30 : FL_field.

  Definition rv_of (pf : PProof) : F := match pp_rv pf with Some r => r | None => 0 end.
  (* residual of the single-point relation of one group, coordinate i *)
  Definition resid (betas : list F) (i : nat) (t : gv * point * F) (pf : PProof) : F :=
    co i (fst (fst t)) - co i (el (snd t) 0) - co i (el 0 (rv_of pf)) - rsum betas (snd (fst t)) i 0 (pp_w pf).

  Fixpoint zs (z : list F) (i k : nat) (ws : list gv) : F :=
    match ws with [] => 0 | w :: t => nth k z 0 * co i w + zs z i (S k) t end.
  Fixpoint bs (betas : list F) (i k : nat) (ws : list gv) : F :=
    match ws with [] => 0 | w :: t => nth k betas 0 * co i w + bs betas i (S k) t end.

  Lemma co_zw_sum z i : forall ws k, co i (zw_sum z k ws) = zs z i k ws.
  Proof. induction ws as [|w t IH]; intros k; cbn [zw_sum zs]; [apply co_nil|]. rewrite co_gvadd, co_gvscale, IH. ring. Qed.
  Lemma co_bw_sum betas i : forall ws k, co i (bw_sum betas k ws) = bs betas i k ws.
  Proof. induction ws as [|w t IH]; intros k; cbn [bw_sum bs]; [apply co_nil|]. rewrite co_gvadd, co_gvscale, IH. ring. Qed.
  Lemma rsum_bs_zs betas z i : forall ws k, rsum betas z i k ws = bs betas i k ws - zs z i k ws.
  Proof. induction ws as [|w t IH]; intros k; cbn [rsum bs zs]; [ring|]. rewrite IH. ring. Qed.

  (* the update of total_w *)
  Lemma bs_update betas i rnd (w : list gv) : forall (old : list gv) s,
    bs betas i s (map (fun iw => gvadd (snd iw) (gvscale rnd (nth (fst iw) w []))) (combine (seq s (length old)) old))
    = bs betas i s old + rnd * bs betas i s (map (fun k => nth k w []) (seq s (length old))).
  Proof.
    induction old as [|o old IH]; intros s; cbn [length seq combine map bs]; [ring|].
    rewrite IH. cbn [fst snd]. rewrite co_gvadd, co_gvscale. ring.
  Qed.
  Lemma map_nth_all {A} (d : A) : forall (w : list A) s, map (fun k => nth k w d) (seq s (length w - s)) = skipn s w.
  Proof.
    intros w s. remember (length w - s)%nat as n eqn:En. revert s En.
    induction n as [|n IH]; intros s En; cbn [seq map].
    - symmetry. apply skipn_all2. lia.
    - rewrite (skipn_nth_cons d w s) by lia. f_equal. apply IH. lia.
  Qed.

  Definition Inv (betas : list F) (a : pbacc) : Prop :=
    forall i, co i (pb_c a) - co i (el (pb_g a) 0) - co i (el 0 (pb_gam a)) - bs betas i 0 (pb_w a) = 0.

  Lemma co_el_add0 i x y : co i (el (x + y) 0) = co i (el x 0) + co i (el y 0).
  Proof. destruct i as [|[|i]]; rewrite ?co_el0, ?co_el1, ?co_el2; ring. Qed.
  Lemma co_el_add1 i x y : co i (el 0 (x + y)) = co i (el 0 x) + co i (el 0 y).
  Proof. destruct i as [|[|i]]; rewrite ?co_el0, ?co_el1, ?co_el2; ring. Qed.
  Lemma co_el_scale0 i r x : co i (el (r * x) 0) = r * co i (el x 0).
  Proof. destruct i as [|[|i]]; rewrite ?co_el0, ?co_el1, ?co_el2; ring. Qed.
  Lemma co_el_scale1 i r x : co i (el 0 (r * x)) = r * co i (el 0 x).
  Proof. destruct i as [|[|i]]; rewrite ?co_el0, ?co_el1, ?co_el2; ring. Qed.

  Lemma pst_bloop_inv nv betas : forall trip proofs vtape rnd a draws a' dr,
    length (pb_w a) = nv ->
    Forall2 (fun t pf => length (pp_w pf) = nv /\ forall i, resid betas i t pf = 0) trip proofs ->
    Inv betas a ->
    pst_bloop nv trip proofs vtape rnd a draws = Ok (a', dr) -> Inv betas a'.
  Proof.
    induction trip as [|[[c z] v] trip IH]; intros proofs vtape rnd a draws a' dr La Hf Hi H.
    - cbn [pst_bloop] in H. injection H as <- _. exact Hi.
    - destruct proofs as [|pf proofs]; [inversion Hf|].
      assert (HP : (length (pp_w pf) = nv /\ forall i, resid betas i (c, z, v) pf = 0) /\
                   Forall2 (fun t pf0 => length (pp_w pf0) = nv /\ forall i, resid betas i t pf0 = 0) trip proofs)
        by (inversion Hf; split; assumption).
      destruct HP as [[Lw Hr] Hf'].
      cbn [pst_bloop] in H.
      destruct (length z <? length (pp_w pf))%nat; [discriminate|].
      destruct (length (pp_w pf) <? nv)%nat; [discriminate|].
      destruct vtape as [|x vt']; [discriminate|].
      eapply IH; [| exact Hf' | | exact H].
      + cbn [pb_w]. rewrite map_length, combine_length, seq_length. lia.
      + intros i. cbn [pb_c pb_w pb_g pb_gam].
        replace (seq 0 nv) with (seq 0 (length (pb_w a))) by (rewrite La; reflexivity).
        rewrite (bs_update betas i rnd (pp_w pf) (pb_w a) 0).
        assert (Em : map (fun k => nth k (pp_w pf) []) (seq 0 (length (pb_w a))) = pp_w pf).
        { rewrite La, <- Lw. pose proof (map_nth_all (@nil F) (pp_w pf) 0) as M. rewrite Nat.sub_0_r in M. exact M. }
        rewrite Em.
        rewrite co_gvadd, co_gvscale, co_gvadd, co_zw_sum.
        assert (Eg : co i (el (match pp_rv pf with Some rv => pb_gam a + rnd * rv | None => pb_gam a end) 0)
                     = co i (el (pb_gam a + rnd * rv_of pf) 0)).
        { unfold rv_of. destruct (pp_rv pf); [reflexivity|]. f_equal. f_equal. ring. }
        assert (Eg1 : co i (el 0 (match pp_rv pf with Some rv => pb_gam a + rnd * rv | None => pb_gam a end))
                     = co i (el 0 (pb_gam a + rnd * rv_of pf))).
        { unfold rv_of. destruct (pp_rv pf); [reflexivity|]. f_equal. f_equal. ring. }
        rewrite Eg1, co_el_add0, co_el_add1, co_el_scale0, co_el_scale1.
        pose proof (Hr i) as R. unfold resid in R. cbn [fst snd] in R. rewrite rsum_bs_zs in R.
        pose proof (Hi i) as I0.
        transitivity ((co i (pb_c a) - co i (el (pb_g a) 0) - co i (el 0 (pb_gam a)) - bs betas i 0 (pb_w a))
                      + rnd * (co i c - co i (el v 0) - co i (el 0 (rv_of pf)) - (bs betas i 0 (pp_w pf) - zs z i 0 (pp_w pf)))); [ring|].
        rewrite I0, R. ring.
  Qed.

  (* all single relations hold: the batch is accepted, whatever randomizers the verifier draws *)
  Theorem pst_batch_complete nv betas trip proofs vtape a' dr :
    Forall2 (fun t pf => length (pp_w pf) = nv /\ forall i, resid betas i t pf = 0) trip proofs ->
    pst_bloop nv trip proofs vtape 1 {| pb_c := []; pb_w := repeat [] nv; pb_g := 0; pb_gam := 0 |} O = Ok (a', dr) ->
    gvzero (gvsub (gvsub (gvsub (pb_c a') (el (pb_g a') 0)) (el 0 (pb_gam a'))) (bw_sum betas 0 (pb_w a'))) = true.
  Proof.
    intros Hf H.
    assert (I0 : Inv betas {| pb_c := []; pb_w := repeat [] nv; pb_g := 0; pb_gam := 0 |}).
    { intros i. cbn [pb_c pb_w pb_g pb_gam]. rewrite co_nil.
      assert (B : forall n k, bs betas i k (repeat [] n) = 0).
      { induction n as [|n IHn]; intros k; cbn [repeat bs]; [reflexivity|]. rewrite IHn, co_nil. ring. }
      rewrite B. destruct i as [|[|i]]; rewrite ?co_el0, ?co_el1, ?co_el2; ring. }
    pose proof (pst_bloop_inv nv betas trip proofs vtape 1 {| pb_c := []; pb_w := repeat [] nv; pb_g := 0; pb_gam := 0 |} O a' dr
                  (repeat_length _ _) Hf I0 H) as I'.
    apply gvzero_co. intros i. rewrite !co_gvsub, co_bw_sum. exact (I' i).
  Qed.
End PST13BatchFacts.
