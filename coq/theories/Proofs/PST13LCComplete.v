(* Marlin-PST13 open_combinations -> check_combinations: complete end to end (free-module view), for combinations under
   distinct labels: the verifier's loop follows the prover's, the constants it moves out of the claims leave the evaluations of
   the combined polynomials, the combined polynomials are well formed, and the batch completeness theorem concludes. *)
From Coq Require Import List Arith NArith Bool Lia Field Ring.
From PC Require Import Base.Field Base.Result Base.Poly Base.OrdMap Proofs.PolyFacts Proofs.OrdMapFacts Schemes.PST13 Proofs.PST13Facts
     Schemes.LC Schemes.Marlin Schemes.IPA Proofs.LCFacts Proofs.IPAFacts Schemes.PST13H Proofs.PST13HFacts Schemes.DefaultBatch
     Schemes.PST13Batch Proofs.PST13BatchFacts Proofs.DefaultBatchFacts Proofs.DefaultBatchComplete Proofs.MarlinLCFacts
     Proofs.PST13LCFacts Proofs.PST13BatchComplete.
Import ListNotations.
Open Scope F_scope.

(* lookups in the trait's label maps (collect(): later entries win; here labels are distinct) *)
Lemma lookup_lab_some_in {A} : forall (m : list (N * A)) k v, lookup_lab k m = Some v -> In (k, v) m.
Proof.
  induction m as [|[k0 v0] t IH]; intros k v H; cbn [lookup_lab] in H; [discriminate|].
  destruct (N.eqb_spec k0 k) as [->|Hne]; [injection H as <-; left; reflexivity|right; exact (IH _ _ H)].
Qed.
Lemma lookup_lab_in_nodup {A} : forall (m : list (N * A)) k v, NoDup (map fst m) -> In (k, v) m -> lookup_lab k m = Some v.
Proof.
  induction m as [|[k0 v0] t IH]; intros k v Hd Hin; [destruct Hin|].
  cbn [map fst] in Hd. inversion Hd as [|? ? Hn Hd']; subst. cbn [lookup_lab].
  destruct Hin as [E|Hin].
  - injection E as -> ->. rewrite N.eqb_refl. reflexivity.
  - destruct (N.eqb_spec k0 k) as [->|Hne]; [exfalso; apply Hn; apply in_map_iff; exists (k, v); split; [reflexivity|exact Hin]|].
    exact (IH _ _ Hd' Hin).
Qed.
Lemma NoDup_map_rev {A B} (f : A -> B) (l : list A) : NoDup (map f l) -> NoDup (map f (rev l)).
Proof. intros H. rewrite map_rev. apply NoDup_rev. exact H. Qed.
Lemma in_combine_exists_l {A B} : forall (l1 : list A) (l2 : list B) a, length l1 = length l2 -> In a l1 -> exists b, In (a, b) (combine l1 l2).
Proof.
  induction l1 as [|x l1 IH]; intros [|y l2] a L Hin; cbn in L; try lia; [destruct Hin|].
  destruct Hin as [<-|Hin]; [exists y; left; reflexivity|]. destruct (IH l2 a ltac:(lia) Hin) as (b & Hb). exists b. right. exact Hb.
Qed.

Section PST13LCComplete.
  Context {FO : FieldOps} {FL : FieldLaws FO}.
  Add Field Ffield51 : FL_field.
  Variables (nv s : nat) (betas : list F).

  Definition pl_honest (lm : list (N * (mpoly * option mpoly * gv))) : Prop :=
    forall l q blind cm, lookup N.compare l lm = Some (q, blind, cm) ->
      good nv (q, blind) /\ forall i, co i cm = co i (comm_of betas (q, blind)).
  Definition pl_agree (lm : list (N * (mpoly * option mpoly * gv))) (cmv : list (N * gv)) : Prop :=
    forall l q blind cm, lookup N.compare l lm = Some (q, blind, cm) -> lookup N.compare l cmv = Some cm.

  (* ---- the claims after the verifier moved the constants out ---- *)
  Fixpoint ev_sub3 (lab : N) (terms : lc) (ev : list (N * point * F)) : list (N * point * F) :=
    match terms with
    | [] => ev
    | (c, TOne) :: t => ev_sub3 lab t (map (fun kv => if N.eqb (fst (fst kv)) lab then (fst kv, snd kv - c) else kv) ev)
    | (_, TPoly _) :: t => ev_sub3 lab t ev
    end.
  Lemma lookup_eval_map lab c l pt : forall ev : list (N * point * F),
    lookup_eval l pt (map (fun kv => if N.eqb (fst (fst kv)) lab then (fst kv, snd kv - c) else kv) ev)
    = option_map (fun v => if N.eqb l lab then v - c else v) (lookup_eval l pt ev).
  Proof.
    induction ev as [|[[k p0] v] t IH]; cbn [map lookup_eval option_map fst snd]; [reflexivity|].
    destruct (N.eqb k lab) eqn:Ek; cbn [lookup_eval fst snd].
    - destruct (N.eqb k l && pt_eqb p0 pt) eqn:Em; [|exact IH].
      apply andb_true_iff in Em. destruct Em as [E1 _]. apply N.eqb_eq in E1. subst k. rewrite Ek. reflexivity.
    - destruct (N.eqb k l && pt_eqb p0 pt) eqn:Em; [|exact IH].
      apply andb_true_iff in Em. destruct Em as [E1 _]. apply N.eqb_eq in E1. subst k. rewrite Ek. reflexivity.
  Qed.
  Lemma ev_sub3_lookup lab : forall terms ev l pt,
    lookup_eval l pt (ev_sub3 lab terms ev) = option_map (fun v => if N.eqb l lab then v - lc_const terms else v) (lookup_eval l pt ev).
  Proof.
    induction terms as [|[c0 [|l0]] t IH]; intros ev l pt; cbn [ev_sub3 lc_const].
    - destruct (lookup_eval l pt ev) as [v|]; cbn [option_map]; [|reflexivity]. destruct (N.eqb l lab); f_equal; ring.
    - rewrite IH, lookup_eval_map. destruct (lookup_eval l pt ev) as [v|]; cbn [option_map]; [|reflexivity]. destruct (N.eqb l lab); f_equal; ring.
    - apply IH.
  Qed.
  Fixpoint ev_sub3_all (lcs : list (N * lc)) (ev : list (N * point * F)) : list (N * point * F) :=
    match lcs with [] => ev | l :: t => ev_sub3_all t (ev_sub3 (fst l) (snd l) ev) end.
  Lemma ev_sub3_all_other : forall lcs ev lab pt, ~ In lab (map fst lcs) ->
    lookup_eval lab pt (ev_sub3_all lcs ev) = lookup_eval lab pt ev.
  Proof.
    induction lcs as [|[l0 terms0] t IH]; intros ev lab pt Hn; cbn [ev_sub3_all fst snd]; [reflexivity|].
    rewrite IH by (intros H; apply Hn; right; exact H). rewrite ev_sub3_lookup.
    destruct (N.eqb_spec lab l0) as [->|Hne]; [exfalso; apply Hn; left; reflexivity|].
    destruct (lookup_eval lab pt ev); reflexivity.
  Qed.
  Lemma ev_sub3_all_lookup : forall lcs ev lab terms pt, NoDup (map fst lcs) -> In (lab, terms) lcs ->
    lookup_eval lab pt (ev_sub3_all lcs ev) = option_map (fun v => v - lc_const terms) (lookup_eval lab pt ev).
  Proof.
    induction lcs as [|[l0 terms0] t IH]; intros ev lab terms pt Hd Hin; [destruct Hin|].
    cbn [map fst] in Hd. inversion Hd as [|? ? Hn Hd']; subst. cbn [ev_sub3_all fst snd].
    destruct Hin as [E|Hin].
    - injection E as -> ->. rewrite ev_sub3_all_other by exact Hn. rewrite ev_sub3_lookup, N.eqb_refl. reflexivity.
    - rewrite (IH _ lab terms pt Hd' Hin), ev_sub3_lookup.
      assert (Hne : N.eqb lab l0 = false).
      { apply N.eqb_neq. intros ->. apply Hn. apply in_map_iff. exists (l0, terms). split; [reflexivity|exact Hin]. }
      rewrite Hne. destruct (lookup_eval lab pt ev); reflexivity.
  Qed.

  (* ---- the verifier's loop follows the prover's ---- *)
  Lemma p_verifier_follows_prover lm cmv lab : pl_agree lm cmv -> forall terms p r c p' r' c' ev,
    plc_prover_loop lm terms p r c = Ok (p', r', c') ->
    plc_verifier_loop cmv lab terms ev c = Ok (ev_sub3 lab terms ev, c').
  Proof.
    intros Ha. induction terms as [|[c0 [|l]] t IH]; intros p r c p' r' c' ev H; cbn [plc_prover_loop] in H; cbn [plc_verifier_loop ev_sub3].
    - injection H as _ _ <-. reflexivity.
    - exact (IH _ _ _ _ _ _ _ H).
    - destruct (lookup N.compare l lm) as [[[q blind] cm]|] eqn:El; [|discriminate].
      rewrite (Ha l q blind cm El). exact (IH _ _ _ _ _ _ _ H).
  Qed.

  (* the combined polynomials are well formed *)
  Lemma plc_prover_loop_good lm : pl_honest lm -> forall terms p r c p' r' c',
    wf_poly p -> poly_vars_in (seq 0 nv) p -> wf_poly r -> poly_vars_in (seq 0 nv) r ->
    plc_prover_loop lm terms p r c = Ok (p', r', c') ->
    wf_poly p' /\ poly_vars_in (seq 0 nv) p' /\ wf_poly r' /\ poly_vars_in (seq 0 nv) r'.
  Proof.
    intros Hh. induction terms as [|[c0 [|l]] t IH]; intros p r c p' r' c' Wp Vp Wr Vr H; cbn [plc_prover_loop] in H.
    - injection H as <- <- _. repeat split; assumption.
    - exact (IH _ _ _ _ _ _ Wp Vp Wr Vr H).
    - destruct (lookup N.compare l lm) as [[[q blind] cm]|] eqn:El; [|discriminate].
      destruct (Hh l q blind cm El) as [(G1 & G2 & G3) _]. cbn [fst snd] in G1, G2, G3.
      apply (IH _ _ _ _ _ _) in H; [exact H|apply madd_scaled_wf; assumption|apply madd_scaled_vars; assumption| |].
      + destruct blind as [b|]; [apply madd_scaled_wf; [exact Wr|exact (proj1 G3)]|exact Wr].
      + destruct blind as [b|]; [apply madd_scaled_vars; [exact Vr|exact (proj2 G3)]|exact Vr].
  Qed.

  Definition p_lm_of_honest lm : pl_honest lm -> p_lm_honest betas lm.
  Proof. intros H l q blind cm El. exact (proj2 (H l q blind cm El)). Qed.

  (* all combinations: items, verifier's commitments, and what relates them *)
  Definition related (lm : list (N * (mpoly * option mpoly * gv))) (l : N * lc) (ic : (N * PItem) * (N * gv)) : Prop :=
    fst (fst ic) = fst l /\ fst (snd ic) = fst l /\ pR nv betas (snd (fst ic)) (snd (snd ic)) /\
    forall x, eval_mpoly x (fst (snd (fst ic))) + lc_const (snd l) = lc_value (p_poly_of lm x) (snd l).

  Lemma p_all_follow lm cmv : pl_honest lm -> pl_agree lm cmv -> forall lcs its ev,
    plc_prover_all lm lcs = Ok its ->
    exists cs', plc_verifier_all cmv lcs ev = Ok (cs', ev_sub3_all lcs ev) /\
                length its = length lcs /\ length cs' = length lcs /\
                Forall2 (related lm) lcs (combine its cs').
  Proof.
    intros Hh Ha. induction lcs as [|[lab terms] t IH]; intros its ev H; cbn [plc_prover_all] in H.
    - injection H as <-. exists []. cbn [plc_verifier_all ev_sub3_all combine length]. repeat split; constructor.
    - destruct (plc_prover_loop lm terms [] [] []) as [[[p r] c]| |] eqn:El; cbn [bind] in H; try discriminate.
      destruct (plc_prover_all lm t) as [rest| |] eqn:Er; cbn [bind] in H; try discriminate. injection H as <-.
      destruct (IH rest (ev_sub3 lab terms ev) eq_refl) as (cs1 & Ev & L1 & L2 & HF).
      exists ((lab, c) :: cs1). cbn [plc_verifier_all fst snd].
      rewrite (p_verifier_follows_prover lm cmv lab Ha terms [] [] [] p r c ev El). cbn [bind fst snd]. rewrite Ev. cbn [bind fst snd ev_sub3_all].
      split; [reflexivity|]. cbn [length combine]. split; [lia|]. split; [lia|].
      constructor; [|exact HF].
      assert (W0 : wf_poly (@nil (F * term))) by constructor.
      assert (V0 : poly_vars_in (seq 0 nv) (@nil (F * term))) by constructor.
      destruct (plc_prover_loop_good lm Hh terms [] [] [] p r c W0 V0 W0 V0 El) as (Wp & Vp & Wr & Vr).
      destruct (plc_combination_is_honest_commitment betas lm terms p r c (p_lm_of_honest lm Hh) El) as [Hc Hv].
      unfold related. cbn [fst snd]. repeat split; try assumption.
  Qed.

  Theorem pst13_lc_complete lcs items cs qs ev chal vtape pfs rest :
    pl_honest (of_list N.compare items) ->
    pl_agree (of_list N.compare items) (of_list N.compare cs) ->
    NoDup (map fst lcs) ->
    (forall pl pt labels, In (pl, (pt, labels)) (groups qs) -> (nv <= length pt)%nat) ->
    (forall pl pt labels lab terms, In (pl, (pt, labels)) (groups qs) -> In lab labels -> In (lab, terms) lcs ->
        lookup_eval lab pt ev = Some (lc_value (p_poly_of (of_list N.compare items) pt) terms)) ->
    (length (groups qs) <= length vtape)%nat ->
    pst_open_combinations nv s betas lcs items qs chal = Ok (pfs, rest) ->
    pst_check_combinations nv betas lcs cs qs ev pfs chal vtape = Ok (true, rest, length (groups qs)).
  Proof.
    intros Hh Ha Hd Hz Hcl Lt H. unfold pst_open_combinations in H.
    set (lm := of_list N.compare items) in *.
    destruct (plc_prover_all lm lcs) as [its| |] eqn:Ep; cbn [bind] in H; try discriminate.
    unfold pst_check_combinations.
    destruct (p_all_follow lm (of_list N.compare cs) Hh Ha lcs its ev Ep) as (cs' & Ev & L1 & L2 & HF).
    rewrite Ev. cbn [bind fst snd].
    (* facts about positions *)
    assert (Hrel : forall ic, In ic (combine its cs') -> exists l, In l lcs /\ related lm l ic).
    { clear - HF. induction HF as [|l ic lcs0 ics R _ IH]; intros ic0 Hin; [destruct Hin|].
      destruct Hin as [<-|Hin]; [exists l; split; [left; reflexivity|exact R]|].
      destruct (IH ic0 Hin) as (l0 & H1 & H2). exists l0. split; [right; exact H1|exact H2]. }
    assert (Kits : map fst its = map fst lcs /\ map fst cs' = map fst lcs).
    { clear - HF L1 L2. revert its cs' L1 L2 HF. induction lcs as [|l t IH]; intros [|i its] [|c cs'] L1 L2 HF; cbn in L1, L2; try lia; [split; reflexivity|].
      cbn [combine] in HF.
      assert (HP : related lm l (i, c) /\ Forall2 (related lm) t (combine its cs')) by (inversion HF; split; assumption).
      destruct HP as [(R1 & R2 & _) HF']. cbn [fst snd] in R1, R2.
      destruct (IH its cs' ltac:(lia) ltac:(lia) HF') as [E1 E2]. cbn [map]. rewrite R1, R2, E1, E2. split; reflexivity. }
    destruct Kits as [Ki Kc].
    apply (pst13_batch_complete nv s betas its cs' qs (ev_sub3_all lcs ev) chal vtape pfs rest); [| |exact Lt|exact H].
    - intros l it Hl. apply lookup_lab_some_in in Hl. unfold label_map in Hl. apply in_rev in Hl.
      destruct (in_combine_exists_l its cs' (l, it) ltac:(lia) Hl) as ([l' c] & Hin).
      destruct (Hrel _ Hin) as (l0 & Hl0 & (R1 & R2 & R3 & _)). cbn [fst snd] in R1, R2, R3.
      exists c. split; [|exact R3].
      apply lookup_lab_in_nodup; [apply NoDup_map_rev; rewrite Kc; exact Hd|].
      unfold label_map. apply in_rev. rewrite rev_involutive. rewrite R1, <- R2. eapply in_combine_r. exact Hin.
    - intros pl pt labels Hg. split; [exact (Hz pl pt labels Hg)|].
      intros l it Hl Hit. apply lookup_lab_some_in in Hit. unfold label_map in Hit. apply in_rev in Hit.
      destruct (in_combine_exists_l its cs' (l, it) ltac:(lia) Hit) as ([l' c] & Hin).
      destruct (Hrel _ Hin) as (l0 & Hl0 & (R1 & _ & _ & R4)). cbn [fst snd] in R1, R4.
      assert (El0 : l0 = (l, snd l0)) by (destruct l0 as [a0 b0]; cbn [fst snd] in *; congruence).
      rewrite El0 in Hl0.
      rewrite (ev_sub3_all_lookup lcs ev l (snd l0) pt Hd Hl0), (Hcl pl pt labels l (snd l0) Hg Hl Hl0). cbn [option_map]. f_equal.
      unfold pvalue.
      match goal with |- ?a - ?b0 = ?c0 => assert (E : a = c0 + b0) by (symmetry; exact (R4 pt)); rewrite E; ring end.
  Qed.
End PST13LCComplete.
