(* KZG10: the verification equation as a residual, how every component of the
   statement / proof / key moves it (C02, C03, C10), the batch verifier as a
   weighted sum of individual residuals (C05). *)
From Coq Require Import List Arith Bool Lia Field Ring.
From PC Require Import Base.Field Base.Result Base.Poly Proofs.PolyFacts Schemes.KZG10 Proofs.KZG10Facts.
Import ListNotations.
Open Scope F_scope.

Section KZG10Binding.
  Context {FO : FieldOps} {FL : FieldLaws FO}.
  Add Field Ffield5 : FL_field.

  Definition rv_of (pf : Proof) : F := match pf_random_v pf with Some rv => rv | None => 0 end.

  (* the published relation e(C - vG - rv gammaG, H) = e(W, betaH - zH) in logs *)
  Definition kzg_relation (vk : VKey) (c z v : F) (pf : Proof) : Prop :=
    (c - vk_g vk * v - vk_gamma_g vk * rv_of pf) * vk_h vk = pf_w pf * (vk_beta_h vk - vk_h vk * z).

  Lemma residual_closed vk c z v pf :
    check_residual vk c z v pf =
    (c - vk_g vk * v - vk_gamma_g vk * rv_of pf) * vk_h vk - pf_w pf * (vk_beta_h vk - vk_h vk * z).
  Proof. unfold check_residual, rv_of. destruct (pf_random_v pf); ring. Qed.

  (* C10: the code's check (accumulate, negate, compare) decides exactly the relation *)
  Theorem check_iff_relation vk c z v pf :
    check vk c z v pf = Ok true <-> kzg_relation vk c z v pf.
  Proof.
    rewrite check_iff_residual, residual_closed. unfold kzg_relation. split; intros H.
    - apply fsub_eq_0. exact H.
    - apply fsub_eq_0. exact H.
  Qed.

  Lemma check_total vk c z v pf : exists b, check vk c z v pf = Ok b.
  Proof. unfold check. eexists; reflexivity. Qed.

  Lemma check_false_iff vk c z v pf :
    check vk c z v pf = Ok false <-> check_residual vk c z v pf <> 0.
  Proof.
    rewrite <- check_iff_residual. destruct (check_total vk c z v pf) as [b Hb]. rewrite Hb.
    destruct b; split; intros H; try congruence; try (exfalso; apply H; reflexivity).
  Qed.

  (* ---- how each component moves the residual ---- *)
  Lemma residual_value vk c z v d pf :
    check_residual vk c z (v + d) pf = check_residual vk c z v pf - vk_g vk * vk_h vk * d.
  Proof. rewrite !residual_closed. ring. Qed.

  Lemma residual_point vk c z z' v pf :
    check_residual vk c z' v pf = check_residual vk c z v pf + pf_w pf * vk_h vk * (z' - z).
  Proof. rewrite !residual_closed. ring. Qed.

  Lemma residual_comm vk c c' z v pf :
    check_residual vk c' z v pf = check_residual vk c z v pf + (c' - c) * vk_h vk.
  Proof. rewrite !residual_closed. ring. Qed.

  Lemma residual_w vk c z v w rv w' :
    check_residual vk c z v {| pf_w := w'; pf_random_v := rv |} =
    check_residual vk c z v {| pf_w := w; pf_random_v := rv |} - (w' - w) * (vk_beta_h vk - vk_h vk * z).
  Proof. rewrite !residual_closed. unfold rv_of. cbn [pf_w pf_random_v]. ring. Qed.

  Lemma residual_rv vk c z v w rv rv' :
    check_residual vk c z v {| pf_w := w; pf_random_v := Some rv' |} =
    check_residual vk c z v {| pf_w := w; pf_random_v := Some rv |} - vk_gamma_g vk * vk_h vk * (rv' - rv).
  Proof. rewrite !residual_closed. unfold rv_of. cbn [pf_w pf_random_v]. ring. Qed.

  (* ---- C02: from an accepting transcript, a changed statement is accepted only on an
     explicit algebraic coincidence ---- *)
  Theorem kzg_value_change vk c z v d pf :
    check vk c z v pf = Ok true ->
    (check vk c z (v + d) pf = Ok true <-> vk_g vk * vk_h vk * d = 0).
  Proof.
    rewrite !check_iff_residual, residual_value. intros ->. split; intros H.
    - apply fsub_eq_0. symmetry. transitivity (0 - vk_g vk * vk_h vk * d + vk_g vk * vk_h vk * d); [ring|rewrite H; ring].
    - rewrite H. ring.
  Qed.

  Theorem kzg_value_binding' vk c z v d pf :
    vk_g vk <> 0 -> vk_h vk <> 0 -> d <> 0 ->
    check vk c z v pf = Ok true -> check vk c z (v + d) pf = Ok false.
  Proof.
    intros Hg Hh Hd Hc. apply check_false_iff. rewrite residual_value.
    apply check_iff_residual in Hc. rewrite Hc. intros E.
    assert (E' : vk_g vk * vk_h vk * d = 0).
    { transitivity (0 - (0 - vk_g vk * vk_h vk * d)); [ring|rewrite E; ring]. }
    destruct (f_integral _ _ E') as [E1|E1]; [|contradiction].
    destruct (f_integral _ _ E1); contradiction.
  Qed.

  Theorem kzg_point_change vk c z z' v pf :
    check vk c z v pf = Ok true ->
    (check vk c z' v pf = Ok true <-> pf_w pf * vk_h vk * (z' - z) = 0).
  Proof.
    rewrite !check_iff_residual, (residual_point vk c z z'). intros ->. split; intros H.
    - rewrite <- H. ring.
    - rewrite H. ring.
  Qed.

  Theorem kzg_comm_change vk c c' z v pf :
    vk_h vk <> 0 -> check vk c z v pf = Ok true ->
    (check vk c' z v pf = Ok true <-> c' = c).
  Proof.
    intros Hh. rewrite !check_iff_residual, (residual_comm vk c c'). intros ->. split; intros H.
    - apply fsub_eq_0. assert (E : (c' - c) * vk_h vk = 0) by (rewrite <- H; ring).
      destruct (f_integral _ _ E); [assumption|contradiction].
    - subst. ring.
  Qed.

  (* commitments to different (polynomial, randomness) pairs coincide only when beta is a
     root of an explicit polynomial relation *)
  Theorem kzg_commitments_equal_iff g gamma_g beta p r q s :
    g * eval p beta + gamma_g * eval r beta = g * eval q beta + gamma_g * eval s beta <->
    g * eval (psub p q) beta + gamma_g * eval (psub r s) beta = 0.
  Proof.
    rewrite !eval_psub. split; intros H.
    - transitivity ((g * eval p beta + gamma_g * eval r beta) - (g * eval q beta + gamma_g * eval s beta)); [ring|rewrite H; ring].
    - apply fsub_eq_0. rewrite <- H. ring.
  Qed.

  (* C10 / C03: a replaced witness element *)
  Theorem kzg_w_change vk c z v w w' rv :
    check vk c z v {| pf_w := w; pf_random_v := rv |} = Ok true ->
    (check vk c z v {| pf_w := w'; pf_random_v := rv |} = Ok true <->
     (w' - w) * (vk_beta_h vk - vk_h vk * z) = 0).
  Proof.
    rewrite !check_iff_residual, (residual_w vk c z v w rv w'). intros ->. split; intros H.
    - transitivity (0 - (0 - (w' - w) * (vk_beta_h vk - vk_h vk * z))); [ring|rewrite H; ring].
    - rewrite H. ring.
  Qed.

  Theorem kzg_rv_change vk c z v w rv rv' :
    vk_gamma_g vk <> 0 -> vk_h vk <> 0 ->
    check vk c z v {| pf_w := w; pf_random_v := Some rv |} = Ok true ->
    (check vk c z v {| pf_w := w; pf_random_v := Some rv' |} = Ok true <-> rv' = rv).
  Proof.
    intros Hg Hh. rewrite !check_iff_residual, (residual_rv vk c z v w rv rv'). intros ->. split; intros H.
    - apply fsub_eq_0.
      assert (E : vk_gamma_g vk * vk_h vk * (rv' - rv) = 0).
      { transitivity (0 - (0 - vk_gamma_g vk * vk_h vk * (rv' - rv))); [ring|rewrite H; ring]. }
      destruct (f_integral _ _ E) as [E1|E1]; [|assumption].
      destruct (f_integral _ _ E1); contradiction.
    - subst. ring.
  Qed.

  (* key elements matter too *)
  Theorem kzg_vk_g_change vk c z v pf g' :
    check vk c z v pf = Ok true ->
    (check {| vk_g := g'; vk_gamma_g := vk_gamma_g vk; vk_h := vk_h vk; vk_beta_h := vk_beta_h vk |} c z v pf = Ok true
     <-> (g' - vk_g vk) * v * vk_h vk = 0).
  Proof.
    rewrite !check_iff_residual, !residual_closed. cbn [vk_g vk_gamma_g vk_h vk_beta_h]. intros H. split; intros H2.
    - transitivity (((c - vk_g vk * v - vk_gamma_g vk * rv_of pf) * vk_h vk - pf_w pf * (vk_beta_h vk - vk_h vk * z))
                    - ((c - g' * v - vk_gamma_g vk * rv_of pf) * vk_h vk - pf_w pf * (vk_beta_h vk - vk_h vk * z))); [ring|rewrite H, H2; ring].
    - transitivity ((c - vk_g vk * v - vk_gamma_g vk * rv_of pf) * vk_h vk - pf_w pf * (vk_beta_h vk - vk_h vk * z)
                    - (g' - vk_g vk) * v * vk_h vk); [ring|rewrite H, H2; ring].
  Qed.

  Theorem kzg_vk_beta_h_change vk c z v pf bh' :
    check vk c z v pf = Ok true ->
    (check {| vk_g := vk_g vk; vk_gamma_g := vk_gamma_g vk; vk_h := vk_h vk; vk_beta_h := bh' |} c z v pf = Ok true
     <-> pf_w pf * (bh' - vk_beta_h vk) = 0).
  Proof.
    rewrite !check_iff_residual, !residual_closed. cbn [vk_g vk_gamma_g vk_h vk_beta_h]. intros H. split; intros H2.
    - transitivity (((c - vk_g vk * v - vk_gamma_g vk * rv_of pf) * vk_h vk - pf_w pf * (vk_beta_h vk - vk_h vk * z))
                    - ((c - vk_g vk * v - vk_gamma_g vk * rv_of pf) * vk_h vk - pf_w pf * (bh' - vk_h vk * z))); [ring|rewrite H, H2; ring].
    - transitivity ((c - vk_g vk * v - vk_gamma_g vk * rv_of pf) * vk_h vk - pf_w pf * (vk_beta_h vk - vk_h vk * z)
                    - pf_w pf * (bh' - vk_beta_h vk)); [ring|rewrite H, H2; ring].
  Qed.

  (* ---------- C03: binding against algebraic provers ----------
     The commitment is honest (c = g P(beta) + gamma_g R(beta)); the adversary outputs the
     witness together with its representation over the published powers
     (w = g W(beta) + gamma_g Wr(beta)), any blinding value rv and any claimed value v'.
     If the verifier accepts, the trapdoors satisfy an explicit polynomial relation whose
     g-part A is a NON-ZERO polynomial whenever v' is not the true evaluation. *)
  Lemma eval_pmul_lin q z x : eval (pmul_lin q z) x = eval q x * (x - z).
  Proof. unfold pmul_lin. rewrite eval_padd, eval_pscale. cbn [eval]. ring. Qed.

  Definition agm_A (P W : poly) (z v' : F) : poly := psub (psub P [v']) (pmul_lin W z).
  Definition agm_B (R Wr : poly) (z rv : F) : poly := psub (psub R [rv]) (pmul_lin Wr z).

  Theorem kzg_agm_binding g gamma_g h beta P R W Wr z v' rvo :
    h <> 0 ->
    check {| vk_g := g; vk_gamma_g := gamma_g; vk_h := h; vk_beta_h := h * beta |}
          (g * eval P beta + gamma_g * eval R beta) z v'
          {| pf_w := g * eval W beta + gamma_g * eval Wr beta; pf_random_v := rvo |} = Ok true ->
    let rv := match rvo with Some x => x | None => 0 end in
    g * eval (agm_A P W z v') beta + gamma_g * eval (agm_B R Wr z rv) beta = 0 /\
    (v' <> eval P z -> eval (agm_A P W z v') z <> 0).
  Proof.
    intros Hh Hc rv. split.
    - apply check_iff_residual in Hc. rewrite residual_closed in Hc.
      unfold rv_of in Hc. cbn [vk_g vk_gamma_g vk_h vk_beta_h pf_w pf_random_v] in Hc. fold rv in Hc.
      unfold agm_A, agm_B. rewrite !eval_psub, !eval_pmul_lin. cbn [eval].
      apply (fmul_cancel_l h); [exact Hh|]. etransitivity; [|transitivity 0; [exact Hc|ring]]. ring.
    - intros Hv. unfold agm_A. rewrite !eval_psub, eval_pmul_lin. cbn [eval]. intros E.
      apply Hv. symmetry. apply fsub_eq_0. rewrite <- E. ring.
  Qed.

  (* ---------- C05: the batch verifier ---------- *)
  Fixpoint wsum (rhos : list F) (es : list F) : F :=
    match rhos, es with r :: rs, e :: es' => r * e + wsum rs es' | _, _ => 0 end.

  Fixpoint residuals (vk : VKey) (cs zs vs : list F) (pfs : list Proof) : list F :=
    match cs, zs, vs, pfs with
    | c :: cs', z :: zs', v :: vs', pf :: pfs' => check_residual vk c z v pf :: residuals vk cs' zs' vs' pfs'
    | _, _, _, _ => []
    end.

  Lemma wsum_cons r rs e es : wsum (r :: rs) (e :: es) = r * e + wsum rs es.
  Proof. reflexivity. Qed.

  Lemma batch_loop_spec vk : forall cs zs vs pfs tape a a',
      batch_loop cs zs vs pfs tape a = Ok a' ->
      batch_residual vk a' = batch_residual vk a + wsum (b_rand a :: tape) (residuals vk cs zs vs pfs) /\
      b_draws a' = (b_draws a + length (residuals vk cs zs vs pfs))%nat.
  Proof.
    induction cs as [|c cs IH]; intros zs vs pfs tape a a' H.
    - cbn [batch_loop] in H. inversion H; subst. cbn [residuals wsum length]. split; [ring|lia].
    - destruct zs as [|z zs]; [cbn in H; inversion H; subst; cbn [residuals wsum length]; split; [ring|lia]|].
      destruct vs as [|v vs]; [cbn in H; inversion H; subst; cbn [residuals wsum length]; split; [ring|lia]|].
      destruct pfs as [|pf pfs]; [cbn in H; inversion H; subst; cbn [residuals wsum length]; split; [ring|lia]|].
      cbn [batch_loop] in H. destruct tape as [|nxt tape]; [discriminate|].
      apply IH in H. destruct H as [H1 H2]. cbn [b_rand b_draws] in *.
      cbn [residuals length]. rewrite wsum_cons. split; [|lia].
      rewrite H1. unfold batch_residual. cbn [b_total_c b_total_w b_gm b_ggm].
      rewrite residual_closed. unfold rv_of. destruct (pf_random_v pf); ring.
  Qed.

  Definition bacc0 : bacc := {| b_total_c := 0; b_total_w := 0; b_gm := 0; b_ggm := 0; b_rand := 1; b_draws := O |}.

  Lemma batch_residual0 vk : batch_residual vk bacc0 = 0.
  Proof. unfold batch_residual, bacc0. cbn. ring. Qed.

  Lemma residuals_length vk : forall cs zs vs pfs,
      length zs = length cs -> length vs = length cs -> length pfs = length cs ->
      length (residuals vk cs zs vs pfs) = length cs.
  Proof.
    induction cs as [|c cs IH]; intros [|z zs] [|v vs] [|pf pfs] H1 H2 H3; cbn in *; try lia.
    rewrite IH; lia.
  Qed.

  (* batch decision = "rho-weighted sum of the individual residuals is zero", with rho_1 = 1
     and rho_(i+1) the i-th draw of the verifier's RNG; exactly one draw per claim *)
  Theorem batch_check_spec vk cs zs vs pfs tape b n :
    batch_check vk cs zs vs pfs tape = Ok (b, n) ->
    length zs = length cs /\ length vs = length cs /\ length pfs = length cs /\ n = length cs /\
    (b = true <-> wsum (1 :: tape) (residuals vk cs zs vs pfs) = 0).
  Proof.
    unfold batch_check.
    destruct (Nat.eqb_spec (length zs) (length cs)) as [E1|]; [|discriminate].
    destruct (Nat.eqb_spec (length vs) (length cs)) as [E2|]; [|discriminate].
    destruct (Nat.eqb_spec (length pfs) (length cs)) as [E3|]; [|discriminate].
    cbn [andb negb].
    destruct (batch_loop cs zs vs pfs tape _) as [a'| |] eqn:L; cbn [bind]; try discriminate.
    apply (batch_loop_spec vk) in L. fold bacc0 in L. destruct L as [L1 L2].
    rewrite batch_residual0 in L1. intros H. inversion H; subst; clear H.
    repeat split; auto.
    - rewrite L2. cbn [bacc0 b_draws]. rewrite residuals_length; auto.
    - intros Hb. apply FL_eqb in Hb. rewrite L1 in Hb. rewrite <- Hb. cbn [bacc0 b_rand]. ring.
    - intros Hw. apply FL_eqb. rewrite L1. cbn [bacc0 b_rand]. rewrite Hw. ring.
  Qed.

  (* refuses slices of different lengths (no silent zip) *)
  Theorem batch_check_lengths vk cs zs vs pfs tape :
    (length zs <> length cs \/ length vs <> length cs \/ length pfs <> length cs) ->
    batch_check vk cs zs vs pfs tape = Err EIncorrectInputLength.
  Proof.
    intros H. unfold batch_check.
    destruct (Nat.eqb_spec (length zs) (length cs)); destruct (Nat.eqb_spec (length vs) (length cs));
      destruct (Nat.eqb_spec (length pfs) (length cs)); cbn [andb negb]; try reflexivity.
    exfalso. destruct H as [H|[H|H]]; contradiction.
  Qed.

  Lemma wsum_zero rhos es : Forall (fun e => e = 0) es -> wsum rhos es = 0.
  Proof.
    revert rhos; induction es as [|e es IH]; intros [|r rs] H; cbn [wsum]; try reflexivity.
    inversion H; subst. rewrite IH by assumption. ring.
  Qed.

  Lemma batch_loop_total : forall cs zs vs pfs tape a,
      length cs <= length tape -> exists a', batch_loop cs zs vs pfs tape a = Ok a'.
  Proof.
    induction cs as [|c cs IH]; intros zs vs pfs tape a H; cbn [batch_loop]; [eauto|].
    destruct zs; [eauto|]. destruct vs; [eauto|]. destruct pfs; [eauto|].
    destruct tape as [|t tape]; [cbn in H; lia|]. apply IH. cbn in H. lia.
  Qed.

  (* all-true batches are accepted whatever the verifier's randomness *)
  Theorem batch_all_true_accepts vk cs zs vs pfs tape :
    length zs = length cs -> length vs = length cs -> length pfs = length cs ->
    length cs <= length tape ->
    Forall (fun e => e = 0) (residuals vk cs zs vs pfs) ->
    batch_check vk cs zs vs pfs tape = Ok (true, length cs).
  Proof.
    intros E1 E2 E3 Ht Hall.
    destruct (batch_loop_total cs zs vs pfs tape bacc0 Ht) as [a' La].
    assert (Hbc : exists b n, batch_check vk cs zs vs pfs tape = Ok (b, n)).
    { unfold batch_check. rewrite E1, E2, E3, !Nat.eqb_refl. cbn [andb negb]. fold bacc0. rewrite La. cbn [bind]. eauto. }
    destruct Hbc as (b & n & Hbc). destruct (batch_check_spec _ _ _ _ _ _ _ _ Hbc) as (_ & _ & _ & -> & Hb).
    rewrite Hbc. f_equal. f_equal. apply Hb. apply wsum_zero. exact Hall.
  Qed.

  (* a single false claim at position j is rejected unless its randomizer is zero *)
  Lemma wsum_single : forall rhos es j,
      (forall i, i <> j -> nth i es 0 = 0) -> j < length es -> length es <= length rhos ->
      wsum rhos es = nth j rhos 0 * nth j es 0.
  Proof.
    induction rhos as [|r rs IH]; intros es j Hz Hj Hl.
    - destruct es; cbn in *; lia.
    - destruct es as [|e es]; [cbn in Hj; lia|]. cbn [wsum]. destruct j as [|j].
      + cbn [nth]. rewrite wsum_zero; [ring|].
        apply Forall_forall. intros x Hx. destruct (In_nth _ _ 0 Hx) as (i & Hi & <-).
        apply (Hz (S i)). discriminate.
      + cbn [nth]. rewrite (IH es j).
        * specialize (Hz O). cbn in Hz. rewrite Hz by discriminate. ring.
        * intros i Hi. apply (Hz (S i)). congruence.
        * cbn in Hj. lia.
        * cbn in Hl. lia.
  Qed.

  Theorem batch_one_false_rejects vk cs zs vs pfs tape b n j :
    batch_check vk cs zs vs pfs tape = Ok (b, n) ->
    j < length cs -> length cs <= S (length tape) ->
    (forall i, i <> j -> nth i (residuals vk cs zs vs pfs) 0 = 0) ->
    nth j (residuals vk cs zs vs pfs) 0 <> 0 -> nth j (1 :: tape) 0 <> 0 ->
    b = false.
  Proof.
    intros Hbc Hj Ht Hz He Hr.
    destruct (batch_check_spec _ _ _ _ _ _ _ _ Hbc) as (E1 & E2 & E3 & _ & Hb).
    destruct b; [|reflexivity]. exfalso.
    assert (Hw : wsum (1 :: tape) (residuals vk cs zs vs pfs) = 0) by (apply Hb; reflexivity).
    rewrite (wsum_single _ _ j) in Hw; auto.
    - destruct (f_integral _ _ Hw); contradiction.
    - rewrite residuals_length; auto.
    - rewrite residuals_length; auto.
  Qed.
End KZG10Binding.
