(* C05 for the trait-level batch verifier of Marlin: batch_check over a query set is KZG10's batch check
   over the point-label groups, each group contributing exactly the combined commitment and value the
   single-point verifier `check` would test for that group. *)
From Coq Require Import List Arith NArith Bool Lia Field Ring.
From PC Require Import Base.Field Base.Result Base.Poly Base.OrdMap Proofs.PolyFacts
     Schemes.KZG10 Schemes.LC Schemes.Marlin Proofs.KZG10Facts Proofs.KZG10Binding.
Import ListNotations.
Open Scope F_scope.

Section MarlinBatch.
  Context {FO : FieldOps} {FL : FieldLaws FO}.

  (* what the groups contribute: for each group the triple accumulate computes, threading the challenge tape *)
  Inductive groups_spec (vk : MVKey) (cm : list (N * LComm)) (ev : evals) :
    list (N * (F * list N)) -> list F -> list F -> list F -> list F -> list F -> Prop :=
  | gs_nil chal : groups_spec vk cm ev [] chal [] [] [] chal
  | gs_cons l pt labels t chal cs' vs' c v chal1 ccs zs vs rest :
      gather cm ev pt labels = Ok (cs', vs') ->
      accumulate vk cs' vs' chal 0 0 = Ok (c, v, chal1) ->
      groups_spec vk cm ev t chal1 ccs zs vs rest ->
      groups_spec vk cm ev ((l, (pt, labels)) :: t) chal (c :: ccs) (pt :: zs) (v :: vs) rest.

  Lemma combine_groups_spec vk cm ev : forall groups chal ccs zs vs rest,
    combine_groups vk cm ev groups chal = Ok (ccs, zs, vs, rest) -> groups_spec vk cm ev groups chal ccs zs vs rest.
  Proof.
    induction groups as [|[l [pt labels]] t IH]; intros chal ccs zs vs rest H; cbn [combine_groups] in H.
    - injection H as <- <- <- <-. constructor.
    - destruct (gather cm ev pt labels) as [[cs' vs']| |] eqn:Eg; cbn [bind] in H; try discriminate.
      cbn [fst snd] in H.
      destruct (accumulate vk cs' vs' chal 0 0) as [[[c v] chal1]| |] eqn:Ea; cbn [bind] in H; try discriminate.
      destruct (combine_groups vk cm ev t chal1) as [[[[ccs' zs'] vs''] rest']| |] eqn:Ec; cbn [bind] in H; try discriminate.
      injection H as <- <- <- <-. econstructor; [exact Eg|exact Ea|apply IH; exact Ec].
  Qed.

  (* a group of the batch is tested exactly as `check` tests it *)
  Lemma group_is_single_check vk cs' vs' chal c v chal1 z pf :
    accumulate vk cs' vs' chal 0 0 = Ok (c, v, chal1) ->
    mcheck vk cs' z vs' pf chal = (do b <- KZG10.check (mvk_vk vk) c z v pf; Ok (b, chal1)).
  Proof. intros H. unfold mcheck. rewrite H. reflexivity. Qed.

  (* the batch decision: one proof per point label, and the KZG10 batch equation over the groups *)
  Theorem mbatch_check_is_batch_of_groups vk cs qs ev pfs chal vtape b rest dr :
    mbatch_check vk cs qs ev pfs chal vtape = Ok (b, rest, dr) ->
    exists ccs zs vs,
      groups_spec vk (comm_map cs) (evals_map ev) (group_queries qs) chal ccs zs vs rest /\
      length pfs = length zs /\
      KZG10.batch_check (mvk_vk vk) ccs zs vs pfs vtape = Ok (b, dr).
  Proof.
    unfold mbatch_check, mbatch_check_m. intros H.
    destruct (combine_groups vk (comm_map cs) (evals_map ev) (group_queries qs) chal) as [[[[ccs zs] vs] rest']| |] eqn:Ec; cbn [bind] in H; try discriminate.
    destruct (Nat.eqb_spec (length pfs) (length zs)) as [El|]; cbn [negb] in H; [|discriminate].
    destruct (KZG10.batch_check (mvk_vk vk) ccs zs vs pfs vtape) as [[b' dr']| |] eqn:Eb; cbn [bind] in H; try discriminate.
    cbn [fst snd] in H. injection H as <- <- <-.
    exists ccs, zs, vs. split; [apply combine_groups_spec; exact Ec|]. split; [exact El|exact Eb].
  Qed.

  (* a different number of proofs than point labels is refused, not zipped away *)
  Theorem mbatch_check_proof_count vk cs qs ev pfs chal vtape ccs zs vs rest :
    combine_groups vk (comm_map cs) (evals_map ev) (group_queries qs) chal = Ok (ccs, zs, vs, rest) ->
    length pfs <> length zs -> mbatch_check vk cs qs ev pfs chal vtape = Panic.
  Proof.
    intros Ec Hl. unfold mbatch_check, mbatch_check_m. rewrite Ec. cbn [bind].
    destruct (Nat.eqb_spec (length pfs) (length zs)); [contradiction|reflexivity].
  Qed.
End MarlinBatch.
