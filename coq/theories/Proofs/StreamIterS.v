(* C14: the second stack machine, FoldedPolynomialStreamIter (it reads two coefficients at a time whenever the top of its stack
   is not a level-0 entry, and yields only the items of the last level): on a stream made of complete blocks it yields exactly the
   last naive folding.  (Lengths needing zero padding stay with the correspondence for this iterator.) *)
From Coq Require Import List Arith NArith Bool Lia Field Ring.
From PC Require Import Base.Field Base.Result Base.Poly Proofs.PolyFacts Schemes.StreamKZG Proofs.StreamIter.
Import ListNotations.
Open Scope F_scope.

Section StreamIterS.
  Context {FO : FieldOps} {FL : FieldLaws FO}.
  Add Field Ffield58 : FL_field.
  Variable chs : list F.
  Let depth := length chs.
  Hypothesis Hdepth : (1 <= depth)%nat.

  (* no level-0 entry on top *)
  Definition topnz (st : list (nat * F)) : Prop := match st with (l, _) :: _ => l <> 0%nat | [] => True end.

  Fixpoint ssteps (d : nat) : nat :=
    match d with O => O | S O => 1%nat | S d' => (ssteps d' + (ssteps d' + 1))%nat end.

  Lemma stream_run_unfold f st inp :
    stream_run (S f) chs st inp =
    match stream_step chs st inp with
    | None => []
    | Some (st', inp', (level, x)) => if (level =? length chs)%nat then x :: stream_run f chs st' inp' else stream_run f chs ((level, x) :: st') inp'
    end.
  Proof. reflexivity. Qed.

  Lemma sstep_read2 st a b inp : stable st -> topnz st ->
    stream_step chs st (a :: b :: inp) = Some (st, inp, (1%nat, nth 0 chs 0 * a + b)).
  Proof.
    intros Hs Ht. unfold stream_step. fold depth.
    assert (Hd0 : (0 <? depth)%nat = true) by (apply Nat.ltb_lt; lia).
    destruct st as [|[l1 v1] [|[l2 v2] st']].
    - rewrite Hd0. reflexivity.
    - cbn in Ht. rewrite Hd0. destruct (Nat.eqb_spec l1 0); [contradiction|]. reflexivity.
    - cbn in Hs, Ht. destruct (Nat.eqb_spec l1 l2); [contradiction|]. rewrite Hd0.
      destruct (Nat.eqb_spec l1 0); [contradiction|]. reflexivity.
  Qed.

  Lemma sstep_merge d v1 v2 st inp :
    stream_step chs ((d, v2) :: (d, v1) :: st) inp = Some (st, inp, (S d, v1 * nth d chs 0 + v2)).
  Proof. unfold stream_step. rewrite Nat.eqb_refl. reflexivity. Qed.

  (* what the run does with an item: yield it at the last level, push it otherwise *)
  Definition sout (d : nat) (v : F) : list F := if (d =? depth)%nat then [v] else [].
  Definition spush (d : nat) (v : F) (st : list (nat * F)) : list (nat * F) := if (d =? depth)%nat then st else (d, v) :: st.

  Lemma sblock_run : forall d L st inp fuel,
    (1 <= d)%nat -> length L = (2 ^ d)%nat -> (d <= depth)%nat -> stable st -> topnz st -> above d st ->
    stream_run (ssteps d + fuel) chs st (L ++ inp) = sout d (bval chs d L) ++ stream_run fuel chs (spush d (bval chs d L) st) inp.
  Proof.
    induction d as [|d IH]; intros L st inp fuel H1 HL Hd Hs Ht Ha; [lia|].
    destruct d as [|d].
    - (* level 1: one double read *)
      destruct L as [|a [|b [|c L]]]; cbn in HL; try lia.
      cbn [ssteps Nat.add app]. rewrite stream_run_unfold, (sstep_read2 st a b inp Hs Ht).
      assert (Ev : nth 0 chs 0 * a + b = bval chs 1 [a; b]) by (cbn; ring).
      rewrite Ev. unfold sout, spush. fold depth. destruct (1 =? depth)%nat; reflexivity.
    - (* level S (S d): two blocks of level S d, then a merge *)
      set (h := (2 ^ S d)%nat).
      assert (Hh : (h <= length L)%nat) by (unfold h; rewrite HL, (Nat.pow_succ_r' 2 (S d)); lia).
      set (L1 := firstn h L). set (L2 := skipn h L).
      assert (E : L = L1 ++ L2) by (symmetry; apply firstn_skipn).
      assert (HL1 : length L1 = h) by (unfold L1; rewrite firstn_length; lia).
      assert (HL2 : length L2 = h) by (unfold L2; rewrite skipn_length, HL; unfold h; rewrite (Nat.pow_succ_r' 2 (S d)); lia).
      change (ssteps (S (S d))) with (ssteps (S d) + (ssteps (S d) + 1))%nat.
      rewrite E at 1. rewrite <- app_assoc.
      replace (ssteps (S d) + (ssteps (S d) + 1) + fuel)%nat with (ssteps (S d) + (ssteps (S d) + S fuel))%nat by lia.
      assert (Ha' : above (S d) st) by (destruct st as [|[l v] t]; [exact I|]; cbn [above] in *; lia).
      rewrite (IH L1 st (L2 ++ inp) _ ltac:(lia) HL1 ltac:(lia) Hs Ht Ha').
      assert (Eo : sout (S d) (bval chs (S d) L1) = []) by (unfold sout; destruct (Nat.eqb_spec (S d) depth); [lia|reflexivity]).
      assert (Ep : spush (S d) (bval chs (S d) L1) st = (S d, bval chs (S d) L1) :: st)
        by (unfold spush; destruct (Nat.eqb_spec (S d) depth); [lia|reflexivity]).
      rewrite Eo, Ep. cbn [app].
      rewrite (IH L2 ((S d, bval chs (S d) L1) :: st) inp _ ltac:(lia) HL2 ltac:(lia)).
      + assert (Eo2 : sout (S d) (bval chs (S d) L2) = []) by (unfold sout; destruct (Nat.eqb_spec (S d) depth); [lia|reflexivity]).
        assert (Ep2 : spush (S d) (bval chs (S d) L2) ((S d, bval chs (S d) L1) :: st) = (S d, bval chs (S d) L2) :: (S d, bval chs (S d) L1) :: st)
          by (unfold spush; destruct (Nat.eqb_spec (S d) depth); [lia|reflexivity]).
        rewrite Eo2, Ep2. cbn [app]. rewrite stream_run_unfold, sstep_merge.
        change (bval chs (S d) L1 * nth (S d) chs 0 + bval chs (S d) L2) with (bval chs (S (S d)) L).
        unfold sout, spush. fold depth. destruct (S (S d) =? depth)%nat; reflexivity.
      + cbn [stable]. destruct st as [|[l v] t]; [exact I|]. cbn [above] in Ha. lia.
      + cbn [topnz]. lia.
      + cbn [above]. lia.
  Qed.

  Lemma ssteps_le : forall d, (ssteps d <= 2 * 2 ^ d)%nat.
  Proof.
    induction d as [|d IH]; [cbn; lia|]. destruct d as [|d]; [cbn; lia|].
    change (ssteps (S (S d))) with (ssteps (S d) + (ssteps (S d) + 1))%nat. rewrite (Nat.pow_succ_r' 2 (S d)).
    assert (ssteps (S d) + 1 <= 2 * 2 ^ S d)%nat; [|lia].
    clear IH. induction d as [|d IHd]; [cbn; lia|].
    change (ssteps (S (S d))) with (ssteps (S d) + (ssteps (S d) + 1))%nat. rewrite (Nat.pow_succ_r' 2 (S d)). lia.
  Qed.

  Lemma sblocks_run : forall bs inp fuel,
    Forall (fun b => length b = (2 ^ depth)%nat) bs ->
    stream_run (length bs * ssteps depth + fuel) chs [] (concat bs ++ inp) = map (bval chs depth) bs ++ stream_run fuel chs [] inp.
  Proof.
    induction bs as [|b t IH]; intros inp fuel Hb; [reflexivity|].
    inversion Hb as [|? ? Hlen Ht]; subst. cbn [length Nat.mul concat map]. rewrite <- !app_assoc.
    replace (ssteps depth + length t * ssteps depth + fuel)%nat with (ssteps depth + (length t * ssteps depth + fuel))%nat by lia.
    rewrite (sblock_run depth b [] (concat t ++ inp) _ Hdepth Hlen (le_n _) I I I).
    unfold sout, spush. rewrite Nat.eqb_refl. cbn [app]. f_equal. apply IH. exact Ht.
  Qed.

  Lemma stream_run_end fuel : stream_run fuel chs [] [] = [].
  Proof. destruct fuel; [reflexivity|]. rewrite stream_run_unfold. unfold stream_step. fold depth. destruct (0 <? depth)%nat; reflexivity. Qed.

  (* the stream iterator on complete blocks yields the value of every block: the last naive folding *)
  Theorem stream_iter_full_blocks bs :
    Forall (fun b => length b = (2 ^ depth)%nat) bs ->
    stream_iter chs (concat bs) = map (bval chs depth) bs.
  Proof.
    intros Hb. unfold stream_iter. fold depth.
    assert (Ln : length (concat bs) = (length bs * 2 ^ depth)%nat).
    { clear - Hb. induction Hb as [|b t Hl _ IHb]; [reflexivity|]. cbn [concat length]. rewrite app_length, IHb, Hl. lia. }
    assert (Ei : init_stack (length (concat bs)) depth = []).
    { unfold init_stack. rewrite Ln, Nat.mod_mul by (pose proof (pow2_pos chs depth); lia). reflexivity. }
    rewrite Ei. pose proof (ssteps_le depth) as Hs.
    set (fuel := (2 * (length (concat bs) + 2 ^ depth) + 2 - length bs * ssteps depth)%nat).
    replace (2 * (length (concat bs) + 2 ^ depth) + 2)%nat with (length bs * ssteps depth + fuel)%nat.
    - rewrite <- (app_nil_r (concat bs)) at 1. rewrite (sblocks_run bs [] fuel Hb), stream_run_end, app_nil_r. reflexivity.
    - unfold fuel. rewrite Ln. assert (length bs * ssteps depth <= length bs * (2 * 2 ^ depth))%nat by (apply Nat.mul_le_mono_l; exact Hs). lia.
  Qed.

  (* ... which is the last naive folding of the stream *)
  Theorem stream_iter_is_last_folding bs :
    Forall (fun b => length b = (2 ^ depth)%nat) bs ->
    stream_iter chs (concat bs) = by_level depth (tree_iter chs (concat bs)).
  Proof.
    intros Hb. rewrite (stream_iter_full_blocks bs Hb), (tree_iter_full_blocks chs bs Hb).
    unfold depth in *. clear - Hb Hdepth FL. induction Hb as [|b t Hl _ IH]; [reflexivity|].
    cbn [map blocks_emit]. rewrite by_level_app, <- IH. f_equal.
    rewrite (by_level_bemit chs (length chs) (length chs) b Hdepth (le_n _)).
    destruct (length chs) as [|d] eqn:Ed; [lia|]. rewrite levc_S, Nat.eqb_refl. rewrite bval_bvalc. reflexivity.
  Qed.
End StreamIterS.
