(* Completeness of IPA's batch flows at the trait level, end to end: the proofs made by batch_open (the trait default: one open
   per point-label group on the shared transcripts and RNG tape) are accepted by IPA's own batch_check (per group the shape and
   succinct checks, then ONE final-key check on the randomizer-weighted combination) for the true evaluations, whatever
   randomizers the verifier draws; the verifier ends in the prover's transcript state and draws one randomizer per group. *)
From Coq Require Import List Arith NArith Bool Lia Field Ring.
From PC Require Import Base.Field Base.Result Base.Poly Base.OrdMap Proofs.PolyFacts Schemes.LC Schemes.Marlin Schemes.MarlinLC Schemes.IPA Proofs.LCFacts
     Proofs.IPAFacts Proofs.IPAComplete Schemes.DefaultBatch Schemes.IPABatch Proofs.IPABatchFacts Proofs.DefaultBatchComplete.
Import ListNotations.
Open Scope F_scope.

Section IPABatchComplete.
  Context {FO : FieldOps} {FL : FieldLaws FO}.
  Add Field Ffield51 : FL_field.
  Variable d : nat.
  Hypothesis Hd : (d + 1 = 2 ^ Nat.log2_up (d + 1))%nat.

  (* the verifier's entry for a label is the commitment and bound of the prover's item, which is a commitment to the item's
     polynomial in the sense of sem_honest (commit's outputs are: honest_sem) *)
  Definition iR (it : IItem) (c : IComm * option nat) : Prop :=
    sem_honest d it /\ c = (snd (fst it), snd (fst (fst it))).
  Definition ivalue (it : IItem) (pt : point) : F := eval (lp_poly (fst (fst (fst it)))) (hd 0 pt).

  Lemma iR_cs : forall its cs, Forall2 iR its cs -> Forall (sem_honest d) its /\ cs = cs_of its.
  Proof.
    induction 1 as [|it c its cs [Hh Hc] _ [IH1 IH2]]; [split; [constructor|reflexivity]|].
    split; [constructor; assumption|]. subst. destruct it as [[[lp cb] cm] st]. reflexivity.
  Qed.
  Lemma vs_of_value z : forall its : list IItem, map (fun it => ivalue it [z]) its = vs_of z its.
  Proof. induction its as [|[[[lp cb] cm] st] its IH]; [reflexivity|]. cbn [map vs_of]. f_equal. exact IH. Qed.

  Lemma i_rounds_Forall (P : F -> Prop) : forall k hp a zs (K : list gv) hchal ls rs fk c hrest,
    Forall P hchal -> i_rounds k hp a zs K hchal = Ok (ls, rs, fk, c, hrest) -> Forall P hrest.
  Proof.
    induction k as [|k IH]; intros hp a zs K hchal ls rs fk c hrest Hf H; cbn [i_rounds] in H.
    - injection H as _ _ _ _ <-. exact Hf.
    - destruct hchal as [|rc hchal']; [discriminate|].
      match type of H with context [i_rounds k ?a1 ?a2 ?a3 ?a4 hchal'] =>
        destruct (i_rounds k a1 a2 a3 a4 hchal') as [[[[[ls' rs'] fk'] c'] hrest']| |] eqn:E; cbn [bind] in H; try discriminate end.
      injection H as _ _ _ _ <-. eapply IH; [|exact E]. inversion Hf; assumption.
  Qed.

  Lemma i_open_Forall (P : F -> Prop) items z chal hchal rng pf rest hrest nd :
    Forall P hchal -> i_open d items z chal hchal rng = Ok (pf, rest, hrest, nd) -> Forall P hrest.
  Proof.
    intros Hf H. unfold i_open in H.
    destruct chal as [|c0 chal0]; [discriminate|].
    destruct (i_open_loop d items c0 chal0 _) as [[[acc cur'] rest']| |]; cbn [bind] in H; try discriminate.
    destruct (oa_hid acc).
    - destruct rng as [tape|]; cbn [bind] in H; [|discriminate].
      destruct (length tape <? d + 2)%nat; cbn [bind] in H; [discriminate|].
      destruct hchal as [|hc hchal']; cbn [bind] in H; [discriminate|].
      destruct hchal' as [|rc0 hchal2]; [discriminate|].
      match type of H with context [i_rounds ?kk ?hp ?co ?zs ?K ?hh] =>
        destruct (i_rounds kk hp co zs K hh) as [[[[[ls rs] fk] c] hrest']| |] eqn:Er; cbn [bind] in H; try discriminate end.
      injection H as _ _ <- _. eapply i_rounds_Forall; [|exact Er].
      inversion Hf as [|? ? _ Hf1]; subst. inversion Hf1; assumption.
    - cbn [bind] in H.
      destruct hchal as [|rc0 hchal2]; [discriminate|].
      match type of H with context [i_rounds ?kk ?hp ?co ?zs ?K ?hh] =>
        destruct (i_rounds kk hp co zs K hh) as [[[[[ls rs] fk] c] hrest']| |] eqn:Er; cbn [bind] in H; try discriminate end.
      injection H as _ _ <- _. eapply i_rounds_Forall; [|exact Er]. inversion Hf; assumption.
  Qed.

  (* what an accepting check says: the shape test passed, the succinct check produced challenges, the final key matches *)
  Lemma i_check_true_inv cs z vs pf chal hchal r h :
    i_check d cs z vs pf chal hchal = Ok (true, r, h) ->
    (negb (length (ip_l pf) =? length (ip_r pf))%nat || negb (length (ip_l pf) =? Nat.log2_up (d + 1))%nat) = false /\
    exists chs, i_succinct_check d cs z vs pf chal hchal = Ok (Some chs, r, h) /\
                gvzero (gvsub (gmsm (key_of d) (compute_coeffs chs)) (ip_key pf)) = true.
  Proof.
    unfold i_check. cbv zeta.
    destruct (negb (length (ip_l pf) =? length (ip_r pf))%nat || negb (length (ip_l pf) =? Nat.log2_up (d + 1))%nat); [discriminate|].
    intros H. split; [reflexivity|].
    destruct (i_succinct_check d cs z vs pf chal hchal) as [[[o r1] h1]| |]; cbn [bind] in H; try discriminate.
    destruct o as [chs|]; [|discriminate]. injection H as E <- <-. exists chs. split; [reflexivity|exact E].
  Qed.

  Lemma ipa_groups_complete im cm ev : maps_agree (IComm * option nat) IItem iR im cm ->
    forall gs (st st' : ISt) pfs vtape rnd cp ck draws,
    Forall (fun rc => rc <> 0) (snd (fst st)) ->
    (forall pl pt labels, In (pl, (pt, labels)) gs -> evals_true IItem ivalue im ev pt labels) ->
    (length gs <= length vtape)%nat ->
    (forall i, co i (gmsm (key_of d) cp) = co i ck) ->
    bopen_loop IItem IProof ISt (ib_open d) im gs st = Ok (pfs, st') ->
    exists cp' ck', ibc_loop d cm ev gs pfs (fst (fst st)) (snd (fst st)) vtape rnd cp ck draws
                     = Ok (Some (cp', ck'), fst (fst st'), snd (fst st'), (draws + length gs)%nat) /\
                    (forall i, co i (gmsm (key_of d) cp') = co i ck') /\ length pfs = length gs.
  Proof.
    intros Hm. induction gs as [|[pl [pt labels]] gs IH]; intros [[chal hchal] rng] st' pfs vtape rnd cp ck draws Hnz He L Hi H;
      cbn [fst snd] in *; cbn [bopen_loop] in H.
    - injection H as <- <-. exists cp, ck. cbn [ibc_loop length fst snd]. rewrite Nat.add_0_r. repeat split. exact Hi.
    - destruct (gather_p IItem im labels) as [its| |] eqn:Eg; cbn [bind] in H; try discriminate.
      destruct (ib_open d its pt (chal, hchal, rng)) as [[pf st1]| |] eqn:Eo; cbn [bind fst snd] in H; try discriminate.
      destruct (bopen_loop IItem IProof ISt (ib_open d) im gs st1) as [[pfs1 st2]| |] eqn:Er; cbn [bind fst snd] in H; try discriminate.
      injection H as <- <-.
      destruct (gather_agree _ IItem iR ivalue im cm ev pt Hm labels its (He pl pt labels (or_introl eq_refl)) Eg) as (cs & Egv & HF).
      destruct (iR_cs its cs HF) as [Hh ->].
      unfold ib_open in Eo. destruct pt as [|z [|? ?]]; try discriminate.
      destruct (i_open d its z chal hchal rng) as [[[[pf0 rest0] hrest0] nd]| |] eqn:Ei; cbn [bind] in Eo; try discriminate.
      injection Eo as <- <-.
      pose proof (ipa_complete_sem d its z chal hchal rng pf0 rest0 hrest0 nd Hd Hh Hnz Ei) as Hc.
      destruct (i_check_true_inv _ _ _ _ _ _ _ _ Hc) as (Hshape & chs & Es & Ek).
      destruct vtape as [|x vt']; [cbn [length] in L; lia|].
      assert (L' : (length gs <= length vt')%nat) by (cbn [length] in L; lia).
      assert (Hi' : forall i, co i (gmsm (key_of d) (padd_scaled cp rnd (trim (compute_coeffs chs)))) = co i (gvadd ck (gvscale rnd (ip_key pf0)))).
      { intros i. rewrite co_gmsm_padd_scaled_trim, co_gvadd, co_gvscale, Hi.
        pose proof (proj1 (gvzero_co _) Ek i) as E. rewrite co_gvsub in E.
        assert (E' : co i (gmsm (key_of d) (compute_coeffs chs)) = co i (ip_key pf0)).
        { transitivity (co i (gmsm (key_of d) (compute_coeffs chs)) - co i (ip_key pf0) + co i (ip_key pf0)); [ring|rewrite E; ring]. }
        rewrite E'. ring. }
      destruct (IH (rest0, hrest0, option_map (skipn nd) rng) st2 pfs1 vt' x _ _ (S draws)
                   (i_open_Forall _ _ _ _ _ _ _ _ _ _ Hnz Ei) (fun a b c Hin => He a b c (or_intror Hin)) L' Hi' Er)
        as (cp' & ck' & El & Hi2 & Hl).
      cbn [fst snd] in El.
      exists cp', ck'. split; [|split; [exact Hi2|cbn [length]; f_equal; exact Hl]].
      cbn [ibc_loop]. rewrite Egv. cbn [bind fst snd]. rewrite vs_of_value, Hshape, Es. cbn [bind].
      rewrite El. f_equal. f_equal. cbn [length]. lia.
  Qed.

  Theorem ipa_batch_complete_e2e items cs qs ev chal hchal rng vtape pfs rest hrest rng' :
    maps_agree (IComm * option nat) IItem iR (label_map items) (label_map cs) ->
    Forall (fun rc => rc <> 0) hchal ->
    (forall pl pt labels, In (pl, (pt, labels)) (groups qs) -> evals_true IItem ivalue (label_map items) ev pt labels) ->
    (length (groups qs) <= length vtape)%nat ->
    i_batch_open d items qs (chal, hchal, rng) = Ok (pfs, (rest, hrest, rng')) ->
    i_batch_check d cs qs ev pfs chal hchal vtape = Ok (true, rest, hrest, length (groups qs)).
  Proof.
    intros Hm Hnz He L H. unfold i_batch_open, default_batch_open in H. unfold i_batch_check. cbv zeta.
    assert (G0 : forall K : list gv, gmsm K [] = []) by (intros [|? ?]; reflexivity).
    destruct (ipa_groups_complete _ _ ev Hm (groups qs) (chal, hchal, rng) (rest, hrest, rng') pfs vtape 1 [] [] O
                Hnz He L (fun i => f_equal (co i) (G0 (key_of d))) H) as (cp' & ck' & E & Hi & Hl).
    cbn [fst snd] in E. rewrite Hl, Nat.eqb_refl. cbn [negb]. rewrite E. cbn [bind].
    assert (Z : gvzero (gvsub (gmsm (key_of d) cp') ck') = true).
    { apply gvzero_co. intros i. rewrite co_gvsub, Hi. ring. }
    rewrite Z. reflexivity.
  Qed.
End IPABatchComplete.
