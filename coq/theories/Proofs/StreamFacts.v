(* C14: the space-efficient prover computes exactly what the time-efficient prover computes;
   the verifier accepts their proofs for the true evaluation and nothing else. *)
From Coq Require Import List Arith NArith Bool Lia Field Ring.
From PC Require Import Base.Field Base.Result Base.Poly Proofs.PolyFacts Schemes.StreamKZG.
Import ListNotations.
Open Scope F_scope.

Section StreamFacts.
  Context {FO : FieldOps} {FL : FieldLaws FO}.
  Add Field Ffield15 : FL_field.

  Lemma hd_horner_all p z : hd 0 (horner_all p z) = eval p z.
  Proof. induction p as [|c t IH]; [reflexivity|]. cbn [horner_all hd eval]. rewrite IH. reflexivity. Qed.

  Lemma horner_all_length p z : length (horner_all p z) = length p.
  Proof. induction p as [|c t IH]; cbn [horner_all length]; auto. Qed.

  Lemma horner_all_shift t z x : (x - z) * eval (horner_all t z) x = x * eval t x - z * eval t z.
  Proof.
    induction t as [|c t IH]; cbn [horner_all eval]; [ring|]. rewrite hd_horner_all.
    transitivity ((x - z) * c + (x - z) * z * eval t z + x * ((x - z) * eval (horner_all t z) x)); [ring|].
    rewrite IH. ring.
  Qed.

  (* p(X) - p(z) = (X - z) * q(X) for the quotient the time prover commits to *)
  Lemma horner_quotient p z x :
    eval p x - eval p z = (x - z) * eval (tl (horner_all p z)) x.
  Proof.
    destruct p as [|c t]; cbn [horner_all tl eval]; [ring|]. rewrite horner_all_shift. ring.
  Qed.

  Lemma space_loop_app alpha : forall s1 b1 s2 b2 prev acc,
      length s1 = length b1 ->
      space_loop alpha (s1 ++ s2) (b1 ++ b2) prev acc =
      let '(p', a') := space_loop alpha s1 b1 prev acc in space_loop alpha s2 b2 p' a'.
  Proof.
    induction s1 as [|s s1 IH]; intros b1 s2 b2 prev acc Hl; destruct b1 as [|b b1]; cbn in Hl; try lia.
    - reflexivity.
    - cbn [app space_loop]. apply IH. lia.
  Qed.

  Lemma space_loop_rev alpha : forall p gs,
      length gs = length p ->
      space_loop alpha (rev p) (rev gs) 0 0 = (eval p alpha, msm gs (tl (horner_all p alpha))).
  Proof.
    induction p as [|c t IH]; intros gs Hl; destruct gs as [|g0 gs]; cbn in Hl; try lia.
    - reflexivity.
    - cbn [rev]. rewrite space_loop_app by (rewrite !rev_length; lia).
      rewrite IH by lia. cbn [space_loop horner_all tl eval].
      f_equal; [ring|].
      destruct t as [|c' t']; [destruct gs; cbn; ring|].
      change (horner_all (c' :: t') alpha) with (fadd c' (fmul alpha (hd 0 (horner_all t' alpha))) :: horner_all t' alpha).
      cbn [msm tl]. rewrite hd_horner_all. cbn [eval]. ring.
  Qed.

  Lemma msm_firstn bases p : msm (firstn (length p) bases) p = msm bases p.
  Proof.
    revert bases; induction p as [|c t IH]; intros bases; destruct bases as [|b bs]; cbn [length firstn msm]; try reflexivity.
    rewrite IH. reflexivity.
  Qed.

  Lemma skipn_app_all {A} (a b : list A) : skipn (length a) (a ++ b) = b.
  Proof. induction a; cbn; auto. Qed.

  Lemma skipn_rev_firstn {A} (l : list A) n : (n <= length l)%nat -> skipn (length l - n) (rev l) = rev (firstn n l).
  Proof.
    intros H. rewrite <- (firstn_skipn n l) at 2. rewrite rev_app_distr.
    replace (length l - n)%nat with (length (rev (skipn n l))) by (rewrite rev_length, skipn_length; reflexivity).
    apply skipn_app_all.
  Qed.

  (* C14: for every polynomial, point and key with enough powers the streaming prover returns
     exactly the evaluation and the proof of the in-memory prover *)
  Theorem space_open_eq_time_open ck p alpha :
    (length p <= length (sk_g ck))%nat ->
    space_open ck p alpha = Ok (time_open ck p alpha).
  Proof.
    intros Hl. unfold space_open. destruct (Nat.ltb_spec (length (sk_g ck)) (length p)); [lia|].
    f_equal. rewrite skipn_rev_firstn by exact Hl.
    rewrite space_loop_rev by (rewrite firstn_length; lia).
    unfold time_open. destruct p as [|c t]; [cbn; rewrite msm_nil_r; reflexivity|].
    pose proof (hd_horner_all (c :: t) alpha) as Hh.
    destruct (horner_all (c :: t) alpha) as [|e q] eqn:E; [cbn in E; discriminate|].
    cbn [hd tl] in *. subst e. f_equal.
    assert (Lq : (length q <= length (c :: t))%nat).
    { pose proof (horner_all_length (c :: t) alpha) as L. rewrite E in L. cbn [length] in *. lia. }
    clear E. revert Lq. generalize (sk_g ck). generalize (length (c :: t)). clear.
    intros n gs; revert n q. induction gs as [|g gs IH]; intros n q Hq; destruct n; destruct q; cbn [firstn msm length] in *; try reflexivity; try lia.
    rewrite IH by lia. reflexivity.
  Qed.

  Lemma msm_rev : forall bs ss, length bs = length ss -> msm (rev bs) (rev ss) = msm bs ss.
  Proof.
    induction bs as [|b bs IH]; intros ss Hl; destruct ss as [|s ss]; cbn in Hl; try lia; [reflexivity|].
    cbn [rev msm]. rewrite <- IH by lia.
    assert (G : forall l1 l2 (x y : F), length l1 = length l2 -> msm (l1 ++ [x]) (l2 ++ [y]) = msm l1 l2 + x * y).
    { induction l1 as [|a l1 IHl]; intros l2 x y H; destruct l2 as [|c l2]; cbn in H; try lia; cbn [app msm]; [ring|rewrite IHl by lia; ring]. }
    rewrite G by (rewrite !rev_length; lia). ring.
  Qed.

  Theorem space_commit_eq_time_commit ck p :
    (length p <= length (sk_g ck))%nat -> space_commit ck p = Ok (time_commit ck p).
  Proof.
    intros Hl. unfold space_commit, time_commit. destruct (Nat.ltb_spec (length (sk_g ck)) (length p)); [lia|].
    f_equal. rewrite skipn_rev_firstn by exact Hl. rewrite msm_rev by (rewrite firstn_length; lia). apply msm_firstn.
  Qed.

  (* ---- verifier ---- *)
  Lemma sk_new_shape D m tau g h : (1 <= m)%nat -> (m <= D)%nat ->
    exists gs hs, sk_g (sk_new D m tau g h) = g * 1 :: gs /\ sk_g2 (sk_new D m tau g h) = h * 1 :: h * (1 * tau) :: hs /\
                  sk_g (sk_new D m tau g h) = map (fun s => g * s) (powers tau (D + 1)).
  Proof.
    intros H1 H2. unfold sk_new. cbn [sk_g sk_g2]. unfold powers.
    replace (D + 1)%nat with (S (S (D - 1))) by lia. replace (m + 1)%nat with (S (S (m - 1))) by lia.
    cbn [powers_from firstn map]. eexists; eexists; repeat split.
  Qed.

  (* both provers' proofs are accepted for the true evaluation *)
  Theorem verify_complete D m tau g h p alpha :
    (1 <= m)%nat -> (m <= D)%nat -> (length p <= D + 1)%nat ->
    let ck := sk_new D m tau g h in
    verify ck (time_commit ck p) alpha (fst (time_open ck p alpha)) (snd (time_open ck p alpha)) = Ok true.
  Proof.
    intros H1 H2 Hp ck. destruct (sk_new_shape D m tau g h H1 H2) as (gs & hs & Eg & Eh & Egm).
    unfold verify. fold ck in Eg, Eh, Egm. rewrite Eg, Eh. f_equal. apply FL_eqb.
    unfold verify_residual, time_commit, time_open. rewrite Egm.
    pose proof (horner_quotient p alpha tau) as Q.
    destruct p as [|c t].
    - cbn [horner_all fst snd msm]. destruct (map _ _); cbn [msm]; ring.
    - pose proof (hd_horner_all (c :: t) alpha) as Hh. pose proof (horner_all_length (c :: t) alpha) as Ll.
      destruct (horner_all (c :: t) alpha) as [|e q] eqn:E; [cbn in E; discriminate|].
      cbn [hd tl fst snd length] in *. subst e.
      rewrite !msm_powers by (cbn [length] in *; lia).
      transitivity (g * h * ((eval (c :: t) tau - eval (c :: t) alpha) - (tau - alpha) * eval q tau)); [ring|].
      rewrite Q. ring.
  Qed.

  (* ... and for no other value *)
  Theorem verify_value_binding ck c alpha v v' pi g0 gs h0 h1 hs :
    sk_g ck = g0 :: gs -> sk_g2 ck = h0 :: h1 :: hs -> g0 <> 0 -> h0 <> 0 ->
    verify ck c alpha v pi = Ok true -> v' <> v -> verify ck c alpha v' pi = Ok false.
  Proof.
    intros Eg Eh Hg Hh Hv Hne. unfold verify in *. rewrite Eg, Eh in *. f_equal.
    injection Hv as Hv. apply FL_eqb in Hv. apply feqb_false. intros E.
    unfold verify_residual in *. apply Hne.
    apply (fmul_cancel_l (g0 * h0)); [apply fmul_neq_0; assumption|].
    transitivity (c * h0 - pi * (h1 - alpha * h0) - ((c - g0 * v') * h0 - pi * (h1 - alpha * h0))); [ring|].
    rewrite E. rewrite <- Hv. ring.
  Qed.

  (* ---- folding ---- *)
  Lemma fold1_length ch : forall l, length (fold1 ch l) = (length l / 2)%nat.
  Proof.
    intros l. remember (length l) as n eqn:Hn. revert l Hn.
    induction n as [n IH] using lt_wf_ind. intros l Hn.
    destruct l as [|a [|b t]]; cbn [fold1 length] in *; subst; try reflexivity.
    rewrite (IH (length t)); [|lia|reflexivity].
    change (S (S (length t))) with (2 + length t)%nat.
    replace (2 + length t)%nat with (length t + 1 * 2)%nat by lia. rewrite Nat.div_add by lia. lia.
  Qed.

  (* big-endian evaluation *)
  Definition eval_be (l : list F) (x : F) : F := fold_left (fun acc c => acc * x + c) l 0.

  Lemma eval_be_acc : forall l x a, fold_left (fun acc c => acc * x + c) l a = a * fpow x (length l) + eval_be l x.
  Proof.
    induction l as [|c t IH]; intros x a; unfold eval_be; cbn [fold_left length fpow]; [ring|].
    rewrite (IH x (a * x + c)), (IH x (0 * x + c)). ring.
  Qed.

  (* one folding step with challenge ch evaluates, at x^2, to the even part plus ch times the odd
     part of the input: in particular with ch = x it reproduces p(x) *)
  Theorem fold1_at_square : forall l x, Nat.even (length l) = true ->
      eval_be (fold1 x l) (x * x) = eval_be l x.
  Proof.
    intros l x. remember (length l) as n eqn:Hn. revert l Hn.
    induction n as [n IH] using lt_wf_ind. intros l Hn He.
    destruct l as [|a [|b t]]; cbn [fold1 length] in *; subst.
    - reflexivity.
    - cbn in He. discriminate.
    - unfold eval_be at 1 2. cbn [fold_left]. rewrite !eval_be_acc.
      rewrite (IH (length t)); [|lia|reflexivity|exact He].
      rewrite fold1_length.
      assert (Hp : fpow (x * x) (length t / 2) = fpow x (length t)).
      { cbn [Nat.even] in He. clear - He FL. remember (length t) as m. clear Heqm.
        assert (G : forall k, fpow (x * x) k = fpow x (2 * k)).
        { induction k as [|k IHk]; [reflexivity|]. replace (2 * S k)%nat with (S (S (2 * k))) by lia. cbn [fpow]. rewrite IHk. ring. }
        apply Nat.even_spec in He. destruct He as [k ->]. rewrite (Nat.mul_comm 2 k), Nat.div_mul by lia. rewrite (Nat.mul_comm k 2). apply G. }
      rewrite Hp. ring.
  Qed.
End StreamFacts.
