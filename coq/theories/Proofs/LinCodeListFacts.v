(* Linear-code schemes at the trait level: the list-level open / check on the shared transcript are complete for every
   linear encoder (column relation) and every tensor function, and leave the transcript in the same state; with the generic
   completeness of the default batch functions this gives completeness of batch_open / batch_check for Ligero and Brakedown. *)
From Coq Require Import List Arith NArith Bool Lia Field Ring.
From PC Require Import Base.Field Base.Result Base.Poly Base.OrdMap Proofs.PolyFacts Schemes.CalcT Schemes.Ligero Proofs.LigeroFacts
     Schemes.LC Schemes.DefaultBatch Proofs.DefaultBatchFacts Proofs.DefaultBatchComplete Schemes.LinCodeList.
Import ListNotations.
Open Scope F_scope.

Section LinCodeListFacts.
  Context {FO : FieldOps} {FL : FieldLaws FO}.
  Variable tensor : list F -> nat -> nat -> res (list F * list F).

  (* the commitment is the ideal vector commitment of the encoded rows, and the encoder is linear on them *)
  Definition honest_cm (cm : LCm) (rows : list (list F)) : Prop :=
    (forall v j, (j < cm_n_ext cm)%nat ->
                 ip v (col j (map (cm_enc cm) rows)) = nth j (cm_enc cm (rowcomb rows (cm_n_cols cm) v)) 0) /\
    cm_cext cm = map (cm_enc cm) rows.

  Lemma l_open_e_shape enc wf n_cols n_ext rows b r idx pf :
    l_open_e enc wf n_cols n_ext rows b r idx = Ok pf ->
    lf_v pf = rowcomb rows n_cols b /\ lf_wf pf = (if wf then Some (rowcomb rows n_cols r) else None).
  Proof.
    unfold l_open_e, row_mul. intros H. destruct wf.
    - destruct (negb (length r =? length rows)%nat); cbn [bind] in H; [discriminate|].
      destruct (negb (length b =? length rows)%nat); cbn [bind] in H; [discriminate|].
      destruct (existsb _ idx); [discriminate|]. injection H as <-. split; reflexivity.
    - cbn [bind] in H. destruct (negb (length b =? length rows)%nat); cbn [bind] in H; [discriminate|].
      destruct (existsb _ idx); [discriminate|]. injection H as <-. split; reflexivity.
  Qed.
  Lemma rowcomb_length rows n_cols v : length (rowcomb rows n_cols v) = n_cols.
  Proof. unfold rowcomb. rewrite map_length, seq_length. reflexivity. Qed.

  (* the value an honest opening proves: <b.M, a> *)
  Definition lc_value (pt : list F) (it : LCm * list (list F)) : F :=
    match tensor pt (cm_n_cols (fst it)) (cm_n_rows (fst it)) with
    | Ok (a, b) => ip (rowcomb (snd it) (cm_n_cols (fst it)) b) a
    | _ => 0
    end.

  Lemma lc_check_one_complete wf cm rows pt tape pf rest :
    honest_cm cm rows ->
    lc_open_one tensor wf cm rows pt tape = Ok (pf, rest) ->
    lc_check_one tensor wf cm pt (lc_value pt (cm, rows)) pf tape = Ok (true, rest).
  Proof.
    intros [Hcode Hcext] H. unfold lc_open_one in H. unfold lc_value. cbn [fst snd].
    destruct (tensor pt (cm_n_cols cm) (cm_n_rows cm)) as [[a b]| |] eqn:Et; cbn [bind fst snd] in H; try discriminate.
    unfold lc_check_one. rewrite Et.
    destruct wf.
    - destruct (pop_field tape) as [[r tape1]| |] eqn:Ep; cbn [bind fst snd] in H; try discriminate.
      destruct (row_mul rows (cm_n_cols cm) r) as [wv| |]; cbn [bind] in H; try discriminate.
      destruct (cm_t cm) as [t| |]; cbn [bind] in H |- *; try discriminate.
      destruct (row_mul rows (cm_n_cols cm) b) as [bv| |]; cbn [bind] in H; try discriminate.
      destruct (pop_indices (cm_n_ext cm) t tape1) as [[idx tape2]| |] eqn:Ei; cbn [bind fst snd] in H; try discriminate.
      destruct (l_open_e (cm_enc cm) true (cm_n_cols cm) (cm_n_ext cm) rows b r idx) as [pf0| |] eqn:Eo; cbn [bind] in H; try discriminate.
      injection H as <- <-.
      destruct (l_open_e_shape _ _ _ _ _ _ _ _ _ Eo) as [Ev Ew]. rewrite Ev, Ew. cbn beta iota.
      rewrite !rowcomb_length, Nat.eqb_refl. cbn [negb].
      cbn [bind fst snd]. rewrite ?Ei. cbn [bind fst snd].
      rewrite l_check_item_honest; [reflexivity|].
      exists (cm_n_ext cm), rows, a, b. cbn [li_enc li_n_cols li_cext li_ab li_value li_pf li_r li_idx].
      repeat split; try assumption. rewrite Ev. reflexivity.
    - cbn [bind fst snd] in H.
      destruct (cm_t cm) as [t| |]; cbn [bind] in H |- *; try discriminate.
      destruct (row_mul rows (cm_n_cols cm) b) as [bv| |]; cbn [bind] in H; try discriminate.
      destruct (pop_indices (cm_n_ext cm) t tape) as [[idx tape2]| |] eqn:Ei; cbn [bind fst snd] in H; try discriminate.
      destruct (l_open_e (cm_enc cm) false (cm_n_cols cm) (cm_n_ext cm) rows b [] idx) as [pf0| |] eqn:Eo; cbn [bind] in H; try discriminate.
      injection H as <- <-.
      destruct (l_open_e_shape _ _ _ _ _ _ _ _ _ Eo) as [Ev Ew]. rewrite Ev, !rowcomb_length, Nat.eqb_refl. cbn [negb bind fst snd].
      cbn [bind fst snd]. rewrite ?Ei. cbn [bind fst snd].
      rewrite l_check_item_honest; [reflexivity|].
      exists (cm_n_ext cm), rows, a, b. cbn [li_enc li_n_cols li_cext li_ab li_value li_pf li_r li_idx].
      repeat split; try assumption. rewrite Ev. reflexivity.
  Qed.

  Definition R_lc (it : LCm * list (list F)) (c : LCm) : Prop := c = fst it /\ honest_cm (fst it) (snd it).

  (* the whole list on the shared transcript *)
  Theorem lc_list_complete wf : forall items cs pt tape pfs rest,
    Forall2 R_lc items cs ->
    lc_open_list tensor wf items pt tape = Ok (pfs, rest) ->
    lc_check_list tensor wf cs pt (map (lc_value pt) items) pfs tape = Ok (true, rest).
  Proof.
    induction items as [|[cm rows] items IH]; intros cs pt tape pfs rest HF H.
    - inversion HF; subst. cbn [lc_open_list] in H. injection H as <- <-. reflexivity.
    - destruct cs as [|c cs]; [inversion HF|].
      assert (HP : R_lc (cm, rows) c /\ Forall2 R_lc items cs) by (inversion HF; split; assumption).
      destruct HP as [[Hc Hh] HF']. cbn [fst snd] in Hc, Hh. subst c.
      cbn [lc_open_list] in H.
      destruct (lc_open_one tensor wf cm rows pt tape) as [[pf tape1]| |] eqn:Eo; cbn [bind fst snd] in H; try discriminate.
      destruct (lc_open_list tensor wf items pt tape1) as [[pfs1 tape2]| |] eqn:El; cbn [bind fst snd] in H; try discriminate.
      injection H as <- <-.
      cbn [map lc_check_list]. rewrite (lc_check_one_complete wf cm rows pt tape pf tape1 Hh Eo). cbn [bind fst snd].
      apply IH; assumption.
  Qed.

  (* batch_open then batch_check (the trait defaults, used by Ligero and Brakedown): accepted, same final transcript state *)
  Theorem lc_batch_complete wf items cs qs ev tape pfs rest :
    maps_agree LCm (LCm * list (list F)) R_lc (label_map items) (label_map cs) ->
    (forall pl pt labels, In (pl, (pt, labels)) (groups qs) ->
       evals_true (LCm * list (list F)) (fun it pt => lc_value pt it) (label_map items) ev pt labels) ->
    default_batch_open (LCm * list (list F)) (list LProof) (list sq_ev) (lc_open_list tensor wf) items qs tape = Ok (pfs, rest) ->
    default_batch_check LCm (list LProof) (list sq_ev) (lc_check_list tensor wf) cs qs ev pfs tape = Ok (true, rest).
  Proof.
    intros Hm He H.
    refine (default_batch_complete LCm (LCm * list (list F)) (list LProof) (list sq_ev)
             (lc_check_list tensor wf) (lc_open_list tensor wf) R_lc (fun it pt => lc_value pt it) _ items cs qs ev tape pfs rest Hm He H).
    intros its cs0 pt st pf st' HF Ho. exact (lc_list_complete wf its cs0 pt st pf st' HF Ho).
  Qed.
End LinCodeListFacts.
