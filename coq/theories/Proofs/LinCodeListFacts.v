(* Linear-code schemes at the trait level: the list-level open / check on the shared transcript are complete for every
   linear encoder (column relation) and every tensor function, and leave the transcript in the same state; with the generic
   completeness of the default batch functions this gives completeness of batch_open / batch_check for Ligero and Brakedown. *)
From Coq Require Import List Arith NArith Bool Lia Field Ring.
From PC Require Import Base.Field Base.Result Base.Poly Base.OrdMap Proofs.PolyFacts Schemes.CalcT Schemes.Ligero Proofs.LigeroFacts
     Schemes.LC Schemes.DefaultBatch Proofs.DefaultBatchFacts Proofs.DefaultBatchComplete Proofs.DefaultLCComplete Schemes.LinCodeList.
Import ListNotations.
Open Scope F_scope.

Section LinCodeListFacts.
  Context {FO : FieldOps} {FL : FieldLaws FO}.
  Variable tensor : list F -> nat -> nat -> res (list F * list F).

  (* the commitment is the ideal vector commitment of the encoded rows, and the encoder is linear on them *)
  Definition honest_cm (cm : LCm) (rows : list (list F)) : Prop :=
    (forall v j, (j < cm_n_ext cm)%nat ->
                 ip v (col j (map (cm_enc cm) rows)) = nth j (cm_enc cm (rowcomb rows (cm_n_cols cm) v)) 0) /\
    cm_cext cm = map (cm_enc cm) rows.

  Lemma l_open_e_shape enc wf n_cols n_ext rows b r idx pf :
    l_open_e enc wf n_cols n_ext rows b r idx = Ok pf ->
    lf_v pf = rowcomb rows n_cols b /\ lf_wf pf = (if wf then Some (rowcomb rows n_cols r) else None).
  Proof.
    unfold l_open_e, row_mul. intros H. destruct wf.
    - destruct (negb (length r =? length rows)%nat); cbn [bind] in H; [discriminate|].
      destruct (negb (length b =? length rows)%nat); cbn [bind] in H; [discriminate|].
      destruct (existsb _ idx); [discriminate|]. injection H as <-. split; reflexivity.
    - cbn [bind] in H. destruct (negb (length b =? length rows)%nat); cbn [bind] in H; [discriminate|].
      destruct (existsb _ idx); [discriminate|]. injection H as <-. split; reflexivity.
  Qed.
  Lemma rowcomb_length rows n_cols v : length (rowcomb rows n_cols v) = n_cols.
  Proof. unfold rowcomb. rewrite map_length, seq_length. reflexivity. Qed.

  (* the value an honest opening proves: <b.M, a> *)
  Definition lc_value (pt : list F) (it : LCm * list (list F)) : F :=
    match tensor pt (cm_n_cols (fst it)) (cm_n_rows (fst it)) with
    | Ok (a, b) => ip (rowcomb (snd it) (cm_n_cols (fst it)) b) a
    | _ => 0
    end.

  Lemma lc_check_one_complete wf cm rows pt tape pf rest :
    honest_cm cm rows ->
    lc_open_one tensor wf cm rows pt tape = Ok (pf, rest) ->
    lc_check_one tensor wf cm pt (lc_value pt (cm, rows)) pf tape = Ok (true, rest).
  Proof.
    intros [Hcode Hcext] H. unfold lc_open_one in H. unfold lc_value. cbn [fst snd].
    destruct (tensor pt (cm_n_cols cm) (cm_n_rows cm)) as [[a b]| |] eqn:Et; cbn [bind fst snd] in H; try discriminate.
    unfold lc_check_one. rewrite Et.
    destruct wf.
    - destruct (pop_field tape) as [[r tape1]| |] eqn:Ep; cbn [bind fst snd] in H; try discriminate.
      destruct (row_mul rows (cm_n_cols cm) r) as [wv| |]; cbn [bind] in H; try discriminate.
      destruct (cm_t cm) as [t| |]; cbn [bind] in H |- *; try discriminate.
      destruct (row_mul rows (cm_n_cols cm) b) as [bv| |]; cbn [bind] in H; try discriminate.
      destruct (pop_indices (cm_n_ext cm) t tape1) as [[idx tape2]| |] eqn:Ei; cbn [bind fst snd] in H; try discriminate.
      destruct (l_open_e (cm_enc cm) true (cm_n_cols cm) (cm_n_ext cm) rows b r idx) as [pf0| |] eqn:Eo; cbn [bind] in H; try discriminate.
      injection H as <- <-.
      destruct (l_open_e_shape _ _ _ _ _ _ _ _ _ Eo) as [Ev Ew]. rewrite Ev, Ew. cbn beta iota.
      rewrite !rowcomb_length, Nat.eqb_refl. cbn [negb].
      cbn [bind fst snd]. rewrite ?Ei. cbn [bind fst snd].
      rewrite l_check_item_honest; [reflexivity|].
      exists (cm_n_ext cm), rows, a, b. cbn [li_enc li_n_cols li_cext li_ab li_value li_pf li_r li_idx].
      repeat split; try assumption. rewrite Ev. reflexivity.
    - cbn [bind fst snd] in H.
      destruct (cm_t cm) as [t| |]; cbn [bind] in H |- *; try discriminate.
      destruct (row_mul rows (cm_n_cols cm) b) as [bv| |]; cbn [bind] in H; try discriminate.
      destruct (pop_indices (cm_n_ext cm) t tape) as [[idx tape2]| |] eqn:Ei; cbn [bind fst snd] in H; try discriminate.
      destruct (l_open_e (cm_enc cm) false (cm_n_cols cm) (cm_n_ext cm) rows b [] idx) as [pf0| |] eqn:Eo; cbn [bind] in H; try discriminate.
      injection H as <- <-.
      destruct (l_open_e_shape _ _ _ _ _ _ _ _ _ Eo) as [Ev Ew]. rewrite Ev, !rowcomb_length, Nat.eqb_refl. cbn [negb bind fst snd].
      cbn [bind fst snd]. rewrite ?Ei. cbn [bind fst snd].
      rewrite l_check_item_honest; [reflexivity|].
      exists (cm_n_ext cm), rows, a, b. cbn [li_enc li_n_cols li_cext li_ab li_value li_pf li_r li_idx].
      repeat split; try assumption. rewrite Ev. reflexivity.
  Qed.

  (* ---- an honest opening authenticates exactly t columns, at positions inside the codeword (C13) ---- *)
  Lemma pop_bytes_length : forall t tape bs rest, pop_bytes t tape = Ok (bs, rest) -> length bs = t.
  Proof.
    induction t as [|t IH]; intros tape bs rest H; cbn [pop_bytes] in H.
    - injection H as <- _. reflexivity.
    - destruct tape as [|[l|b] tape']; try discriminate.
      destruct (pop_bytes t tape') as [[bs1 r1]| |] eqn:E; cbn [bind fst snd] in H; try discriminate.
      injection H as <- _. cbn [length]. f_equal. exact (IH _ _ _ E).
  Qed.
  Lemma indices_of_spec n : forall sq idx, indices_of n sq = Ok idx ->
    length idx = length sq /\ Forall (fun i => (i < n)%N) idx.
  Proof.
    unfold indices_of. induction sq as [|b sq IH]; intros idx H; cbn [mapM] in H.
    - injection H as <-. split; [reflexivity|constructor].
    - unfold index_of_bytes at 1 in H. destruct (n =? 0)%N eqn:En; cbn [bind] in H; [discriminate|].
      destruct (mapM (index_of_bytes n) sq) as [r| |]; cbn [bind] in H; try discriminate.
      injection H as <-. destruct (IH r eq_refl) as [L Hf]. split; [cbn [length]; f_equal; exact L|].
      constructor; [|exact Hf]. apply N.mod_lt. apply N.eqb_neq in En. exact En.
  Qed.
  Theorem lc_open_one_columns wf cm rows pt tape pf rest t :
    cm_t cm = Ok t -> lc_open_one tensor wf cm rows pt tape = Ok (pf, rest) ->
    length (lf_paths pf) = t /\ length (lf_cols pf) = t /\
    Forall (fun p => (lpt_index p < cm_n_ext cm)%nat /\ lpt_intact p = true) (lf_paths pf).
  Proof.
    intros Ht H. unfold lc_open_one in H. rewrite Ht in H.
    destruct (tensor pt (cm_n_cols cm) (cm_n_rows cm)) as [[a b]| |]; cbn [bind fst snd] in H; try discriminate.
    match type of H with context [bind ?X _] => destruct X as [rr| |] end; cbn [bind] in H; try discriminate.
    match type of H with context [bind ?X _] => destruct X as [u| |] end; cbn [bind] in H; try discriminate.
    destruct (row_mul rows (cm_n_cols cm) b) as [bv| |]; cbn [bind] in H; try discriminate.
    unfold pop_indices in H.
    destruct (pop_bytes t (snd rr)) as [[bs r1]| |] eqn:Ep; cbn [bind fst snd] in H; try discriminate.
    destruct (indices_of (N.of_nat (cm_n_ext cm)) bs) as [idx| |] eqn:Ei; cbn [bind fst snd] in H; try discriminate.
    match type of H with context [bind ?X _] => destruct X as [pf0| |] eqn:Eo end; cbn [bind] in H; try discriminate.
    injection H as <- _.
    destruct (indices_of_spec _ _ _ Ei) as [Li Hi]. pose proof (pop_bytes_length _ _ _ _ Ep) as Lb.
    unfold l_open_e in Eo.
    match type of Eo with context [bind ?X _] => destruct X as [wfv| |] end; cbn [bind] in Eo; try discriminate.
    match type of Eo with context [bind ?X _] => destruct X as [v| |] end; cbn [bind] in Eo; try discriminate.
    destruct (existsb _ (map N.to_nat idx)) eqn:Ex; [discriminate|]. injection Eo as <-. cbn [lf_paths lf_cols].
    rewrite !map_length. repeat split; try lia.
    apply Forall_forall. intros p Hin. apply in_map_iff in Hin. destruct Hin as (i & <- & Hin). cbn [lpt_index lpt_intact].
    split; [|reflexivity].
    apply in_map_iff in Hin. destruct Hin as (k & <- & Hk).
    rewrite Forall_forall in Hi. specialize (Hi k Hk). lia.
  Qed.

  (* ---- the verifier decides exactly the published relation (C10): lengths, every queried position's path and inner
     products, and the value ---- *)
  Theorem l_check_e_accepts_iff enc wf n_cols cext a b value pf r idx :
    l_check_e enc wf n_cols cext a b value pf r idx = Ok true <->
    length (lf_v pf) = n_cols /\
    (exists out,
        (if wf then match lf_wf pf with Some w => length w = n_cols /\ out = Some w | None => False end else out = None) /\
        path_loop cext (lf_cols pf) idx (lf_paths pf) = Ok tt /\
        ip_loop (match out with Some wfv => [(r, enc wfv); (b, enc (lf_v pf))] | None => [(b, enc (lf_v pf))] end)
                (lf_cols pf) idx = Ok tt) /\
    ip (lf_v pf) a = value.
  Proof.
    unfold l_check_e. split.
    - intros H.
      destruct (Nat.eqb_spec (length (lf_v pf)) n_cols) as [Lv|]; cbn [negb] in H; [|discriminate].
      split; [exact Lv|].
      destruct wf.
      + destruct (lf_wf pf) as [w|]; cbn [bind] in H; [|discriminate].
        destruct (Nat.eqb_spec (length w) n_cols) as [Lw|]; cbn [negb bind] in H; [|discriminate].
        destruct (path_loop cext (lf_cols pf) idx (lf_paths pf)) as [[]| |]; cbn [bind] in H; try discriminate.
        match type of H with context [ip_loop ?V _ _] => destruct (ip_loop V (lf_cols pf) idx) as [[]| |] eqn:Ei end; cbn [bind] in H; try discriminate.
        injection H as H. apply FL_eqb in H. split; [|exact H].
        exists (Some w). repeat split; try reflexivity; assumption.
      + cbn [bind] in H.
        destruct (path_loop cext (lf_cols pf) idx (lf_paths pf)) as [[]| |]; cbn [bind] in H; try discriminate.
        match type of H with context [ip_loop ?V _ _] => destruct (ip_loop V (lf_cols pf) idx) as [[]| |] eqn:Ei end; cbn [bind] in H; try discriminate.
        injection H as H. apply FL_eqb in H. split; [|exact H].
        exists None. repeat split; try reflexivity; assumption.
    - intros (Lv & (out & Hw & Hp & Hi) & Hv).
      rewrite Lv, Nat.eqb_refl. cbn [negb].
      destruct wf.
      + destruct (lf_wf pf) as [w|]; [|contradiction]. destruct Hw as [Lw ->].
        rewrite Lw, Nat.eqb_refl. cbn [negb bind]. rewrite Hp. cbn [bind]. rewrite Hi. cbn [bind].
        f_equal. apply FL_eqb. exact Hv.
      + subst out. cbn [bind]. rewrite Hp. cbn [bind]. rewrite Hi. cbn [bind]. f_equal. apply FL_eqb. exact Hv.
  Qed.

  (* ---- what both sides take from the transcript (C11): one field squeeze when well-formedness is on, then t byte squeezes,
     whatever the proof and the claimed value are ---- *)
  Lemma pop_bytes_spec : forall t tape bs rest, pop_bytes t tape = Ok (bs, rest) -> tape = map SqB bs ++ rest.
  Proof.
    induction t as [|t IH]; intros tape bs rest H; cbn [pop_bytes] in H.
    - injection H as <- <-. reflexivity.
    - destruct tape as [|[l|b] tape']; try discriminate.
      destruct (pop_bytes t tape') as [[bs1 r1]| |] eqn:E; cbn [bind fst snd] in H; try discriminate.
      injection H as <- <-. cbn [map app]. f_equal. exact (IH _ _ _ E).
  Qed.
  Definition consumed (wf : bool) (r : list F) (bs : list (list N)) : list sq_ev :=
    (if wf then [SqF r] else []) ++ map SqB bs.

  Theorem lc_check_one_consumes wf cm pt value pf tape res rest t :
    cm_t cm = Ok t -> lc_check_one tensor wf cm pt value pf tape = Ok (res, rest) ->
    exists r bs, tape = consumed wf r bs ++ rest /\ length bs = t.
  Proof.
    intros Ht H. unfold lc_check_one in H. rewrite Ht in H. cbn [bind] in H.
    destruct (negb (length (lf_v pf) =? cm_n_cols cm)%nat); [discriminate|].
    unfold consumed. destruct wf.
    - destruct (lf_wf pf) as [w|]; cbn [bind] in H; [|discriminate].
      destruct (negb (length w =? cm_n_cols cm)%nat); cbn [bind] in H; [discriminate|].
      unfold pop_field in H. destruct tape as [|[r|b] tape']; cbn [bind fst snd] in H; try discriminate.
      unfold pop_indices in H.
      destruct (pop_bytes t tape') as [[bs r1]| |] eqn:Ep; cbn [bind fst snd] in H; try discriminate.
      destruct (indices_of (N.of_nat (cm_n_ext cm)) bs) as [idx| |]; cbn [bind fst snd] in H; try discriminate.
      match type of H with context [bind ?X _] => destruct X as [bb| |] end; cbn [bind] in H; try discriminate.
      injection H as _ <-. exists r, bs. split; [|exact (pop_bytes_length _ _ _ _ Ep)].
      cbn [app]. f_equal. exact (pop_bytes_spec _ _ _ _ Ep).
    - cbn [bind fst snd] in H. unfold pop_indices in H.
      destruct (pop_bytes t tape) as [[bs r1]| |] eqn:Ep; cbn [bind fst snd] in H; try discriminate.
      destruct (indices_of (N.of_nat (cm_n_ext cm)) bs) as [idx| |]; cbn [bind fst snd] in H; try discriminate.
      match type of H with context [bind ?X _] => destruct X as [bb| |] end; cbn [bind] in H; try discriminate.
      injection H as _ <-. exists [], bs. split; [|exact (pop_bytes_length _ _ _ _ Ep)].
      cbn [app]. exact (pop_bytes_spec _ _ _ _ Ep).
  Qed.

  Theorem lc_open_one_consumes wf cm rows pt tape pf rest t :
    cm_t cm = Ok t -> lc_open_one tensor wf cm rows pt tape = Ok (pf, rest) ->
    exists r bs, tape = consumed wf r bs ++ rest /\ length bs = t.
  Proof.
    intros Ht H. unfold lc_open_one in H. rewrite Ht in H.
    destruct (tensor pt (cm_n_cols cm) (cm_n_rows cm)) as [[a b]| |]; cbn [bind fst snd] in H; try discriminate.
    unfold consumed. destruct wf.
    - unfold pop_field in H. destruct tape as [|[r|b0] tape']; cbn [bind fst snd] in H; try discriminate.
      destruct (row_mul rows (cm_n_cols cm) r) as [wv| |]; cbn [bind] in H; try discriminate.
      destruct (row_mul rows (cm_n_cols cm) b) as [bv| |]; cbn [bind] in H; try discriminate.
      unfold pop_indices in H.
      destruct (pop_bytes t tape') as [[bs r1]| |] eqn:Ep; cbn [bind fst snd] in H; try discriminate.
      destruct (indices_of (N.of_nat (cm_n_ext cm)) bs) as [idx| |]; cbn [bind fst snd] in H; try discriminate.
      match type of H with context [bind ?X _] => destruct X as [pf0| |] end; cbn [bind] in H; try discriminate.
      injection H as _ <-. exists r, bs. split; [|exact (pop_bytes_length _ _ _ _ Ep)].
      cbn [app]. f_equal. exact (pop_bytes_spec _ _ _ _ Ep).
    - cbn [bind fst snd] in H.
      destruct (row_mul rows (cm_n_cols cm) b) as [bv| |]; cbn [bind] in H; try discriminate.
      unfold pop_indices in H.
      destruct (pop_bytes t tape) as [[bs r1]| |] eqn:Ep; cbn [bind fst snd] in H; try discriminate.
      destruct (indices_of (N.of_nat (cm_n_ext cm)) bs) as [idx| |]; cbn [bind fst snd] in H; try discriminate.
      match type of H with context [bind ?X _] => destruct X as [pf0| |] end; cbn [bind] in H; try discriminate.
      injection H as _ <-. exists [], bs. split; [|exact (pop_bytes_length _ _ _ _ Ep)].
      cbn [app]. exact (pop_bytes_spec _ _ _ _ Ep).
  Qed.

  (* a verdict (accept or reject) is only given on a proof that carries at least t columns and t paths *)
  Lemma l_check_e_shape enc wf n_cols cext a b value pf r idx res :
    l_check_e enc wf n_cols cext a b value pf r idx = Ok res ->
    (length idx <= length (lf_cols pf))%nat /\ (length idx <= length (lf_paths pf))%nat.
  Proof.
    unfold l_check_e. intros H.
    destruct (negb (length (lf_v pf) =? n_cols)%nat); [discriminate|].
    match type of H with context [bind ?X _] => destruct X as [out| |] end; cbn [bind] in H; try discriminate.
    destruct (path_loop cext (lf_cols pf) idx (lf_paths pf)) as [[]| |] eqn:Ep; cbn [bind] in H; try discriminate.
    match type of H with context [ip_loop ?V _ _] => destruct (ip_loop V (lf_cols pf) idx) as [[]| |] eqn:Ei end; cbn [bind] in H; try discriminate.
    pose proof (ip_loop_ok_len _ _ _ Ei) as L1. split; [exact L1|]. exact (path_loop_ok_len _ _ _ _ Ep L1).
  Qed.
  Theorem lc_check_one_shape wf cm pt value pf tape res rest t :
    cm_t cm = Ok t -> lc_check_one tensor wf cm pt value pf tape = Ok (res, rest) ->
    (t <= length (lf_cols pf))%nat /\ (t <= length (lf_paths pf))%nat.
  Proof.
    intros Ht H. unfold lc_check_one in H. rewrite Ht in H. cbn [bind] in H.
    destruct (negb (length (lf_v pf) =? cm_n_cols cm)%nat); [discriminate|].
    match type of H with context [bind ?X _] => destruct X as [rr| |] end; cbn [bind] in H; try discriminate.
    unfold pop_indices in H.
    destruct (pop_bytes t (snd rr)) as [[bs r1]| |] eqn:Ep; cbn [bind fst snd] in H; try discriminate.
    destruct (indices_of (N.of_nat (cm_n_ext cm)) bs) as [idx| |] eqn:Ei; cbn [bind fst snd] in H; try discriminate.
    match type of H with context [bind ?X _] => destruct X as [bb| |] eqn:Ec end; cbn [bind] in H; try discriminate.
    destruct (indices_of_spec _ _ _ Ei) as [Li _]. pose proof (pop_bytes_length _ _ _ _ Ep) as Lb.
    unfold l_check_item in Ec. cbn [li_pf li_n_cols li_cext li_idx li_ab li_enc li_value li_r] in Ec.
    destruct (negb (length (lf_v pf) =? cm_n_cols cm)%nat); [discriminate|].
    match type of Ec with context [bind ?X _] => destruct X as [out| |] end; cbn [bind] in Ec; try discriminate.
    destruct (path_loop (cm_cext cm) (lf_cols pf) (map N.to_nat idx) (lf_paths pf)) as [[]| |]; cbn [bind] in Ec; try discriminate.
    destruct (tensor pt (cm_n_cols cm) (cm_n_rows cm)) as [[a b]| |]; cbn [bind fst snd] in Ec; try discriminate.
    destruct (l_check_e_shape _ _ _ _ _ _ _ _ _ _ _ Ec) as [L1 L2]. rewrite map_length in L1, L2. lia.
  Qed.

  (* ---- the proof determines the values (C02): an accepted value is <v, a> for the vector v the proof carries ---- *)
  Lemma l_check_e_value enc wf n_cols cext a b value pf r idx :
    l_check_e enc wf n_cols cext a b value pf r idx = Ok true -> value = ip (lf_v pf) a.
  Proof.
    unfold l_check_e. intros H.
    destruct (negb (length (lf_v pf) =? n_cols)%nat); [discriminate|].
    match type of H with context [bind ?X _] => destruct X as [out| |] end; cbn [bind] in H; try discriminate.
    destruct (path_loop cext (lf_cols pf) idx (lf_paths pf)) as [u| |]; cbn [bind] in H; try discriminate.
    match type of H with context [bind ?X _] => destruct X as [u2| |] end; cbn [bind] in H; try discriminate.
    injection H as H. apply FL_eqb in H. symmetry. exact H.
  Qed.
  Lemma l_check_item_value wf it : l_check_item wf it = Ok true ->
    exists a b, li_ab it = Ok (a, b) /\ li_value it = ip (lf_v (li_pf it)) a.
  Proof.
    unfold l_check_item. intros H.
    destruct (negb (length (lf_v (li_pf it)) =? li_n_cols it)%nat); [discriminate|].
    match type of H with context [bind ?X _] => destruct X as [out| |] end; cbn [bind] in H; try discriminate.
    destruct (path_loop (li_cext it) (lf_cols (li_pf it)) (li_idx it) (lf_paths (li_pf it))) as [u| |]; cbn [bind] in H; try discriminate.
    destruct (li_ab it) as [[a b]| |]; cbn [bind fst snd] in H; try discriminate.
    exists a, b. split; [reflexivity|]. exact (l_check_e_value _ _ _ _ _ _ _ _ _ _ H).
  Qed.
  Lemma lc_check_one_value wf cm pt value pf tape rest :
    lc_check_one tensor wf cm pt value pf tape = Ok (true, rest) ->
    exists a b, tensor pt (cm_n_cols cm) (cm_n_rows cm) = Ok (a, b) /\ value = ip (lf_v pf) a.
  Proof.
    unfold lc_check_one. intros H.
    destruct (cm_t cm) as [t| |]; cbn [bind] in H; try discriminate.
    destruct (negb (length (lf_v pf) =? cm_n_cols cm)%nat); [discriminate|].
    match type of H with context [bind ?X _] => destruct X as [rr| |] end; cbn [bind] in H; try discriminate.
    destruct (pop_indices (cm_n_ext cm) t (snd rr)) as [ix| |]; cbn [bind] in H; try discriminate.
    match type of H with context [bind ?X _] => destruct X as [bb| |] eqn:Ei end; cbn [bind] in H; try discriminate.
    injection H as -> _.
    destruct (l_check_item_value wf _ Ei) as (a & b & Hab & Hv). cbn [li_ab li_value li_pf] in Hab, Hv.
    exists a, b. split; assumption.
  Qed.

  (* two accepted value lists for the same commitments, point, proofs and transcript coincide *)
  Theorem lc_check_list_values wf : forall cms pt vs1 vs2 pfs tape r1 r2,
    length vs1 = length cms -> length vs2 = length cms ->
    lc_check_list tensor wf cms pt vs1 pfs tape = Ok (true, r1) ->
    lc_check_list tensor wf cms pt vs2 pfs tape = Ok (true, r2) -> vs1 = vs2.
  Proof.
    induction cms as [|cm cms IH]; intros pt vs1 vs2 pfs tape r1 r2 L1 L2 H1 H2.
    - destruct vs1; [|cbn in L1; lia]. destruct vs2; [|cbn in L2; lia]. reflexivity.
    - destruct vs1 as [|v1 vs1]; [cbn in L1; lia|]. destruct vs2 as [|v2 vs2]; [cbn in L2; lia|].
      cbn [lc_check_list] in H1, H2. destruct pfs as [|pf pfs]; [discriminate|].
      destruct (lc_check_one tensor wf cm pt v1 pf tape) as [[b1 t1]| |] eqn:E1; cbn [bind fst snd] in H1; try discriminate.
      destruct (lc_check_one tensor wf cm pt v2 pf tape) as [[b2 t2]| |] eqn:E2; cbn [bind fst snd] in H2; try discriminate.
      destruct b1; [|discriminate]. destruct b2; [|discriminate].
      destruct (lc_check_one_value wf cm pt v1 pf tape t1 E1) as (a1 & b1' & Ha1 & Hv1).
      destruct (lc_check_one_value wf cm pt v2 pf tape t2 E2) as (a2 & b2' & Ha2 & Hv2).
      rewrite Ha1 in Ha2. injection Ha2 as <- <-.
      assert (Et : t1 = t2).
      { (* the transcript consumed does not depend on the claimed value *)
        revert E1 E2. unfold lc_check_one.
        destruct (cm_t cm) as [t| |]; cbn [bind]; try discriminate.
        destruct (negb (length (lf_v pf) =? cm_n_cols cm)%nat); [discriminate|].
        match goal with |- context [bind ?X _] => destruct X as [rr| |] end; cbn [bind]; try discriminate.
        destruct (pop_indices (cm_n_ext cm) t (snd rr)) as [ix| |]; cbn [bind]; try discriminate.
        intros E1 E2.
        match type of E1 with context [bind ?X _] => destruct X as [bb1| |] end; cbn [bind] in E1; try discriminate.
        match type of E2 with context [bind ?X _] => destruct X as [bb2| |] end; cbn [bind] in E2; try discriminate.
        injection E1 as _ <-. injection E2 as _ <-. reflexivity. }
      subst t2. f_equal; [rewrite Hv1, Hv2; reflexivity|].
      exact (IH pt vs1 vs2 pfs t1 r1 r2 ltac:(cbn in L1; lia) ltac:(cbn in L2; lia) H1 H2).
  Qed.

  Definition R_lc (it : LCm * list (list F)) (c : LCm) : Prop := c = fst it /\ honest_cm (fst it) (snd it).

  (* the whole list on the shared transcript *)
  Theorem lc_list_complete wf : forall items cs pt tape pfs rest,
    Forall2 R_lc items cs ->
    lc_open_list tensor wf items pt tape = Ok (pfs, rest) ->
    lc_check_list tensor wf cs pt (map (lc_value pt) items) pfs tape = Ok (true, rest).
  Proof.
    induction items as [|[cm rows] items IH]; intros cs pt tape pfs rest HF H.
    - inversion HF; subst. cbn [lc_open_list] in H. injection H as <- <-. reflexivity.
    - destruct cs as [|c cs]; [inversion HF|].
      assert (HP : R_lc (cm, rows) c /\ Forall2 R_lc items cs) by (inversion HF; split; assumption).
      destruct HP as [[Hc Hh] HF']. cbn [fst snd] in Hc, Hh. subst c.
      cbn [lc_open_list] in H.
      destruct (lc_open_one tensor wf cm rows pt tape) as [[pf tape1]| |] eqn:Eo; cbn [bind fst snd] in H; try discriminate.
      destruct (lc_open_list tensor wf items pt tape1) as [[pfs1 tape2]| |] eqn:El; cbn [bind fst snd] in H; try discriminate.
      injection H as <- <-.
      cbn [map lc_check_list]. rewrite (lc_check_one_complete wf cm rows pt tape pf tape1 Hh Eo). cbn [bind fst snd].
      apply IH; assumption.
  Qed.

  (* batch_open then batch_check (the trait defaults, used by Ligero and Brakedown): accepted, same final transcript state *)
  Theorem lc_batch_complete wf items cs qs ev tape pfs rest :
    maps_agree LCm (LCm * list (list F)) R_lc (label_map items) (label_map cs) ->
    (forall pl pt labels, In (pl, (pt, labels)) (groups qs) ->
       evals_true (LCm * list (list F)) (fun it pt => lc_value pt it) (label_map items) ev pt labels) ->
    default_batch_open (LCm * list (list F)) (list LProof) (list sq_ev) (lc_open_list tensor wf) items qs tape = Ok (pfs, rest) ->
    default_batch_check LCm (list LProof) (list sq_ev) (lc_check_list tensor wf) cs qs ev pfs tape = Ok (true, rest).
  Proof.
    intros Hm He H.
    refine (default_batch_complete LCm (LCm * list (list F)) (list LProof) (list sq_ev)
             (lc_check_list tensor wf) (lc_open_list tensor wf) R_lc (fun it pt => lc_value pt it) _ items cs qs ev tape pfs rest Hm He H).
    intros its cs0 pt st pf st' HF Ho. exact (lc_list_complete wf its cs0 pt st pf st' HF Ho).
  Qed.

  (* open_combinations then check_combinations (the trait defaults): accepted, same final transcript state *)
  Theorem lc_combinations_complete wf lcs items cs eqn_qs eqn_ev tape pfs evs rest :
    maps_agree LCm (LCm * list (list F)) R_lc (label_map items) (label_map cs) ->
    one_point_per_label eqn_qs ->
    (forall q terms, In q eqn_qs -> OrdMap.lookup N.compare (fst q) (lcs_map lcs) = Some terms ->
        lookup_pk (fst q, snd (snd q)) eqn_ev
        = Some (LC.lc_value (item_value (LCm * list (list F)) (fun it pt => lc_value pt it) (label_map items) (snd (snd q))) terms)) ->
    default_open_combinations (LCm * list (list F)) (list LProof) (list sq_ev) (lc_open_list tensor wf) (fun it pt => lc_value pt it)
                              lcs items eqn_qs tape = Ok (pfs, evs, rest) ->
    default_check_combinations LCm (list LProof) (list sq_ev) (lc_check_list tensor wf) lcs cs eqn_qs eqn_ev pfs (Some evs) tape
    = Ok (true, rest).
  Proof.
    intros Hm Ho Hc H.
    refine (default_lc_complete LCm (LCm * list (list F)) (list LProof) (list sq_ev) (lc_check_list tensor wf) (lc_open_list tensor wf)
              R_lc (fun it pt => lc_value pt it) _ lcs items cs eqn_qs eqn_ev tape pfs evs rest Hm Ho Hc H).
    intros its cs0 pt st pf st' HF Ho'. exact (lc_list_complete wf its cs0 pt st pf st' HF Ho').
  Qed.
End LinCodeListFacts.
