(* Sonic open_combinations -> check_combinations: complete end to end, for combinations of polynomials without degree bounds
   under distinct combination labels.  The verifier's loop follows the prover's (same lookups, same policy, same combined
   commitment); the constants it moves out of the claims leave exactly the evaluations of the combined polynomials; the batch
   completeness theorem does the rest. *)
From Coq Require Import List Arith NArith Bool Lia Field Ring.
From PC Require Import Base.Field Base.Result Base.Poly Base.OrdMap Proofs.PolyFacts Proofs.OrdMapFacts
     Schemes.KZG10 Schemes.LC Schemes.Marlin Schemes.MarlinLC Schemes.Sonic Schemes.SonicLC
     Proofs.KZG10Facts Proofs.LCFacts Proofs.MarlinComplete Proofs.MarlinLCFacts Proofs.SonicFacts Proofs.SonicBatchFacts
     Proofs.SonicLCFacts Proofs.SonicBatchComplete.
Import ListNotations.
Open Scope F_scope.

Lemma mapM_Forall2 {A B} (f : A -> res B) : forall l r, mapM f l = Ok r -> Forall2 (fun a b => f a = Ok b) l r.
Proof.
  induction l as [|a t IH]; intros r H; cbn [mapM] in H.
  - injection H as <-. constructor.
  - destruct (f a) as [b| |] eqn:E; cbn [bind] in H; try discriminate.
    destruct (mapM f t) as [bs| |]; cbn [bind] in H; try discriminate. injection H as <-.
    constructor; [exact E|apply IH; reflexivity].
Qed.
Lemma Forall2_combine_in {A B} (P : A -> B -> Prop) : forall l r, Forall2 P l r ->
  (forall b, In b r -> exists a, In (a, b) (combine l r) /\ P a b) /\ (forall a b, In (a, b) (combine l r) -> P a b) /\ length l = length r.
Proof.
  induction 1 as [|a b l r Hab HF (I1 & I2 & I3)].
  - split; [intros b []|]. split; [intros a b []|reflexivity].
  - split; [|split].
    + intros b0 [<-|Hin]; [exists a; split; [left; reflexivity|exact Hab]|].
      destruct (I1 b0 Hin) as (a0 & H1 & H2). exists a0. split; [right; exact H1|exact H2].
    + intros a0 b0 [E|Hin]; [injection E as <- <-; exact Hab|exact (I2 a0 b0 Hin)].
    + cbn [length]. f_equal. exact I3.
Qed.

Section EvSub.
  Context {FO : FieldOps} {FL : FieldLaws FO}.
  Add Field Ffield48a : FL_field.

  Lemma qkey_cmp_eq : forall a b : qkey, qkey_cmp a b = Eq <-> a = b.
  Proof. apply cmp_pair_eq; [apply N.compare_eq_iff|apply FL_cmp]. Qed.

  (* what the verifier does to the claimed values while processing one combination *)
  Fixpoint ev_sub (lab : N) (terms : lc) (ev : evals) : evals :=
    match terms with
    | [] => ev
    | (c, TOne) :: t => ev_sub lab t (map (fun kv => if N.eqb (fst (fst kv)) lab then (fst kv, snd kv - c) else kv) ev)
    | (_, TPoly _) :: t => ev_sub lab t ev
    end.

  Lemma ev_sub_lookup lab : forall terms ev l pt,
    lookup qkey_cmp (l, pt) (ev_sub lab terms ev)
    = option_map (fun v => if N.eqb l lab then v - lc_const terms else v) (lookup qkey_cmp (l, pt) ev).
  Proof.
    induction terms as [|[c0 [|l0]] t IH]; intros ev l pt; cbn [ev_sub lc_const].
    - destruct (lookup qkey_cmp (l, pt) ev) as [v|]; cbn [option_map]; [|reflexivity]. destruct (N.eqb l lab); f_equal; ring.
    - rewrite IH.
      match goal with |- context [lookup qkey_cmp (l, pt) (map ?f ev)] =>
        replace (map f ev) with (map (fun kv : qkey * F => (fst kv, (fun (k : qkey) (v : F) => if N.eqb (fst k) lab then v - c0 else v) (fst kv) (snd kv))) ev)
          by (apply map_ext; intros [k v]; cbn [fst snd]; destruct (N.eqb (fst k) lab); reflexivity)
      end.
      pose proof (lookup_map_values qkey_cmp qkey_cmp_eq (fun (k : qkey) (v : F) => if N.eqb (fst k) lab then v - c0 else v) (l, pt) ev) as E.
      cbn beta in E. rewrite E. cbn [fst].
      destruct (lookup qkey_cmp (l, pt) ev) as [v|]; cbn [option_map]; [|reflexivity]. destruct (N.eqb l lab); f_equal; ring.
    - apply IH.
  Qed.

  Fixpoint ev_sub_all (lcs : list lcomb) (ev : evals) : evals :=
    match lcs with [] => ev | l :: t => ev_sub_all t (ev_sub (fst l) (snd l) ev) end.

  Lemma ev_sub_all_other : forall lcs ev lab pt, ~ In lab (map fst lcs) ->
    lookup qkey_cmp (lab, pt) (ev_sub_all lcs ev) = lookup qkey_cmp (lab, pt) ev.
  Proof.
    induction lcs as [|[l0 terms0] t IH]; intros ev lab pt Hn; cbn [ev_sub_all fst snd]; [reflexivity|].
    rewrite IH by (intros H; apply Hn; right; exact H). rewrite ev_sub_lookup.
    destruct (N.eqb_spec lab l0) as [->|Hne]; [exfalso; apply Hn; left; reflexivity|].
    destruct (lookup qkey_cmp (lab, pt) ev); reflexivity.
  Qed.
  Lemma ev_sub_all_lookup : forall lcs ev lab terms pt, NoDup (map fst lcs) -> In (lab, terms) lcs ->
    lookup qkey_cmp (lab, pt) (ev_sub_all lcs ev) = option_map (fun v => v - lc_const terms) (lookup qkey_cmp (lab, pt) ev).
  Proof.
    induction lcs as [|[l0 terms0] t IH]; intros ev lab terms pt Hd Hin; [destruct Hin|].
    cbn [map fst] in Hd. inversion Hd as [|? ? Hn Hd']; subst. cbn [ev_sub_all fst snd].
    destruct Hin as [E|Hin].
    - injection E as -> ->. rewrite ev_sub_all_other by exact Hn. rewrite ev_sub_lookup, N.eqb_refl. reflexivity.
    - rewrite (IH _ lab terms pt Hd' Hin), ev_sub_lookup.
      assert (Hne : N.eqb lab l0 = false).
      { apply N.eqb_neq. intros ->. apply Hn. apply in_map_iff. exists (l0, terms). split; [reflexivity|exact Hin]. }
      rewrite Hne. destruct (lookup qkey_cmp (lab, pt) ev); reflexivity.
  Qed.

End EvSub.

Section SonicLCComplete.
  Context {FO : FieldOps} {FL : FieldLaws FO}.
  Add Field Ffield48 : FL_field.
  Variables (g gam h beta : F) (n m : nat) (ck : SCKey) (vk : SVKey).
  Hypothesis Kg : sck_g ck = gpowers g 1 beta n.
  Hypothesis Kgg : sck_gamma ck = gpowers gam 1 beta m.
  Hypothesis V1 : vk_g (svk_vk vk) = g.
  Hypothesis V2 : vk_gamma_g (svk_vk vk) = gam.
  Hypothesis V3 : vk_h (svk_vk vk) = h.
  Hypothesis V4 : vk_beta_h (svk_vk vk) = h * beta.

  Definition sl_agree (lm : list (N * (LPoly * Rand * F))) (cm : list (N * (F * option nat))) : Prop :=
    forall l lp r c, lookup N.compare l lm = Some (lp, r, c) -> lookup N.compare l cm = Some (c, lp_bound lp).

  Lemma verifier_follows_prover lm cm lab num : sl_agree lm cm -> forall terms a a' ev,
    slc_prover_loop lm num terms a = Ok a' ->
    slc_verifier_loop cm lab num terms ev (sa_bound a) (sa_comm a) = Ok (ev_sub lab terms ev, sa_bound a', sa_comm a').
  Proof.
    intros Ha. induction terms as [|[c0 [|l]] t IH]; intros a a' ev H; cbn [slc_prover_loop] in H; cbn [slc_verifier_loop ev_sub].
    - injection H as <-. reflexivity.
    - exact (IH a a' _ H).
    - destruct (lookup N.compare l lm) as [[[lp st] c]|] eqn:El; [|discriminate].
      rewrite (Ha l lp st c El). cbn [fst snd].
      destruct (bound_policy num c0 (lp_bound lp) (sa_bound a)) as [b| |]; cbn [bind] in H |- *; try discriminate.
      exact (IH _ a' ev H).
  Qed.

  Lemma verifier_all_follows lm cm : sl_agree lm cm -> forall lcs trip ev,
    mapM (slc_prover_one lm) lcs = Ok trip ->
    slc_verifier_all cm lcs ev = Ok (map (fun lt : lcomb * (LPoly * Rand * (F * option nat)) => (fst (fst lt), snd (snd lt))) (combine lcs trip),
                                     ev_sub_all lcs ev).
  Proof.
    intros Ha. induction lcs as [|l t IH]; intros trip ev H; cbn [mapM] in H.
    - injection H as <-. reflexivity.
    - destruct (slc_prover_one lm l) as [t1| |] eqn:E1; cbn [bind] in H; try discriminate.
      destruct (mapM (slc_prover_one lm) t) as [ts| |] eqn:E2; cbn [bind] in H; try discriminate. injection H as <-.
      unfold slc_prover_one in E1.
      set (a0 := {| sa_poly := []; sa_bound := None; sa_hiding := None; sa_rand := []; sa_comm := 0 |}) in *.
      destruct (slc_prover_loop lm (length (snd l)) (snd l) a0) as [a| |] eqn:EL; cbn [bind] in E1; try discriminate.
      injection E1 as <-.
      cbn [slc_verifier_all].
      pose proof (verifier_follows_prover lm cm (fst l) (length (snd l)) Ha (snd l) a0 a ev EL) as Hv. cbn [sa_bound sa_comm a0] in Hv.
      rewrite Hv. cbn [bind]. rewrite (IH ts _ eq_refl). cbn [bind fst snd combine map]. reflexivity.
  Qed.

  (* ---- which combinations the prover accepts: polynomials without degree bounds, or one degree-bounded polynomial alone with
     coefficient one (the bound policy refuses everything else) ---- *)
  Lemma s_loop_num_ne1 (lm : list (N * (LPoly * Rand * F))) num : num <> 1%nat -> forall terms a a',
    slc_prover_loop lm num terms a = Ok a' ->
    forall co l lp st c, In (co, TPoly l) terms -> lookup N.compare l lm = Some (lp, st, c) -> lp_bound lp = None.
  Proof.
    intros Hn. induction terms as [|[c0 [|l]] t IH]; intros a a' H; cbn [slc_prover_loop] in H.
    - intros ? ? ? ? ? [].
    - intros co0 l0 lp st c [E|Hin]; [discriminate E|]. exact (IH _ _ H co0 l0 lp st c Hin).
    - destruct (lookup N.compare l lm) as [[[lp st] cm]|] eqn:El; [|discriminate].
      destruct (lp_bound lp) as [b|] eqn:Eb.
      + cbn [bound_policy] in H. destruct (Nat.eqb_spec num 1); [contradiction|]. cbn [bind] in H. discriminate.
      + cbn [bound_policy bind] in H. intros co0 l0 lp0 st0 c [E|Hin] Hl0.
        * injection E as _ <-. rewrite El in Hl0. injection Hl0 as <- _ _. exact Eb.
        * exact (IH _ _ H co0 l0 lp0 st0 c Hin Hl0).
  Qed.

  Lemma s_prover_cases (lm : list (N * (LPoly * Rand * F))) terms a0 a : slc_prover_loop lm (length terms) terms a0 = Ok a ->
    (forall co l lp st c, In (co, TPoly l) terms -> lookup N.compare l lm = Some (lp, st, c) -> lp_bound lp = None) \/
    exists c0 l lp st c b, terms = [(c0, TPoly l)] /\ feqb c0 f1 = true /\ lookup N.compare l lm = Some (lp, st, c) /\ lp_bound lp = Some b.
  Proof.
    intros H. destruct terms as [|t1 [|t2 rest]].
    - left. intros ? ? ? ? ? [].
    - destruct t1 as [c0 [|l]].
      + left. intros co0 l0 lp st c [E|[]]. discriminate E.
      + cbn [length slc_prover_loop] in H.
        destruct (lookup N.compare l lm) as [[[lp st] c]|] eqn:El; [|discriminate].
        destruct (lp_bound lp) as [b|] eqn:Eb.
        * right. cbn [bound_policy Nat.eqb] in H. destruct (feqb c0 f1) eqn:Ec; [|discriminate].
          exists c0, l, lp, st, c, b. repeat split; assumption.
        * left. intros co0 l0 lp0 st0 c1 [E|[]] Hl0. injection E as _ <-. rewrite El in Hl0. injection Hl0 as <- _ _. exact Eb.
    - left. apply (s_loop_num_ne1 lm (length (t1 :: t2 :: rest))) with (a := a0) (a' := a); [cbn [length]; lia|exact H].
  Qed.

  Theorem sonic_lc_complete lcs items cs qs ev chal vtape pfs rest :
    s_lm_honest vk h g gam beta m (s_label_map items) ->
    sl_agree (s_label_map items) (s_comm_map cs) ->
    NoDup (map fst lcs) ->
    (forall pl pt labels lab terms, In (pl, (pt, labels)) (group_queries qs) -> In lab labels -> In (lab, terms) lcs ->
        lookup qkey_cmp (lab, pt) (evals_map ev) = Some (lc_value (s_poly_of (s_label_map items) pt) terms)) ->
    (length (group_queries qs) <= length vtape)%nat ->
    s_open_combinations ck lcs items qs chal = Ok (pfs, rest) ->
    s_check_combinations vk lcs cs qs ev pfs chal vtape = Ok (true, rest, length (group_queries qs)).
  Proof.
    intros Hh Ha Hd Hcl Lt H. unfold s_open_combinations in H.
    set (lm := s_label_map items) in *.
    destruct (mapM (slc_prover_one lm) lcs) as [trip| |] eqn:Em; cbn [bind] in H; try discriminate.
    unfold s_check_combinations. rewrite (verifier_all_follows lm (s_comm_map cs) Ha lcs trip _ Em). cbn [bind fst snd].
    destruct (Forall2_combine_in _ _ _ (mapM_Forall2 _ _ _ Em)) as (I1 & I2 & I3).
    (* facts about every combined triple *)
    assert (Hone : forall l t, In (l, t) (combine lcs trip) ->
              s_honest vk h g gam beta m (fst (fst t), snd (fst t), fst (snd t)) /\ lp_label (fst (fst t)) = fst l /\
              snd (snd t) = lp_bound (fst (fst t)) /\
              forall x, eval (lp_poly (fst (fst t))) x + lc_const (snd l) = lc_value (s_poly_of lm x) (snd l)).
    { intros l [[lp st] c] Hin. pose proof (I2 _ _ Hin) as Ep. cbn [fst snd].
      assert (Hl : In l lcs) by (eapply in_combine_l; exact Hin).
      assert (Elab : lp_label lp = fst l).
      { unfold slc_prover_one in Ep. destruct (slc_prover_loop lm (length (snd l)) (snd l) _) as [a| |]; cbn [bind] in Ep; try discriminate.
        injection Ep as <- _ _. reflexivity. }
      assert (Ecases : (forall co lab lp' st' c', In (co, TPoly lab) (snd l) -> lookup N.compare lab lm = Some (lp', st', c') -> lp_bound lp' = None) \/
                       exists c0 l1 lp1 st1 c1 b, snd l = [(c0, TPoly l1)] /\ feqb c0 f1 = true /\ lookup N.compare l1 lm = Some (lp1, st1, c1) /\ lp_bound lp1 = Some b).
      { unfold slc_prover_one in Ep. destruct (slc_prover_loop lm (length (snd l)) (snd l) _) as [a| |] eqn:EL; cbn [bind] in Ep; try discriminate.
        exact (s_prover_cases lm (snd l) _ a EL). }
      destruct Ecases as [Hnb|(c0 & l1 & lp1 & st1 & c1 & b & Et & Hc0 & El1 & Eb1)].
      - destruct (slc_prover_one_unbounded vk h g gam beta m lm l lp st c Hh Hnb Ep) as (A1 & A2 & A3 & _ & A5). repeat split; assumption.
      - apply FL_eqb in Hc0. subst c0. destruct l as [lab0 terms0]. cbn [fst snd] in *. subst terms0.
        destruct (slc_prover_one_bounded_single vk h g gam beta m lm lab0 l1 lp1 st1 c1 b lp st c Hh El1 Eb1 Ep) as (A1 & A2 & A3 & A4).
        split; [exact A1|]. split; [exact Elab|]. split; [rewrite A2; exact A3|].
        intros x. cbn [lc_const lc_value term_value]. unfold s_poly_of. rewrite El1, A4. ring. }
    assert (Hkeys : map fst (map (fun lt : lcomb * (LPoly * Rand * (F * option nat)) => (fst (fst lt), snd (snd lt))) (combine lcs trip)) = map fst lcs).
    { rewrite map_map. cbn [fst]. clear - I3. revert trip I3. induction lcs as [|l t IH]; intros [|x trip] I3; cbn in I3; try lia; [reflexivity|].
      cbn [combine map fst]. f_equal. apply IH. lia. }
    refine (sonic_batch_m_complete g gam h beta n m ck vk Kg Kgg V1 V2 V3 V4
              (map (fun x : LPoly * Rand * (F * option nat) => (fst (fst x), snd (fst x))) trip) _ qs _ chal vtape pfs rest _ _ Lt H).
    - (* the maps of the combined items and commitments agree *)
      intros l it Hl. unfold s_poly_map in Hl. apply (lookup_of_list_some N.compare N.compare_eq_iff) in Hl.
      apply in_map_iff in Hl. destruct Hl as (it0 & E0 & Hin0). injection E0 as <- <-.
      apply in_map_iff in Hin0. destruct Hin0 as (t0 & <- & Ht0).
      destruct (I1 t0 Ht0) as (l0 & Hc0 & _). destruct (Hone l0 t0 Hc0) as (B1 & B2 & B3 & _).
      exists (snd t0). split.
      + unfold s_comm_map. apply (lookup_of_list_in N.compare N.compare_eq_iff); [exact (eq_ind_r (fun x => NoDup x) Hd Hkeys)|].
        apply in_map_iff. exists (l0, t0). cbn [fst snd]. rewrite B2. split; [reflexivity|exact Hc0].
      + split; [cbn [fst snd]; exact B3|cbn [fst snd]; exact B1].
    - (* the adjusted claims are the evaluations of the combined polynomials *)
      intros pl pt labels Hg l it Hl Hit. unfold s_poly_map in Hit. apply (lookup_of_list_some N.compare N.compare_eq_iff) in Hit.
      apply in_map_iff in Hit. destruct Hit as (it0 & E0 & Hin0). injection E0 as El <-.
      apply in_map_iff in Hin0. destruct Hin0 as (t0 & <- & Ht0).
      destruct (I1 t0 Ht0) as (l0 & Hc0 & _). destruct (Hone l0 t0 Hc0) as (_ & B2 & _ & B4). cbn [fst snd] in *.
      assert (Hl0 : In l0 lcs) by (eapply in_combine_l; exact Hc0).
      assert (El0 : l0 = (l, snd l0)) by (destruct l0 as [a b]; cbn [fst snd] in *; congruence).
      rewrite El0 in Hl0.
      rewrite (ev_sub_all_lookup lcs _ l (snd l0) pt Hd Hl0), (Hcl pl pt labels l (snd l0) Hg Hl Hl0). cbn [option_map]. f_equal.
      match goal with |- ?a - ?b = ?c => assert (E : a = c + b) by (symmetry; exact (B4 pt)); rewrite E; ring end.
  Qed.
End SonicLCComplete.
