(* Ligero (univariate), algebraic core with an ideal column commitment: the opened vector is the b-combination of the
   rows, every queried column check holds for the honest proof (completeness), the value is p(z), and a vector other
   than the b-combination of the committed rows can agree with the committed columns on fewer than n_cols positions of
   the n_ext = rho_inv * n_cols positions of the codeword (the distance the number of queries is computed from). *)
From Coq Require Import List Arith NArith Bool Lia Field Ring.
From PC Require Import Base.Field Base.Result Base.Poly Proofs.PolyFacts Schemes.CalcT Proofs.CalcTFacts Schemes.Ligero Schemes.MLPC Proofs.MLPCFacts.
Import ListNotations.
Open Scope F_scope.

Section LigeroFacts.
  Context {FO : FieldOps} {FL : FieldLaws FO}.
  Add Field Ffield27 : FL_field.

  (* ---------------- evaluation of index-defined vectors ---------------- *)
  Lemma eval_map_add {A} (f g : A -> F) x : forall l, eval (map (fun j => f j + g j) l) x = eval (map f l) x + eval (map g l) x.
  Proof. induction l as [|a l IH]; cbn [map eval]; [ring|]. rewrite IH. ring. Qed.
  Lemma eval_map_scale {A} (f : A -> F) c x : forall l, eval (map (fun j => c * f j) l) x = c * eval (map f l) x.
  Proof. induction l as [|a l IH]; cbn [map eval]; [ring|]. rewrite IH. ring. Qed.
  Lemma eval_map_zero {A} x : forall (l : list A), eval (map (fun _ => 0) l) x = 0.
  Proof. induction l as [|a l IH]; cbn [map eval]; [ring|]. rewrite IH. ring. Qed.

  Lemma map_nth_seq : forall n (r : list F), map (fun j => nth j r 0) (seq 0 n) = firstn n r ++ repeat 0 (n - length r).
  Proof.
    induction n as [|n IH]; intros r; [reflexivity|].
    cbn [seq map]. rewrite <- seq_shift, map_map. destruct r as [|a r].
    - cbn [nth firstn app length]. rewrite Nat.sub_0_r. cbn [repeat]. f_equal.
      clear IH. generalize (seq 0 n) (seq_length n 0). intros l. revert n.
      induction l as [|a l IHl]; intros n Hl; cbn in Hl; subst n; [reflexivity|]. cbn [map length repeat]. f_equal. apply IHl. reflexivity.
    - cbn [nth firstn app length]. f_equal. rewrite <- IH. reflexivity.
  Qed.

  Lemma eval_zeros' m z : eval (repeat 0 m) z = 0.
  Proof. induction m as [|m IH]; cbn [repeat eval]; [reflexivity|]. rewrite IH. ring. Qed.
  Lemma eval_app_zeros' : forall t m z, eval (t ++ repeat 0 m) z = eval t z.
  Proof. induction t as [|x t IH]; intros m z; cbn [app eval]; [apply eval_zeros'|]. rewrite IH. reflexivity. Qed.

  Lemma eval_row_pad n r x : (length r <= n)%nat -> eval (map (fun j => nth j r 0) (seq 0 n)) x = eval r x.
  Proof. intros H. rewrite map_nth_seq, firstn_all2 by exact H. apply eval_app_zeros'. Qed.

  (* the b-combination of the rows, evaluated *)
  Lemma row_comb_eval n x : forall (v : list F) (rows : list (list F)),
    Forall (fun r => (length r <= n)%nat) rows ->
    eval (map (fun j => ip v (col j rows)) (seq 0 n)) x = ip v (map (fun r => eval r x) rows).
  Proof.
    induction v as [|c v IH]; intros rows Hr.
    - cbn [ip]. apply eval_map_zero.
    - destruct rows as [|r rows]; [cbn [col map ip]; apply eval_map_zero|].
      inversion Hr as [|? ? Hr1 Hr2]; subst.
      cbn [col map ip]. fold (col 0 rows).
      transitivity (eval (map (fun j => c * nth j r 0 + ip v (col j rows)) (seq 0 n)) x); [reflexivity|].
      rewrite (eval_map_add (fun j => c * nth j r 0) (fun j => ip v (col j rows))), eval_map_scale, eval_row_pad, IH by assumption.
      reflexivity.
  Qed.
  (* ---------------- encoding and columns ---------------- *)
  Definition dom (omega : F) (n : nat) : list F := domain_from 1 omega n.
  Definition pt (omega : F) (n j : nat) : F := nth j (dom omega n) 0.

  Lemma nth_encode omega n msg j : (j < n)%nat -> nth j (encode omega n msg) 0 = eval msg (pt omega n j).
  Proof.
    intros H. unfold encode, rs_encode, pt, dom.
    rewrite (nth_indep _ 0 (eval msg 0)) by (rewrite map_length, domain_from_length; exact H).
    apply map_nth.
  Qed.

  Lemma col_ext omega n rows j : (j < n)%nat ->
    col j (map (encode omega n) rows) = map (fun r => eval r (pt omega n j)) rows.
  Proof.
    intros H. unfold col. rewrite map_map. apply map_ext. intros r. apply nth_encode. exact H.
  Qed.

  Definition rowcomb (rows : list (list F)) (n_cols : nat) (v : list F) : list F :=
    map (fun j => ip v (col j rows)) (seq 0 n_cols).

  (* the check of one column holds for the combination of the rows: linearity of the code *)
  Theorem column_check_complete omega n_ext n_cols rows b j :
    Forall (fun r => (length r <= n_cols)%nat) rows -> (j < n_ext)%nat ->
    ip b (col j (map (encode omega n_ext) rows)) = nth j (encode omega n_ext (rowcomb rows n_cols b)) 0.
  Proof.
    intros Hr Hj. rewrite col_ext, nth_encode by exact Hj. unfold rowcomb. rewrite row_comb_eval by exact Hr. reflexivity.
  Qed.

  Lemma list_feqb_refl : forall l : list F, list_feqb l l = true.
  Proof. induction l as [|x l IH]; cbn [list_feqb]; [reflexivity|]. rewrite feqb_refl, IH. reflexivity. Qed.
  Lemma list_feqb_eq : forall a b : list F, list_feqb a b = true -> a = b.
  Proof.
    induction a as [|x a IH]; intros [|y b] H; cbn [list_feqb] in H; try discriminate; [reflexivity|].
    apply andb_true_iff in H. destruct H as [H1 H2]. apply FL_eqb in H1. subst y. f_equal. apply IH. exact H2.
  Qed.

  (* ---------------- completeness of open / check ---------------- *)
  Lemma path_loop_honest cext : forall idx,
    path_loop cext (map (fun i => col i cext) idx) idx (map (fun i => mkLPth i true) idx) = Ok tt.
  Proof.
    induction idx as [|q idx IH]; [reflexivity|]. cbn [map path_loop lpt_index].
    rewrite Nat.eqb_refl. cbn [negb]. unfold path_verifies. cbn [lpt_intact lpt_index andb]. rewrite list_feqb_refl. cbn [negb].
    exact IH.
  Qed.

  Lemma ip_loop_honest omega n_ext n_cols rows (vs : list (list F)) : forall idx,
    Forall (fun r => (length r <= n_cols)%nat) rows -> Forall (fun i => (i < n_ext)%nat) idx ->
    ip_loop (map (fun v => (v, encode omega n_ext (rowcomb rows n_cols v))) vs)
            (map (fun i => col i (map (encode omega n_ext) rows)) idx) idx = Ok tt.
  Proof.
    intros idx Hr Hi. induction idx as [|q idx IH]; [reflexivity|].
    inversion Hi as [|? ? Hq Hi']; subst. cbn [map ip_loop].
    replace (forallb _ _) with true; [apply IH; exact Hi'|]. symmetry. apply forallb_forall.
    intros lw Hin. apply in_map_iff in Hin. destruct Hin as (v & <- & _). cbn [fst snd].
    rewrite (column_check_complete omega n_ext n_cols rows v q Hr Hq). apply feqb_refl.
  Qed.

  Theorem ligero_complete_g wf n_cols n_ext omega rows b r idx pf a :
    Forall (fun r => (length r <= n_cols)%nat) rows ->
    l_open_g wf n_cols n_ext omega rows b r idx = Ok pf ->
    l_check_g wf n_cols n_ext omega (map (encode omega n_ext) rows) a b (ip (lf_v pf) a) pf r idx = Ok true.
  Proof.
    intros Hr H. unfold l_open_g in H.
    assert (Hrm : forall v, row_mul rows n_cols v = if negb (length v =? length rows)%nat then Panic else Ok (rowcomb rows n_cols v))
      by reflexivity.
    destruct wf.
    - rewrite !Hrm in H. destruct (negb (length r =? length rows)%nat); cbn [bind] in H; [discriminate|].
      destruct (negb (length b =? length rows)%nat); cbn [bind] in H; [discriminate|].
      destruct (existsb _ idx) eqn:Ex; [discriminate|]. injection H as <-.
      assert (Hi : Forall (fun i => (i < n_ext)%nat) idx).
      { apply Forall_forall. intros i Hin. destruct (Nat.ltb_spec i n_ext) as [|Hge]; [assumption|].
        assert (existsb (fun i => (n_ext <=? i)%nat) idx = true) by (apply existsb_exists; exists i; split; [exact Hin|apply Nat.leb_le; exact Hge]).
        congruence. }
      unfold l_check_g. cbn [lf_v lf_wf lf_cols lf_paths].
      unfold rowcomb at 1. rewrite map_length, seq_length, Nat.eqb_refl. cbn [negb bind].
      unfold rowcomb at 1. rewrite map_length, seq_length, Nat.eqb_refl. cbn [negb bind].
      rewrite path_loop_honest. cbn [bind].
      pose proof (ip_loop_honest omega n_ext n_cols rows [r; b] idx Hr Hi) as E. cbn [map] in E.
      rewrite E. cbn [bind]. rewrite feqb_refl. reflexivity.
    - cbn [bind] in H. rewrite !Hrm in H.
      destruct (negb (length b =? length rows)%nat); cbn [bind] in H; [discriminate|].
      destruct (existsb _ idx) eqn:Ex; [discriminate|]. injection H as <-.
      assert (Hi : Forall (fun i => (i < n_ext)%nat) idx).
      { apply Forall_forall. intros i Hin. destruct (Nat.ltb_spec i n_ext) as [|Hge]; [assumption|].
        assert (existsb (fun i => (n_ext <=? i)%nat) idx = true) by (apply existsb_exists; exists i; split; [exact Hin|apply Nat.leb_le; exact Hge]).
        congruence. }
      unfold l_check_g. cbn [lf_v lf_wf lf_cols lf_paths].
      unfold rowcomb at 1. rewrite map_length, seq_length, Nat.eqb_refl. cbn [negb bind].
      rewrite path_loop_honest. cbn [bind].
      pose proof (ip_loop_honest omega n_ext n_cols rows [b] idx Hr Hi) as E. cbn [map] in E.
      rewrite E. cbn [bind]. rewrite feqb_refl. reflexivity.
  Qed.

  Theorem ligero_complete wf n_rows n_cols n_ext omega rows z r idx pf :
    length rows = n_rows -> Forall (fun r => (length r <= n_cols)%nat) rows ->
    l_open wf n_rows n_cols n_ext omega rows z r idx = Ok pf ->
    l_check wf n_rows n_cols n_ext omega (map (encode omega n_ext) rows) z
            (ip (lf_v pf) (fst (tensor_uni z n_cols n_rows))) pf r idx = Ok true.
  Proof. intros _ Hr H. unfold l_open in H. unfold l_check. apply ligero_complete_g; assumption. Qed.

  (* multilinear Ligero: the same, with the two tensor vectors of the point *)
  Theorem ligero_ml_complete wf n_cols n_ext omega rows point r idx pf a b :
    Forall (fun r => (length r <= n_cols)%nat) rows ->
    tensor_ml point n_cols = Ok (a, b) ->
    l_open_ml wf n_cols n_ext omega rows point r idx = Ok pf ->
    l_check_ml wf n_cols n_ext omega (map (encode omega n_ext) rows) point (ip (lf_v pf) a) pf r idx = Ok true.
  Proof.
    intros Hr Ht H. unfold l_open_ml in H. rewrite Ht in H. cbn [bind snd] in H.
    pose proof (ligero_complete_g wf n_cols n_ext omega rows b r idx pf a Hr H) as C.
    unfold l_check_ml. rewrite Ht. cbn [bind fst snd].
    unfold l_check_g in C |- *.
    destruct (negb (length (lf_v pf) =? n_cols)%nat); [discriminate|].
    match type of C with context [bind ?X _] => destruct X as [out| |] end; cbn [bind] in C |- *; try discriminate.
    destruct (path_loop _ (lf_cols pf) idx (lf_paths pf)) as [[]| |]; cbn [bind] in C |- *; try discriminate.
    exact C.
  Qed.
  (* ---------------- the value is p(z) ---------------- *)
  Lemma ip_powers_from : forall (p : list F) cur z, ip p (powers_from cur z (length p)) = cur * eval p z.
  Proof.
    induction p as [|c p IH]; intros cur z; cbn [length powers_from ip eval]; [ring|]. rewrite IH. ring.
  Qed.
  Lemma eval_app : forall (p q : list F) z, eval (p ++ q) z = eval p z + fpow z (length p) * eval q z.
  Proof.
    induction p as [|c p IH]; intros q z; cbn [app eval length fpow]; [ring|]. rewrite IH. ring.
  Qed.
  Lemma ip_tensor_rows n z : forall (rows : list (list F)) cur,
    Forall (fun r => length r = n) rows ->
    ip (powers_from cur (fpow z n) (length rows)) (map (fun r => eval r z) rows) = cur * eval (concat rows) z.
  Proof.
    induction rows as [|r rows IH]; intros cur Hr; cbn [length powers_from map ip concat eval]; [ring|].
    inversion Hr as [|? ? Hr1 Hr2]; subst. rewrite IH by exact Hr2. rewrite eval_app. ring.
  Qed.

  Lemma rows_of_lengths : forall n_rows n_cols (l : list F), length l = (n_rows * n_cols)%nat ->
    length (rows_of n_rows n_cols l) = n_rows /\ Forall (fun r => length r = n_cols) (rows_of n_rows n_cols l) /\
    concat (rows_of n_rows n_cols l) = l.
  Proof.
    induction n_rows as [|k IH]; intros n_cols l H; cbn [rows_of].
    - cbn in H. destruct l; [|discriminate]. repeat split. constructor.
    - assert (H' : length (skipn n_cols l) = (k * n_cols)%nat) by (rewrite skipn_length; lia).
      destruct (IH n_cols _ H') as (L & Fa & Cc). cbn [length concat]. rewrite L, Cc. repeat split.
      + constructor; [rewrite firstn_length; lia|exact Fa].
      + apply firstn_skipn.
  Qed.

  Lemma lig_matrix_shape n_rows n_cols coeffs : (length coeffs <= n_rows * n_cols)%nat ->
    let rows := lig_matrix n_rows n_cols coeffs in
    length rows = n_rows /\ Forall (fun r => length r = n_cols) rows /\ forall z, eval (concat rows) z = eval coeffs z.
  Proof.
    intros H. cbv zeta. unfold lig_matrix.
    set (c := match coeffs with [] => [0] | _ => coeffs end).
    set (N := (n_rows * n_cols)%nat) in *.
    assert (Lf : length (firstn N (c ++ repeat 0 (N - length c))) = N).
    { rewrite firstn_length, app_length, repeat_length. lia. }
    destruct (rows_of_lengths n_rows n_cols _ Lf) as (L & Fa & Cc).
    split; [exact L|]. split; [exact Fa|]. intros z. rewrite Cc.
    destruct coeffs as [|a coeffs'].
    - subst c. destruct N as [|N']; [reflexivity|].
      assert (E1 : (S N' - length [@f0 FO] = N')%nat). { cbn [length]. lia. } rewrite E1. cbn [app firstn eval].
      rewrite firstn_all2 by (rewrite repeat_length; lia). rewrite eval_zeros'. ring.
    - subst c. rewrite firstn_all2 by (rewrite app_length, repeat_length; lia). apply eval_app_zeros'.
  Qed.

  (* the opened vector combined with a is the evaluation of the committed polynomial at z *)
  Theorem ligero_value n_rows n_cols coeffs z :
    (length coeffs <= n_rows * n_cols)%nat ->
    let rows := lig_matrix n_rows n_cols coeffs in
    let '(a, b) := tensor_uni z n_cols n_rows in
    ip (rowcomb rows n_cols b) a = eval coeffs z.
  Proof.
    intros H. destruct (lig_matrix_shape n_rows n_cols coeffs H) as (L & Fa & Ev). cbv zeta. cbn [tensor_uni].
    set (rows := lig_matrix n_rows n_cols coeffs) in *.
    assert (Lr : length (rowcomb rows n_cols (powers (fpow z n_cols) n_rows)) = n_cols)
      by (unfold rowcomb; rewrite map_length, seq_length; reflexivity).
    replace (powers z n_cols) with (powers_from 1 z (length (rowcomb rows n_cols (powers (fpow z n_cols) n_rows))))
      by (rewrite Lr; reflexivity).
    rewrite ip_powers_from. unfold rowcomb.
    rewrite row_comb_eval by (eapply Forall_impl; [|exact Fa]; cbn; intros; lia).
    unfold powers. rewrite <- L. rewrite ip_tensor_rows by exact Fa. rewrite Ev. ring.
  Qed.

  (* ---------------- a wrong vector agrees with few columns ---------------- *)
  Lemma loops_agree cext (vecs : list (list F * list F)) bv w : In (bv, w) vecs ->
    forall idx cols paths, path_loop cext cols idx paths = Ok tt -> ip_loop vecs cols idx = Ok tt ->
    forall q, In q idx -> ip bv (col q cext) = nth q w 0.
  Proof.
    intros Hin. induction idx as [|q0 idx IH]; intros cols paths Hp Hi q Hq; [destruct Hq|].
    destruct cols as [|c cols]; [cbn in Hi; discriminate|].
    cbn [path_loop] in Hp. destruct paths as [|p paths]; [discriminate|].
    destruct (Nat.eqb_spec (lpt_index p) q0) as [Ei|]; cbn [negb] in Hp; [|discriminate].
    destruct (path_verifies cext p c) eqn:Ev; cbn [negb] in Hp; [|discriminate].
    cbn [ip_loop] in Hi. destruct (forallb _ vecs) eqn:Ef; [|discriminate].
    destruct Hq as [<-|Hq]; [|exact (IH cols paths Hp Hi q Hq)].
    unfold path_verifies in Ev. apply andb_true_iff in Ev. destruct Ev as [_ Ev]. apply list_feqb_eq in Ev.
    rewrite Ei in Ev. rewrite <- Ev.
    pose proof (proj1 (forallb_forall _ _) Ef (bv, w) Hin) as E. cbn [fst snd] in E. apply FL_eqb in E. exact E.
  Qed.

  Lemma NoDup_map_nth (l : list F) : NoDup l -> forall J, NoDup J -> Forall (fun j => (j < length l)%nat) J ->
    NoDup (map (fun j => nth j l 0) J).
  Proof.
    intros Hl. induction J as [|j J IH]; intros HJ HF; cbn [map]; [constructor|].
    inversion HJ as [|? ? Hn HJ']; subst. inversion HF as [|? ? Hj HF']; subst.
    constructor; [|apply IH; assumption].
    intros Hin. apply in_map_iff in Hin. destruct Hin as (j' & E & Hj').
    assert (j' = j).
    { apply (proj1 (NoDup_nth l 0) Hl); [|exact Hj|exact E]. exact (proj1 (Forall_forall _ _) HF' j' Hj'). }
    subst j'. contradiction.
  Qed.

  Lemma agreement_bound omega n_ext n_cols (v v' : list F) J :
    NoDup (dom omega n_ext) -> (length v <= n_cols)%nat -> (length v' <= n_cols)%nat ->
    NoDup J -> Forall (fun j => (j < n_ext)%nat) J ->
    (forall q, In q J -> eval v' (pt omega n_ext q) = eval v (pt omega n_ext q)) ->
    (exists x, eval v' x <> eval v x) ->
    (length J < n_cols)%nat.
  Proof.
    intros Hd Lv Lv' HJ HF Hag [x Hx].
    destruct (Nat.ltb_spec (length J) n_cols) as [|Hge]; [assumption|]. exfalso. apply Hx.
    pose proof (poly_roots_zero (map (fun j => nth j (dom omega n_ext) 0) J) (psub v' v)) as R.
    assert (E : eval (psub v' v) x = 0).
    { apply R.
      - apply NoDup_map_nth; [exact Hd|exact HJ|]. unfold dom. rewrite domain_from_length. exact HF.
      - intros rt Hin. apply in_map_iff in Hin. destruct Hin as (q & <- & Hq). rewrite eval_psub.
        fold (pt omega n_ext q). rewrite (Hag q Hq). ring.
      - rewrite map_length. etransitivity; [apply trim_length|]. unfold psub, pneg. rewrite length_padd, map_length. lia. }
    rewrite eval_psub in E. apply (proj1 (fsub_eq_0 _ _)). exact E.
  Qed.

  (* whatever the proof, if the verifier's loops pass and the sent vector is not the b-combination of the committed rows,
     the queried indices contain fewer than n_cols distinct positions (out of n_ext) *)
  Theorem ligero_few_agreements_g wf n_cols n_ext omega rows a b value pf r idx res :
    NoDup (dom omega n_ext) -> Forall (fun r => (length r <= n_cols)%nat) rows ->
    Forall (fun i => (i < n_ext)%nat) idx ->
    l_check_g wf n_cols n_ext omega (map (encode omega n_ext) rows) a b value pf r idx = Ok res ->
    (exists x, eval (lf_v pf) x <> eval (rowcomb rows n_cols b) x) ->
    forall J, NoDup J -> incl J idx -> (length J < n_cols)%nat.
  Proof.
    intros Hd Hr Hi H Hx J HJ Hinc. unfold l_check_g in H.
    destruct (Nat.eqb_spec (length (lf_v pf)) n_cols) as [Lv|]; cbn [negb] in H; [|discriminate].
    match type of H with context [bind ?X _] => destruct X as [out| |] eqn:Eo end; cbn [bind] in H; try discriminate.
    destruct (path_loop _ (lf_cols pf) idx (lf_paths pf)) as [[]| |] eqn:Ep; cbn [bind] in H; try discriminate.
    match type of H with context [ip_loop ?V _ _] => destruct (ip_loop V (lf_cols pf) idx) as [[]| |] eqn:Ei end; cbn [bind] in H; try discriminate.
    assert (Hin : In (b, encode omega n_ext (lf_v pf))
                     (match out with Some wfv => [(r, encode omega n_ext wfv); (b, encode omega n_ext (lf_v pf))] | None => [(b, encode omega n_ext (lf_v pf))] end))
      by (destruct out; cbn; auto).
    pose proof (loops_agree _ _ b _ Hin idx _ _ Ep Ei) as Ag.
    apply (agreement_bound omega n_ext n_cols (rowcomb rows n_cols b) (lf_v pf) J Hd).
    - unfold rowcomb. rewrite map_length, seq_length. lia.
    - lia.
    - exact HJ.
    - apply Forall_forall. intros j Hj. exact (proj1 (Forall_forall _ _) Hi j (Hinc j Hj)).
    - intros q Hq. pose proof (Hinc q Hq) as Hq'. pose proof (proj1 (Forall_forall _ _) Hi q Hq') as Hlt.
      rewrite <- !nth_encode by exact Hlt. rewrite <- (Ag q Hq'). apply column_check_complete; assumption.
    - exact Hx.
  Qed.
  (* the positions of an FFT domain are pairwise distinct: omega a primitive n-th root of unity *)
  Lemma fpow_add' x i j : fpow x (i + j) = fpow x i * fpow x j.
  Proof. induction i as [|i IH]; cbn [Nat.add fpow]; [ring|]. rewrite IH. ring. Qed.
  Lemma domain_from_nth : forall n cur omega i, (i < n)%nat -> nth i (domain_from cur omega n) 0 = cur * fpow omega i.
  Proof.
    induction n as [|n IH]; intros cur omega i Hi; [lia|]. destruct i as [|i]; cbn [domain_from nth fpow]; [ring|].
    rewrite IH by lia. ring.
  Qed.
  Theorem primitive_root_domain_distinct omega n :
    fpow omega n = 1 -> (forall k, (0 < k < n)%nat -> fpow omega k <> 1) -> NoDup (dom omega n).
  Proof.
    intros Hn Hk. unfold dom. apply (proj2 (NoDup_nth _ 0)). rewrite domain_from_length. intros i j Hi Hj E.
    rewrite !domain_from_nth in E by assumption.
    assert (W : forall a b, (a < b)%nat -> (b < n)%nat -> 1 * fpow omega a = 1 * fpow omega b -> False).
    { intros a b Hab Hb E'. apply (Hk (b - a)%nat); [lia|].
      assert (Ha : fpow omega a <> 0).
      { intros Z. apply f_1_neq_0. rewrite <- Hn. replace n with (a + (n - a))%nat by lia. rewrite fpow_add', Z. ring. }
      apply (fmul_cancel_l (fpow omega a)); [exact Ha|]. rewrite <- fpow_add'. replace (a + (b - a))%nat with b by lia.
      transitivity (1 * fpow omega b); [ring|]. rewrite <- E'. ring. }
    destruct (Nat.lt_trichotomy i j) as [L|[L|L]]; [exfalso; exact (W i j L Hj E)|exact L|exfalso; exact (W j i L Hi (eq_sym E))].
  Qed.
  (* the same for the well-formedness vector: it is r^T M or the queries miss the distance *)
  Theorem ligero_wf_few_agreements_g n_cols n_ext omega rows a b value pf r idx res wfv :
    NoDup (dom omega n_ext) -> Forall (fun r => (length r <= n_cols)%nat) rows ->
    Forall (fun i => (i < n_ext)%nat) idx ->
    l_check_g true n_cols n_ext omega (map (encode omega n_ext) rows) a b value pf r idx = Ok res ->
    lf_wf pf = Some wfv ->
    (exists x, eval wfv x <> eval (rowcomb rows n_cols r) x) ->
    forall J, NoDup J -> incl J idx -> (length J < n_cols)%nat.
  Proof.
    intros Hd Hr Hi H Hw Hx J HJ Hinc. unfold l_check_g in H. rewrite Hw in H.
    destruct (Nat.eqb_spec (length (lf_v pf)) n_cols) as [Lv|]; cbn [negb] in H; [|discriminate].
    destruct (Nat.eqb_spec (length wfv) n_cols) as [Lw|]; cbn [negb bind] in H; [|discriminate].
    destruct (path_loop _ (lf_cols pf) idx (lf_paths pf)) as [[]| |] eqn:Ep; cbn [bind] in H; try discriminate.
    match type of H with context [ip_loop ?V _ _] => destruct (ip_loop V (lf_cols pf) idx) as [[]| |] eqn:Ei end; cbn [bind] in H; try discriminate.
    assert (Hin : In (r, encode omega n_ext wfv) [(r, encode omega n_ext wfv); (b, encode omega n_ext (lf_v pf))]) by (cbn; auto).
    pose proof (loops_agree _ _ r _ Hin idx _ _ Ep Ei) as Ag.
    apply (agreement_bound omega n_ext n_cols (rowcomb rows n_cols r) wfv J Hd).
    - unfold rowcomb. rewrite map_length, seq_length. lia.
    - lia.
    - exact HJ.
    - apply Forall_forall. intros j Hj. exact (proj1 (Forall_forall _ _) Hi j (Hinc j Hj)).
    - intros q Hq. pose proof (Hinc q Hq) as Hq'. pose proof (proj1 (Forall_forall _ _) Hi q Hq') as Hlt.
      rewrite <- !nth_encode by exact Hlt. rewrite <- (Ag q Hq'). apply column_check_complete; assumption.
    - exact Hx.
  Qed.
  (* ---------------- univariate corollaries of the agreement bounds ---------------- *)
  Theorem ligero_few_agreements wf n_rows n_cols n_ext omega rows z value pf r idx res :
    NoDup (dom omega n_ext) -> Forall (fun r => (length r <= n_cols)%nat) rows ->
    Forall (fun i => (i < n_ext)%nat) idx ->
    l_check wf n_rows n_cols n_ext omega (map (encode omega n_ext) rows) z value pf r idx = Ok res ->
    (exists x, eval (lf_v pf) x <> eval (rowcomb rows n_cols (snd (tensor_uni z n_cols n_rows))) x) ->
    forall J, NoDup J -> incl J idx -> (length J < n_cols)%nat.
  Proof. intros Hd Hr Hi H. unfold l_check in H. exact (ligero_few_agreements_g _ _ _ _ _ _ _ _ _ _ _ _ Hd Hr Hi H). Qed.

  Theorem ligero_wf_few_agreements n_rows n_cols n_ext omega rows z value pf r idx res wfv :
    NoDup (dom omega n_ext) -> Forall (fun r => (length r <= n_cols)%nat) rows ->
    Forall (fun i => (i < n_ext)%nat) idx ->
    l_check true n_rows n_cols n_ext omega (map (encode omega n_ext) rows) z value pf r idx = Ok res ->
    lf_wf pf = Some wfv ->
    (exists x, eval wfv x <> eval (rowcomb rows n_cols r) x) ->
    forall J, NoDup J -> incl J idx -> (length J < n_cols)%nat.
  Proof. intros Hd Hr Hi H. unfold l_check in H. exact (ligero_wf_few_agreements_g _ _ _ _ _ _ _ _ _ _ _ _ Hd Hr Hi H). Qed.

  (* ---------------- multilinear Ligero: the value is the multilinear extension at the point ---------------- *)
  Lemma ip_map_add {A} (f g : A -> F) : forall l a, ip (map (fun j => f j + g j) l) a = ip (map f l) a + ip (map g l) a.
  Proof. induction l as [|j l IH]; intros [|y a]; cbn [map ip]; try ring. rewrite IH. ring. Qed.
  Lemma ip_map_scale {A} (f : A -> F) c : forall l a, ip (map (fun j => c * f j) l) a = c * ip (map f l) a.
  Proof. induction l as [|j l IH]; intros [|y a]; cbn [map ip]; try ring. rewrite IH. ring. Qed.
  Lemma ip_map_zero {A} : forall (l : list A) a, ip (map (fun _ => 0) l) a = 0.
  Proof. induction l as [|j l IH]; intros [|y a]; cbn [map ip]; try ring. rewrite IH. ring. Qed.
  Lemma ip_row_pad n r a : length r = n -> ip (map (fun j => nth j r 0) (seq 0 n)) a = ip r a.
  Proof. intros H. rewrite map_nth_seq, firstn_all2, H, Nat.sub_diag by lia. cbn [repeat]. rewrite app_nil_r. reflexivity. Qed.

  Lemma row_comb_ip n a : forall (v : list F) (rows : list (list F)),
    Forall (fun r => length r = n) rows ->
    ip (map (fun j => ip v (col j rows)) (seq 0 n)) a = ip v (map (fun r => ip r a) rows).
  Proof.
    induction v as [|c v IH]; intros rows Hr.
    - cbn [ip]. apply ip_map_zero.
    - destruct rows as [|r rows]; [cbn [col map ip]; apply ip_map_zero|].
      inversion Hr as [|? ? Hr1 Hr2]; subst.
      cbn [col map ip]. fold (col 0 rows).
      transitivity (ip (map (fun j => c * nth j r 0 + ip v (col j rows)) (seq 0 (length r))) a); [reflexivity|].
      rewrite (ip_map_add (fun j => c * nth j r 0) (fun j => ip v (col j rows))), ip_map_scale, ip_row_pad, IH by auto.
      reflexivity.
  Qed.

  Definition tv_step (layer : list F) (v : F) : list F := map (fun e => e * (1 - v)) layer ++ map (fun e => e * v) layer.
  Lemma tensor_vec_unfold values : tensor_vec values = fold_left tv_step values [1].
  Proof. reflexivity. Qed.

  Lemma outer_step (layer : list F) v c :
    map (fun e => e * c) (tv_step layer v)
    = concat (map (fun c' => map (fun e => e * c') layer) (map (fun e => e * c) (tv_step [1] v))).
  Proof.
    unfold tv_step. cbn [map app concat]. rewrite map_app, !map_map, app_nil_r.
    f_equal; apply map_ext; intros e; ring.
  Qed.

  (* the tensor of a concatenation is the outer product, the later variables in the high positions *)
  Lemma tv_fold_outer : forall (r : list F) (layer : list F),
    fold_left tv_step r layer = concat (map (fun c => map (fun e => e * c) layer) (fold_left tv_step r [1])).
  Proof.
    induction r as [|v r IH]; intros layer.
    - cbn [fold_left map concat]. rewrite app_nil_r. rewrite <- (map_id layer) at 1. apply map_ext. intros e. ring.
    - cbn [fold_left]. rewrite (IH (tv_step layer v)), (IH (tv_step [1] v)).
      generalize (fold_left tv_step r [1]). intros cs.
      induction cs as [|c cs IHc]; [reflexivity|].
      cbn [map concat]. rewrite outer_step, IHc, map_app, concat_app. reflexivity.
  Qed.

  Lemma tensor_vec_app l r :
    tensor_vec (l ++ r) = concat (map (fun c => map (fun e => e * c) (tensor_vec l)) (tensor_vec r)).
  Proof. rewrite !tensor_vec_unfold, fold_left_app. apply tv_fold_outer. Qed.

  Lemma ip_scaled a c : forall r : list F, ip r (map (fun e => e * c) a) = c * ip r a.
  Proof.
    revert a. intros a r. revert a. induction r as [|x r IH]; intros [|y a]; cbn [map ip]; try ring. rewrite IH. ring.
  Qed.
  Lemma ip_app_eq : forall (a1 b1 a2 b2 : list F), length a1 = length b1 -> ip (a1 ++ a2) (b1 ++ b2) = ip a1 b1 + ip a2 b2.
  Proof.
    induction a1 as [|x a1 IH]; intros [|y b1] a2 b2 H; cbn in H; try lia; cbn [app ip]; [ring|]. rewrite IH by lia. ring.
  Qed.
  Lemma ip_concat_outer (a : list F) : forall (rows : list (list F)) (b : list F),
    Forall (fun r => length r = length a) rows ->
    ip (concat rows) (concat (map (fun c => map (fun e => e * c) a) b)) = ip b (map (fun r => ip r a) rows).
  Proof.
    induction rows as [|r rows IH]; intros [|c b] Hr; cbn [concat map ip]; try reflexivity.
    - destruct (concat rows); destruct r; reflexivity.
    - inversion Hr as [|? ? Hr1 Hr2]; subst.
      rewrite ip_app_eq by (rewrite map_length; exact Hr1). rewrite ip_scaled, IH by exact Hr2. ring.
  Qed.

  (* <b^T M, a> = <evaluations, tensor of the whole point>: the multilinear extension at the point *)
  Theorem ligero_ml_value n_cols (rows : list (list F)) (lpt rpt : list F) :
    Forall (fun r => length r = n_cols) rows -> length (tensor_vec lpt) = n_cols ->
    ip (rowcomb rows n_cols (tensor_vec rpt)) (tensor_vec lpt) = ip (concat rows) (tensor_vec (lpt ++ rpt)).
  Proof.
    intros Hr La. unfold rowcomb. rewrite row_comb_ip by exact Hr.
    rewrite tensor_vec_app, ip_concat_outer; [reflexivity|].
    eapply Forall_impl; [|exact Hr]. cbn. intros r0 E. rewrite E, La. reflexivity.
  Qed.
  Lemma tensor_vec_eq_table : forall t : list F, tensor_vec t = eq_table t.
  Proof.
    induction t as [|t0 ts IH]; [reflexivity|].
    rewrite tensor_vec_unfold. cbn [fold_left]. rewrite tv_fold_outer, <- tensor_vec_unfold, IH.
    cbn [eq_table]. rewrite flat_map_concat_map. f_equal. apply map_ext. intros c.
    unfold tv_step. cbn [map app]. f_equal; [ring|]. f_equal. ring.
  Qed.
  Lemma ip_msm : forall a b : list F, ip a b = msm b a.
  Proof. induction a as [|x a IH]; intros [|y b]; cbn [ip msm]; try ring. rewrite IH. ring. Qed.

  (* the value the multilinear verifier compares with: the multilinear extension of the committed evaluations *)
  Theorem ligero_ml_value_mle n_cols (rows : list (list F)) (lpt rpt : list F) :
    Forall (fun r => length r = n_cols) rows -> n_cols = (2 ^ length lpt)%nat ->
    length (concat rows) = (2 ^ length (lpt ++ rpt))%nat ->
    ip (rowcomb rows n_cols (tensor_vec rpt)) (tensor_vec lpt) = mle_eval (concat rows) (lpt ++ rpt).
  Proof.
    intros Hr Hn Hl. rewrite ligero_ml_value by (try exact Hr; rewrite tensor_vec_eq_table, eq_table_length; symmetry; exact Hn).
    rewrite tensor_vec_eq_table, ip_msm.
    pose proof (msm_eq_table 1 (lpt ++ rpt) (concat rows) Hl) as E.
    replace (map (fun e => 1 * e) (eq_table (lpt ++ rpt))) with (eq_table (lpt ++ rpt)) in E
      by (rewrite <- (map_id (eq_table (lpt ++ rpt))) at 1; apply map_ext; intros e; ring).
    rewrite E. ring.
  Qed.
  (* ---------------- shape: what an answered check implies about the proof ---------------- *)
  Lemma ip_loop_ok_len (vecs : list (list F * list F)) : forall idx cols, ip_loop vecs cols idx = Ok tt -> (length idx <= length cols)%nat.
  Proof.
    induction idx as [|q idx IH]; intros cols H; [cbn; lia|].
    destruct cols as [|c cols]; [cbn in H; discriminate|]. cbn [ip_loop] in H.
    destruct (forallb _ vecs); [|discriminate]. specialize (IH cols H). cbn [length]. lia.
  Qed.
  Lemma path_loop_ok_len cext : forall idx cols paths, path_loop cext cols idx paths = Ok tt ->
    (length idx <= length cols)%nat -> (length idx <= length paths)%nat.
  Proof.
    induction idx as [|q idx IH]; intros cols paths H L; [cbn; lia|].
    destruct cols as [|c cols]; [cbn in L; lia|]. cbn [path_loop] in H.
    destruct paths as [|p paths]; [discriminate|].
    destruct (negb (lpt_index p =? q)%nat); [discriminate|]. destruct (negb (path_verifies cext p c)); [discriminate|].
    specialize (IH cols paths H ltac:(cbn in L; lia)). cbn [length]. lia.
  Qed.

  (* a proof with a vector of another length, a missing or mis-sized well-formedness vector, or fewer columns / paths
     than queried positions is never answered with a verdict *)
  Theorem ligero_check_shape wf n_cols n_ext omega cext a b value pf r idx res :
    l_check_g wf n_cols n_ext omega cext a b value pf r idx = Ok res ->
    length (lf_v pf) = n_cols /\
    (wf = true -> exists w, lf_wf pf = Some w /\ length w = n_cols) /\
    (length idx <= length (lf_cols pf))%nat /\ (length idx <= length (lf_paths pf))%nat.
  Proof.
    intros H. unfold l_check_g in H.
    destruct (Nat.eqb_spec (length (lf_v pf)) n_cols) as [Lv|]; cbn [negb] in H; [|discriminate].
    split; [exact Lv|].
    assert (Hw : wf = true -> exists w, lf_wf pf = Some w /\ length w = n_cols).
    { intros ->. destruct (lf_wf pf) as [w|]; cbn [bind] in H; [|discriminate].
      destruct (Nat.eqb_spec (length w) n_cols) as [Lw|]; cbn [negb bind] in H; [|discriminate]. exists w. split; [reflexivity|exact Lw]. }
    split; [exact Hw|].
    match type of H with context [bind ?X _] => destruct X as [out| |] eqn:Eo end; cbn [bind] in H; try discriminate.
    destruct (path_loop _ (lf_cols pf) idx (lf_paths pf)) as [[]| |] eqn:Ep; cbn [bind] in H; try discriminate.
    match type of H with context [ip_loop ?V _ _] => destruct (ip_loop V (lf_cols pf) idx) as [[]| |] eqn:Ei end; cbn [bind] in H; try discriminate.
    pose proof (ip_loop_ok_len _ _ _ Ei) as L1. split; [exact L1|]. exact (path_loop_ok_len _ _ _ _ Ep L1).
  Qed.
  (* ---------------- any linear code: completeness from the column relation ---------------- *)
  Section AnyLinearCode.
    Variable enc : list F -> list F.
    Variables n_ext n_cols : nat.
    Variable rows : list (list F).
    Hypothesis enc_cols : forall v j, (j < n_ext)%nat -> ip v (col j (map enc rows)) = nth j (enc (rowcomb rows n_cols v)) 0.

    Lemma ip_loop_honest_e (vs : list (list F)) : forall idx, Forall (fun i => (i < n_ext)%nat) idx ->
      ip_loop (map (fun v => (v, enc (rowcomb rows n_cols v))) vs) (map (fun i => col i (map enc rows)) idx) idx = Ok tt.
    Proof.
      intros idx Hi. induction idx as [|q idx IH]; [reflexivity|].
      inversion Hi as [|? ? Hq Hi']; subst. cbn [map ip_loop].
      replace (forallb _ _) with true; [apply IH; exact Hi'|]. symmetry. apply forallb_forall.
      intros lw Hin. apply in_map_iff in Hin. destruct Hin as (v & <- & _). cbn [fst snd].
      rewrite (enc_cols v q Hq). apply feqb_refl.
    Qed.

    Theorem lincode_complete wf b r idx pf a :
      l_open_e enc wf n_cols n_ext rows b r idx = Ok pf ->
      l_check_e enc wf n_cols (map enc rows) a b (ip (lf_v pf) a) pf r idx = Ok true.
    Proof.
      intros H. unfold l_open_e in H.
      assert (Hrm : forall v, row_mul rows n_cols v = if negb (length v =? length rows)%nat then Panic else Ok (rowcomb rows n_cols v))
        by reflexivity.
      destruct wf.
      - rewrite !Hrm in H. destruct (negb (length r =? length rows)%nat); cbn [bind] in H; [discriminate|].
        destruct (negb (length b =? length rows)%nat); cbn [bind] in H; [discriminate|].
        destruct (existsb _ idx) eqn:Ex; [discriminate|]. injection H as <-.
        assert (Hi : Forall (fun i => (i < n_ext)%nat) idx).
        { apply Forall_forall. intros i Hin. destruct (Nat.ltb_spec i n_ext) as [|Hge]; [assumption|].
          assert (existsb (fun i => (n_ext <=? i)%nat) idx = true) by (apply existsb_exists; exists i; split; [exact Hin|apply Nat.leb_le; exact Hge]).
          congruence. }
        unfold l_check_e. cbn [lf_v lf_wf lf_cols lf_paths].
        unfold rowcomb at 1. rewrite map_length, seq_length, Nat.eqb_refl. cbn [negb bind].
        unfold rowcomb at 1. rewrite map_length, seq_length, Nat.eqb_refl. cbn [negb bind].
        rewrite path_loop_honest. cbn [bind].
        pose proof (ip_loop_honest_e [r; b] idx Hi) as E. cbn [map] in E.
        rewrite E. cbn [bind]. rewrite feqb_refl. reflexivity.
      - cbn [bind] in H. rewrite !Hrm in H.
        destruct (negb (length b =? length rows)%nat); cbn [bind] in H; [discriminate|].
        destruct (existsb _ idx) eqn:Ex; [discriminate|]. injection H as <-.
        assert (Hi : Forall (fun i => (i < n_ext)%nat) idx).
        { apply Forall_forall. intros i Hin. destruct (Nat.ltb_spec i n_ext) as [|Hge]; [assumption|].
          assert (existsb (fun i => (n_ext <=? i)%nat) idx = true) by (apply existsb_exists; exists i; split; [exact Hin|apply Nat.leb_le; exact Hge]).
          congruence. }
        unfold l_check_e. cbn [lf_v lf_wf lf_cols lf_paths].
        unfold rowcomb at 1. rewrite map_length, seq_length, Nat.eqb_refl. cbn [negb bind].
        rewrite path_loop_honest. cbn [bind].
        pose proof (ip_loop_honest_e [b] idx Hi) as E. cbn [map] in E.
        rewrite E. cbn [bind]. rewrite feqb_refl. reflexivity.
    Qed.
  End AnyLinearCode.

  (* a code given by its generator matrix satisfies the column relation: it is linear by construction *)
  Lemma mat_enc_nth G n_ext msg j : (j < n_ext)%nat -> nth j (mat_enc G n_ext msg) 0 = ip msg (col j G).
  Proof.
    intros H. unfold mat_enc.
    assert (G0 : forall n s k, (k < n)%nat -> nth k (map (fun j0 => ip msg (col j0 G)) (seq s n)) 0 = ip msg (col (s + k) G)).
    { induction n as [|n IH]; intros s k Hk; [lia|]. destruct k as [|k]; cbn [seq map nth].
      - rewrite Nat.add_0_r. reflexivity.
      - rewrite IH by lia. f_equal. f_equal. lia. }
    rewrite G0 by exact H. reflexivity.
  Qed.
  Lemma mat_enc_cols G n_ext n_cols rows v j :
    Forall (fun r => length r = n_cols) rows -> (j < n_ext)%nat ->
    ip v (col j (map (mat_enc G n_ext) rows)) = nth j (mat_enc G n_ext (rowcomb rows n_cols v)) 0.
  Proof.
    intros Hr Hj. rewrite mat_enc_nth by exact Hj. unfold rowcomb. rewrite row_comb_ip by exact Hr.
    f_equal. unfold col. rewrite map_map. apply map_ext. intros r0. apply mat_enc_nth. exact Hj.
  Qed.

  (* Brakedown (any generator matrix): the proof built by open passes check for the value <v, a> *)
  Theorem brakedown_complete G wf n_cols n_ext rows point r idx pf a b :
    Forall (fun r => length r = n_cols) rows ->
    tensor_ml point n_cols = Ok (a, b) ->
    l_open_bd G wf n_cols n_ext rows point r idx = Ok pf ->
    l_check_bd G wf n_cols n_ext (map (mat_enc G n_ext) rows) point (ip (lf_v pf) a) pf r idx = Ok true.
  Proof.
    intros Hr Ht H. unfold l_open_bd in H. rewrite Ht in H. cbn [bind snd] in H.
    pose proof (lincode_complete (mat_enc G n_ext) n_ext n_cols rows
                  (fun v j Hj => mat_enc_cols G n_ext n_cols rows v j Hr Hj) wf b r idx pf a H) as C.
    unfold l_check_bd. rewrite Ht. cbn [bind fst snd].
    unfold l_check_e in C |- *.
    destruct (negb (length (lf_v pf) =? n_cols)%nat); [discriminate|].
    match type of C with context [bind ?X _] => destruct X as [out| |] end; cbn [bind] in C |- *; try discriminate.
    destruct (path_loop _ (lf_cols pf) idx (lf_paths pf)) as [[]| |]; cbn [bind] in C |- *; try discriminate.
    exact C.
  Qed.
  (* ---------------- several polynomials ---------------- *)
  (* an item built by the honest prover for an encoder with the column relation *)
  Definition honest_item (wf : bool) (it : LItem) : Prop :=
    exists n_ext rows a b,
      (forall v j, (j < n_ext)%nat -> ip v (col j (map (li_enc it) rows)) = nth j (li_enc it (rowcomb rows (li_n_cols it) v)) 0) /\
      li_ab it = Ok (a, b) /\
      l_open_e (li_enc it) wf (li_n_cols it) n_ext rows b (li_r it) (li_idx it) = Ok (li_pf it) /\
      li_cext it = map (li_enc it) rows /\
      li_value it = ip (lf_v (li_pf it)) a.

  Lemma l_check_item_honest wf it : honest_item wf it -> l_check_item wf it = Ok true.
  Proof.
    intros (n_ext & rows & a & b & Hc & Hab & Ho & Hx & Hv).
    pose proof (lincode_complete (li_enc it) n_ext (li_n_cols it) rows Hc wf b (li_r it) (li_idx it) (li_pf it) a Ho) as C.
    unfold l_check_item. rewrite Hab, Hx, Hv. cbn [bind fst snd].
    unfold l_check_e in C |- *.
    destruct (negb (length (lf_v (li_pf it)) =? li_n_cols it)%nat); [discriminate|].
    match type of C with context [bind ?X _] => destruct X as [out| |] end; cbn [bind] in C |- *; try discriminate.
    destruct (path_loop _ (lf_cols (li_pf it)) (li_idx it) (lf_paths (li_pf it))) as [[]| |]; cbn [bind] in C |- *; try discriminate.
    exact C.
  Qed.

  Theorem l_check_all_complete wf : forall items, Forall (honest_item wf) items -> l_check_all wf items = Ok true.
  Proof.
    induction items as [|it items IH]; intros H; [reflexivity|].
    inversion H as [|? ? H1 H2]; subst. cbn [l_check_all]. rewrite (l_check_item_honest wf it H1). cbn [bind]. apply IH. exact H2.
  Qed.

  (* the loop accepts only if every single item is accepted: no position is skipped *)
  Theorem l_check_all_every_item wf : forall items, l_check_all wf items = Ok true -> Forall (fun it => l_check_item wf it = Ok true) items.
  Proof.
    induction items as [|it items IH]; intros H; [constructor|].
    cbn [l_check_all] in H. destruct (l_check_item wf it) as [[|]| |] eqn:E; cbn [bind] in H; try discriminate.
    constructor; [exact E|apply IH; exact H].
  Qed.
End LigeroFacts.
