(* IPA: one combined value per proof.  For fixed commitments, point, proof and challenge tapes the verifier accepts at
   most one value of the challenge-weighted combination of the claimed evaluations; for a single commitment this is the
   claimed evaluation itself.  (Generic-group view: h is a free generator, so its coordinate is read off.) *)
From Coq Require Import List Arith NArith Bool Lia Field Ring.
From PC Require Import Base.Field Base.Result Base.Poly Proofs.PolyFacts Schemes.LC Schemes.Marlin Schemes.IPA Proofs.LCFacts Proofs.IPAFacts.
Import ListNotations.
Open Scope F_scope.

Section IPABinding.
  Context {FO : FieldOps} {FL : FieldLaws FO}.
  Add Field Ffield26 : FL_field.

  Lemma ok3' {A B C} (x : A) (y y' : B) (c : C) : y = y' -> @Ok (A * B * C) (x, y, c) = Ok (x, y', c).
  Proof. intros ->. reflexivity. Qed.

  (* the weight the verifier gives to each claimed value: its challenge, plus the next challenge times z^(d-b) under a bound *)
  Fixpoint sc_weights (d : nat) (z : F) (cs : list (IComm * option nat)) (cur : F) (chal : list F) : list F :=
    match cs with
    | [] => []
    | (cm, bound) :: cs' =>
      match chal with
      | nxt :: nxt2 :: chal2 =>
        (match bound, ic_shifted cm with
         | Some b, Some _ => cur + nxt * fpow z (d - b)
         | _, _ => cur
         end) :: sc_weights d z cs' nxt2 chal2
      | _ => []
      end
    end.

  Lemma sc_loop_value d z : forall cs vs cur chal cc cv cc' cv' rest,
    length vs = length cs ->
    i_sc_loop d z cs vs cur chal cc cv = Ok (cc', cv', rest) ->
    cv' = cv + dot (sc_weights d z cs cur chal) vs /\
    forall vs2 cv2, length vs2 = length cs ->
      i_sc_loop d z cs vs2 cur chal cc cv2 = Ok (cc', cv2 + dot (sc_weights d z cs cur chal) vs2, rest).
  Proof.
    induction cs as [|[cm bound] cs IH]; intros vs cur chal cc cv cc' cv' rest L H.
    - destruct vs; [|cbn in L; lia]. cbn in H. injection H as <- <- <-. split; [cbn; ring|].
      intros [|? ?] cv2 L2; [|cbn in L2; lia]. cbn. replace (cv2 + 0) with cv2 by ring. reflexivity.
    - destruct vs as [|v vs]; [cbn in L; lia|]. cbn [i_sc_loop] in H.
      destruct chal as [|nxt [|nxt2 chal2]].
      + discriminate.
      + destruct (negb _); discriminate.
      + cbn [sc_weights].
        destruct (negb (Bool.eqb (match bound with Some _ => true | None => false end)
                                 (match ic_shifted cm with Some _ => true | None => false end))) eqn:Eb; [discriminate|].
        destruct bound as [b|]; destruct (ic_shifted cm) as [sc|] eqn:Es; cbn in Eb; try discriminate.
        * destruct (d <? b)%nat eqn:Edb; [discriminate|].
          destruct (IH vs _ _ _ _ _ _ _ ltac:(cbn in L; lia) H) as [E1 E2]. split; [rewrite E1; cbn [dot]; ring|].
          intros [|v2 vs2] cv2 L2; [cbn in L2; lia|]. cbn [i_sc_loop]. rewrite Es. cbn [Bool.eqb negb]. rewrite Edb.
          rewrite (E2 vs2 _ ltac:(cbn in L2; lia)). apply ok3'. cbn [dot]. ring.
        * destruct (IH vs _ _ _ _ _ _ _ ltac:(cbn in L; lia) H) as [E1 E2]. split; [rewrite E1; cbn [dot]; ring|].
          intros [|v2 vs2] cv2 L2; [cbn in L2; lia|]. cbn [i_sc_loop]. rewrite Es. cbn [Bool.eqb negb].
          rewrite (E2 vs2 _ ltac:(cbn in L2; lia)). apply ok3'. cbn [dot]. ring.
  Qed.
  Lemma fold_co_linear i : forall ls rs chs acc, fold_co i ls rs chs acc = acc + fold_co i ls rs chs 0.
  Proof.
    induction ls as [|l ls IH]; intros [|r rs] [|rc chs] acc; cbn [fold_co]; try ring.
    rewrite IH. rewrite (IH rs chs (0 + _)). ring.
  Qed.

  Lemma fold_lr_len : forall ls rs hchal acc chs0 r, length ls = length rs ->
    i_fold_lr ls rs hchal acc chs0 = Ok r -> (length ls <= length hchal)%nat.
  Proof.
    induction ls as [|l ls IH]; intros [|r' rs] hchal acc chs0 r L H; cbn in L; try lia; [cbn; lia|].
    destruct hchal as [|rc hchal']; [discriminate|]. cbn [i_fold_lr] in H. cbn [length].
    pose proof (IH rs hchal' _ _ _ ltac:(lia) H). lia.
  Qed.

  Lemma co_unit_at : forall n, co n (unit_at n) = 1.
  Proof. unfold co, unit_at. induction n as [|n IH]; cbn [repeat app nth]; [reflexivity|exact IH]. Qed.

  (* the succinct check accepts at most one combined value *)
  Theorem ipa_succinct_one_value d cs z vs1 vs2 pf chal hchal chs1 chs2 r1 h1 r2 h2 :
    length vs1 = length cs -> length vs2 = length cs -> length (ip_l pf) = length (ip_r pf) ->
    Forall (fun rc => rc <> 0) (firstn 2 hchal) ->
    i_succinct_check d cs z vs1 pf chal hchal = Ok (Some chs1, r1, h1) ->
    i_succinct_check d cs z vs2 pf chal hchal = Ok (Some chs2, r2, h2) ->
    match chal with
    | c0 :: chal0 => dot (sc_weights d z cs c0 chal0) vs1 = dot (sc_weights d z cs c0 chal0) vs2
    | [] => False
    end.
  Proof.
    intros L1 L2 Llr Hnz H1 H2. unfold i_succinct_check in H1, H2.
    destruct chal as [|c0 chal0]; [discriminate|].
    destruct (i_sc_loop d z cs vs1 c0 chal0 [] 0) as [[[cc cv1] rest]| |] eqn:E1; cbn [bind] in H1; try discriminate.
    destruct (sc_loop_value d z cs vs1 c0 chal0 [] 0 cc cv1 rest L1 E1) as [Ev1 Eo].
    rewrite (Eo vs2 0 L2) in H2. cbn [bind] in H2.
    set (w := sc_weights d z cs c0 chal0) in *.
    destruct (negb _); [discriminate|].
    (* both runs continue with the same combined commitment and the same hash tape *)
    match type of H1 with context [bind ?X _] => destruct X as [[cc1 hchal1]| |] eqn:Eh end; cbn [bind] in H1, H2; try discriminate.
    destruct hchal1 as [|rc0 hchal2]; [discriminate|].
    assert (Hrc0 : rc0 <> 0).
    { destruct (ip_hcomm pf), (ip_rand pf).
      - destruct hchal as [|hc [|x t]]; try discriminate. injection Eh as <- <- <-.
        inversion Hnz as [|? ? _ Hn1]; subst. inversion Hn1; subst; assumption.
      - injection Eh as _ ->. inversion Hnz; subst; assumption.
      - injection Eh as _ ->. inversion Hnz; subst; assumption.
      - injection Eh as _ ->. inversion Hnz; subst; assumption. }
    set (hp := gvscale rc0 (gh d)) in *.
    destruct (i_fold_lr (ip_l pf) (ip_r pf) hchal2 (gvadd cc1 (gvscale cv1 hp)) []) as [[[rc1 ch1] hr1]| |] eqn:F1; cbn [bind] in H1; try discriminate.
    destruct (i_fold_lr (ip_l pf) (ip_r pf) hchal2 (gvadd cc1 (gvscale (0 + dot w vs2) hp)) []) as [[[rc2 ch2] hr2]| |] eqn:F2; cbn [bind] in H2; try discriminate.
    pose proof (fold_lr_len _ _ _ _ _ _ Llr F1) as Lh.
    destruct (gvzero (gvsub rc1 _)) eqn:Z1; [|discriminate].
    destruct (gvzero (gvsub rc2 _)) eqn:Z2; [|discriminate].
    pose proof (proj1 (gvzero_co _) Z1 (d + 1)%nat) as C1. pose proof (proj1 (gvzero_co _) Z2 (d + 1)%nat) as C2.
    destruct (fold_lr_co (d + 1) _ _ _ _ _ _ _ _ Llr Lh F1) as (Ec1 & _ & Er1).
    destruct (fold_lr_co (d + 1) _ _ _ _ _ _ _ _ Llr Lh F2) as (Ec2 & _ & Er2).
    rewrite co_gvsub, Er1, fold_co_linear in C1. rewrite co_gvsub, Er2, fold_co_linear in C2.
    rewrite Ec1 in C1. rewrite Ec2 in C2. cbn [app] in C1, C2.
    rewrite co_gvadd, co_gvscale in C1, C2.
    assert (Ehp : co (d + 1) hp = rc0) by (unfold hp, gh; rewrite co_gvscale, co_unit_at; ring).
    rewrite Ehp in C1, C2.
    assert (E : (cv1 - (0 + dot w vs2)) * rc0 = 0).
    { transitivity ((co (d + 1) cc1 + rc0 * cv1 + fold_co (d + 1) (ip_l pf) (ip_r pf) (firstn (length (ip_l pf)) hchal2) 0
                     - co (d + 1) (gvadd (gvscale (ip_c pf) (ip_key pf)) (gvscale (sc_evaluate (firstn (length (ip_l pf)) hchal2) z * ip_c pf) hp)))
                    - (co (d + 1) cc1 + rc0 * (0 + dot w vs2) + fold_co (d + 1) (ip_l pf) (ip_r pf) (firstn (length (ip_l pf)) hchal2) 0
                     - co (d + 1) (gvadd (gvscale (ip_c pf) (ip_key pf)) (gvscale (sc_evaluate (firstn (length (ip_l pf)) hchal2) z * ip_c pf) hp)))); [ring|].
      rewrite C1, C2. ring. }
    destruct (f_integral _ _ E) as [E0|E0]; [|contradiction].
    apply (proj1 (fsub_eq_0 _ _)) in E0. rewrite Ev1 in E0.
    transitivity (0 + dot w vs1); [ring|]. rewrite E0. ring.
  Qed.
  Theorem ipa_check_one_combined_value d cs z vs1 vs2 pf chal hchal r1 h1 r2 h2 :
    length vs1 = length cs -> length vs2 = length cs ->
    Forall (fun rc => rc <> 0) (firstn 2 hchal) ->
    i_check d cs z vs1 pf chal hchal = Ok (true, r1, h1) ->
    i_check d cs z vs2 pf chal hchal = Ok (true, r2, h2) ->
    match chal with
    | c0 :: chal0 => dot (sc_weights d z cs c0 chal0) vs1 = dot (sc_weights d z cs c0 chal0) vs2
    | [] => False
    end.
  Proof.
    intros L1 L2 Hnz H1 H2. unfold i_check in H1, H2.
    destruct (Nat.eqb_spec (length (ip_l pf)) (length (ip_r pf))) as [Llr|]; cbn [negb orb] in H1, H2; [|discriminate].
    destruct (negb _); [discriminate|].
    destruct (i_succinct_check d cs z vs1 pf chal hchal) as [[[o1 a1] b1]| |] eqn:S1; cbn [bind] in H1; try discriminate.
    destruct (i_succinct_check d cs z vs2 pf chal hchal) as [[[o2 a2] b2]| |] eqn:S2; cbn [bind] in H2; try discriminate.
    destruct o1 as [chs1|]; [|discriminate]. destruct o2 as [chs2|]; [|discriminate].
    exact (ipa_succinct_one_value d cs z vs1 vs2 pf chal hchal chs1 chs2 a1 b1 a2 b2 L1 L2 Llr Hnz S1 S2).
  Qed.

  (* one commitment without degree bound: at most one value is accepted *)
  Corollary ipa_check_one_value d cm z v1 v2 pf c0 chal0 hchal r1 h1 r2 h2 :
    c0 <> 0 -> Forall (fun rc => rc <> 0) (firstn 2 hchal) ->
    i_check d [(cm, None)] z [v1] pf (c0 :: chal0) hchal = Ok (true, r1, h1) ->
    i_check d [(cm, None)] z [v2] pf (c0 :: chal0) hchal = Ok (true, r2, h2) ->
    v1 = v2.
  Proof.
    intros Hc Hnz H1 H2.
    pose proof (ipa_check_one_combined_value d [(cm, None)] z [v1] [v2] pf (c0 :: chal0) hchal r1 h1 r2 h2 eq_refl eq_refl Hnz H1 H2) as E.
    cbn [sc_weights] in E. destruct chal0 as [|nxt [|nxt2 chal2]].
    - unfold i_check, i_succinct_check in H1. destruct (negb _ || negb _); [discriminate|]. cbn in H1. discriminate.
    - unfold i_check, i_succinct_check in H1. destruct (negb _ || negb _); [discriminate|]. cbn [i_sc_loop bind] in H1.
      destruct (negb _); discriminate.
    - cbn [dot] in E. apply (fmul_cancel_l c0); [exact Hc|].
      transitivity (c0 * v1 + 0); [ring|]. rewrite E. ring.
  Qed.
End IPABinding.
