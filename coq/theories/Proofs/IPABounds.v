(* IPA and degree bounds (C04).  The verifier's combined commitment does not depend on the *value* of a claimed degree
   bound, only on its presence; the bound enters through the weight z^(d-b) of the claimed value.  Hence: the same
   commitments and the same proof, presented under other bounds, are accepted only if the two weighted sums of claimed
   values coincide - for one commitment relabelled from b to b' with the same value v: nxt * (z^(d-b) - z^(d-b')) * v = 0. *)
From Coq Require Import List Arith NArith Bool Lia Field Ring.
From PC Require Import Base.Field Base.Result Base.Poly Proofs.PolyFacts Schemes.LC Schemes.Marlin Schemes.IPA Proofs.LCFacts
     Proofs.IPAFacts Proofs.IPABinding.
Import ListNotations.
Open Scope F_scope.

Section IPABounds.
  Context {FO : FieldOps} {FL : FieldLaws FO}.
  Add Field Ffield42 : FL_field.

  Definition has_bound (b : option nat) : bool := match b with Some _ => true | None => false end.
  (* the same commitments, bounds present at the same positions (their values may differ) *)
  Definition same_shape (cs1 cs2 : list (IComm * option nat)) : Prop :=
    Forall2 (fun a b => fst a = fst b /\ has_bound (snd a) = has_bound (snd b)) cs1 cs2.

  Lemma sc_loop_shape d z : forall cs1 cs2, same_shape cs1 cs2 ->
    forall vs1 vs2 cur chal cc cv1 cv2 cc1 o1 r1 cc2 o2 r2,
    length vs1 = length cs1 -> length vs2 = length cs2 ->
    i_sc_loop d z cs1 vs1 cur chal cc cv1 = Ok (cc1, o1, r1) ->
    i_sc_loop d z cs2 vs2 cur chal cc cv2 = Ok (cc2, o2, r2) -> cc1 = cc2 /\ r1 = r2.
  Proof.
    intros cs1 cs2 HS. induction HS as [|[cm b1] [cm2 b2] cs1 cs2 [Ec Eb] HS IH];
      intros vs1 vs2 cur chal cc cv1 cv2 cc1 o1 r1 cc2 o2 r2 L1 L2 H1 H2.
    - destruct vs1; [|cbn in L1; lia]. destruct vs2; [|cbn in L2; lia]. cbn in H1, H2.
      injection H1 as <- _ <-. injection H2 as <- _ <-. split; reflexivity.
    - cbn [fst snd] in Ec, Eb. subst cm2.
      destruct vs1 as [|v1 vs1]; [cbn in L1; lia|]. destruct vs2 as [|v2 vs2]; [cbn in L2; lia|].
      cbn [i_sc_loop] in H1, H2.
      destruct chal as [|nxt [|nxt2 chal2]]; [discriminate| destruct (negb _); discriminate |].
      destruct b1 as [b1|]; destruct b2 as [b2|]; cbn [has_bound] in Eb; try discriminate;
        destruct (ic_shifted cm) as [sc|]; cbn [Bool.eqb negb] in H1, H2; try discriminate.
      + destruct (d <? b1)%nat; [discriminate|]. destruct (d <? b2)%nat; [discriminate|].
        exact (IH vs1 vs2 _ _ _ _ _ _ _ _ _ _ _ ltac:(cbn in L1; lia) ltac:(cbn in L2; lia) H1 H2).
      + exact (IH vs1 vs2 _ _ _ _ _ _ _ _ _ _ _ ltac:(cbn in L1; lia) ltac:(cbn in L2; lia) H1 H2).
  Qed.

  (* the succinct check, hence the check, ties the two weighted sums *)
  Theorem ipa_succinct_relabel d cs1 cs2 z vs1 vs2 pf chal hchal chs1 chs2 r1 h1 r2 h2 :
    same_shape cs1 cs2 ->
    length vs1 = length cs1 -> length vs2 = length cs2 -> length (ip_l pf) = length (ip_r pf) ->
    Forall (fun rc => rc <> 0) (firstn 2 hchal) ->
    i_succinct_check d cs1 z vs1 pf chal hchal = Ok (Some chs1, r1, h1) ->
    i_succinct_check d cs2 z vs2 pf chal hchal = Ok (Some chs2, r2, h2) ->
    match chal with
    | c0 :: chal0 => dot (sc_weights d z cs1 c0 chal0) vs1 = dot (sc_weights d z cs2 c0 chal0) vs2
    | [] => False
    end.
  Proof.
    intros HS L1 L2 Llr Hnz H1 H2. unfold i_succinct_check in H1, H2.
    destruct chal as [|c0 chal0]; [discriminate|].
    destruct (i_sc_loop d z cs1 vs1 c0 chal0 [] 0) as [[[cc cv1] rest]| |] eqn:E1; cbn [bind] in H1; try discriminate.
    destruct (i_sc_loop d z cs2 vs2 c0 chal0 [] 0) as [[[cc' cv2] rest']| |] eqn:E2; cbn [bind] in H2; try discriminate.
    destruct (sc_loop_shape d z cs1 cs2 HS vs1 vs2 c0 chal0 [] 0 0 cc cv1 rest cc' cv2 rest' L1 L2 E1 E2) as [Ecc Er].
    subst cc' rest'.
    destruct (sc_loop_value d z cs1 vs1 c0 chal0 [] 0 cc cv1 rest L1 E1) as [Ev1 _].
    destruct (sc_loop_value d z cs2 vs2 c0 chal0 [] 0 cc cv2 rest L2 E2) as [Ev2 _].
    destruct (negb _); [discriminate|].
    match type of H1 with context [bind ?X _] => destruct X as [[cc1 hchal1]| |] eqn:Eh end; cbn [bind] in H1, H2; try discriminate.
    destruct hchal1 as [|rc0 hchal2]; [discriminate|].
    assert (Hrc0 : rc0 <> 0).
    { destruct (ip_hcomm pf), (ip_rand pf).
      - destruct hchal as [|hc [|x t]]; try discriminate. injection Eh as <- <- <-.
        inversion Hnz as [|? ? _ Hn1]; subst. inversion Hn1; subst; assumption.
      - injection Eh as _ ->. inversion Hnz; subst; assumption.
      - injection Eh as _ ->. inversion Hnz; subst; assumption.
      - injection Eh as _ ->. inversion Hnz; subst; assumption. }
    set (hp := gvscale rc0 (gh d)) in *.
    destruct (i_fold_lr (ip_l pf) (ip_r pf) hchal2 (gvadd cc1 (gvscale cv1 hp)) []) as [[[rc1 ch1] hr1]| |] eqn:F1; cbn [bind] in H1; try discriminate.
    destruct (i_fold_lr (ip_l pf) (ip_r pf) hchal2 (gvadd cc1 (gvscale cv2 hp)) []) as [[[rc2 ch2] hr2]| |] eqn:F2; cbn [bind] in H2; try discriminate.
    pose proof (fold_lr_len _ _ _ _ _ _ Llr F1) as Lh.
    destruct (gvzero (gvsub rc1 _)) eqn:Z1; [|discriminate].
    destruct (gvzero (gvsub rc2 _)) eqn:Z2; [|discriminate].
    pose proof (proj1 (gvzero_co _) Z1 (d + 1)%nat) as C1. pose proof (proj1 (gvzero_co _) Z2 (d + 1)%nat) as C2.
    destruct (fold_lr_co (d + 1) _ _ _ _ _ _ _ _ Llr Lh F1) as (Ec1 & _ & Er1).
    destruct (fold_lr_co (d + 1) _ _ _ _ _ _ _ _ Llr Lh F2) as (Ec2 & _ & Er2).
    rewrite co_gvsub, Er1, fold_co_linear in C1. rewrite co_gvsub, Er2, fold_co_linear in C2.
    rewrite Ec1 in C1. rewrite Ec2 in C2. cbn [app] in C1, C2.
    rewrite co_gvadd, co_gvscale in C1, C2.
    assert (Ehp : co (d + 1) hp = rc0) by (unfold hp, gh; rewrite co_gvscale, co_unit_at; ring).
    rewrite Ehp in C1, C2.
    assert (E : (cv1 - cv2) * rc0 = 0).
    { transitivity ((co (d + 1) cc1 + rc0 * cv1 + fold_co (d + 1) (ip_l pf) (ip_r pf) (firstn (length (ip_l pf)) hchal2) 0
                     - co (d + 1) (gvadd (gvscale (ip_c pf) (ip_key pf)) (gvscale (sc_evaluate (firstn (length (ip_l pf)) hchal2) z * ip_c pf) hp)))
                    - (co (d + 1) cc1 + rc0 * cv2 + fold_co (d + 1) (ip_l pf) (ip_r pf) (firstn (length (ip_l pf)) hchal2) 0
                     - co (d + 1) (gvadd (gvscale (ip_c pf) (ip_key pf)) (gvscale (sc_evaluate (firstn (length (ip_l pf)) hchal2) z * ip_c pf) hp)))); [ring|].
      rewrite C1, C2. ring. }
    destruct (f_integral _ _ E) as [E0|E0]; [|contradiction].
    apply (proj1 (fsub_eq_0 _ _)) in E0. rewrite Ev1, Ev2 in E0.
    transitivity (0 + dot (sc_weights d z cs1 c0 chal0) vs1); [ring|]. rewrite E0. ring.
  Qed.

  Theorem ipa_check_relabel d cs1 cs2 z vs1 vs2 pf chal hchal r1 h1 r2 h2 :
    same_shape cs1 cs2 -> length vs1 = length cs1 -> length vs2 = length cs2 ->
    Forall (fun rc => rc <> 0) (firstn 2 hchal) ->
    i_check d cs1 z vs1 pf chal hchal = Ok (true, r1, h1) ->
    i_check d cs2 z vs2 pf chal hchal = Ok (true, r2, h2) ->
    match chal with
    | c0 :: chal0 => dot (sc_weights d z cs1 c0 chal0) vs1 = dot (sc_weights d z cs2 c0 chal0) vs2
    | [] => False
    end.
  Proof.
    intros HS L1 L2 Hnz H1 H2. unfold i_check in H1, H2.
    destruct (Nat.eqb_spec (length (ip_l pf)) (length (ip_r pf))) as [Llr|]; cbn [negb orb] in H1, H2; [|discriminate].
    destruct (negb _); [discriminate|].
    destruct (i_succinct_check d cs1 z vs1 pf chal hchal) as [[[o1 a1] b1]| |] eqn:S1; cbn [bind] in H1; try discriminate.
    destruct (i_succinct_check d cs2 z vs2 pf chal hchal) as [[[o2 a2] b2]| |] eqn:S2; cbn [bind] in H2; try discriminate.
    destruct o1 as [chs1|]; [|discriminate]. destruct o2 as [chs2|]; [|discriminate].
    exact (ipa_succinct_relabel d cs1 cs2 z vs1 vs2 pf chal hchal chs1 chs2 a1 b1 a2 b2 HS L1 L2 Llr Hnz S1 S2).
  Qed.

  (* one commitment with a shifted part, accepted for the value v under bound b: the same commitment, proof and value
     under another bound b' are accepted only if nxt * (z^(d-b) - z^(d-b')) * v = 0, i.e. (nxt and v non-zero) only if the
     two shift factors agree at the point *)
  Corollary ipa_relabelled_bound d cm b b' z v pf c0 nxt nxt2 chal2 hchal r1 h1 r2 h2 :
    Forall (fun rc => rc <> 0) (firstn 2 hchal) ->
    i_check d [(cm, Some b)] z [v] pf (c0 :: nxt :: nxt2 :: chal2) hchal = Ok (true, r1, h1) ->
    i_check d [(cm, Some b')] z [v] pf (c0 :: nxt :: nxt2 :: chal2) hchal = Ok (true, r2, h2) ->
    nxt * (fpow z (d - b) - fpow z (d - b')) * v = 0.
  Proof.
    intros Hnz H1 H2.
    assert (HS : same_shape [(cm, Some b)] [(cm, Some b')]) by (constructor; [split; reflexivity|constructor]).
    pose proof (ipa_check_relabel d _ _ z [v] [v] pf _ hchal r1 h1 r2 h2 HS eq_refl eq_refl Hnz H1 H2) as E.
    cbn [sc_weights] in E.
    destruct (ic_shifted cm) as [sc|] eqn:Es.
    - cbn [dot] in E.
      transitivity (((c0 + nxt * fpow z (d - b)) * v + 0) - ((c0 + nxt * fpow z (d - b')) * v + 0)); [ring|]. rewrite E. ring.
    - (* no shifted part under a claimed bound: the verifier aborts, so H1 is impossible *)
      exfalso. unfold i_check, i_succinct_check in H1. destruct (negb _ || negb _); [discriminate|].
      cbn [i_sc_loop] in H1. rewrite Es in H1. cbn in H1. discriminate.
  Qed.

  (* committer and opener: a bound below the degree or above the key is refused *)
  Lemma ipa_commit_refuses_bad_bound d lp b rng :
    lp_bound lp = Some b -> (b < degree (lp_poly lp) \/ d < b)%nat ->
    exists e, i_commit1 d lp rng = Err e.
  Proof.
    intros Eb Hb. unfold i_commit1, i_check_dab. rewrite Eb.
    destruct (d <? degree (lp_poly lp))%nat; cbn [bind]; [eexists; reflexivity|].
    assert (T : ((b <? degree (lp_poly lp)) || (d <? b))%nat = true).
    { destruct Hb as [H|H]; [apply (proj2 (Nat.ltb_lt _ _)) in H; rewrite H; reflexivity|].
      apply (proj2 (Nat.ltb_lt _ _)) in H. rewrite H. apply orb_true_r. }
    rewrite T. cbn [bind]. eexists; reflexivity.
  Qed.

  (* verifier: a claimed bound on a commitment without shifted part, or a shifted part without claimed bound, aborts
     (the assertion of succinct_check); a claimed bound above the key length aborts (usize subtraction) *)
  Lemma ipa_bound_presence_mismatch_aborts d z cm bound cs v vs cur nxt chal1 cc cv :
    has_bound bound <> (match ic_shifted cm with Some _ => true | None => false end) ->
    i_sc_loop d z ((cm, bound) :: cs) (v :: vs) cur (nxt :: chal1) cc cv = Panic.
  Proof.
    intros H. cbn [i_sc_loop]. unfold has_bound in H.
    destruct bound; destruct (ic_shifted cm); cbn [Bool.eqb negb]; try reflexivity; exfalso; apply H; reflexivity.
  Qed.
  Lemma ipa_bound_above_key_aborts d z cm sc b cs v vs cur nxt nxt2 chal2 cc cv :
    ic_shifted cm = Some sc -> (d < b)%nat ->
    i_sc_loop d z ((cm, Some b) :: cs) (v :: vs) cur (nxt :: nxt2 :: chal2) cc cv = Panic.
  Proof.
    intros Es H. cbn [i_sc_loop]. rewrite Es. cbn [Bool.eqb negb]. apply (proj2 (Nat.ltb_lt _ _)) in H. rewrite H. reflexivity.
  Qed.
End IPABounds.
