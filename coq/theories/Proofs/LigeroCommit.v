(* C08 for the linear-code schemes (Reed-Solomon rows; column hash and Merkle tree an ideal vector commitment, so the root stands
   for the extended matrix): the committed object is a deterministic function of the coefficients, blind to high-order zero
   coefficients, laid out row-major, and two polynomials with the same extended matrix are the same polynomial. *)
From Coq Require Import List Arith NArith Bool Lia Field Ring.
From PC Require Import Base.Field Base.Result Base.Poly Proofs.PolyFacts Schemes.CalcT Schemes.Ligero Proofs.LigeroFacts.
Import ListNotations.
Open Scope F_scope.

Section LigeroCommit.
  Context {FO : FieldOps} {FL : FieldLaws FO}.
  Add Field Ffield54 : FL_field.

  (* equal codewords over a domain of distinct positions at least as long as the message: equal messages *)
  Lemma encode_injective omega n_ext n_cols (v v' : list F) :
    NoDup (dom omega n_ext) -> (n_cols <= n_ext)%nat -> (length v <= n_cols)%nat -> (length v' <= n_cols)%nat ->
    encode omega n_ext v' = encode omega n_ext v -> forall x, eval v' x = eval v x.
  Proof.
    intros Hd Hn Lv Lv' E x.
    destruct (feqb_reflect (eval v' x) (eval v x)) as [Heq|Hne]; [exact Heq|]. exfalso.
    assert (Hx : exists x, eval v' x <> eval v x) by (exists x; exact Hne).
    assert (HF : Forall (fun j => (j < n_ext)%nat) (seq 0 n_ext)).
    { apply Forall_forall. intros j Hj. apply in_seq in Hj. lia. }
    pose proof (agreement_bound omega n_ext n_cols v v' (seq 0 n_ext) Hd Lv Lv' (seq_NoDup _ _) HF) as B.
    rewrite seq_length in B. enough (n_ext < n_cols)%nat by lia. apply B; [|exact Hx].
    intros q Hq. apply in_seq in Hq. rewrite <- !nth_encode by lia. rewrite E. reflexivity.
  Qed.

  Lemma eval_concat_ext n : forall (rows rows' : list (list F)),
    Forall (fun r => length r = n) rows -> Forall (fun r => length r = n) rows' ->
    Forall2 (fun r r' => forall x, eval r' x = eval r x) rows rows' ->
    forall z, eval (concat rows') z = eval (concat rows) z.
  Proof.
    intros rows rows' H1 H2 HF. revert H1 H2. induction HF as [|r r' rows rows' Hr _ IH]; intros H1 H2 z; [reflexivity|].
    assert (P1 : length r = n /\ Forall (fun r0 => length r0 = n) rows) by (inversion H1; split; assumption).
    assert (P2 : length r' = n /\ Forall (fun r0 => length r0 = n) rows') by (inversion H2; split; assumption).
    destruct P1 as [L1 H1']. destruct P2 as [L2 H2'].
    cbn [concat]. rewrite !eval_app, Hr, (IH H1' H2' z), L1, L2. reflexivity.
  Qed.

  (* different polynomials, different commitments: equal extended matrices force equal polynomials *)
  Theorem ligero_commitment_injective omega n_ext n_rows n_cols (p q : list F) :
    NoDup (dom omega n_ext) -> (n_cols <= n_ext)%nat ->
    (length p <= n_rows * n_cols)%nat -> (length q <= n_rows * n_cols)%nat ->
    map (encode omega n_ext) (lig_matrix n_rows n_cols q) = map (encode omega n_ext) (lig_matrix n_rows n_cols p) ->
    forall z, eval q z = eval p z.
  Proof.
    intros Hd Hn Lp Lq E z.
    destruct (lig_matrix_shape n_rows n_cols p Lp) as (L1 & F1 & Ev1).
    destruct (lig_matrix_shape n_rows n_cols q Lq) as (L2 & F2 & Ev2).
    rewrite <- Ev1, <- Ev2. apply (eval_concat_ext n_cols); [exact F1|exact F2|].
    set (rp := lig_matrix n_rows n_cols p) in *. set (rq := lig_matrix n_rows n_cols q) in *.
    clearbody rp rq. clear Ev1 Ev2 Lp Lq.
    clear L1 L2. revert rq F2 E. induction rp as [|r rp IH]; intros [|r' rq] F2 E; try discriminate; [constructor|].
    cbn [map] in E. injection E as E1 E2.
    assert (P1 : length r = n_cols /\ Forall (fun r0 => length r0 = n_cols) rp) by (inversion F1; split; assumption).
    assert (P2 : length r' = n_cols /\ Forall (fun r0 => length r0 = n_cols) rq) by (inversion F2; split; assumption).
    destruct P1 as [Lr F1']. destruct P2 as [Lr' F2'].
    constructor.
    - apply (encode_injective omega n_ext n_cols); [exact Hd|exact Hn|lia|lia|exact E1].
    - exact (IH F1' rq F2' E2).
  Qed.

  (* ---- the padded flat vector ---- *)
  Lemma nth_firstn_lt {A} (d : A) : forall n (l : list A) i, (i < n)%nat -> nth i (firstn n l) d = nth i l d.
  Proof.
    induction n as [|n IH]; intros l i Hi; [lia|]. destruct l as [|x l]; [destruct i; reflexivity|].
    destruct i as [|i]; cbn [firstn nth]; [reflexivity|]. apply IH. lia.
  Qed.
  Lemma nth_skipn' {A} (d : A) : forall n (l : list A) i, nth i (skipn n l) d = nth (n + i) l d.
  Proof.
    induction n as [|n IH]; intros l i; [reflexivity|]. destruct l as [|x l]; [destruct i; reflexivity|].
    cbn [skipn Nat.add nth]. apply IH.
  Qed.
  Lemma nth_app_zeros (c : list F) k t : nth t (c ++ repeat 0 k) 0 = nth t c 0.
  Proof.
    destruct (Nat.ltb_spec t (length c)) as [Hlt|Hge]; [rewrite app_nth1 by exact Hlt; reflexivity|].
    rewrite app_nth2 by exact Hge. rewrite nth_repeat. symmetry. apply nth_overflow. exact Hge.
  Qed.
  Lemma padded_length N (c : list F) : length (firstn N (c ++ repeat 0 (N - length c))) = N.
  Proof. rewrite firstn_length, app_length, repeat_length. lia. Qed.
  Lemma padded_nth N (c : list F) t : (t < N)%nat -> nth t (firstn N (c ++ repeat 0 (N - length c))) 0 = nth t c 0.
  Proof. intros Ht. rewrite nth_firstn_lt by exact Ht. apply nth_app_zeros. Qed.

  (* representation independence: high-order zero coefficients are invisible *)
  Theorem lig_matrix_ignores_trailing_zeros n_rows n_cols (p : list F) k :
    p <> [] -> lig_matrix n_rows n_cols (p ++ repeat 0 k) = lig_matrix n_rows n_cols p.
  Proof.
    intros Hp. unfold lig_matrix. cbv zeta.
    assert (NE : forall c : list F, c <> [] -> match c with [] => [0] | _ :: _ => c end = c) by (intros [|? ?] H; [contradiction|reflexivity]).
    rewrite (NE p Hp), (NE (p ++ repeat 0 k)) by (destruct p; [contradiction|discriminate]). f_equal.
    apply nth_ext with (d := 0) (d' := 0); [rewrite !padded_length; reflexivity|].
    intros t Ht. rewrite padded_length in Ht. rewrite !padded_nth by exact Ht. apply nth_app_zeros.
  Qed.

  (* the layout: entry (i, j) of the matrix is coefficient i * n_cols + j *)
  Theorem lig_matrix_entry n_rows n_cols (p : list F) i j :
    p <> [] -> (i < n_rows)%nat -> (j < n_cols)%nat ->
    nth j (nth i (lig_matrix n_rows n_cols p) []) 0 = nth (i * n_cols + j) p 0.
  Proof.
    intros Hp Hi Hj. unfold lig_matrix. destruct p as [|a p']; [contradiction|].
    assert (G : forall n_rows0 (l0 : list F) i0, (i0 < n_rows0)%nat ->
               nth j (nth i0 (rows_of n_rows0 n_cols l0) []) 0 = nth (i0 * n_cols + j) l0 0).
    { induction n_rows0 as [|m IH]; intros l0 i0 Hi0; [lia|]. cbn [rows_of]. destruct i0 as [|i0]; cbn [nth].
      - rewrite nth_firstn_lt by exact Hj. reflexivity.
      - rewrite IH by lia. rewrite nth_skipn'. f_equal. lia. }
    rewrite G by exact Hi. apply padded_nth. nia.
  Qed.
End LigeroCommit.
