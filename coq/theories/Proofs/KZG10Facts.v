From Coq Require Import List Arith Bool Lia Field Ring.
From PC Require Import Base.Field Base.Result Base.Poly Proofs.PolyFacts Schemes.KZG10.
Import ListNotations.
Open Scope F_scope.

Section KZG10Facts.
  Context {FO : FieldOps} {FL : FieldLaws FO}.
  Add Field Ffield3 : FL_field.

  Lemma commit_coeffs_msm bases p : commit_coeffs bases p = msm bases (trim p).
  Proof.
    unfold commit_coeffs. pose proof (skip_leading_zeros_msm bases (trim p)) as H.
    destruct (skip_leading_zeros (trim p)) as [n s]. exact H.
  Qed.

  Lemma commit_coeffs_spec g b n p :
    length (trim p) <= n -> commit_coeffs (map (fun s => g * s) (powers b n)) p = g * eval p b.
  Proof.
    intros H. rewrite commit_coeffs_msm, msm_powers by exact H. rewrite eval_trim. reflexivity.
  Qed.

  Lemma degree_check_length deg n :
    check_degree_is_too_large deg n = Ok tt <-> deg + 1 <= n.
  Proof.
    unfold check_degree_is_too_large. destruct (Nat.ltb_spec n (deg + 1)); split; intros H0; try reflexivity; try discriminate; lia.
  Qed.

  Lemma degree_check_cases deg n :
    (check_degree_is_too_large deg n = Ok tt /\ deg + 1 <= n) \/
    (check_degree_is_too_large deg n = Err ETooManyCoefficients /\ n < deg + 1).
  Proof.
    unfold check_degree_is_too_large. destruct (Nat.ltb_spec n (deg + 1)); [right|left]; split; auto.
  Qed.

  Lemma degree_trim_length p n : degree p + 1 <= n -> length (trim p) <= n.
  Proof. unfold degree. lia. Qed.

  (* keys derived from an honest setup *)
  Lemma setup_ok D g2 beta g gamma_g h up :
    setup D g2 beta g gamma_g h = Ok up ->
    1 <= D /\
    up_powers_of_g up = map (fun s => g * s) (powers beta (D + 1)) /\
    up_powers_of_gamma_g up = map (fun s => gamma_g * s) (powers beta (D + 2)) /\
    up_h up = h /\ up_beta_h up = h * beta.
  Proof.
    unfold setup. destruct (Nat.ltb_spec D 1); [discriminate|].
    intros E. inversion E; subst; clear E. cbn [up_powers_of_g up_powers_of_gamma_g up_h up_beta_h].
    rewrite firstn_powers by lia. repeat split; auto.
  Qed.

  Lemma powers_of_setup D g2 beta g gamma_g h up s :
    setup D g2 beta g gamma_g h = Ok up -> s <= D ->
    pw_g (powers_of up s) = map (fun x => g * x) (powers beta (s + 1)) /\
    pw_gamma_g (powers_of up s) = map (fun x => gamma_g * x) (powers beta (s + 1)).
  Proof.
    intros Hs Hle. apply setup_ok in Hs. destruct Hs as (_ & Hg & Hgg & _).
    unfold powers_of. cbn [pw_g pw_gamma_g]. rewrite Hg, Hgg.
    rewrite !firstn_map, !firstn_powers by lia. split; reflexivity.
  Qed.

  Lemma vk_of_setup D g2 beta g gamma_g h up :
    setup D g2 beta g gamma_g h = Ok up ->
    vk_g (vk_of up) = g * 1 /\ vk_gamma_g (vk_of up) = gamma_g * 1 /\
    vk_h (vk_of up) = h /\ vk_beta_h (vk_of up) = h * beta.
  Proof.
    intros Hs. apply setup_ok in Hs. destruct Hs as (HD & Hg & Hgg & Hh & Hbh).
    unfold vk_of. cbn [vk_g vk_gamma_g vk_h vk_beta_h]. rewrite Hg, Hgg, Hh, Hbh.
    replace (D + 1)%nat with (S D) by lia. replace (D + 2)%nat with (S (S D)) by lia.
    cbn. repeat split; reflexivity.
  Qed.

  (* What an honest commit returns, in closed form. *)
  Lemma commit_spec g gamma_g beta n pw p hb rng c r draws :
    pw_g pw = map (fun x => g * x) (powers beta n) ->
    pw_gamma_g pw = map (fun x => gamma_g * x) (powers beta n) ->
    commit pw p hb rng = Ok (c, r, draws) ->
    c = g * eval p beta + gamma_g * eval r beta /\ length (trim p) <= n /\
    trim r = r /\ length r <= n /\
    match hb with
    | None => r = [] /\ draws = O
    | Some hbv => exists tape, rng = Some tape /\ rand_draws hbv <= length tape /\
                          r = trim (firstn (rand_draws hbv) tape) /\ draws = rand_draws hbv /\
                          degree r <> O
    end.
  Proof.
    intros Hg Hgg. unfold commit.
    destruct (degree_check_cases (degree p) (length (pw_g pw))) as [[-> Hd]|[-> _]]; [|discriminate].
    cbn [bind].
    assert (Hlen : length (pw_g pw) = n) by (rewrite Hg, map_length; apply powers_from_length).
    assert (Hlen2 : length (pw_gamma_g pw) = n) by (rewrite Hgg, map_length; apply powers_from_length).
    assert (Hp : length (trim p) <= n) by (apply degree_trim_length; lia).
    destruct hb as [hbv|].
    - destruct rng as [tape|]; [|discriminate]. unfold take_tape.
      destruct (Nat.ltb_spec (length tape) (rand_draws hbv)); [discriminate|]. cbn [bind].
      unfold check_hiding_bound.
      destruct (Nat.eqb_spec (degree (trim (firstn (rand_draws hbv) tape))) 0); [discriminate|].
      destruct (Nat.leb_spec (length (pw_gamma_g pw)) (degree (trim (firstn (rand_draws hbv) tape)))); [discriminate|].
      cbn [bind]. intros E. inversion E; subst c r draws; clear E.
      set (r := trim (firstn (rand_draws hbv) tape)) in *.
      assert (Hr : length r <= length (pw_gamma_g pw)) by (unfold degree in *; unfold r in *; rewrite trim_idem in *; lia).
      rewrite Hg, Hgg. rewrite commit_coeffs_spec by exact Hp.
      rewrite msm_powers by lia.
      repeat split; try lia; [unfold r; apply trim_idem|].
      exists tape. repeat split; auto.
    - cbn [bind]. intros E. inversion E; subst c r draws; clear E.
      rewrite Hg. rewrite commit_coeffs_spec by exact Hp. rewrite msm_nil_r. cbn [eval].
      repeat split; try reflexivity; try lia; try ring. cbn; lia.
  Qed.

  Lemma is_zero_trimmed r : trim r = r -> is_zero_poly r = true -> r = [].
  Proof. unfold is_zero_poly. intros H. rewrite H. destruct r; [reflexivity|discriminate]. Qed.

  Lemma open_spec g gamma_g beta n pw p z r pf :
    pw_g pw = map (fun x => g * x) (powers beta n) ->
    pw_gamma_g pw = map (fun x => gamma_g * x) (powers beta n) ->
    trim r = r -> length r <= n ->
    open pw p z r = Ok pf ->
    pf_w pf = g * eval (quot_lin (trim p) z) beta + gamma_g * eval (quot_lin r z) beta /\
    pf_random_v pf = (if is_hiding r then Some (eval r z) else None).
  Proof.
    intros Hg Hgg Htr Hlr. unfold open, open_with_witness.
    destruct (degree_check_cases (degree p) (length (pw_g pw))) as [[-> Hd]|[-> _]]; [|discriminate].
    cbn [bind].
    destruct (degree_check_cases (degree (witness_poly p z)) (length (pw_g pw))) as [[-> Hd2]|[-> _]]; [|discriminate].
    cbn [bind].
    assert (Hlen : length (pw_g pw) = n) by (rewrite Hg, map_length; apply powers_from_length).
    assert (Hw : length (trim (witness_poly p z)) <= n) by (apply degree_trim_length; lia).
    rewrite Hg, Hgg. rewrite commit_coeffs_spec by exact Hw.
    unfold is_hiding. destruct (is_zero_poly r) eqn:Z; cbn [negb].
    - intros E; inversion E; subst pf; clear E. cbn [pf_w pf_random_v].
      apply is_zero_trimmed in Z; [|exact Htr]. subst r.
      unfold witness_poly. rewrite eval_trim. cbn [quot_lin sdiv fst eval]. split; [ring|reflexivity].
    - intros E; inversion E; subst pf; clear E. cbn [pf_w pf_random_v].
      rewrite msm_powers.
      + unfold witness_poly. rewrite !eval_trim. rewrite Htr. split; reflexivity.
      + unfold witness_poly. rewrite trim_idem. pose proof (witness_length (trim r) z). rewrite Htr in *. lia.
  Qed.

  (* ---------- C01: completeness, for every field, trapdoor, degree, polynomial,
     point, hiding bound and RNG tape ---------- *)
  Theorem kzg_complete :
    forall D g2 beta g gamma_g h up s p z hb rng c r draws pf,
      setup D g2 beta g gamma_g h = Ok up -> s <= D ->
      commit (powers_of up s) p hb rng = Ok (c, r, draws) ->
      open (powers_of up s) p z r = Ok pf ->
      check (vk_of up) c z (eval p z) pf = Ok true.
  Proof.
    intros D g2 beta g gamma_g h up s p z hb rng c r draws pf Hs Hle Hc Ho.
    destruct (powers_of_setup _ _ _ _ _ _ _ _ Hs Hle) as [Hg Hgg].
    destruct (vk_of_setup _ _ _ _ _ _ _ Hs) as (Vg & Vgg & Vh & Vbh).
    destruct (commit_spec _ _ _ _ _ _ _ _ _ _ _ Hg Hgg Hc) as (Ec & Hp & Htr & Hlr & _).
    destruct (open_spec _ _ _ _ _ _ _ _ _ Hg Hgg Htr Hlr Ho) as (Ew & Erv).
    unfold check. f_equal. apply FL_eqb.
    rewrite Vg, Vgg, Vh, Vbh, Ew, Erv, Ec.
    pose proof (sdiv_spec (trim p) z beta) as Qp. rewrite !eval_trim in Qp.
    pose proof (sdiv_spec r z beta) as Qr.
    unfold is_hiding. destruct (is_zero_poly r) eqn:Z; cbn [negb].
    - apply is_zero_trimmed in Z; [|exact Htr]. subst r. cbn [quot_lin sdiv fst eval] in *.
      rewrite Qp. ring.
    - rewrite Qp, Qr. ring.
  Qed.

  (* the prover does not refuse in-domain requests (C17's "never aborts" half) *)
  Theorem kzg_serves :
    forall D g2 beta g gamma_g h up s p z,
      setup D g2 beta g gamma_g h = Ok up -> s <= D -> degree p <= s ->
      exists c pf, commit (powers_of up s) p None None = Ok (c, [], O) /\
                   open (powers_of up s) p z [] = Ok pf.
  Proof.
    intros D g2 beta g gamma_g h up s p z Hs Hle Hd.
    destruct (powers_of_setup _ _ _ _ _ _ _ _ Hs Hle) as [Hg Hgg].
    assert (Hlen : length (pw_g (powers_of up s)) = (s + 1)%nat)
      by (rewrite Hg, map_length; apply powers_from_length).
    unfold commit, open, open_with_witness. rewrite Hlen.
    destruct (degree_check_cases (degree p) (s + 1)) as [[-> _]|[_ Hbad]]; [|lia]. cbn [bind].
    assert (Hwd : degree (witness_poly p z) + 1 <= s + 1).
    { unfold degree, witness_poly. rewrite trim_idem. pose proof (witness_length (trim p) z).
      unfold degree in Hd. lia. }
    destruct (degree_check_cases (degree (witness_poly p z)) (s + 1)) as [[-> _]|[_ Hbad]]; [|lia].
    cbn [bind is_hiding is_zero_poly trim negb]. eexists; eexists; split; reflexivity.
  Qed.

  (* ---------- C02: value binding of the check equation (unconditional) ---------- *)
  Theorem kzg_value_binding :
    forall vk c z v v' pf,
      vk_g vk <> 0 -> vk_h vk <> 0 ->
      check vk c z v pf = Ok true -> v' <> v -> check vk c z v' pf = Ok false.
  Proof.
    intros vk c z v v' pf Hg Hh Hc Hv. unfold check in *. f_equal.
    inversion Hc as [Hc']. apply FL_eqb in Hc'. apply feqb_false. intros E.
    apply Hv. apply (fmul_cancel_l (vk_g vk * vk_h vk)); [apply fmul_neq_0; assumption|].
    destruct (pf_random_v pf) as [rv|].
    - transitivity ((c - vk_gamma_g vk * rv) * vk_h vk - pf_w pf * (vk_beta_h vk - vk_h vk * z)).
      + rewrite <- E. ring.
      + rewrite <- Hc'. ring.
    - transitivity (c * vk_h vk - pf_w pf * (vk_beta_h vk - vk_h vk * z)).
      + rewrite <- E. ring.
      + rewrite <- Hc'. ring.
  Qed.

  Lemma check_iff_residual vk c z v pf :
    check vk c z v pf = Ok true <-> check_residual vk c z v pf = 0.
  Proof.
    unfold check, check_residual. split.
    - intros H. inversion H as [H']. apply FL_eqb in H'. apply fsub_eq_0. exact H'.
    - intros H. f_equal. apply FL_eqb. apply fsub_eq_0. exact H.
  Qed.
End KZG10Facts.
