(* PST13 batch_check as a weighted sum (C05): the one pairing product of the batch is, coordinate by coordinate, the
   randomizer-weighted sum of the single-point residuals of the groups (first randomizer 1, the others from the verifier's RNG),
   for proofs with one witness per variable; so the batch accepts exactly when every coordinate of that sum vanishes, and one group
   with a non-zero residual under a non-zero randomizer is enough for rejection when the other groups hold. *)
From Coq Require Import List Arith NArith Bool Lia Field Ring.
From PC Require Import Base.Field Base.Result Base.Poly Proofs.PolyFacts Schemes.PST13 Proofs.PST13Facts Schemes.LC Schemes.Marlin
     Schemes.IPA Proofs.LCFacts Proofs.IPAFacts Schemes.PST13H Proofs.PST13HFacts Schemes.DefaultBatch Schemes.PST13Batch Proofs.PST13BatchFacts.
Import ListNotations.
Open Scope F_scope.

Section PST13BatchSum.
  Context {FO : FieldOps} {FL : FieldLaws FO}.
  Add Field Ffield56 : FL_field.
  Variables (nv : nat) (betas : list F).

  Definition ptotal (i : nat) (a : pbacc) : F :=
    co i (pb_c a) - co i (el (pb_g a) 0) - co i (el 0 (pb_gam a)) - bs betas i 0 (pb_w a).
  Fixpoint pwsum (i : nat) (ws : list (F * (gv * point * F) * PProof)) : F :=
    match ws with [] => 0 | (w, t, pf) :: r => w * resid betas i t pf + pwsum i r end.
  Lemma pwsum_app i a b : pwsum i (a ++ b) = pwsum i a + pwsum i b.
  Proof. induction a as [|[[w t] pf] a IH]; cbn [app pwsum]; [ring|]. rewrite IH. ring. Qed.

  Lemma pst_bloop_weighted : forall trip proofs vtape rnd a draws a' dr,
    length (pb_w a) = nv ->
    Forall (fun pf => length (pp_w pf) = nv) proofs ->
    pst_bloop nv trip proofs vtape rnd a draws = Ok (a', dr) ->
    exists ws, (length ws <= length trip)%nat /\ map (fun x => fst (fst x)) ws = firstn (length ws) (rnd :: vtape) /\
               forall i, ptotal i a' = ptotal i a + pwsum i ws.
  Proof.
    induction trip as [|[[c z] v] trip IH]; intros proofs vtape rnd a draws a' dr La Hf H.
    - cbn [pst_bloop] in H. injection H as <- _. exists []. cbn [length map firstn pwsum]. repeat split; [lia|]. intros i. ring.
    - destruct proofs as [|pf proofs]; cbn [pst_bloop] in H.
      + injection H as <- _. exists []. cbn [length map firstn pwsum]. repeat split; [lia|]. intros i. ring.
      + assert (HP : length (pp_w pf) = nv /\ Forall (fun pf0 => length (pp_w pf0) = nv) proofs) by (inversion Hf; split; assumption).
        destruct HP as [Lw Hf'].
        destruct (length z <? length (pp_w pf))%nat; [discriminate|].
        destruct (length (pp_w pf) <? nv)%nat; [discriminate|].
        destruct vtape as [|x vt']; [discriminate|].
        match type of H with pst_bloop _ _ _ _ _ ?A _ = _ => set (a1 := A) in * end.
        assert (La1 : length (pb_w a1) = nv) by (cbn [a1 pb_w]; rewrite map_length, combine_length, seq_length; lia).
        destruct (IH proofs vt' x a1 (S draws) a' dr La1 Hf' H) as (ws & Lws & Hw & Hs).
        exists ((rnd, (c, z, v), pf) :: ws). cbn [length map fst firstn]. split; [lia|]. split; [f_equal; exact Hw|].
        intros i. rewrite (Hs i). cbn [pwsum]. unfold ptotal. cbn [a1 pb_c pb_w pb_g pb_gam].
        replace (seq 0 nv) with (seq 0 (length (pb_w a))) by (rewrite La; reflexivity).
        rewrite (bs_update betas i rnd (pp_w pf) (pb_w a) 0).
        assert (Em : map (fun k => nth k (pp_w pf) []) (seq 0 (length (pb_w a))) = pp_w pf).
        { rewrite La, <- Lw. pose proof (map_nth_all (@nil F) (pp_w pf) 0) as M. rewrite Nat.sub_0_r in M. exact M. }
        rewrite Em.
        rewrite co_gvadd, co_gvscale, co_gvadd, co_zw_sum.
        assert (Eg1 : co i (el 0 (match pp_rv pf with Some rv => pb_gam a + rnd * rv | None => pb_gam a end))
                     = co i (el 0 (pb_gam a + rnd * rv_of pf))).
        { unfold rv_of. destruct (pp_rv pf); [reflexivity|]. f_equal. f_equal. ring. }
        rewrite Eg1, co_el_add0, co_el_add1, co_el_scale0, co_el_scale1.
        unfold resid. cbn [fst snd]. rewrite rsum_bs_zs. ring.
  Qed.

  Theorem pst_batch_is_weighted_sum cs qs ev proofs chal vtape b rest dr :
    Forall (fun pf => length (pp_w pf) = nv) proofs ->
    pst_batch_check nv betas cs qs ev proofs chal vtape = Ok (b, rest, dr) ->
    exists ws, (length ws <= length (groups qs))%nat /\ map (fun x => fst (fst x)) ws = firstn (length ws) (1 :: vtape) /\
               (b = true <-> forall i, pwsum i ws = 0).
  Proof.
    intros Hf H. unfold pst_batch_check in H.
    destruct (pst_combine (label_map cs) ev (groups qs) chal) as [[trip rest0]| |] eqn:Ec; cbn [bind] in H; try discriminate.
    destruct (Nat.eqb_spec (length proofs) (length trip)) as [Lp|]; cbn [negb] in H; [|discriminate].
    destruct (pst_bloop nv trip proofs vtape 1 {| pb_c := []; pb_w := repeat [] nv; pb_g := 0; pb_gam := 0 |} O) as [[a' d0]| |] eqn:Eb;
      cbn [bind] in H; try discriminate.
    injection H as <- _ _.
    destruct (pst_bloop_weighted trip proofs vtape 1 {| pb_c := []; pb_w := repeat [] nv; pb_g := 0; pb_gam := 0 |} O a' d0
                (repeat_length _ _) Hf Eb) as (ws & Lws & Hw & Hs).
    assert (Lt : length trip = length (groups qs)).
    { clear - Ec. revert chal trip rest0 Ec. induction (groups qs) as [|[pl [pt labels]] t IH]; intros chal trip rest0 E; cbn [pst_combine] in E.
      - injection E as <- _. reflexivity.
      - destruct (gather_v gv _ ev pt labels) as [cv| |]; cbn [bind] in E; try discriminate.
        destruct (ph_acc (fst cv) (snd cv) chal [] 0) as [[[cc v] r1]| |]; cbn [bind] in E; try discriminate.
        destruct (pst_combine _ ev t r1) as [[tr r2]| |] eqn:E2; cbn [bind fst snd] in E; try discriminate.
        injection E as <- _. cbn [length]. f_equal. exact (IH _ _ _ E2). }
    exists ws. split; [lia|]. split; [exact Hw|].
    assert (T0 : forall i, ptotal i {| pb_c := []; pb_w := repeat [] nv; pb_g := 0; pb_gam := 0 |} = 0).
    { intros i. unfold ptotal. cbn [pb_c pb_w pb_g pb_gam]. rewrite co_nil.
      assert (B : forall n k, bs betas i k (repeat [] n) = 0).
      { induction n as [|n IHn]; intros k; cbn [repeat bs]; [reflexivity|]. rewrite IHn, co_nil. ring. }
      rewrite B. destruct i as [|[|i]]; rewrite ?co_el0, ?co_el1, ?co_el2; ring. }
    assert (E : forall i, co i (gvsub (gvsub (gvsub (pb_c a') (el (pb_g a') 0)) (el 0 (pb_gam a'))) (bw_sum betas 0 (pb_w a'))) = pwsum i ws).
    { intros i. rewrite !co_gvsub, co_bw_sum. fold (ptotal i a'). rewrite (Hs i), (T0 i). ring. }
    split.
    - intros Hz i. rewrite <- (E i). exact (proj1 (gvzero_co _) Hz i).
    - intros Hall. apply gvzero_co. intros i. rewrite (E i). exact (Hall i).
  Qed.

  Theorem pwsum_one_false i pre w t pf post :
    (forall x, In x (pre ++ post) -> resid betas i (snd (fst x)) (snd x) = 0) ->
    w <> 0 -> resid betas i t pf <> 0 ->
    pwsum i (pre ++ (w, t, pf) :: post) <> 0.
  Proof.
    intros Hz Hw Hr.
    assert (Z : forall l, (forall x, In x l -> resid betas i (snd (fst x)) (snd x) = 0) -> pwsum i l = 0).
    { induction l as [|[[w0 t0] p0] l IH]; intros Hl; cbn [pwsum]; [reflexivity|].
      pose proof (Hl (w0, t0, p0) (or_introl eq_refl)) as E0. cbn [fst snd] in E0.
      rewrite E0, IH by (intros x Hx; apply Hl; right; exact Hx). ring. }
    rewrite pwsum_app. cbn [pwsum].
    rewrite (Z pre) by (intros x Hx; apply Hz; apply in_or_app; left; exact Hx).
    rewrite (Z post) by (intros x Hx; apply Hz; apply in_or_app; right; exact Hx).
    intros E. apply (fmul_neq_0 _ _ Hw Hr). transitivity (0 + (w * resid betas i t pf + 0)); [ring|exact E].
  Qed.
End PST13BatchSum.
