(* IPA linear-combination openings (C06), free-module view: the prover's combination of honest commitments to polynomials
   without degree bounds is the honest commitment of exactly the stated combination, with the combined randomness; the
   verifier's combined commitment is the same coefficient-weighted sum; the degree-bound policy and the constants. *)
From Coq Require Import List Arith NArith Bool Lia Field Ring.
From PC Require Import Base.Field Base.Result Base.Poly Base.OrdMap Proofs.PolyFacts Schemes.LC Schemes.Marlin Schemes.MarlinLC
     Schemes.IPA Proofs.LCFacts Proofs.IPAFacts Proofs.IPAComplete Schemes.DefaultBatch Schemes.IPABatch Proofs.MarlinLCFacts.
Import ListNotations.
Open Scope F_scope.

Section IPALCFacts2.
  Context {FO : FieldOps} {FL : FieldLaws FO}.
  Add Field Ffield45 : FL_field.
  Variable d : nat.

  (* the commitment is the key-defined linear map of the polynomial plus the blinding term *)
  Definition i_honest (it : LPoly * IRand * (IComm * option nat)) : Prop :=
    let '(lp, st, cm) := it in
    (forall i, co i (ic_comm (fst cm)) = dot (lp_poly lp) (map (co i) (key_of d)) + ir_rand st * co i (gs d)) /\
    (lp_bound lp = None -> ic_shifted (fst cm) = None /\ ir_shifted st = None).

  Lemma commit1_i_honest lp rng cm st n b :
    i_commit1 d lp rng = Ok (cm, st, n) -> i_honest (lp, st, (cm, b)).
  Proof.
    intros H. destruct (commit1_inv d lp rng cm st n H) as (Hd & Hc & Hs & Hh & Hhs).
    split.
    - intros i. cbn [fst]. rewrite Hc. apply co_commit.
      unfold i_check_dab in Hd. destruct (d <? degree (lp_poly lp))%nat eqn:E; [discriminate|].
      apply Nat.ltb_ge in E. exact E.
    - intros Hb. cbn [fst]. rewrite Hs, Hb. split; [reflexivity|].
      unfold i_commit1 in H. destruct (i_check_dab d (lp_poly lp) (lp_bound lp)) as [[]| |]; cbn [bind] in H; try discriminate.
      rewrite Hb in H. destruct (lp_hiding lp).
      + destruct rng as [tape|]; cbn [bind] in H; try discriminate.
        destruct (length tape <? 1)%nat; cbn [bind] in H; try discriminate. injection H as _ <- _. reflexivity.
      + cbn [bind] in H. injection H as _ <- _. reflexivity.
  Qed.

  Definition i_lm_honest (lm : list (N * (LPoly * IRand * (IComm * option nat)))) : Prop :=
    forall l it, lookup N.compare l lm = Some it -> i_honest it.
  Definition i_poly_of (lm : list (N * (LPoly * IRand * (IComm * option nat)))) (x : F) (l : N) : F :=
    match lookup N.compare l lm with Some (lp, _, _) => eval (lp_poly lp) x | None => 0 end.

  Definition IInv (lm : list (N * (LPoly * IRand * (IComm * option nat)))) (done : lc) (a : ilc_acc) : Prop :=
    (forall x, eval (ia_poly a) x = lc_poly_value (i_poly_of lm x) done) /\
    (forall i, co i (ia_cc a) = dot (ia_poly a) (map (co i) (key_of d)) + ia_rand a * co i (gs d)) /\
    ia_bound a = None /\ ia_cs a = None /\ ia_srand a = None.

  Lemma i_prover_loop_unbounded lm num : forall terms done a a',
      i_lm_honest lm ->
      (forall co0 l lp st c, In (co0, TPoly l) terms -> lookup N.compare l lm = Some (lp, st, c) -> lp_bound lp = None) ->
      IInv lm done a ->
      ilc_prover_loop lm num terms a = Ok a' -> IInv lm (done ++ terms) a'.
  Proof.
    induction terms as [|[c0 [|l]] t IH]; intros done a a' Hlm Hnb HI H; cbn [ilc_prover_loop] in H.
    - inversion H; subst. rewrite app_nil_r. exact HI.
    - replace (done ++ (c0, TOne) :: t) with ((done ++ [(c0, TOne)]) ++ t) by (rewrite <- app_assoc; reflexivity).
      apply (IH (done ++ [(c0, TOne)]) a a' Hlm); [intros; eapply Hnb; [right; eassumption|eassumption]| |exact H].
      destruct HI as (I1 & I2 & I3 & I4 & I5). repeat split; auto.
      intros x. rewrite lc_poly_value_app, I1. cbn [lc_poly_value]. ring.
    - destruct (lookup N.compare l lm) as [[[lp st] cm]|] eqn:El; [|discriminate].
      assert (Hb : lp_bound lp = None) by (eapply Hnb; [left; reflexivity|exact El]).
      rewrite Hb in H. cbn [bound_policy bind] in H.
      replace (done ++ (c0, TPoly l) :: t) with ((done ++ [(c0, TPoly l)]) ++ t) by (rewrite <- app_assoc; reflexivity).
      eapply (IH (done ++ [(c0, TPoly l)]) _ a' Hlm); cycle 2; [exact H|intros; eapply Hnb; [right; eassumption|eassumption]|].
      destruct HI as (I1 & I2 & I3 & I4 & I5).
      destruct (Hlm _ _ El) as [Hc Hs]. destruct (Hs Hb) as [Hs1 Hs2].
      unfold IInv. cbn [ia_poly ia_bound ia_rand ia_srand ia_cc ia_cs].
      rewrite Hs1, Hs2, I4, I5. cbn [comb_opt_f comb_opt_g]. repeat split; auto.
      + intros x. rewrite eval_padd_scaled, lc_poly_value_app, I1. cbn [lc_poly_value]. unfold i_poly_of at 3. rewrite El. ring.
      + intros i. rewrite co_gvadd, co_gvscale, I2, Hc, dot_padd_scaled. ring.
  Qed.

  (* the combined (polynomial, randomness, commitment) of a combination of unbounded polynomials is an honest triple of exactly
     the stated combination: one flat element, no shifted part *)
  Theorem ilc_prover_one_unbounded lm lab terms a :
    i_lm_honest lm ->
    (forall co0 l lp st c, In (co0, TPoly l) terms -> lookup N.compare l lm = Some (lp, st, c) -> lp_bound lp = None) ->
    ilc_prover_loop lm (length terms) terms
      {| ia_poly := []; ia_bound := None; ia_hiding := None; ia_rand := 0; ia_srand := None; ia_cc := []; ia_cs := None |} = Ok a ->
    i_honest ({| lp_label := lab; lp_poly := ia_poly a; lp_bound := ia_bound a; lp_hiding := ia_hiding a |},
              {| ir_rand := ia_rand a; ir_shifted := ia_srand a |},
              ({| ic_comm := ia_cc a; ic_shifted := ia_cs a |}, ia_bound a)) /\
    ia_bound a = None /\ flat_of (ia_cc a) (ia_cs a) = [ia_cc a] /\
    forall x, eval (ia_poly a) x + lc_const terms = lc_value (i_poly_of lm x) terms.
  Proof.
    intros Hlm Hnb H.
    set (a0 := {| ia_poly := []; ia_bound := None; ia_hiding := None; ia_rand := 0; ia_srand := None; ia_cc := []; ia_cs := None |}) in *.
    assert (HI : IInv lm [] a0).
    { unfold IInv, a0. cbn [ia_poly ia_bound ia_rand ia_srand ia_cc ia_cs]. repeat split; auto.
      intros i. rewrite co_nil. cbn [dot]. ring. }
    pose proof (i_prover_loop_unbounded lm (length terms) terms [] a0 a Hlm Hnb HI H) as (I1 & I2 & I3 & I4 & I5). cbn [app] in I1.
    split.
    { unfold i_honest. split.
      - intros i. cbn [fst lp_poly ir_rand ic_comm]. exact (I2 i).
      - cbn [fst lp_bound ic_shifted ir_shifted]. intros _. split; assumption. }
    split; [exact I3|]. split; [rewrite I4; reflexivity|].
    intros x. rewrite lc_value_split, I1. reflexivity.
  Qed.

  (* the verifier's combined commitment: the coefficient-weighted sum of the commitments it looked up *)
  Fixpoint i_comm_value (i : nat) (cm : list (N * (IComm * option nat))) (terms : lc) : F :=
    match terms with
    | [] => 0
    | (_, TOne) :: t => i_comm_value i cm t
    | (c, TPoly l) :: t => (match lookup N.compare l cm with Some x => co i (ic_comm (fst x)) * c | None => 0 end) + i_comm_value i cm t
    end.
  Lemma ilc_verifier_loop_comm cm lab num : forall terms ev b cc cs ev' b' cc' cs',
    ilc_verifier_loop cm lab num terms ev b cc cs = Ok (ev', b', cc', cs') ->
    forall i, co i cc' = co i cc + i_comm_value i cm terms.
  Proof.
    induction terms as [|[c0 [|l]] t IH]; intros ev b cc cs ev' b' cc' cs' H i; cbn [ilc_verifier_loop] in H.
    - injection H as _ _ <- _. cbn [i_comm_value]. ring.
    - rewrite (IH _ _ _ _ _ _ _ _ H i). cbn [i_comm_value]. ring.
    - destruct (lookup N.compare l cm) as [c|] eqn:El; [|discriminate].
      destruct (negb _); [discriminate|].
      destruct (bound_policy num c0 (snd c) b); cbn [bind] in H; try discriminate.
      rewrite (IH _ _ _ _ _ _ _ _ H i), co_gvadd, co_gvscale. cbn [i_comm_value]. rewrite El. ring.
  Qed.

  Theorem ilc_prover_refuses_bounded_mix lm num coeff l t a lp st c b :
    lookup N.compare l lm = Some (lp, st, c) -> lp_bound lp = Some b -> num <> 1%nat ->
    ilc_prover_loop lm num ((coeff, TPoly l) :: t) a = Err EEquationHasDegreeBounds.
  Proof. intros Hl Hb Hn. cbn [ilc_prover_loop]. rewrite Hl, Hb, policy_bounded_in_mix by exact Hn. reflexivity. Qed.

  Theorem ilc_verifier_refuses_bounded_mix cm lab num coeff l t ev b cc cs c sc bd :
    lookup N.compare l cm = Some (c, Some bd) -> ic_shifted c = Some sc -> num <> 1%nat ->
    ilc_verifier_loop cm lab num ((coeff, TPoly l) :: t) ev b cc cs = Err EEquationHasDegreeBounds.
  Proof.
    intros Hl Hs Hn. cbn [ilc_verifier_loop]. rewrite Hl. cbn [fst snd]. rewrite Hs. cbn [Bool.eqb negb].
    rewrite policy_bounded_in_mix by exact Hn. reflexivity.
  Qed.

  Theorem ilc_constant_term_moves_to_claim cm lab num coeff t ev b cc cs :
    ilc_verifier_loop cm lab num ((coeff, TOne) :: t) ev b cc cs =
    ilc_verifier_loop cm lab num t
      (map (fun kv => if N.eqb (fst (fst kv)) lab then (fst kv, snd kv - coeff) else kv) ev) b cc cs.
  Proof. reflexivity. Qed.
End IPALCFacts2.
