(* C17: out-of-domain requests are refused; in-domain requests are served (no abort). *)
From Coq Require Import List Arith NArith Bool Lia Field Ring.
From PC Require Import Base.Field Base.Result Base.Poly Base.OrdMap Proofs.PolyFacts
     Schemes.KZG10 Schemes.LC Schemes.Marlin Proofs.KZG10Facts Proofs.MarlinComplete Proofs.MarlinBounds Proofs.Hiding.
Import ListNotations.
Open Scope F_scope.

Section Refusals.
  Context {FO : FieldOps} {FL : FieldLaws FO}.

  Theorem setup_refuses_degree_zero g2 beta g gamma_g h : setup 0 g2 beta g gamma_g h = Err EDegreeIsZero.
  Proof. reflexivity. Qed.

  Theorem setup_serves D g2 beta g gamma_g h : (1 <= D)%nat -> exists up, setup D g2 beta g gamma_g h = Ok up.
  Proof. intros H. unfold setup. destruct (Nat.ltb_spec D 1); [lia|]. eexists; reflexivity. Qed.

  (* committer: more coefficients than the key supports *)
  Theorem commit_refuses_large_polynomial pw p hb rng :
    (length (pw_g pw) < degree p + 1)%nat -> commit pw p hb rng = Err ETooManyCoefficients.
  Proof.
    intros H. unfold commit.
    destruct (degree_check_cases (degree p) (length (pw_g pw))) as [[_ H']|[-> _]]; [lia|reflexivity].
  Qed.

  (* prover: the same *)
  Theorem open_refuses_large_polynomial pw p z r :
    (length (pw_g pw) < degree p + 1)%nat -> KZG10.open pw p z r = Err ETooManyCoefficients.
  Proof.
    intros H. unfold KZG10.open.
    destruct (degree_check_cases (degree p) (length (pw_g pw))) as [[_ H']|[-> _]]; [lia|reflexivity].
  Qed.

  (* hiding bound beyond the gamma powers of the key *)
  Theorem commit_refuses_large_hiding_bound pw p h tape :
    (degree p + 1 <= length (pw_g pw))%nat -> (h + 2 <= length tape)%nat ->
    (length (pw_gamma_g pw) <= degree (trim (firstn (h + 2) tape)))%nat ->
    degree (trim (firstn (h + 2) tape)) <> O ->
    commit pw p (Some h) (Some tape) = Err EHidingBoundTooLarge.
  Proof.
    intros Hd Ht Hg Hnz. unfold commit.
    destruct (degree_check_cases (degree p) (length (pw_g pw))) as [[-> _]|[_ H']]; [|lia]. cbn [bind].
    unfold take_tape, rand_draws. destruct (Nat.ltb_spec (length tape) (h + 2)); [lia|]. cbn [bind].
    unfold check_hiding_bound. destruct (Nat.eqb_spec (degree (trim (firstn (h + 2) tape))) 0); [contradiction|].
    destruct (Nat.leb_spec (length (pw_gamma_g pw)) (degree (trim (firstn (h + 2) tape)))); [reflexivity|lia].
  Qed.

  Lemma index_all_not_err {A} (l : list A) e : forall k i, index_all l (seq i k) <> Err e.
  Proof.
    induction k as [|k IH]; intros i; cbn [seq index_all]; [discriminate|].
    destruct (nth_error l i); [|discriminate]. specialize (IH (S i)).
    destruct (index_all l (seq (S i) k)); cbn [bind]; try discriminate. exact IH.
  Qed.

  Lemma index_all_not_panic {A} (l : list A) : forall k i, (i + k <= length l)%nat -> index_all l (seq i k) <> Panic.
  Proof.
    induction k as [|k IH]; intros i Hl; cbn [seq index_all]; [discriminate|].
    destruct (nth_error l i) eqn:En; [|apply nth_error_None in En; lia].
    specialize (IH (S i)). destruct (index_all l (seq (S i) k)); cbn [bind]; try discriminate. apply IH. lia.
  Qed.

  (* trim: requests beyond the parameters *)
  Theorem trim_refuses_large_degree up s sh bounds :
    (max_degree up < s)%nat -> mtrim up s sh bounds = Err ETrimmingDegreeTooLarge.
  Proof. intros H. unfold mtrim. destruct (Nat.ltb_spec (max_degree up) s); [reflexivity|lia]. Qed.

  Theorem trim_refuses_large_hiding up s sh bounds :
    (s <= max_degree up)%nat -> (length (up_powers_of_gamma_g up) < sh + 2)%nat ->
    mtrim up s sh bounds = Panic.
  Proof.
    intros Hs Hh. unfold mtrim. destruct (Nat.ltb_spec (max_degree up) s); [lia|].
    destruct (index_all (up_powers_of_gamma_g up) (seq 0 (sh + 2))) as [gam| |] eqn:E; cbn [bind]; try reflexivity.
    - apply index_all_seq in E. destruct E as [_ [E|E]]; lia.
    - exfalso. exact (index_all_not_err _ _ _ _ E).
  Qed.

  Theorem trim_refuses_large_bound up s sh bounds :
    (s <= max_degree up)%nat -> (sh + 2 <= length (up_powers_of_gamma_g up))%nat ->
    (s < last (sort_dedup bounds) O)%nat -> sort_dedup bounds <> [] ->
    mtrim up s sh (Some bounds) = Err EUnsupportedDegreeBound.
  Proof.
    intros Hs Hh Hb Hne. unfold mtrim. destruct (Nat.ltb_spec (max_degree up) s); [lia|].
    destruct (index_all (up_powers_of_gamma_g up) (seq 0 (sh + 2))) as [gam| |] eqn:E; cbn [bind option_map].
    - destruct (sort_dedup bounds) as [|b0 bs] eqn:Eb; [contradiction|].
      destruct (Nat.ltb_spec s (last (b0 :: bs) O)); [reflexivity|lia].
    - exfalso. exact (index_all_not_err _ _ _ _ E).
    - exfalso. apply (index_all_not_panic (up_powers_of_gamma_g up) (sh + 2) 0); [lia|exact E].
  Qed.

  (* verifier: label lookups *)
  Theorem batch_unknown_polynomial_is_error cm ev pt l t :
    lookup N.compare l cm = None -> gather cm ev pt (l :: t) = Err EMissingPolynomial.
  Proof. intros H. cbn [gather]. rewrite H. reflexivity. Qed.

  Theorem batch_missing_evaluation_is_error cm ev pt l t c :
    lookup N.compare l cm = Some c ->
    Bool.eqb (match lc_bound c with Some _ => true | None => false end)
             (match mc_shifted (lc_comm c) with Some _ => true | None => false end) = true ->
    lookup qkey_cmp (l, pt) ev = None -> gather cm ev pt (l :: t) = Err EMissingEvaluation.
  Proof. intros H Hf He. cbn [gather]. rewrite H, Hf, He. reflexivity. Qed.

  Theorem batch_open_unknown_polynomial_is_error pm l t : lookup N.compare l pm = None ->
    @lookup_all (LPoly * MRand) pm (l :: t) = Err EMissingPolynomial.
  Proof. intros H. cbn [lookup_all]. rewrite H. reflexivity. Qed.

  (* in-domain Marlin commits are served: no error, no abort *)
  Theorem marlin_commit_serves ck vk g gam h b D hi n m lp :
    KeyOK ck vk g gam h b D hi n m ->
    lp_hiding lp = None -> (degree (lp_poly lp) + 1 <= n)%nat ->
    (forall d, lp_bound lp = Some d -> bound_admissible ck (lp_poly lp) d = true) ->
    exists mc mr, commit1 ck lp None = Ok (mc, mr, O).
  Proof.
    intros KO Hh Hd Hb. unfold commit1.
    assert (Hc : check_degrees_and_bounds (ck_max_degree ck) (ck_bounds ck) (lp_poly lp) (lp_bound lp) = Ok tt).
    { destruct (lp_bound lp) as [d|] eqn:E; [apply check_dab_iff; apply Hb; reflexivity|reflexivity]. }
    rewrite Hc. cbn [bind]. rewrite Hh. unfold kzg_commit_opt, commit.
    assert (L1 : length (pw_g (ck_pw ck)) = n) by (cbn; rewrite (K_powers _ _ _ _ _ _ _ _ _ _ KO); apply gpowers_length).
    destruct (degree_check_cases (degree (lp_poly lp)) (length (pw_g (ck_pw ck)))) as [[-> _]|[_ H']]; [|lia].
    cbn [bind]. destruct (lp_bound lp) as [d|] eqn:Eb; [|eexists; eexists; reflexivity].
    specialize (Hb d eq_refl). unfold bound_admissible in Hb. apply andb_true_iff in Hb. destruct Hb as [Hb Hmax].
    apply andb_true_iff in Hb. destruct Hb as [Hmem Hdeg]. apply Nat.leb_le in Hdeg.
    destruct (K_shift _ _ _ _ _ _ _ _ _ _ KO d Hmem) as [_ Hdhi].
    assert (Hne : bounds_list ck <> []) by (intros E; rewrite E in Hmem; discriminate).
    unfold shifted_pw. rewrite (K_shifted _ _ _ _ _ _ _ _ _ _ KO Hne).
    assert (Ebs : ck_bounds ck = Some (bounds_list ck)).
    { unfold bounds_list in *. destruct (ck_bounds ck); [reflexivity|exfalso; apply Hne; reflexivity]. }
    rewrite Ebs, Hmem. cbn [negb]. rewrite <- (K_hi _ _ _ _ _ _ _ _ _ _ KO), gpowers_length.
    destruct (Nat.ltb_spec (hi + 1) (hi - d)); [lia|]. cbn [bind pw_g].
    rewrite skipn_gpowers, gpowers_length.
    destruct (degree_check_cases (degree (lp_poly lp)) (hi + 1 - (hi - d))) as [[-> _]|[_ H']]; [|lia].
    cbn [bind]. eexists; eexists; reflexivity.
  Qed.
End Refusals.
