(* IPA: the halving rounds preserve the relation  P = <a, K> + <a, z> h'  and end in the verifier's final check:
   honest openings (no hiding) are accepted; the folded key is the commitment to the succinct check polynomial's
   coefficients.  Group elements are coefficient vectors; all statements are proved coordinate by coordinate. *)
From Coq Require Import List Arith NArith Bool Lia Field Ring.
From PC Require Import Base.Field Base.Result Base.Poly Proofs.PolyFacts Schemes.LC Schemes.Marlin Schemes.IPA Proofs.LCFacts.
Import ListNotations.
Open Scope F_scope.

Section IPAFacts.
  Context {FO : FieldOps} {FL : FieldLaws FO}.
  Add Field Ffield24 : FL_field.

  (* ---------------- coordinates of formal combinations ---------------- *)
  Definition co (i : nat) (v : gv) : F := nth i v 0.

  Lemma co_gvadd i : forall a b, co i (gvadd a b) = co i a + co i b.
  Proof.
    unfold co. revert i. induction i as [|i IH]; intros [|x a] [|y b]; cbn [gvadd nth]; try ring.
    apply IH.
  Qed.
  Lemma co_gvscale i c : forall a, co i (gvscale c a) = co i a * c.
  Proof.
    unfold co, gvscale. revert i. induction i as [|i IH]; intros [|x a]; cbn [map nth]; try ring. apply IH.
  Qed.
  Lemma co_gvsub i a b : co i (gvsub a b) = co i a - co i b.
  Proof. unfold gvsub. rewrite co_gvadd, co_gvscale. ring. Qed.
  Lemma co_nil i : co i [] = 0.
  Proof. unfold co. destruct i; reflexivity. Qed.

  Lemma gvzero_co v : gvzero v = true <-> forall i, co i v = 0.
  Proof.
    induction v as [|x v IH]; cbn [gvzero].
    - split; [intros _ i; apply co_nil|reflexivity].
    - rewrite andb_true_iff, FL_eqb, IH. split.
      + intros [-> H] [|i]; [reflexivity|apply H].
      + intros H. split; [exact (H 0%nat)|intros i; exact (H (S i))].
  Qed.

  (* coordinates of a multi-scalar sum: a scalar product *)
  Lemma co_gmsm i : forall (K : list gv) (a : list F), co i (gmsm K a) = dot a (map (co i) K).
  Proof.
    induction K as [|k K IH]; intros [|x a]; cbn [gmsm map dot]; try apply co_nil.
    rewrite co_gvadd, co_gvscale, IH. ring.
  Qed.

  (* ---------------- scalar products and the folding step ---------------- *)
  Lemma dot_app : forall a1 b1 a2 b2, length a1 = length b1 -> dot (a1 ++ a2) (b1 ++ b2) = dot a1 b1 + dot a2 b2.
  Proof.
    induction a1 as [|x a1 IH]; intros [|y b1] a2 b2 H; cbn in H; try lia; cbn [app dot]; [ring|].
    rewrite IH by lia. ring.
  Qed.

  Lemma dot_vadd_scaled_l : forall a c b k, length a = length b -> length k = length a ->
    dot (vadd_scaled a c b) k = dot a k + c * dot b k.
  Proof.
    induction a as [|x a IH]; intros c [|y b] [|w k] H1 H2; cbn in H1, H2; try lia; cbn [vadd_scaled dot]; [ring|].
    rewrite IH by lia. ring.
  Qed.
  Lemma dot_vadd_scaled_r : forall a k c l, length k = length l -> length a = length k ->
    dot a (vadd_scaled k c l) = dot a k + c * dot a l.
  Proof.
    induction a as [|x a IH]; intros [|w k] c [|y l] H1 H2; cbn in H1, H2; try lia; cbn [vadd_scaled dot]; [ring|].
    rewrite IH by lia. ring.
  Qed.
  Lemma vadd_scaled_length : forall a c b, length (vadd_scaled a c b) = length a.
  Proof. induction a as [|x a IH]; intros c [|y b]; cbn [vadd_scaled length]; try reflexivity. rewrite IH. reflexivity. Qed.
  Lemma kadd_scaled_length : forall a c b, length (kadd_scaled a c b) = length a.
  Proof. induction a as [|x a IH]; intros c [|y b]; cbn [kadd_scaled length]; try reflexivity. rewrite IH. reflexivity. Qed.

  (* coordinates of the folded key *)
  Lemma map_co_kadd_scaled i : forall (a : list gv) c b, length a = length b ->
    map (co i) (kadd_scaled a c b) = vadd_scaled (map (co i) a) c (map (co i) b).
  Proof.
    induction a as [|x a IH]; intros c [|y b] H; cbn in H; try lia; [reflexivity|].
    cbn [kadd_scaled map vadd_scaled]. rewrite co_gvadd, co_gvscale, IH by lia. f_equal. ring.
  Qed.

  (* ---------------- the rounds ---------------- *)
  (* the scalar the verifier reconstructs from the proof elements, in one coordinate *)
  Fixpoint fold_co (i : nat) (ls rs : list gv) (chs : list F) (acc : F) : F :=
    match ls, rs, chs with
    | l :: ls', r :: rs', rc :: chs' => fold_co i ls' rs' chs' (acc + (co i l * finv rc + co i r * rc))
    | _, _, _ => acc
    end.

  Lemma halves_length {A} (l : list A) k : length l = (2 ^ S k)%nat ->
    length (firstn (2 ^ k) l) = (2 ^ k)%nat /\ length (skipn (2 ^ k) l) = (2 ^ k)%nat.
  Proof. intros H. rewrite firstn_length, skipn_length, H, Nat.pow_succ_r'. lia. Qed.

  (* one coordinate of the invariant: after the rounds, <a,k> + <a,z> h  becomes  c * kf + c * zf * h *)
  Lemma rounds_co i : forall k hp a z (K : list gv) hchal ls rs fk c hrest,
    length a = (2 ^ k)%nat -> length z = (2 ^ k)%nat -> length K = (2 ^ k)%nat ->
    Forall (fun rc => rc <> 0) (firstn k hchal) ->
    i_rounds k hp a z K hchal = Ok (ls, rs, fk, c, hrest) ->
    let chs := firstn k hchal in
    (k <= length hchal)%nat /\ hrest = skipn k hchal /\ length ls = k /\ length rs = k /\
    co i fk = dot (compute_coeffs chs) (map (co i) K) /\
    fold_co i ls rs chs (dot a (map (co i) K) + dot a z * co i hp) = c * co i fk + c * dot (compute_coeffs chs) z * co i hp.
  Proof.
    induction k as [|k IH]; intros hp a z K hchal ls rs fk c hrest La Lz LK Hnz H; cbn [i_rounds] in H.
    - injection H as <- <- <- <- <-. cbn [firstn skipn length fold_co].
      destruct a as [|a0 [|? ?]]; cbn in La; try lia. destruct z as [|z0 [|? ?]]; cbn in Lz; try lia.
      destruct K as [|k0 [|? ?]]; cbn in LK; try lia.
      unfold compute_coeffs. cbn [length cc_loop repeat Nat.pow hd map dot]. repeat split; try reflexivity; try lia; ring.
    - destruct hchal as [|rc hchal']; [discriminate|].
      destruct (halves_length a k La) as [Lal Lar]. destruct (halves_length z k Lz) as [Lzl Lzr]. destruct (halves_length K k LK) as [LKl LKr].
      set (al := firstn (2 ^ k) a) in *. set (ar := skipn (2 ^ k) a) in *.
      set (zl := firstn (2 ^ k) z) in *. set (zr := skipn (2 ^ k) z) in *.
      set (Kl := firstn (2 ^ k) K) in *. set (Kr := skipn (2 ^ k) K) in *.
      destruct (i_rounds k hp (vadd_scaled al (finv rc) ar) (vadd_scaled zl rc zr) (kadd_scaled Kl rc Kr) hchal')
        as [[[[[ls' rs'] fk'] c'] hrest']| |] eqn:E; cbn [bind] in H; try discriminate.
      injection H as <- <- <- <- <-.
      cbn [firstn] in Hnz. inversion Hnz as [|? ? Hrc Hnz']; subst.
      destruct (IH _ _ _ _ _ _ _ _ _ _ ltac:(rewrite vadd_scaled_length; exact Lal) ltac:(rewrite vadd_scaled_length; exact Lzl)
                   ltac:(rewrite kadd_scaled_length; exact LKl) Hnz' E) as (Hkl & Eh & Ll & Lr & Efk & Efold).
      cbn [firstn skipn length]. split; [lia|]. split; [exact Eh|]. split; [lia|]. split; [lia|].
      rewrite compute_coeffs_cons.
      assert (Lcc : length (compute_coeffs (firstn k hchal')) = (2 ^ k)%nat).
      { rewrite compute_coeffs_length, firstn_length. f_equal. lia. }
      (* split everything into halves *)
      assert (EK : map (co i) K = map (co i) Kl ++ map (co i) Kr) by (rewrite <- map_app; unfold Kl, Kr; rewrite firstn_skipn; reflexivity).
      assert (Ea : a = al ++ ar) by (unfold al, ar; rewrite firstn_skipn; reflexivity).
      assert (Ez : z = zl ++ zr) by (unfold zl, zr; rewrite firstn_skipn; reflexivity).
      rewrite map_co_kadd_scaled in Efk, Efold by lia.
      split.
      + rewrite Efk, EK, dot_app by (rewrite map_length; lia).
        rewrite dot_vadd_scaled_r by (rewrite ?map_length; lia).
        assert (Es : forall (cc kk : list F), dot (map (fun x => x * rc) cc) kk = rc * dot cc kk).
        { induction cc as [|x cc IHc]; intros [|y kk]; cbn [map dot]; try ring. rewrite IHc. ring. }
        rewrite Es. ring.
      + cbn [fold_co].
        rewrite co_gvadd, !co_gvadd, !co_gvscale, !co_gmsm.
        fold Kl Kr al ar zl zr.
        (* the accumulator after one step is the invariant of the folded instance *)
        assert (Eacc : dot a (map (co i) K) + dot a z * co i hp
                       + ((dot ar (map (co i) Kl) + co i hp * dot ar zl) * finv rc + (dot al (map (co i) Kr) + co i hp * dot al zr) * rc)
                       = dot (vadd_scaled al (finv rc) ar) (vadd_scaled (map (co i) Kl) rc (map (co i) Kr))
                         + dot (vadd_scaled al (finv rc) ar) (vadd_scaled zl rc zr) * co i hp).
        { rewrite EK. rewrite Ea at 1 2. rewrite Ez at 1. rewrite !dot_app by (rewrite ?map_length; lia).
          rewrite !dot_vadd_scaled_l by (rewrite ?vadd_scaled_length, ?map_length; lia).
          rewrite !dot_vadd_scaled_r by (rewrite ?map_length; lia).
          field. exact Hrc. }
        replace (co i hp * dot ar zl) with (co i hp * dot ar zl) by reflexivity.
        transitivity (fold_co i ls' rs' (firstn k hchal')
                        (dot (vadd_scaled al (finv rc) ar) (vadd_scaled (map (co i) Kl) rc (map (co i) Kr))
                         + dot (vadd_scaled al (finv rc) ar) (vadd_scaled zl rc zr) * co i hp)).
        { f_equal. rewrite <- Eacc. ring. }
        rewrite Efold, Efk. rewrite Ez, !dot_app by (rewrite ?map_length; lia).
        rewrite !dot_vadd_scaled_r by (rewrite ?map_length; lia).
        assert (Es : forall (cc kk : list F), dot (map (fun x => x * rc) cc) kk = rc * dot cc kk).
        { induction cc as [|x cc IHc]; intros [|y kk]; cbn [map dot]; try ring. rewrite IHc. ring. }
        rewrite !Es. ring.
  Qed.
  (* the verifier's reconstruction from the proof elements, coordinate-wise *)
  Lemma fold_lr_co i : forall ls rs hchal acc chs0 rcomm chs hrest,
    length ls = length rs -> (length ls <= length hchal)%nat ->
    i_fold_lr ls rs hchal acc chs0 = Ok (rcomm, chs, hrest) ->
    chs = chs0 ++ firstn (length ls) hchal /\ hrest = skipn (length ls) hchal /\
    co i rcomm = fold_co i ls rs (firstn (length ls) hchal) (co i acc).
  Proof.
    induction ls as [|l ls IH]; intros [|r rs] hchal acc chs0 rcomm chs hrest Hl Hh H; cbn in Hl; try lia.
    - cbn [i_fold_lr] in H. injection H as <- <- <-. cbn. rewrite app_nil_r. repeat split; reflexivity.
    - destruct hchal as [|rc hchal']; [cbn in Hh; lia|]. cbn [i_fold_lr] in H.
      assert (Hl' : length ls = length rs) by lia. assert (Hh' : (length ls <= length hchal')%nat) by (cbn in Hh; lia).
      destruct (IH rs hchal' _ _ _ _ _ Hl' Hh' H) as (E1 & E2 & E3).
      cbn [length firstn skipn fold_co]. rewrite <- app_assoc in E1. cbn [app] in E1. split; [exact E1|]. split; [exact E2|].
      rewrite E3, !co_gvadd, !co_gvscale. reflexivity.
  Qed.

  Lemma fold_lr_ok : forall ls rs hchal acc chs0, length ls = length rs -> (length ls <= length hchal)%nat ->
    exists rcomm chs hrest, i_fold_lr ls rs hchal acc chs0 = Ok (rcomm, chs, hrest).
  Proof.
    induction ls as [|l ls IH]; intros [|r rs] hchal acc chs0 Hl Hh; cbn in Hl; try lia.
    - eexists; eexists; eexists; reflexivity.
    - destruct hchal as [|rc hchal']; [cbn in Hh; lia|]. cbn [i_fold_lr]. apply IH; [lia|cbn in Hh; lia].
  Qed.

  Lemma dot_powers_from : forall (p : list F) cur z n, length p = n -> dot p (powers_from cur z n) = cur * eval p z.
  Proof.
    induction p as [|c p IH]; intros cur z n H; subst n; cbn [length powers_from dot eval]; [ring|].
    rewrite IH by reflexivity. ring.
  Qed.
  Lemma dot_powers p z n : length p = n -> dot p (powers z n) = eval p z.
  Proof. intros H. unfold powers. rewrite dot_powers_from by exact H. ring. Qed.

  (* the core of completeness: whenever the verifier's combined commitment and value describe the prover's coefficient
     vector (<coeffs, K> and <coeffs, z-powers>), the proof produced by the halving rounds passes the succinct check's
     final comparison and the final key check *)
  Theorem ipa_core_complete k hp coeffs z (K : list gv) hchal ls rs fk c hrest rcomm0 :
    length coeffs = (2 ^ k)%nat -> length K = (2 ^ k)%nat ->
    Forall (fun rc => rc <> 0) (firstn k hchal) ->
    i_rounds k hp coeffs (powers z (2 ^ k)) K hchal = Ok (ls, rs, fk, c, hrest) ->
    (forall i, co i rcomm0 = dot coeffs (map (co i) K) + eval coeffs z * co i hp) ->
    exists rcomm chs, i_fold_lr ls rs hchal rcomm0 [] = Ok (rcomm, chs, hrest) /\ chs = firstn k hchal /\
      gvzero (gvsub rcomm (gvadd (gvscale c fk) (gvscale (sc_evaluate chs z * c) hp))) = true /\
      gvzero (gvsub (gmsm K (compute_coeffs chs)) fk) = true.
  Proof.
    intros Lc LK Hnz Hr H0.
    assert (Lz : length (powers z (2 ^ k)) = (2 ^ k)%nat) by (unfold powers; apply powers_from_length).
    pose proof (fun i => rounds_co i k hp coeffs (powers z (2 ^ k)) K hchal ls rs fk c hrest Lc Lz LK Hnz Hr) as R.
    destruct (R 0%nat) as (Hkl & Eh & Ll & Lr & _ & _).
    destruct (fold_lr_ok ls rs hchal rcomm0 [] ltac:(lia) ltac:(lia)) as (rcomm & chs & hrest' & Ef).
    pose proof (fun i => fold_lr_co i ls rs hchal rcomm0 [] rcomm chs hrest' ltac:(lia) ltac:(lia) Ef) as Fc.
    destruct (Fc 0%nat) as (Ec & Eh' & _). rewrite Ll in Ec, Eh'. cbn [app] in Ec.
    exists rcomm, chs. split; [rewrite Ef, Eh, Eh'; reflexivity|]. split; [exact Ec|].
    assert (Lcc : length (compute_coeffs chs) = (2 ^ k)%nat).
    { rewrite Ec, compute_coeffs_length, firstn_length. f_equal. lia. }
    split; apply gvzero_co; intros i.
    - destruct (R i) as (_ & _ & _ & _ & Efk & Efold). destruct (Fc i) as (_ & _ & Eco). rewrite Ll in Eco.
      rewrite co_gvsub, co_gvadd, !co_gvscale, Eco, H0.
      rewrite (dot_powers coeffs z (2 ^ k) Lc) in Efold. rewrite Efold.
      rewrite <- Ec. rewrite (dot_powers (compute_coeffs chs) z (2 ^ k) Lcc), succinct_check_poly. ring.
    - destruct (R i) as (_ & _ & _ & _ & Efk & _). rewrite co_gvsub, co_gmsm, Efk, <- Ec. ring.
  Qed.
End IPAFacts.
