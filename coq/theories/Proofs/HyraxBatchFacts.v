(* Hyrax batch_open / batch_check (the trait defaults): complete.  Instance of the generic completeness of the default batch
   functions with Hyrax's list-level open / check; the prover's state also carries its RNG tape. *)
From Coq Require Import List Arith NArith Bool Lia.
From PC Require Import Base.Field Base.Result Base.Poly Base.OrdMap Schemes.LC Schemes.MLPC Schemes.Hyrax Proofs.HyraxFacts
     Schemes.DefaultBatch Proofs.DefaultBatchComplete.
Import ListNotations.

Section HyraxBatchFacts.
  Context {FO : FieldOps} {FL : FieldLaws FO}.
  Variables (keylen nv : nat).

  Definition hb_open (sts : list HState) (pt : point) (st : list F * list F) : res (list HProof * (list F * list F)) :=
    match h_open_list keylen pt sts (fst st) (snd st) with
    | Ok (pfs, ot', ch') => Ok (pfs, (ot', ch'))
    | Err e => Err e
    | Panic => Panic
    end.
  Definition hb_check (cs : list (list gel)) (pt : point) (vals : list F) (pfs : list HProof) (ch : list F) : res (bool * list F) :=
    h_check_list keylen pt cs vals pfs ch.
  Definition hb_value (st : HState) (pt : point) : F :=
    vdot (Hyrax.row_mul (hs_mat st) keylen (fst (h_lr pt))) (snd (h_lr pt)).
  Definition hb_R (st : HState) (rows : list gel) : Prop := committed keylen nv (st, rows).
  Definition hb_okpt (pt : point) : Prop :=
    length pt = nv /\ length (fst (h_lr pt)) = keylen /\ length (snd (h_lr pt)) = keylen.

  Lemma forall2_srs : forall (sts : list HState) (cs : list (list gel)), Forall2 hb_R sts cs ->
    exists srs, map fst srs = sts /\ map snd srs = cs /\ Forall (committed keylen nv) srs.
  Proof.
    induction 1 as [|st rows sts cs H HF (srs & E1 & E2 & HC)].
    - exists []. repeat split; constructor.
    - exists ((st, rows) :: srs). cbn [map fst snd]. rewrite E1, E2. repeat split. constructor; assumption.
  Qed.

  Theorem hyrax_batch_complete items cs qs ev ot ch pfs ot' ch' :
    (1 <= keylen)%nat -> keylen = (2 ^ (nv / 2))%nat ->
    maps_agree (list gel) HState hb_R (label_map items) (label_map cs) ->
    (forall pl pt labels, In (pl, (pt, labels)) (groups qs) -> hb_okpt pt /\ evals_true HState hb_value (label_map items) ev pt labels) ->
    default_batch_open HState (list HProof) (list F * list F) hb_open items qs (ot, ch) = Ok (pfs, (ot', ch')) ->
    default_batch_check (list gel) (list HProof) (list F) hb_check cs qs ev pfs ch = Ok (true, ch').
  Proof.
    intros Hk Hkey Hm He H.
    destruct (default_batch_complete_sim (list gel) HState (list HProof) (list F * list F) (list F) hb_check hb_open hb_R hb_value
                (fun st vst => snd st = vst) hb_okpt) with (items := items) (cs := cs) (qs := qs) (ev := ev) (st := (ot, ch)) (vst := ch)
                (pfs := pfs) (st' := (ot', ch')) as (vst' & Hc & Hs); try assumption; try reflexivity.
    - intros its cs0 pt st vst pf st' (Hp & Ll & Lr) HF Hs Ho. cbn [snd] in Hs. subst vst.
      unfold hb_open in Ho.
      destruct (h_open_list keylen pt its (fst st) (snd st)) as [[[pfs0 o1] c1]| |] eqn:Eo; try discriminate.
      injection Ho as <- <-.
      destruct (forall2_srs its cs0 HF) as (srs & E1 & E2 & HC). subst its cs0.
      exists c1. split; [|reflexivity]. unfold hb_check.
      replace (map (fun it => hb_value it pt) (map fst srs))
        with (map (fun sr : HState * list gel => vdot (Hyrax.row_mul (hs_mat (fst sr)) keylen (fst (h_lr pt))) (snd (h_lr pt))) srs)
        by (rewrite map_map; reflexivity).
      exact (h_list_complete keylen nv pt srs (fst st) (snd st) pfs0 o1 c1 Hk Hp Hkey Ll Lr HC Eo).
    - cbn [snd] in Hs. subst vst'. exact Hc.
  Qed.
End HyraxBatchFacts.
