(* Hyrax batch_open / batch_check and open_combinations / check_combinations (the trait defaults): complete.  Instances of the
   generic completeness of the default functions with Hyrax's list-level open / check; the prover's state also carries its
   RNG tape. *)
From Coq Require Import List Arith NArith Bool Lia.
From PC Require Import Base.Field Base.Result Base.Poly Base.OrdMap Schemes.LC Schemes.MLPC Schemes.Hyrax Proofs.HyraxFacts
     Schemes.DefaultBatch Proofs.DefaultBatchComplete Proofs.DefaultLCComplete.
Import ListNotations.

Section HyraxBatchFacts.
  Context {FO : FieldOps} {FL : FieldLaws FO}.
  Variables (keylen nv : nat).

  Definition hb_open (sts : list HState) (pt : point) (st : list F * list F) : res (list HProof * (list F * list F)) :=
    match h_open_list keylen pt sts (fst st) (snd st) with
    | Ok (pfs, ot', ch') => Ok (pfs, (ot', ch'))
    | Err e => Err e
    | Panic => Panic
    end.
  Definition hb_check (cs : list (list gel)) (pt : point) (vals : list F) (pfs : list HProof) (ch : list F) : res (bool * list F) :=
    h_check_list keylen pt cs vals pfs ch.
  Definition hb_value (st : HState) (pt : point) : F :=
    vdot (Hyrax.row_mul (hs_mat st) keylen (fst (h_lr pt))) (snd (h_lr pt)).
  Definition hb_R (st : HState) (rows : list gel) : Prop := committed keylen nv (st, rows).
  Definition hb_okpt (pt : point) : Prop :=
    length pt = nv /\ length (fst (h_lr pt)) = keylen /\ length (snd (h_lr pt)) = keylen.
  Definition hb_sim (st : list F * list F) (vst : list F) : Prop := snd st = vst.

  Lemma forall2_srs : forall (sts : list HState) (cs : list (list gel)), Forall2 hb_R sts cs ->
    exists srs, map fst srs = sts /\ map snd srs = cs /\ Forall (committed keylen nv) srs.
  Proof.
    induction 1 as [|st rows sts cs H HF (srs & E1 & E2 & HC)].
    - exists []. repeat split; constructor.
    - exists ((st, rows) :: srs). cbn [map fst snd]. rewrite E1, E2. repeat split. constructor; assumption.
  Qed.

  Hypothesis Hk : (1 <= keylen)%nat.
  Hypothesis Hkey : keylen = (2 ^ (nv / 2))%nat.

  (* one point: Hyrax's list-level completeness in the shape the generic theorems ask for *)
  Lemma hb_group_complete : forall its cs0 pt st vst pf st',
    hb_okpt pt -> Forall2 hb_R its cs0 -> hb_sim st vst -> hb_open its pt st = Ok (pf, st') ->
    exists vst', hb_check cs0 pt (map (fun it => hb_value it pt) its) pf vst = Ok (true, vst') /\ hb_sim st' vst'.
  Proof.
    intros its cs0 pt st vst pf st' (Hp & Ll & Lr) HF Hs Ho. unfold hb_sim in Hs. subst vst.
    unfold hb_open in Ho.
    destruct (h_open_list keylen pt its (fst st) (snd st)) as [[[pfs0 o1] c1]| |] eqn:Eo; try discriminate.
    injection Ho as <- <-.
    destruct (forall2_srs its cs0 HF) as (srs & E1 & E2 & HC). subst its cs0.
    exists c1. split; [|reflexivity]. unfold hb_check.
    replace (map (fun it => hb_value it pt) (map fst srs))
      with (map (fun sr : HState * list gel => vdot (Hyrax.row_mul (hs_mat (fst sr)) keylen (fst (h_lr pt))) (snd (h_lr pt))) srs)
      by (rewrite map_map; reflexivity).
    exact (h_list_complete keylen nv pt srs (fst st) (snd st) pfs0 o1 c1 Hk Hp Hkey Ll Lr HC Eo).
  Qed.

  Theorem hyrax_batch_complete items cs qs ev ot ch pfs ot' ch' :
    maps_agree (list gel) HState hb_R (label_map items) (label_map cs) ->
    (forall pl pt labels, In (pl, (pt, labels)) (groups qs) -> hb_okpt pt /\ evals_true HState hb_value (label_map items) ev pt labels) ->
    default_batch_open HState (list HProof) (list F * list F) hb_open items qs (ot, ch) = Ok (pfs, (ot', ch')) ->
    default_batch_check (list gel) (list HProof) (list F) hb_check cs qs ev pfs ch = Ok (true, ch').
  Proof.
    intros Hm He H.
    destruct (default_batch_complete_sim (list gel) HState (list HProof) (list F * list F) (list F) hb_check hb_open hb_R hb_value
                hb_sim hb_okpt hb_group_complete items cs qs ev (ot, ch) ch pfs (ot', ch') Hm He eq_refl H) as (vst' & Hc & Hs).
    unfold hb_sim in Hs. cbn [snd] in Hs. subst vst'. exact Hc.
  Qed.

  Theorem hyrax_lc_complete lcs items cs eqn_qs eqn_ev ot ch pfs evs ot' ch' :
    maps_agree (list gel) HState hb_R (label_map items) (label_map cs) ->
    one_point_per_label eqn_qs ->
    (forall q, In q eqn_qs -> hb_okpt (snd (snd q))) ->
    (forall q terms, In q eqn_qs -> OrdMap.lookup N.compare (fst q) (lcs_map lcs) = Some terms ->
        lookup_pk (fst q, snd (snd q)) eqn_ev = Some (lc_value (item_value HState hb_value (label_map items) (snd (snd q))) terms)) ->
    default_open_combinations HState (list HProof) (list F * list F) hb_open hb_value lcs items eqn_qs (ot, ch) = Ok (pfs, evs, (ot', ch')) ->
    default_check_combinations (list gel) (list HProof) (list F) hb_check lcs cs eqn_qs eqn_ev pfs (Some evs) ch = Ok (true, ch').
  Proof.
    intros Hm Ho Hok Hc H.
    destruct (default_lc_complete_sim (list gel) HState (list HProof) (list F * list F) (list F) hb_check hb_open hb_R hb_value
                hb_sim hb_okpt hb_group_complete lcs items cs eqn_qs eqn_ev (ot, ch) ch pfs evs (ot', ch') Hm Ho Hok Hc eq_refl H) as (vst' & Hcc & Hs).
    unfold hb_sim in Hs. cbn [snd] in Hs. subst vst'. exact Hcc.
  Qed.
End HyraxBatchFacts.
