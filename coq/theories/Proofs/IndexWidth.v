(* C13: the width of the squeezed blocks from which column positions are derived.  get_num_bytes n bytes reach every position
   of a codeword of length n (256^(get_num_bytes n) >= n), while a block that is too narrow (256^k < n) only ever yields
   positions below 256^k - the columns from 256^k on would never be opened. *)
From Coq Require Import NArith List Bool Lia.
From PC Require Import Base.Field Base.Result Base.Poly Schemes.CalcT.
Import ListNotations.
Open Scope N_scope.

Lemma num_bits_size n : num_bits n = N.size n.
Proof. destruct n; reflexivity. Qed.

Theorem get_num_bytes_covers n : n <= 256 ^ get_num_bytes n.
Proof.
  unfold get_num_bytes. rewrite num_bits_size.
  destruct (N.eq_dec n 0) as [->|Hn]; [cbn; lia|].
  pose proof (N.size_gt n) as Hs.
  set (b := N.size n) in *.
  assert (E : 256 ^ ((b + 7) / 8) = 2 ^ (8 * ((b + 7) / 8))) by (rewrite N.pow_mul_r; reflexivity).
  rewrite E.
  assert (Hb : b <= 8 * ((b + 7) / 8)).
  { pose proof (N.div_mod (b + 7) 8 ltac:(lia)) as D. pose proof (N.mod_lt (b + 7) 8 ltac:(lia)) as M. lia. }
  assert (P : 2 ^ b <= 2 ^ (8 * ((b + 7) / 8))) by (apply N.pow_le_mono_r; lia).
  lia.
Qed.

Lemma bytes_to_int_acc : forall bytes acc, Forall (fun x => x < 256) bytes ->
  fold_left (fun a x => a * 256 + x) bytes acc < (acc + 1) * 256 ^ N.of_nat (length bytes).
Proof.
  induction bytes as [|x t IH]; intros acc H; cbn [fold_left length].
  - cbn. lia.
  - inversion H as [|? ? Hx Ht]; subst.
    specialize (IH (acc * 256 + x) Ht).
    rewrite Nat2N.inj_succ, N.pow_succ_r'.
    assert (B : (acc * 256 + x + 1) * 256 ^ N.of_nat (length t) <= (acc + 1) * (256 * 256 ^ N.of_nat (length t))) by nia.
    lia.
Qed.

Theorem bytes_to_int_bound bytes : Forall (fun x => x < 256) bytes -> bytes_to_int bytes < 256 ^ N.of_nat (length bytes).
Proof. intros H. pose proof (bytes_to_int_acc bytes 0 H) as B. unfold bytes_to_int. lia. Qed.

(* a block of k bytes with 256^k < n never yields a position from 256^k on *)
Theorem narrow_block_misses_positions n bytes i :
  Forall (fun x => x < 256) bytes -> 256 ^ N.of_nat (length bytes) < n ->
  index_of_bytes n bytes = Ok i -> i < 256 ^ N.of_nat (length bytes).
Proof.
  intros Hb Hn H. unfold index_of_bytes in H. destruct (N.eqb_spec n 0) as [->|Hn0]; [discriminate|].
  injection H as <-. pose proof (bytes_to_int_bound bytes Hb) as B.
  rewrite N.mod_small by lia. exact B.
Qed.

(* every derived position is inside the codeword *)
Theorem index_inside_codeword n bytes i : index_of_bytes n bytes = Ok i -> i < n.
Proof.
  unfold index_of_bytes. destruct (N.eqb_spec n 0) as [->|Hn0]; [discriminate|].
  intros H. injection H as <-. apply N.mod_lt. exact Hn0.
Qed.
