(* PST13 trait-level flow with hiding and several polynomials at one point (free module over (g, gamma_g, G)):
   the proof built by open from honest commitments is accepted by check for the true evaluations, for every list of
   polynomials with arbitrary mixed monomials, every blinding polynomial, every point and all challenges. *)
From Coq Require Import List Arith NArith Bool Lia Field Ring.
From PC Require Import Base.Field Base.Result Base.Poly Proofs.PolyFacts Schemes.PST13 Proofs.PST13Facts Schemes.LC Schemes.Marlin
     Schemes.IPA Proofs.LCFacts Proofs.IPAFacts Schemes.PST13H.
Import ListNotations.
Open Scope F_scope.

Section PST13HFacts.
  Context {FO : FieldOps} {FL : FieldLaws FO}.
  Add Field Ffield28 : FL_field.

  Lemma term_eqb_eq : forall a b : term, term_eqb a b = true -> a = b.
  Proof.
    induction a as [|[v e] a IH]; intros [|[w f] b] H; cbn [term_eqb] in H; try discriminate; [reflexivity|].
    apply andb_true_iff in H. destruct H as [H H3]. apply andb_true_iff in H. destruct H as [H1 H2].
    apply Nat.eqb_eq in H1. apply Nat.eqb_eq in H2. subst. f_equal. apply IH. exact H3.
  Qed.

  Lemma eval_add_term x c t : forall acc, eval_mpoly x (add_term acc c t) = eval_mpoly x acc + c * eval_term x t.
  Proof.
    induction acc as [|[c0 t0] r IH]; cbn [add_term].
    - rewrite eval_mpoly_cons. cbn [eval_mpoly fold_right]. ring.
    - destruct (term_eqb t0 t) eqn:E.
      + apply term_eqb_eq in E. subst t0. rewrite !eval_mpoly_cons. ring.
      + rewrite !eval_mpoly_cons, IH. ring.
  Qed.
  Lemma eval_madd_scaled x c : forall q acc, eval_mpoly x (madd_scaled acc c q) = eval_mpoly x acc + c * eval_mpoly x q.
  Proof.
    unfold madd_scaled. induction q as [|[c1 t1] q IH]; intros acc; cbn [fold_left fst snd].
    - cbn [eval_mpoly fold_right]. ring.
    - rewrite IH, eval_add_term, eval_mpoly_cons. ring.
  Qed.

  Lemma add_term_wf c t : forall acc, wf_poly acc -> wf_term t -> wf_poly (add_term acc c t).
  Proof.
    induction acc as [|[c0 t0] r IH]; intros Hw Ht; cbn [add_term].
    - constructor; [exact Ht|constructor].
    - inversion Hw as [|? ? H1 H2]; subst. cbn [snd] in H1. destruct (term_eqb t0 t).
      + constructor; [exact H1|exact H2].
      + constructor; [exact H1|]. apply IH; assumption.
  Qed.
  Lemma add_term_vars vs c t : forall acc, poly_vars_in vs acc -> term_vars_in vs t -> poly_vars_in vs (add_term acc c t).
  Proof.
    induction acc as [|[c0 t0] r IH]; intros Hw Ht; cbn [add_term].
    - constructor; [exact Ht|constructor].
    - inversion Hw as [|? ? H1 H2]; subst. cbn [snd] in H1. destruct (term_eqb t0 t).
      + constructor; [exact H1|exact H2].
      + constructor; [exact H1|]. apply IH; assumption.
  Qed.
  Lemma madd_scaled_wf c : forall q acc, wf_poly acc -> wf_poly q -> wf_poly (madd_scaled acc c q).
  Proof.
    unfold madd_scaled. induction q as [|[c1 t1] q IH]; intros acc Ha Hq; cbn [fold_left]; [exact Ha|].
    inversion Hq as [|? ? H1 H2]; subst. apply IH; [apply add_term_wf; assumption|exact H2].
  Qed.
  Lemma madd_scaled_vars vs c : forall q acc, poly_vars_in vs acc -> poly_vars_in vs q -> poly_vars_in vs (madd_scaled acc c q).
  Proof.
    unfold madd_scaled. induction q as [|[c1 t1] q IH]; intros acc Ha Hq; cbn [fold_left]; [exact Ha|].
    inversion Hq as [|? ? H1 H2]; subst. apply IH; [apply add_term_vars; assumption|exact H2].
  Qed.
  Lemma mzero_eval x : forall p, mzero p = true -> eval_mpoly x p = 0.
  Proof.
    induction p as [|[c t] p IH]; intros H; [reflexivity|]. cbn [mzero forallb fst] in H.
    apply andb_true_iff in H. destruct H as [H1 H2]. apply FL_eqb in H1. subst c.
    rewrite eval_mpoly_cons, (IH H2). ring.
  Qed.
  (* ---------------- coordinates ---------------- *)
  Lemma co_el0 a b : co 0 (el a b) = a. Proof. reflexivity. Qed.
  Lemma co_el1 a b : co 1 (el a b) = b. Proof. reflexivity. Qed.
  Lemma co_el2 a b i : co (S (S i)) (el a b) = 0. Proof. unfold co, el. destruct i; reflexivity. Qed.

  Definition good (nv : nat) (it : mpoly * option mpoly) : Prop :=
    wf_poly (fst it) /\ poly_vars_in (seq 0 nv) (fst it) /\
    match snd it with Some b => wf_poly b /\ poly_vars_in (seq 0 nv) b | None => True end.
  Definition comm_of (betas : list F) (it : mpoly * option mpoly) : gv :=
    el (eval_mpoly betas (fst it)) (match snd it with Some b => eval_mpoly betas b | None => 0 end).

  Lemma ok3p {A B C} (x : A) (y y' : B) (c : C) : y = y' -> @Ok (A * B * C) (x, y, c) = Ok (x, y', c).
  Proof. intros ->. reflexivity. Qed.

  (* the prover's accumulation of polynomials and the verifier's accumulation of commitments and values *)
  Lemma ph_loop_sim s betas z nv : forall items chal pacc racc p r rest cc cv,
    Forall (good nv) items ->
    wf_poly pacc -> poly_vars_in (seq 0 nv) pacc -> wf_poly racc -> poly_vars_in (seq 0 nv) racc ->
    ph_open_loop s items chal pacc racc = Ok (p, r, rest) ->
    wf_poly p /\ poly_vars_in (seq 0 nv) p /\ wf_poly r /\ poly_vars_in (seq 0 nv) r /\
    exists cc', ph_acc (map (comm_of betas) items) (map (fun it => eval_mpoly z (fst it)) items) chal cc cv
                = Ok (cc', cv + (eval_mpoly z p - eval_mpoly z pacc), rest) /\
      co 0 cc' = co 0 cc + (eval_mpoly betas p - eval_mpoly betas pacc) /\
      co 1 cc' = co 1 cc + (eval_mpoly betas r - eval_mpoly betas racc) /\
      forall i, co (S (S i)) cc' = co (S (S i)) cc.
  Proof.
    induction items as [|[q blind] items IH]; intros chal pacc racc p r rest cc cv Hg Wp Vp Wr Vr H.
    - cbn [ph_open_loop] in H. injection H as <- <- <-. repeat split; try assumption.
      exists cc. cbn [map ph_acc]. split; [apply ok3p; ring|]. repeat split; try ring. 
    - inversion Hg as [|? ? (G1 & G2 & G3) Hg']; subst. cbn [fst snd] in G1, G2, G3.
      cbn [ph_open_loop] in H. destruct (s <? mdeg q)%nat; [discriminate|].
      destruct chal as [|ch chal']; [discriminate|].
      assert (Wr' : wf_poly (match blind with Some r0 => madd_scaled racc ch r0 | None => racc end)).
      { destruct blind as [b|]; [apply madd_scaled_wf; [exact Wr|exact (proj1 G3)]|exact Wr]. }
      assert (Vr' : poly_vars_in (seq 0 nv) (match blind with Some r0 => madd_scaled racc ch r0 | None => racc end)).
      { destruct blind as [b|]; [apply madd_scaled_vars; [exact Vr|exact (proj2 G3)]|exact Vr]. }
      destruct (IH chal' _ _ p r rest (gvadd cc (gvscale ch (comm_of betas (q, blind)))) (cv + ch * eval_mpoly z q) Hg'
                   (madd_scaled_wf ch q pacc Wp G1) (madd_scaled_vars _ ch q pacc Vp G2) Wr' Vr' H)
        as (W1 & V1 & W2 & V2 & cc' & E & C0 & C1 & C2).
      repeat split; try assumption. exists cc'. cbn [map ph_acc fst]. split.
      + rewrite E. apply ok3p. rewrite eval_madd_scaled. ring.
      + split; [|split].
        * rewrite C0, co_gvadd, co_gvscale. unfold comm_of. rewrite co_el0. cbn [fst]. rewrite eval_madd_scaled. ring.
        * rewrite C1, co_gvadd, co_gvscale. unfold comm_of. rewrite co_el1. cbn [snd].
          destruct blind as [b|]; [rewrite eval_madd_scaled; ring|ring].
        * intros i. rewrite C2, co_gvadd, co_gvscale. unfold comm_of. rewrite co_el2. ring.
  Qed.
  (* ---------------- the right-hand side of the pairing equation, coordinate-wise ---------------- *)
  Fixpoint rsum (betas z : list F) (i k : nat) (ws : list gv) : F :=
    match ws with
    | [] => 0
    | w :: t => (nth k betas 0 - nth k z 0) * co i w + rsum betas z i (S k) t
    end.
  Lemma co_ph_rhs betas z i : forall ws k, co i (ph_rhs betas z k ws) = rsum betas z i k ws.
  Proof.
    induction ws as [|w t IH]; intros k; cbn [ph_rhs rsum]; [apply co_nil|].
    rewrite co_gvadd, co_gvscale, IH. ring.
  Qed.

  Lemma skipn_nth_cons {A} (d : A) : forall (l : list A) s, (s < length l)%nat -> skipn s l = nth s l d :: skipn (S s) l.
  Proof.
    induction l as [|a l IH]; intros s H; [cbn in H; lia|]. destruct s as [|s]; [reflexivity|].
    cbn [skipn nth]. apply IH. cbn in H. lia.
  Qed.

  (* the witnesses' coordinates sum to the weighted sums of the quotient polynomials *)
  Lemma rsum_witnesses betas z (qs hqs : list mpoly) : forall n s, (s + n = length qs)%nat ->
    rsum betas z 0 s (map (fun j => el (eval_mpoly betas (nth j qs [])) (eval_mpoly betas (nth j hqs []))) (seq s n))
      = wsum_q betas z (seq s n) (skipn s qs) /\
    rsum betas z 1 s (map (fun j => el (eval_mpoly betas (nth j qs [])) (eval_mpoly betas (nth j hqs []))) (seq s n))
      = wsum_q betas z (seq s n) (map (fun j => nth j hqs []) (seq s n)) /\
    forall i, rsum betas z (S (S i)) s (map (fun j => el (eval_mpoly betas (nth j qs [])) (eval_mpoly betas (nth j hqs []))) (seq s n)) = 0.
  Proof.
    induction n as [|n IH]; intros s H; cbn [seq map rsum wsum_q].
    - repeat split.
    - destruct (IH (S s) ltac:(lia)) as (E0 & E1 & E2).
      assert (Es : skipn s qs = nth s qs [] :: skipn (S s) qs) by (apply skipn_nth_cons; lia).
      rewrite Es. rewrite E0, E1. rewrite co_el0, co_el1. unfold xi.
      repeat split; try ring. intros i. rewrite E2, co_el2. ring.
  Qed.

  Lemma wsum_q_map_nth betas z (hqs : list mpoly) : forall n s, (s + n = length hqs)%nat ->
    wsum_q betas z (seq s n) (map (fun j => nth j hqs []) (seq s n)) = wsum_q betas z (seq s n) (skipn s hqs).
  Proof.
    induction n as [|n IH]; intros s H; cbn [seq map wsum_q]; [destruct (skipn s hqs); reflexivity|].
    assert (Es : skipn s hqs = nth s hqs [] :: skipn (S s) hqs) by (apply skipn_nth_cons; lia).
    rewrite Es. rewrite IH by lia. reflexivity.
  Qed.
  Lemma wsum_q_map_nil betas z : forall n s,
    wsum_q betas z (seq s n) (map (fun j => nth j (@nil mpoly) []) (seq s n)) = 0.
  Proof.
    induction n as [|n IH]; intros s; cbn [seq map wsum_q]; [reflexivity|]. rewrite IH.
    destruct s; cbn [nth eval_mpoly fold_right]; ring.
  Qed.

  (* ---------------- completeness ---------------- *)
  Theorem ph_complete nv s betas items z chal pf rest :
    Forall (good nv) items -> (nv <= length z)%nat ->
    ph_open nv s betas items z chal = Ok (pf, rest) ->
    ph_check nv betas (map (comm_of betas) items) z (map (fun it => eval_mpoly z (fst it)) items) pf chal = Ok (true, rest).
  Proof.
    intros Hg Hz H. unfold ph_open in H.
    destruct (ph_open_loop s items chal [] []) as [[[p r] rest']| |] eqn:El; cbn [bind] in H; try discriminate.
    injection H as <- <-.
    assert (W0 : wf_poly (@nil (F * term))) by constructor.
    assert (V0 : poly_vars_in (seq 0 nv) (@nil (F * term))) by constructor.
    destruct (ph_loop_sim s betas z nv items chal [] [] p r rest' [] 0 Hg W0 V0 W0 V0 El)
      as (Wp & Vp & Wr & Vr & cc' & E & C0 & C1 & C2).
    unfold ph_check. rewrite E. cbn [bind pp_w pp_rv].
    set (nvp := match items with [] => O | _ => nv end) in *.
    assert (Lnvp : (nvp <= nv)%nat) by (unfold nvp; destruct items; lia).
    assert (Lws : length (divide_at_point nvp p z) = nvp) by (unfold divide_at_point; rewrite divide_loop_length, seq_length; reflexivity).
    rewrite map_length, seq_length, Lws.
    destruct (Nat.ltb_spec nv nvp) as [|_]; [lia|]. destruct (Nat.ltb_spec (length z) nvp) as [|_]; [lia|]. cbn [orb].
    f_equal. f_equal. apply gvzero_co. intros i.
    rewrite co_gvsub, co_ph_rhs, !co_gvsub.
    destruct (rsum_witnesses betas z (divide_at_point nvp p z) (if negb (mzero r) then divide_at_point nv r z else []) nvp 0
                ltac:(rewrite Lws; lia)) as (R0 & R1 & R2).
    cbn [skipn] in R0.
    (* p's variables are below nvp as well: for an empty selection p is empty *)
    assert (Vp' : poly_vars_in (seq 0 nvp) p).
    { unfold nvp. destruct items; [|exact Vp]. cbn [ph_open_loop] in El. injection El as <- _ _. constructor. }
    pose proof (divide_at_point_exact nvp p z betas Wp Vp') as Ex.
    destruct i as [|[|i]].
    - rewrite R0, <- Ex, C0, !co_el0. rewrite co_nil. cbn [eval_mpoly fold_right].
      replace (co 0 (el 0 (match (if negb (mzero r) then Some (eval_mpoly z r) else None) with Some rv => rv | None => 0 end))) with 0 by reflexivity.
      ring.
    - rewrite R1, C1, !co_el1. rewrite co_nil. cbn [eval_mpoly fold_right].
      destruct (mzero r) eqn:Ez; cbn [negb].
      + rewrite wsum_q_map_nil, (mzero_eval betas r Ez). ring.
      + assert (Enz : items <> []) by (intros ->; cbn [ph_open_loop] in El; injection El as _ <- _; discriminate).
        assert (Envp : nvp = nv) by (unfold nvp; destruct items; [contradiction|reflexivity]).
        rewrite Envp. rewrite wsum_q_map_nth by (unfold divide_at_point; rewrite divide_loop_length, seq_length; lia).
        cbn [skipn]. rewrite <- (divide_at_point_exact nv r z betas Wr Vr). ring.
    - rewrite R2, C2, !co_el2, co_nil. ring.
  Qed.
  Lemma ph_commit1_comm nv s betas p hiding rng cm st n :
    ph_commit1 nv s betas p hiding rng = Ok (cm, st, n) -> cm = comm_of betas (p, st).
  Proof.
    unfold ph_commit1, comm_of. destruct (s <? mdeg p)%nat; [discriminate|]. destruct (negb (vars_ok nv p)); [discriminate|].
    destruct hiding as [hb|].
    - destruct rng as [tape|]; [|discriminate]. destruct (length tape <? _)%nat; [discriminate|].
      destruct (hb =? 0)%nat; [discriminate|]. destruct (s + 1 <=? hb)%nat; [discriminate|].
      intros H. injection H as <- <- <-. reflexivity.
    - intros H. injection H as <- <- <-. reflexivity.
  Qed.

  (* the blinding polynomial of a hiding commitment: well formed, in the key's variables, with at least
     hiding bound + 2 coefficients, each a separate draw of the caller's RNG; no draw without a hiding bound *)
  Lemma flat_map_const_length {A B} (f : A -> list B) d : (forall a, length (f a) = d) ->
    forall l, length (flat_map f l) = (length l * d)%nat.
  Proof.
    intros Hf. induction l as [|a l IH]; [reflexivity|]. cbn [flat_map length]. rewrite app_length, Hf, IH. lia.
  Qed.
  Lemma rand_poly_length nv d tape : length (rand_poly nv d tape) = rand_draws nv d.
  Proof.
    unfold rand_poly, rand_draws. cbn [length]. f_equal.
    rewrite (flat_map_const_length _ d); [rewrite seq_length; reflexivity|].
    intros a. rewrite map_length, seq_length. reflexivity.
  Qed.
  Lemma ph_commit1_draws nv s betas p hiding rng cm st n :
    ph_commit1 nv s betas p hiding rng = Ok (cm, st, n) ->
    match hiding, st with
    | Some hb, Some blind => n = length blind /\ (1 <= nv -> hb + 2 <= n)%nat
    | None, None => n = O
    | _, _ => False
    end.
  Proof.
    unfold ph_commit1. destruct (s <? mdeg p)%nat; [discriminate|]. destruct (negb (vars_ok nv p)); [discriminate|].
    destruct hiding as [hb|].
    - destruct rng as [tape|]; [|discriminate]. destruct (length tape <? _)%nat; [discriminate|].
      destruct (hb =? 0)%nat; [discriminate|]. destruct (s + 1 <=? hb)%nat; [discriminate|].
      intros H. injection H as _ <- <-. rewrite rand_poly_length. split; [reflexivity|]. unfold rand_draws. nia.
    - intros H. injection H as _ <- <-. reflexivity.
  Qed.

  Lemma rand_poly_good nv d tape : wf_poly (rand_poly nv d tape) /\ poly_vars_in (seq 0 nv) (rand_poly nv d tape).
  Proof.
    unfold rand_poly. split.
    - constructor; [cbn [snd]; split; constructor|].
      apply Forall_forall. intros ct Hin. apply in_flat_map in Hin. destruct Hin as (var & _ & Hin).
      apply in_map_iff in Hin. destruct Hin as (deg & <- & Hd). apply in_seq in Hd. cbn [snd]. split.
      + cbn [map fst]. constructor; [intros []|constructor].
      + constructor; [cbn [snd]; lia|constructor].
    - constructor; [cbn [snd]; intros v []|].
      apply Forall_forall. intros ct Hin. apply in_flat_map in Hin. destruct Hin as (var & Hv & Hin).
      apply in_map_iff in Hin. destruct Hin as (deg & <- & Hd). cbn [snd]. intros v [<-|[]]. exact Hv.
  Qed.
  Lemma ph_commit1_good nv s betas p hiding rng cm st n :
    wf_poly p -> poly_vars_in (seq 0 nv) p ->
    ph_commit1 nv s betas p hiding rng = Ok (cm, st, n) -> good nv (p, st).
  Proof.
    intros Wp Vp. unfold ph_commit1, good. cbn [fst snd].
    destruct (s <? mdeg p)%nat; [discriminate|]. destruct (negb (vars_ok nv p)); [discriminate|].
    destruct hiding as [hb|].
    - destruct rng as [tape|]; [|discriminate]. destruct (length tape <? _)%nat; [discriminate|].
      destruct (hb =? 0)%nat; [discriminate|]. destruct (s + 1 <=? hb)%nat; [discriminate|].
      intros H. injection H as _ <- _. repeat split; try assumption; apply rand_poly_good.
    - intros H. injection H as _ <- _. repeat split; assumption.
  Qed.

  Lemma ph_commit1_no_rng nv s betas p hb :
    (mdeg p <= s)%nat -> vars_ok nv p = true -> ph_commit1 nv s betas p (Some hb) None = Panic.
  Proof.
    intros Hd Hv. unfold ph_commit1.
    destruct (Nat.ltb_spec s (mdeg p)) as [|_]; [exfalso; apply (Nat.lt_irrefl s); eapply Nat.lt_le_trans; eassumption|].
    rewrite Hv. reflexivity.
  Qed.

  (* ---------------- one combined value per proof ---------------- *)
  Lemma ph_acc_value : forall cs vs chal cc cv cc' cv' rest, length vs = length cs ->
    ph_acc cs vs chal cc cv = Ok (cc', cv', rest) ->
    cv' = cv + dot chal vs /\
    forall vs2 cv2, length vs2 = length cs -> ph_acc cs vs2 chal cc cv2 = Ok (cc', cv2 + dot chal vs2, rest).
  Proof.
    induction cs as [|c cs IH]; intros vs chal cc cv cc' cv' rest L H.
    - destruct vs; [|cbn in L; lia]. cbn in H. injection H as <- <- <-. split; [destruct chal; cbn [dot]; ring|].
      intros [|? ?] cv2 L2; [|cbn in L2; lia]. cbn [ph_acc]. apply ok3p. destruct chal; cbn [dot]; ring.
    - destruct vs as [|v vs]; [cbn in L; lia|]. cbn [ph_acc] in H. destruct chal as [|ch chal']; [discriminate|].
      destruct (IH vs chal' _ _ _ _ _ ltac:(cbn in L; lia) H) as [E1 E2]. split; [rewrite E1; cbn [dot]; ring|].
      intros [|v2 vs2] cv2 L2; [cbn in L2; lia|]. cbn [ph_acc]. rewrite (E2 vs2 _ ltac:(cbn in L2; lia)). apply ok3p. cbn [dot]. ring.
  Qed.

  Theorem ph_one_combined_value nv betas cs z vs1 vs2 pf chal r1 r2 :
    length vs1 = length cs -> length vs2 = length cs ->
    ph_check nv betas cs z vs1 pf chal = Ok (true, r1) ->
    ph_check nv betas cs z vs2 pf chal = Ok (true, r2) ->
    dot chal vs1 = dot chal vs2.
  Proof.
    intros L1 L2 H1 H2. unfold ph_check in H1, H2.
    destruct (ph_acc cs vs1 chal [] 0) as [[[cc cv1] rest]| |] eqn:E1; cbn [bind] in H1; try discriminate.
    destruct (ph_acc_value cs vs1 chal [] 0 cc cv1 rest L1 E1) as [Ev Eo].
    rewrite (Eo vs2 0 L2) in H2. cbn [bind] in H2.
    destruct ((nv <? length (pp_w pf))%nat || (length z <? length (pp_w pf))%nat); [discriminate|].
    injection H1 as Z1 _. injection H2 as Z2 _.
    pose proof (proj1 (gvzero_co _) Z1 0%nat) as C1. pose proof (proj1 (gvzero_co _) Z2 0%nat) as C2.
    rewrite !co_gvsub, !co_el0 in C1, C2.
    assert (E : cv1 = 0 + dot chal vs2).
    { transitivity (cv1 + ((co 0 cc - cv1 - 0 - co 0 (ph_rhs betas z 0 (pp_w pf))) - (co 0 cc - (0 + dot chal vs2) - 0 - co 0 (ph_rhs betas z 0 (pp_w pf))))).
      - rewrite C1, C2. ring.
      - ring. }
    rewrite Ev in E. transitivity (0 + dot chal vs1); [ring|]. rewrite E. ring.
  Qed.
End PST13HFacts.
