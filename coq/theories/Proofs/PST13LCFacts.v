(* PST13 linear-combination openings (C06), free-module view over (g, gamma_g): the prover's combination of commitments that
   are the evaluations of (polynomial, blinding polynomial) at the trapdoor is the commitment of the combined polynomial with the
   combined blinding polynomial, and its value is the stated combination; the verifier forms the same weighted sum; constants
   move into the claims of their own combination. *)
From Coq Require Import List Arith NArith Bool Lia Field Ring.
From PC Require Import Base.Field Base.Result Base.Poly Base.OrdMap Proofs.PolyFacts Schemes.PST13 Proofs.PST13Facts Schemes.LC Schemes.Marlin
     Schemes.IPA Proofs.LCFacts Proofs.IPAFacts Schemes.PST13H Proofs.PST13HFacts Schemes.DefaultBatch Schemes.PST13Batch
     Proofs.PST13BatchFacts Proofs.MarlinLCFacts.
Import ListNotations.
Open Scope F_scope.

Section PST13LCFacts.
  Context {FO : FieldOps} {FL : FieldLaws FO}.
  Add Field Ffield46 : FL_field.
  Variable betas : list F.

  Definition p_lm_honest (lm : list (N * (mpoly * option mpoly * gv))) : Prop :=
    forall l q blind cm, lookup N.compare l lm = Some (q, blind, cm) -> forall i, co i cm = co i (comm_of betas (q, blind)).
  Definition p_poly_of (lm : list (N * (mpoly * option mpoly * gv))) (x : list F) (l : N) : F :=
    match lookup N.compare l lm with Some (q, _, _) => eval_mpoly x q | None => 0 end.

  Lemma co_comm_of_step i p r coeff q blind :
    co i (comm_of betas (madd_scaled p coeff q, Some (match blind with Some b => madd_scaled r coeff b | None => r end)))
    = co i (comm_of betas (p, Some r)) + co i (comm_of betas (q, blind)) * coeff.
  Proof.
    unfold comm_of. cbn [fst snd].
    destruct blind as [b|]; destruct i as [|[|i]]; rewrite ?co_el0, ?co_el1, ?co_el2, ?eval_madd_scaled; ring.
  Qed.

  Lemma plc_prover_loop_honest lm : p_lm_honest lm -> forall terms p r c p' r' c',
    (forall i, co i c = co i (comm_of betas (p, Some r))) ->
    plc_prover_loop lm terms p r c = Ok (p', r', c') ->
    (forall i, co i c' = co i (comm_of betas (p', Some r'))) /\
    forall x, eval_mpoly x p' = eval_mpoly x p + lc_poly_value (p_poly_of lm x) terms.
  Proof.
    intros Hlm. induction terms as [|[c0 [|l]] t IH]; intros p r c p' r' c' Hc H; cbn [plc_prover_loop] in H.
    - injection H as <- <- <-. split; [exact Hc|]. intros x. cbn [lc_poly_value]. ring.
    - destruct (IH _ _ _ _ _ _ Hc H) as [A B]. split; [exact A|]. intros x. rewrite B. cbn [lc_poly_value]. reflexivity.
    - destruct (lookup N.compare l lm) as [[[q blind] cm]|] eqn:El; [|discriminate].
      assert (Hc1 : forall i, co i (gvadd c (gvscale c0 cm))
                              = co i (comm_of betas (madd_scaled p c0 q, Some (match blind with Some b => madd_scaled r c0 b | None => r end)))).
      { intros i. rewrite co_gvadd, co_gvscale, co_comm_of_step, Hc, (Hlm _ _ _ _ El i). reflexivity. }
      destruct (IH _ _ _ _ _ _ Hc1 H) as [A B]. split; [exact A|].
      intros x. rewrite B, eval_madd_scaled. cbn [lc_poly_value]. unfold p_poly_of at 2. rewrite El. ring.
  Qed.

  (* one combination, from the empty accumulators *)
  Theorem plc_combination_is_honest_commitment lm terms p r c :
    p_lm_honest lm ->
    plc_prover_loop lm terms [] [] [] = Ok (p, r, c) ->
    (forall i, co i c = co i (comm_of betas (p, Some r))) /\
    forall x, eval_mpoly x p + lc_const terms = lc_value (p_poly_of lm x) terms.
  Proof.
    intros Hlm H.
    assert (H0 : forall i, co i [] = co i (comm_of betas ([], Some []))).
    { intros i. unfold comm_of. cbn [fst snd]. rewrite co_nil.
      destruct i as [|[|i]]; rewrite ?co_el0, ?co_el1, ?co_el2; reflexivity. }
    destruct (plc_prover_loop_honest lm Hlm terms [] [] [] p r c H0 H) as [A B]. split; [exact A|].
    intros x. rewrite lc_value_split, B. cbn [eval_mpoly fold_right]. ring.
  Qed.

  (* the verifier's combined commitment is the coefficient-weighted sum of the commitments it looked up *)
  Fixpoint p_comm_value (i : nat) (cm : list (N * gv)) (terms : lc) : F :=
    match terms with
    | [] => 0
    | (_, TOne) :: t => p_comm_value i cm t
    | (c, TPoly l) :: t => (match lookup N.compare l cm with Some x => co i x * c | None => 0 end) + p_comm_value i cm t
    end.
  Lemma plc_verifier_loop_comm cm lab : forall terms ev c ev' c',
    plc_verifier_loop cm lab terms ev c = Ok (ev', c') -> forall i, co i c' = co i c + p_comm_value i cm terms.
  Proof.
    induction terms as [|[c0 [|l]] t IH]; intros ev c ev' c' H i; cbn [plc_verifier_loop] in H.
    - injection H as _ <-. cbn [p_comm_value]. ring.
    - rewrite (IH _ _ _ _ H i). cbn [p_comm_value]. ring.
    - destruct (lookup N.compare l cm) as [x|] eqn:El; [|discriminate].
      rewrite (IH _ _ _ _ H i), co_gvadd, co_gvscale. cbn [p_comm_value]. rewrite El. ring.
  Qed.

  Theorem plc_constant_term_moves_to_claim cm lab coeff t ev c :
    plc_verifier_loop cm lab ((coeff, TOne) :: t) ev c =
    plc_verifier_loop cm lab t (map (fun kv => if N.eqb (fst (fst kv)) lab then (fst kv, snd kv - coeff) else kv) ev) c.
  Proof. reflexivity. Qed.
End PST13LCFacts.
