(* Sonic and degree bounds (C04): a claimed bound selects the G2 shift element the commitment is paired with.  The same
   commitment, value and proof accepted under two bounds force c * c0 * (sp - sp') = 0: a non-trivial commitment passes
   under another bound only if the two shift elements coincide. *)
From Coq Require Import List Arith NArith Bool Lia Field Ring.
From PC Require Import Base.Field Base.Result Base.Poly Proofs.PolyFacts Schemes.KZG10 Schemes.Marlin Schemes.Sonic
     Proofs.KZG10Facts Proofs.SonicFacts.
Import ListNotations.
Open Scope F_scope.

Section SonicBounds.
  Context {FO : FieldOps} {FL : FieldLaws FO}.
  Add Field Ffield43 : FL_field.

  Theorem sonic_relabelled_bound vk c b b' sp sp' z v pf c0 chal0 r1 r2 :
    shift_power vk b = Ok sp -> shift_power vk b' = Ok sp' ->
    s_check vk [(c, b)] z [v] pf (c0 :: chal0) = Ok (true, r1) ->
    s_check vk [(c, b')] z [v] pf (c0 :: chal0) = Ok (true, r2) ->
    c * c0 * (sp - sp') = 0.
  Proof.
    intros Hs Hs' H1 H2. unfold s_check in H1, H2.
    destruct chal0 as [|nxt chal1]; [cbn in H1; discriminate|].
    cbn [s_acc bind] in H1, H2. rewrite Hs in H1. rewrite Hs' in H2. cbn [bind] in H1, H2.
    injection H1 as H1 _. injection H2 as H2 _. apply FL_eqb in H1. apply FL_eqb in H2.
    destruct (pf_random_v pf);
      (match type of H1 with ?a = 0 => match type of H2 with ?b = 0 => transitivity (a - b); [ring|rewrite H1, H2; ring] end end).
  Qed.

  (* several commitments: the two accepted presentations have the same weighted sum of commitment * shift element *)
  Theorem sonic_relabelled_bounds vk cs1 cs2 sps1 sps2 z vs pf chal r1 r2 :
    map fst cs1 = map fst cs2 ->
    length vs = length cs1 -> (length cs1 < length chal)%nat ->
    Forall2 (fun cb sp => shift_power vk (snd cb) = Ok sp) cs1 sps1 ->
    Forall2 (fun cb sp => shift_power vk (snd cb) = Ok sp) cs2 sps2 ->
    s_check vk cs1 z vs pf chal = Ok (true, r1) -> s_check vk cs2 z vs pf chal = Ok (true, r2) ->
    wval (map (fun csp => fst (fst csp) * snd csp) (combine cs1 sps1)) (hd 0 chal) (tl chal) 0
    = wval (map (fun csp => fst (fst csp) * snd csp) (combine cs2 sps2)) (hd 0 chal) (tl chal) 0.
  Proof.
    intros Em L Lc F1 F2 H1 H2. unfold s_check in *. destruct chal as [|c0 chal0]; [discriminate|]. cbn [length] in Lc.
    assert (L2 : length cs2 = length cs1) by (rewrite <- (map_length fst cs2), <- Em, map_length; reflexivity).
    rewrite (s_acc_spec vk cs1 vs c0 chal0 0 0 L ltac:(lia) sps1 F1) in H1.
    rewrite (s_acc_spec vk cs2 vs c0 chal0 0 0 ltac:(lia) ltac:(lia) sps2 F2) in H2. cbn [bind hd tl] in *.
    injection H1 as H1 _. injection H2 as H2 _. apply FL_eqb in H1. apply FL_eqb in H2.
    set (A := wval (map (fun csp => fst (fst csp) * snd csp) (combine cs1 sps1)) c0 chal0 0) in *.
    set (B := wval (map (fun csp => fst (fst csp) * snd csp) (combine cs2 sps2)) c0 chal0 0) in *.
    set (V := wval vs c0 chal0 0) in *.
    assert (E : A - B = 0).
    { destruct (pf_random_v pf);
        (match type of H1 with ?a = 0 => match type of H2 with ?b = 0 => transitivity (a - b); [ring|rewrite H1, H2; ring] end end). }
    transitivity (A - B + B); [ring|rewrite E; ring].
  Qed.
End SonicBounds.
